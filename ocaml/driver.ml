(* Line-protocol driver around the extracted model (Model = coq extraction). *)
open Model

let rec pos_of_int (n:int) : positive =
  if n = 1 then XH else if n land 1 = 0 then XO (pos_of_int (n lsr 1)) else XI (pos_of_int (n lsr 1))
let n_of_int (n:int) : n = if n = 0 then N0 else Npos (pos_of_int n)
let rec int_of_pos (p:positive) : int = match p with XH -> 1 | XO q -> 2 * int_of_pos q | XI q -> 2 * int_of_pos q + 1
let int_of_n (x:n) : int = match x with N0 -> 0 | Npos p -> int_of_pos p
let rec nat_of_int (n:int) : nat = if n = 0 then O else S (nat_of_int (n-1))

let bytes_of_hex (s:string) : n list =
  let l = String.length s / 2 in
  List.init l (fun i -> n_of_int (int_of_string ("0x" ^ String.sub s (2*i) 2)))
let hex_of_bytes (l:n list) : string =
  let b = Buffer.create 1024 in
  List.iter (fun x -> Buffer.add_string b (Printf.sprintf "%02x" (int_of_n x))) l; Buffer.contents b
let hexarg s = if s = "-" then [] else bytes_of_hex s

let show_outcome (o: n list outcome) : string = match o with
  | ROk l -> "ok:" ^ hex_of_bytes l
  | RErr c -> "err:" ^ string_of_int (int_of_n c)
  | RPanic c -> "panic:" ^ string_of_int (int_of_n c)
  | RFuel -> "fuel"

let handle (toks: string list) : string =
  match toks with
  | "enc62" :: id :: seed :: hex :: [] ->
      let nibs = encode62 (n_of_int (int_of_string seed)) (hexarg hex) in
      id ^ " " ^ hex_of_bytes nibs
  | "dec62" :: id :: seed :: verify :: hex :: [] ->
      id ^ " " ^ show_outcome (decode62 (n_of_int (int_of_string seed)) (n_of_int (int_of_string verify)) (hexarg hex))
  | "enc53" :: id :: seed :: hex :: [] ->
      id ^ " " ^ hex_of_bytes (encode53 (n_of_int (int_of_string seed)) (hexarg hex))
  | "dec53" :: id :: seed :: verify :: hex :: [] ->
      id ^ " " ^ show_outcome (decode53 (n_of_int (int_of_string seed)) (n_of_int (int_of_string verify)) (hexarg hex))
  | "trk" :: id :: is13 :: sync :: fill :: buflen :: vol :: trk :: rest ->
      let rec pairs l = match l with
        | s :: h :: r -> (n_of_int (int_of_string s), hexarg h) :: pairs r
        | _ -> [] in
      let buf = run_track (is13 = "1") (nat_of_int (int_of_string sync)) (n_of_int (int_of_string fill))
                  (n_of_int (int_of_string buflen)) (n_of_int (int_of_string vol)) (n_of_int (int_of_string trk)) (pairs rest) in
      id ^ " " ^ hex_of_bytes buf
  | "cells" :: id :: family :: btype :: rest ->
      (* family: do | woz | d13 | woz35:<sides> | fat:<spt>:<heads>:<secsize> | cpm:<imd|td0>:<ident>:<spt>:<shift>:<heads> *)
      let ni s = n_of_int (int_of_string s) in
      let fam = String.split_on_char ':' family in
      let cs : (((((n * n) * n) * n) * n) list) option =
        (match fam, btype, rest with
         | ["do"], "do", [t; s] -> Some (do_cells_do (ni t) (ni s))
         | ["do"], "po", [b] -> Some (do_cells_po (ni b))
         | ["do"], "cpm", [b; bsh; off] -> Some (do_cells_cpm (ni b) (ni bsh) (ni off))
         | ["woz"], "do", [t; s] -> Some (woz_cells_do (ni t) (ni s))
         | ["woz"], "po", [b] -> Some (woz_cells_po (ni b))
         | ["woz"], "cpm", [b; bsh; off] -> Some (woz_cells_cpm (ni b) (ni bsh) (ni off))
         | ["d13"], "d13", [t; s] -> Some (d13_cells (ni t) (ni s))
         | ["woz35"; sides], "po", [b] -> Some (woz35_cells (ni sides) (ni b))
         | ["fat"; spt; heads; secsize], "fat", [s1; n] -> Some (fat_cells (ni spt) (ni heads) (ni secsize) (ni s1) (ni n))
         | ["cpm"; which; ident; spt; shift; heads], "cpm", [b; bsh; off] ->
             let codes = List.init (String.length ident) (fun i -> n_of_int (Char.code ident.[i])) in
             cpm_cells_kind (if which = "imd" then imd_skew_table else td0_skew_table) codes (ni spt) (ni shift) (ni heads) (ni b) (ni bsh) (ni off)
         | _ -> None) in
      (match cs with
       | None -> id ^ " none"
       | Some cs ->
           let recs = records cs in
           id ^ " " ^ String.concat ";" (List.map (fun ((((c, h), s), o), _) ->
             Printf.sprintf "%d,%d,%d,%d" (int_of_n c) (int_of_n h) (int_of_n s) (int_of_n o)) recs))
  | cmd :: id :: _ -> id ^ " unsupported:" ^ cmd
  | _ -> "?"

let () =
  try
    while true do
      let line = input_line stdin in
      let toks = List.filter (fun s -> s <> "") (String.split_on_char ' ' line) in
      if toks <> [] then print_endline (handle toks)
    done
  with End_of_file -> ()
