(* Line-protocol driver around the extracted model (Model = coq extraction). *)
open Model

let rec pos_of_int (n:int) : positive =
  if n = 1 then XH else if n land 1 = 0 then XO (pos_of_int (n lsr 1)) else XI (pos_of_int (n lsr 1))
let n_of_int (n:int) : n = if n = 0 then N0 else Npos (pos_of_int n)
let rec int_of_pos (p:positive) : int = match p with XH -> 1 | XO q -> 2 * int_of_pos q | XI q -> 2 * int_of_pos q + 1
let int_of_n (x:n) : int = match x with N0 -> 0 | Npos p -> int_of_pos p
let rec nat_of_int (n:int) : nat = if n = 0 then O else S (nat_of_int (n-1))

let bytes_of_hex (s:string) : n list =
  let l = String.length s / 2 in
  List.init l (fun i -> n_of_int (int_of_string ("0x" ^ String.sub s (2*i) 2)))
let hex_of_bytes (l:n list) : string =
  let b = Buffer.create 1024 in
  List.iter (fun x -> Buffer.add_string b (Printf.sprintf "%02x" (int_of_n x))) l; Buffer.contents b
let hexarg s = if s = "-" then [] else bytes_of_hex s

let mkparams a b c d e f g h i j k l = { p_total=a; p_lo=b; p_contig=c; p_meta_kind=d; p_holes=e; p_force0=f; p_rootcap=g; p_subdirs=h; p_sub_first=i; p_sub_more=j; p_lock=k; p_extent_slots=l }
let mkst a b = { files = a; used = b }

let show_outcome (o: n list outcome) : string = match o with
  | ROk l -> "ok:" ^ hex_of_bytes l
  | RErr c -> "err:" ^ string_of_int (int_of_n c)
  | RPanic c -> "panic:" ^ string_of_int (int_of_n c)
  | RFuel -> "fuel"

let handle (toks: string list) : string =
  match toks with
  | "enc62" :: id :: seed :: hex :: [] ->
      let nibs = encode62 (n_of_int (int_of_string seed)) (hexarg hex) in
      id ^ " " ^ hex_of_bytes nibs
  | "dec62" :: id :: seed :: verify :: hex :: [] ->
      id ^ " " ^ show_outcome (decode62 (n_of_int (int_of_string seed)) (n_of_int (int_of_string verify)) (hexarg hex))
  | "enc53" :: id :: seed :: hex :: [] ->
      id ^ " " ^ hex_of_bytes (encode53 (n_of_int (int_of_string seed)) (hexarg hex))
  | "dec53" :: id :: seed :: verify :: hex :: [] ->
      id ^ " " ^ show_outcome (decode53 (n_of_int (int_of_string seed)) (n_of_int (int_of_string verify)) (hexarg hex))
  | "txtenc" :: id :: fs :: hex :: [] ->
      let f = (match fs with "dos3x" -> TDos | "prodos" -> TProdos | _ -> TCpm) in
      id ^ " " ^ (match text_encode f (std_term f) (hexarg hex) with Some l -> "ok:" ^ hex_of_bytes l | None -> "none")
  | "recpack" :: id :: fs :: rl :: recs :: [] ->
      (* recpack id fs rl num:hextext,num:hextext,... -> chunks (index:bytes) and end of file *)
      let f = (match fs with "dos3x" -> TDos | _ -> TProdos) in
      let rs = if recs = "-" then [] else List.map (fun p -> match String.split_on_char ':' p with
                 | [n; h] -> (n_of_int (int_of_string n), hexarg (if h = "" then "-" else h))
                 | _ -> failwith "recpack") (String.split_on_char ',' recs) in
      (match pack_rec f (n_of_int (int_of_string rl)) rs with
       | None -> id ^ " refused"
       | Some img -> id ^ " ok " ^ String.concat "|" (List.map (fun (c, b) -> string_of_int (int_of_n c) ^ ":" ^ hex_of_bytes b) (r_chunks img))
                     ^ " eof=" ^ string_of_int (int_of_n (r_eof img)))
  | "txtdec" :: id :: fs :: hex :: [] ->
      let f = (match fs with "dos3x" -> TDos | "prodos" -> TProdos | _ -> TCpm) in
      id ^ " ok:" ^ hex_of_bytes (text_decode f (hexarg hex))
  | "cpmext" :: id :: _label :: exm :: bs :: spx :: v3 :: spec :: eof :: [] ->
      let ni s = n_of_int (int_of_string s) in
      let idx = if spec = "-" then [] else List.concat_map (fun p -> match String.split_on_char '-' p with
        | [a; b] -> List.init (int_of_string b - int_of_string a + 1) (fun k -> int_of_string a + k)
        | _ -> [int_of_string p]) (String.split_on_char ',' spec) in
      let cs = List.map n_of_int idx in
      let p = { c_exm = ni exm; c_bs = ni bs; c_spx = ni spx; c_v3 = (v3 = "1") } in
      (* free blocks 1, 2, 3, ...: a pointer is printed relative to the first block handed out, 0 is a hole *)
      let free = List.init 600 (fun k -> n_of_int (k + 1)) in
      let es = cpm_entries p cs free (ni eof) in
      let ent e = string_of_int (int_of_n e.e_idx) ^ " " ^ string_of_int (int_of_n e.e_rc) ^ " " ^ string_of_int (int_of_n e.e_lb) ^ " "
                  ^ String.concat "," (List.map (fun ptr -> let v = int_of_n ptr in if v = 0 then "-" else string_of_int (v - 1)) e.e_ptrs) in
      let pairs = (match cpm_read p es with Some l -> String.concat "," (List.map (fun (c, _) -> string_of_int (int_of_n c)) l) | None -> "unreadable") in
      id ^ " " ^ String.concat ";" (List.map ent es) ^ " | " ^ pairs ^ " | " ^ string_of_int (int_of_n (cpm_eof es))
  | "pdtree" :: id :: _label :: spec0 :: [] ->
      (* the same chunk set on a fresh volume: free blocks are 7, 8, 9, ...; a trailing F = last block used to its last byte *)
      let full = String.length spec0 > 0 && spec0.[String.length spec0 - 1] = 'F' in
      let spec = if full then String.sub spec0 0 (String.length spec0 - 1) else spec0 in
      let idx = List.concat_map (fun p -> match String.split_on_char '-' p with
        | [a; b] -> List.init (int_of_string b - int_of_string a + 1) (fun k -> int_of_string a + k)
        | _ -> [int_of_string p]) (String.split_on_char ',' spec) in
      let cs = List.map n_of_int idx in
      if int_of_n (cs_end cs) > 32768 || (full && int_of_n (cs_end cs) * 512 > 0xffffff) then id ^ " refused" else
      let free = List.init 4000 (fun k -> n_of_int (7 + k)) in
      let l = pd_layout cs free in
      let master = List.concat (List.mapi (fun g p -> if int_of_n p > 0 then [string_of_int g ^ ":" ^ string_of_int (int_of_n p)] else []) l.l_master) in
      let pairs = List.map (fun (c, b) -> string_of_int (int_of_n c) ^ ":" ^ string_of_int (int_of_n b)) (pd_read l) in
      id ^ " " ^ string_of_int (int_of_n l.l_storage) ^ " " ^ string_of_int (int_of_n l.l_key) ^ " " ^ string_of_int (int_of_n l.l_blocks)
         ^ " ; " ^ String.concat "," master ^ " ; " ^ String.concat "," pairs
  | "pasenc" :: id :: hex :: [] ->
      id ^ " " ^ (match pas_encode (hexarg hex) with Some l -> "ok:" ^ hex_of_bytes l | None -> "none")
  | "pasdec" :: id :: hex :: [] ->
      id ^ " ok:" ^ hex_of_bytes (pas_decode (hexarg hex))
  | "enc35" :: id :: hex :: [] ->
      id ^ " " ^ hex_of_bytes (sony_encode (hexarg hex))
  | "dec35" :: id :: hex :: [] ->
      id ^ " " ^ show_outcome (sony_decode (nat_of_int 174) (hexarg hex))
  | "trk35" :: id :: sides :: trk :: rest ->
      let rec pairs l = match l with
        | s :: h :: r -> (n_of_int (int_of_string s), hexarg h) :: pairs r
        | _ -> [] in
      id ^ " " ^ hex_of_bytes (run_track35 (n_of_int (int_of_string sides)) (n_of_int (int_of_string trk)) (pairs rest))
  | "trk" :: id :: is13 :: sync :: fill :: buflen :: vol :: trk :: rest ->
      let rec pairs l = match l with
        | s :: h :: r -> (n_of_int (int_of_string s), hexarg h) :: pairs r
        | _ -> [] in
      let buf = run_track (is13 = "1") (nat_of_int (int_of_string sync)) (n_of_int (int_of_string fill))
                  (n_of_int (int_of_string buflen)) (n_of_int (int_of_string vol)) (n_of_int (int_of_string trk)) (pairs rest) in
      id ^ " " ^ hex_of_bytes buf
  | "fsm" :: id :: fs :: total :: lo :: used0 :: rootcap :: extslots :: subfirst :: submore :: rest ->
      (* rest: the ops string (same syntax as the harness), possibly containing spaces *)
      let ni s = n_of_int (int_of_string s) in
      let opstr = String.concat " " rest in
      let csv s = if s = "-" then [] else List.map ni (String.split_on_char ',' s) in
      let b x = x in
      let pr = (match fs with
        | "dos33" | "dos32" -> mkparams (ni total) (ni lo) false (ni "1") true false (ni rootcap) false (ni "0") (ni "0") true (ni "0")
        | "prodos" -> mkparams (ni total) (ni lo) false (ni "2") true false (ni rootcap) true (ni subfirst) (ni submore) true (ni "0")
        | "pascal" -> mkparams (ni total) (ni lo) true (ni "0") false false (ni rootcap) false (ni "0") (ni "0") false (ni "0")
        | "fat" -> mkparams (ni total) (ni lo) false (ni "0") false false (ni rootcap) true (ni subfirst) (ni submore) true (ni "0")
        | _ -> mkparams (ni total) (ni lo) false (ni "0") true false (ni rootcap) false (ni "0") (ni "0") true (ni extslots)) in
      ignore b;
      let name_of (s:string) : n list = List.init (String.length s) (fun i -> n_of_int (Char.code (Char.uppercase_ascii s.[i]))) in
      let flat = (String.length fs >= 3 && String.sub fs 0 3 = "cpm") in
      let path_of (s:string) : n list list =
        if flat then
          let s = String.uppercase_ascii s in
          (* the user number may be spelled 0, 00, +0: one user area *)
          let s = (match String.index_opt s ':' with
            | Some i -> let u = String.sub s 0 i in
                        let u' = (match int_of_string_opt u with Some v -> string_of_int v | None -> u) in
                        u' ^ "/" ^ String.sub s (i+1) (String.length s - i - 1)
            | None -> "0/" ^ s) in
          [name_of s]
        else List.map name_of (String.split_on_char '/' s) in
      let str_of_name (nm: n list) = String.concat "" (List.map (fun c -> String.make 1 (Char.chr (int_of_n c))) nm) in
      let str_of_path (p: n list list) = String.concat "/" (List.map str_of_name p) in
      let parse_spec (spec:string) (free:int) : n list =
        if String.length spec > 0 && spec.[0] = 'F' then
          let d = int_of_string (String.sub spec 1 (String.length spec - 1)) in
          let n = max 1 (free + d) in List.init n n_of_int
        else
          List.concat_map (fun part ->
            if part = "" then [] else
            match String.index_opt part '-' with
            | Some i -> let a = int_of_string (String.sub part 0 i) and bb = int_of_string (String.sub part (i+1) (String.length part - i - 1)) in
                        List.init (bb - a + 1) (fun k -> n_of_int (a + k))
            | None -> [n_of_int (int_of_string part)]) (String.split_on_char ',' spec) in
      let fmt_idx (l: int list) : string =
        let rec go l acc = match l with
          | [] -> List.rev acc
          | a :: r -> let rec ext last r = (match r with x :: q when x = last + 1 -> ext x q | _ -> (last, r)) in
                      let (last, r') = ext a r in
                      go r' ((if last > a then Printf.sprintf "%d-%d" a last else string_of_int a) :: acc) in
        String.concat "," (go l []) in
      let show (s: st) (res:string) : string =
        let items = List.map (fun (p, f) ->
          let ps = String.map (fun c -> if c = ' ' then '_' else c) (str_of_path p) in
          (ps, if f_isdir f then ps ^ "/" else ps ^ ":" ^ fmt_idx (List.map int_of_n (f_chunks f)))) (files s) in
        let items = List.map snd (List.sort (fun (a, _) (b, _) -> compare a b) items) in
        Printf.sprintf "%s,%d,%s" res (int_of_n (reported_free pr s)) (String.concat "|" items) in
      let s0 = mkst [] (csv used0) in
      let ops = List.filter (fun x -> x <> "") (String.split_on_char ';' opstr) in
      let buf = Buffer.create 4096 in
      Buffer.add_string buf (show s0 "init");
      let _ = List.fold_left (fun s o ->
        let f = Array.of_list (String.split_on_char '~' o) in
        let free = int_of_n (reported_free pr s) in
        if f.(0) = "Z" then begin
          (* fill with filler files until exactly k units are free (same procedure as the harness) *)
          let k = int_of_string f.(1) in
          let needs n = if n = 0 then 0 else n + int_of_n (meta_units pr (List.init n n_of_int)) in
          let rec loop s i =
            let cur = int_of_n (reported_free pr s) in
            if cur <= k || i > 40 then s else begin
              let c = cur - k in
              let n = ref c in
              while !n > 0 && needs !n > c do decr n done;
              if !n = 0 then s else begin
                let name = if flat || fs = "fat" then Printf.sprintf "ZF%d.Z" i else Printf.sprintf "ZF%d" i in
                let (s', r) = step pr s (Put (path_of name, List.init !n n_of_int)) in
                match r with Accepted -> loop s' (i+1) | Refused -> s'
              end
            end in
          let s' = loop s 0 in
          Buffer.add_char buf ' '; Buffer.add_string buf (show s' "ok"); s'
        end else
        let operation = (match f.(0) with
          | "P" -> Some (Put (path_of f.(1), parse_spec f.(2) free))
          | "D" -> Some (Delete (path_of f.(1)))
          | "R" -> Some (Rename (path_of f.(1), (if flat then List.hd (path_of f.(2)) else name_of f.(2))))
          | "L" -> Some (Lock (path_of f.(1)))
          | "U" -> Some (Unlock (path_of f.(1)))
          | "M" -> Some (Mkdir (path_of f.(1)))
          | _ -> None) in
        match operation with
        | None ->
            (* retype and other entry-only operations: accepted iff the path exists, nothing the model tracks changes *)
            let exists = List.exists (fun (p, _) -> p = path_of f.(1)) (files s) in
            Buffer.add_char buf ' '; Buffer.add_string buf (show s (if exists then "ok" else "ref")); s
        | Some op ->
            let (s', r) = step pr s op in
            Buffer.add_char buf ' ';
            Buffer.add_string buf (show s' (match r with Accepted -> "ok" | Refused -> "ref")); s') s0 ops in
      id ^ " " ^ Buffer.contents buf
  | "deseq" :: id :: chunk :: hex :: [] ->
      let d = hexarg hex in
      let cs = desequence (nat_of_int (int_of_string chunk)) d in
      id ^ " " ^ String.concat "," (List.map (fun c -> string_of_int (List.length c)) cs) ^ " " ^ string_of_int (List.length d) ^ " true " ^ hex_of_bytes (sequence cs)
  | "dosbin" :: id :: addr :: hex :: [] -> id ^ " " ^ show_outcome (dos_pack_bin (hexarg hex) (n_of_int (int_of_string addr)))
  | "probin" :: id :: addr :: hex :: [] ->
      (match prodos_pack_bin (hexarg hex) (n_of_int (int_of_string addr)) with
       | ROk f -> id ^ " ok:" ^ hex_of_bytes f.pf_aux ^ ":" ^ string_of_int (int_of_n f.pf_eof) ^ ":" ^ String.concat "," (List.map hex_of_bytes f.pf_chunks)
       | _ -> id ^ " err:1")
  | "dostok" :: id :: hex :: [] -> id ^ " " ^ show_outcome (dos_pack_tok (hexarg hex))
  | "wozchunk" :: id :: ptr :: hex :: [] ->
      let ((next, cid), c) = woz_next_chunk (n_of_int (int_of_string ptr)) (hexarg hex) in
      id ^ " " ^ string_of_int (int_of_n next) ^ " " ^ string_of_int (int_of_n cid) ^ " " ^
        (match c with Some (_, l) -> string_of_int (int_of_n l) | None -> "none")
  | "imdparse" :: id :: hex :: [] ->
      (* the loop of Imd::from_bytes: parse track records until the data is used up; at least one track is required *)
      let rec go (b: n list) (count:int) : string =
        if b = [] then (if count > 0 then "ok" else "err")
        else match imd_parse_track b with
          | ROk (used, _) -> let u = int_of_n used in
                             let rec drop k l = if k = 0 then l else (match l with [] -> [] | _ :: t -> drop (k-1) t) in
                             go (drop u b) (count+1)
          | RErr _ -> "err"
          | RPanic _ -> "panic"
          | RFuel -> "fuel" in
      id ^ " " ^ go (hexarg hex) 0
  | "dosunbin" :: id :: hex :: [] ->
      id ^ " " ^ (match dos_unpack_bin (hexarg hex) with ROk (_, d) -> "ok:" ^ hex_of_bytes d | RErr _ -> "err" | RPanic _ -> "panic" | RFuel -> "fuel")
  | "mkdecide" :: id :: os :: kind :: ty :: wrap :: [] ->
      let cs (s:string) = List.init (String.length s) (fun i -> n_of_int (Char.code s.[i])) in
      id ^ " " ^ (if decide (cs os) (cs kind) (cs ty) (if wrap = "-" then None else Some (cs wrap)) then "accept" else "refuse")
  | "tokas" :: id :: addr :: hex :: [] ->
      (* structure of an Applesoft token stream: walk the lines, re-assemble them at the load address, follow the links *)
      let b = hexarg hex in
      let a = n_of_int (int_of_string addr) in
      let fuel = nat_of_int (List.length b + 2) in
      (match scan_as fuel b with
       | ROk ls ->
           (match asm_as a ls with
            | ROk b2 ->
                if b2 <> b then id ^ " mismatch:reassembled-differs " ^ hex_of_bytes b2
                else (match follow_links fuel a a b with
                      | ROk addrs -> id ^ " ok lines=" ^ string_of_int (List.length ls) ^ " links=" ^ string_of_int (List.length addrs)
                      | _ -> id ^ " mismatch:links-do-not-close")
            | RPanic _ -> id ^ " mismatch:address-overflow"
            | _ -> id ^ " mismatch:asm")
       | _ -> id ^ " mismatch:scan")
  | "tokint" :: id :: hex :: [] ->
      let b = hexarg hex in
      let fuel = nat_of_int (List.length b + 2) in
      (match scan_int fuel b with
       | ROk ls -> (match asm_int ls with
                    | ROk b2 -> if b2 = b then id ^ " ok lines=" ^ string_of_int (List.length ls) else id ^ " mismatch:reassembled-differs " ^ hex_of_bytes b2
                    | _ -> id ^ " mismatch:asm")
       | RErr c -> id ^ " mismatch:scan-err" ^ string_of_int (int_of_n c)
       | _ -> id ^ " mismatch:scan")
  | "escas" :: id :: ctx :: hex :: [] ->
      let b = hexarg hex in
      let c = n_of_int (int_of_string ctx) in
      let (e, rest) = as_escape c (if ctx = "0" then n_of_int 1 else N0) b in
      id ^ " " ^ hex_of_bytes e ^ ". " ^ string_of_int (List.length b - List.length rest) ^ " " ^ hex_of_bytes (unesc false false O e) ^ "."
  | "escint" :: id :: ctx :: hex :: [] ->
      let b = hexarg hex in
      let (e, rest) = int_escape (n_of_int (int_of_string ctx)) b in
      id ^ " " ^ hex_of_bytes e ^ ". " ^ string_of_int (List.length b - List.length rest) ^ " " ^ hex_of_bytes (unesc true true O e) ^ "."
  | "unesc" :: id :: inv :: caps :: hex :: [] ->
      id ^ " " ^ hex_of_bytes (unesc (inv = "1") (caps = "1") O (hexarg hex)) ^ "."
  | "mfmt" :: id :: w1 :: w2 :: w3 :: cols :: [] ->
      let cl = List.map (fun h -> hexarg (if h = "" then "-" else h)) (String.split_on_char '|' cols) in
      id ^ " " ^ hex_of_bytes (fmt_line [nat_of_int (int_of_string w1); nat_of_int (int_of_string w2); nat_of_int (int_of_string w3)] cl) ^ "."
  | "menc" :: id :: hex :: [] -> id ^ " " ^ hex_of_bytes (m_enc_line (hexarg hex)) ^ "."
  | "mdec" :: id :: hex :: [] ->
      let rec go bs acc = (match bs with
        | [] -> String.concat "|" (List.rev acc)
        | _ -> (match m_dec_line bs with
                | ROk (l, rest) -> go rest (String.concat "" (List.map (fun x -> if int_of_n x = 256 then "SS" else Printf.sprintf "%02x" (int_of_n x)) l) :: acc)
                | _ -> "err")) in
      id ^ " " ^ go (hexarg hex) [] ^ "."
  | "dasmtext" :: id :: proc :: mx :: org :: hex :: [] ->
      (* the model's disassembly rendered like the implementation's (labels off); text layout is glue, decisions are the model's *)
      let p = n_of_int (match proc with "6502" -> 0 | "65c02" -> 1 | "65802" -> 2 | _ -> 3) in
      let m8 = mx.[0] = '1' and x8 = mx.[1] = '1' in
      let str_of (l : n list) = String.init (List.length l) (fun i -> Char.chr (int_of_n (List.nth l i))) in
      let hexu (l : n list) = String.concat "" (List.map (fun x -> Printf.sprintf "%02X" (int_of_n x)) l) in
      let rec take k l = if k = 0 then [] else (match l with [] -> [] | x :: r -> x :: take (k-1) r) in
      let rec drop k l = if k = 0 then l else (match l with [] -> [] | _ :: r -> drop (k-1) r) in
      let hexval (v:int) (nb:int) = let b = Buffer.create 8 in
        for i = nb - 1 downto 0 do Buffer.add_string b (Printf.sprintf "%02X" ((v lsr (8*i)) land 255)) done; "$" ^ Buffer.contents b in
      let subst snippet repl = (* replace the first digit of the snippet *)
        let b = Buffer.create 16 in let donef = ref false in
        String.iter (fun c -> if (not !donef) && c >= '0' && c <= '9' then (Buffer.add_string b repl; donef := true) else Buffer.add_char b (Char.uppercase_ascii c)) snippet;
        Buffer.contents b in
      let lines = ref [] in
      let emit s = lines := s :: !lines in
      let rec go addr (bs : n list) =
        match bs with
        | [] -> ()
        | code :: rest ->
          (match dasm_one p m8 x8 (n_of_int addr) code rest (n_of_int (List.length rest)) with
           | Some (DImplied mn) -> emit (String.uppercase_ascii (str_of (List.nth mnemonics (int_of_n mn)))); go (addr+1) rest
           | Some (DMov (mn, a, b)) ->
               emit (String.uppercase_ascii (str_of (List.nth mnemonics (int_of_n mn))) ^ " " ^ hexval (int_of_n a) 1 ^ "," ^ hexval (int_of_n b) 1); go (addr+3) (drop 2 rest)
           | Some (DRelData nn) -> let k = int_of_n nn in emit ("HEX " ^ hexu (take k bs)); go (addr+k) (drop k bs)
           | Some (DInstr (i, nn)) ->
               let k = int_of_n nn in
               let md = (match dasm_entry code with Some ((_, md), _) -> int_of_n md | None -> 0) in
               let sn0 = str_of (List.nth mode_snippets md) in
               let wide = md = int_of_n md_imm && ((m_sens i.i_mn && not m8) || (x_sens i.i_mn && not x8)) in
               let sn = if wide then "#2" else sn0 in
               let isrel = (sn0 = "1" || sn0 = "2") && (let nm = str_of (List.nth mnemonics (int_of_n i.i_mn)) in List.mem nm ["bcc";"bcs";"beq";"bmi";"bne";"bpl";"bra";"brl";"bvc";"bvs";"per"]) in
               let opnd = if isrel then subst sn (hexval (int_of_n i.i_val) 2) else subst sn (hexval (int_of_n i.i_val) k) in
               let suf = (match int_of_n i.i_suf with 1 -> ":" | 2 -> "L" | _ -> "") in
               let pre = (match int_of_n i.i_pre with 1 -> ">" | _ -> "") in
               emit (String.uppercase_ascii (str_of (List.nth mnemonics (int_of_n i.i_mn))) ^ suf ^ " " ^ pre ^ opnd);
               go (addr+1+k) (drop k rest)
           | None ->
               let ((kind, len), extra) = data_run_ex bs in
               let kind = int_of_n kind and len = int_of_n len and extra = int_of_n extra in
               if len = 0 then (emit ("DFB " ^ hexval (int_of_n code) 1); go (addr+1) rest)
               else begin
                 (match kind with
                  | 1 -> emit (Printf.sprintf "DS %d,$%s" len (hexu [code]))
                  | 2 | 3 -> let w = if kind = 2 then 2 else 4 in let reps = len / w in
                      if reps > 1 then emit (Printf.sprintf "LUP %d" reps);
                      emit ("HEX " ^ hexu (take w bs));
                      if reps > 1 then emit "--^"
                  | _ -> let neg = kind = 5 in
                      let chars = List.map (fun x -> Char.chr ((int_of_n x) land 127)) (take len bs) in
                      let sv = String.init len (fun i -> List.nth chars i) in
                      let d0 = if neg then "\"" else "'" in
                      let delim = if String.length sv > 0 && String.sub sv 0 1 = d0 then (if neg then "&" else "/") else d0 in
                      if extra = 1 then begin
                        let la = int_of_n (List.nth bs len) in
                        if la = 0 then emit ("ASC " ^ delim ^ sv ^ delim ^ ",00")
                        else emit ("DCI " ^ delim ^ sv ^ String.make 1 (Char.chr (la land 127)) ^ delim)
                      end else emit ("ASC " ^ delim ^ sv ^ delim));
                 go (addr+len+extra) (drop (len+extra) bs)
               end) in
      go (int_of_string org) (hexarg hex);
      id ^ " " ^ String.concat "|" (List.rev !lines)
  | "asmir" :: id :: v8 :: proc :: m8 :: x8 :: pc :: mn :: suf :: pre :: rmode :: v :: [] ->
      let ni s = n_of_int (int_of_string s) in
      let i = { i_mn = ni mn; i_suf = ni suf; i_pre = ni pre; i_rmode = ni rmode; i_val = ni v } in
      id ^ " " ^ show_outcome (asm_instr (v8 = "1") (ni proc) (m8 = "1") (x8 = "1") (ni pc) i)
  | "renummodel" :: id :: maxn :: b :: e :: first :: step :: mv :: rows :: [] ->
      let ni s = n_of_int (int_of_string s) in
      let rl = List.map (fun t -> if t = "-" then None else Some (ni t)) (String.split_on_char ',' rows) in
      (match renumber rl (ni b) (ni e) (ni first) (ni step) (mv = "1") (ni maxn) with
       | Refused0 w -> id ^ " refused " ^ string_of_int (int_of_n w)
       | Accepted0 (m, ins) ->
           let (s0, t0) = (match wrapper_rows rl (ni b) (ni e) with Some (s0, t0) -> (s0, t0) | None -> (N0, N0)) in
           let nr = renumbered rl m s0 t0 in
           id ^ " ok ins=" ^ string_of_int (int_of_n ins) ^ " sel=" ^ string_of_int (int_of_n s0) ^ "-" ^ string_of_int (int_of_n t0) ^ " rows=" ^
             String.concat "," (List.map (fun o -> match o with None -> "-" | Some v -> string_of_int (int_of_n v)) nr))
  | "applyright" :: id :: linehex :: edits ->
      let rec es l = (match l with c0 :: c1 :: t :: r -> ((nat_of_int (int_of_string c0), nat_of_int (int_of_string c1)), hexarg t) :: es r | _ -> []) in
      id ^ " " ^ hex_of_bytes (apply_right (hexarg linehex) (es edits)) ^ "."
  | "hidden" :: id :: short :: follow :: [] ->
      id ^ " " ^ (if forms_hidden_token (hexarg short) (hexarg follow) then "1" else "0")
  | "refmap" :: id :: all :: deleted :: [] ->
      let ni s = n_of_int (int_of_string s) in
      let csv s = if s = "-" then [] else List.map ni (String.split_on_char ',' s) in
      let (ar, dr) = undelete_trailing (List.rev (csv all)) (List.rev (csv deleted)) in
      let al = List.rev ar and dl = List.rev dr in
      (match ref_map dl (csv all) dl with
       | Some m -> ignore al; id ^ " " ^ String.concat "," (List.map (fun (a, b) -> string_of_int (int_of_n a) ^ ">" ^ string_of_int (int_of_n b)) m) ^ "."
       | None -> id ^ " none")
  | "crc32" :: id :: hex :: [] -> id ^ " " ^ string_of_int (int_of_n (crc32 N0 (hexarg hex)))
  | "crc16" :: id :: seed :: hex :: [] -> id ^ " " ^ string_of_int (int_of_n (crc16 (n_of_int (int_of_string seed)) (hexarg hex)))
  | "imdtrk" :: id :: _kind :: secsize :: nsec :: rest ->
      (* rest: sector payloads in track-buffer order (hex); the in-memory track has code 1 before each *)
      let size = int_of_string secsize in
      let buf = List.concat_map (fun h -> n_of_int 1 :: hexarg h) rest in
      ignore size;
      id ^ " " ^ show_outcome (imd_compress (n_of_int size) (nat_of_int (int_of_string nsec)) buf)
  | "td0sec" :: id :: size :: hex :: [] ->
      (match td0_pack (n_of_int (int_of_string size)) (hexarg hex) with
       | ROk p -> id ^ " " ^ hex_of_bytes p ^ " " ^ show_outcome (td0_unpack (n_of_int (int_of_string size)) p)
       | _ -> id ^ " packerr")
  | "cells" :: id :: family :: btype :: rest ->
      (* family: do | woz | d13 | woz35:<sides> | fat:<spt>:<heads>:<secsize> | cpm:<imd|td0>:<ident>:<spt>:<shift>:<heads> *)
      let ni s = n_of_int (int_of_string s) in
      let fam = String.split_on_char ':' family in
      let cs : (((((n * n) * n) * n) * n) list) option =
        (match fam, btype, rest with
         | ["do"], "do", [t; s] -> Some (do_cells_do (ni t) (ni s))
         | ["do"], "po", [b] -> Some (do_cells_po (ni b))
         | ["do"], "cpm", [b; bsh; off] -> Some (do_cells_cpm (ni b) (ni bsh) (ni off))
         | ["woz"], "do", [t; s] -> Some (woz_cells_do (ni t) (ni s))
         | ["woz"], "po", [b] -> Some (woz_cells_po (ni b))
         | ["woz"], "cpm", [b; bsh; off] -> Some (woz_cells_cpm (ni b) (ni bsh) (ni off))
         | ["d13"], "d13", [t; s] -> Some (d13_cells (ni t) (ni s))
         | ["woz35"; sides], "po", [b] -> Some (woz35_cells (ni sides) (ni b))
         | ["fat"; spt; heads; secsize], "fat", [s1; n] -> Some (fat_cells (ni spt) (ni heads) (ni secsize) (ni s1) (ni n))
         | ["cpm"; which; ident; spt; shift; heads], "cpm", [b; bsh; off] ->
             let codes = List.init (String.length ident) (fun i -> n_of_int (Char.code ident.[i])) in
             cpm_cells_kind (if which = "imd" then imd_skew_table else td0_skew_table) codes (ni spt) (ni shift) (ni heads) (ni b) (ni bsh) (ni off)
         | _ -> None) in
      (match cs with
       | None -> id ^ " none"
       | Some cs ->
           let recs = records cs in
           id ^ " " ^ String.concat ";" (List.map (fun ((((c, h), s), o), _) ->
             Printf.sprintf "%d,%d,%d,%d" (int_of_n c) (int_of_n h) (int_of_n s) (int_of_n o)) recs))
  | cmd :: id :: _ -> id ^ " unsupported:" ^ cmd
  | _ -> "?"

let () =
  try
    while true do
      let line = input_line stdin in
      let toks = List.filter (fun s -> s <> "") (String.split_on_char ' ' line) in
      if toks <> [] then print_endline (handle toks)
    done
  with End_of_file -> ()
