(* Extraction of the executable model for the correspondence check.
   Only ExtrOcamlBasic is used (bool, option, unit, list, prod, sumbool, ... as native OCaml
   types); N / positive / nat stay as extracted inductives.  No Extract Constant directives. *)
Require Extraction.
From Coq Require Import ExtrOcamlBasic.
From A2 Require Import Base.Bytes Gen.Tables Img.Nibble Img.Track525 Img.Sony Img.Track35 Gen.SkewTabs Img.Skew Fs.Spec Fs.ProdosTree Fs.CpmExtents Img.Codec Pack.Fimg Pack.PascalText Pack.Text Pack.Records Sys.Parsers Sys.Mkdsk Lang.Tokens Lang.Escape Lang.Merlin Gen.Opcodes Lang.Asm Lang.Renumber Gen.Guards Lang.Minify.
Extraction Language OCaml.
Extraction "model.ml" pack_rec r_chunks r_eof N.of_nat N.to_nat encode62 decode62 encode53 decode53 enc44 dec44 run_track bit_count_525 fmt13 fmt16 sony_encode sony_decode run_track35
  records do_cells_do do_cells_po do_cells_cpm woz_cells_do woz_cells_po woz_cells_cpm d13_cells woz35_cells fat_cells cpm_cells_kind imd_skew_table td0_skew_table
  step cpm_entries cpm_read cpm_eof e_idx e_rc e_lb e_ptrs pd_layout pd_read l_storage l_key l_blocks l_master cs_end reported_free files used f_chunks f_isdir f_owned norm_idx p_total meta_units
  crc32 crc16 td0_pack td0_unpack imd_compress imd_expand dot2mg_bytes
  desequence sequence dos_pack_bin dos_pack_tok dos_unpack_bin dos_unpack_tok prodos_pack_bin prodos_unpack_bin pf_chunks pf_eof pf_aux pas_encode pas_decode text_encode text_decode std_term
  woz_next_chunk woz_walk imd_parse_track decide
  asm_as scan_as follow_links asm_int scan_int as_escape int_escape unesc m_enc_line m_dec_line fmt_line
  dasm_one dasm_entry asm_instr asm_implied asm_mov data_run_ex mnemonics mode_snippets md_imm m_sens x_sens
  renumber renumbered wrapper_rows apply_right
  forms_hidden_token clean ref_map undelete_trailing.
