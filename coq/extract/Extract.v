(* Extraction of the executable model for the correspondence check.
   Only ExtrOcamlBasic is used (bool, option, unit, list, prod, sumbool, ... as native OCaml
   types); N / positive / nat stay as extracted inductives.  No Extract Constant directives. *)
Require Extraction.
From Coq Require Import ExtrOcamlBasic.
From A2 Require Import Base.Bytes Gen.Tables Img.Nibble Img.Track525.
Extraction Language OCaml.
Extraction "model.ml" N.of_nat N.to_nat encode62 decode62 encode53 decode53 enc44 dec44 run_track bit_count_525 fmt13 fmt16.
