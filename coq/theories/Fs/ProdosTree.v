(* Fs/ProdosTree.v -- MODEL of the on-disk structure of a ProDOS file as src/fs/prodos/mod.rs write_file builds it and read_file /
   read_index_block walk it: seedling (one data block), sapling (one index block of 256 pointers), tree (a master index block
   pointing at index blocks); a pointer of 0 is a hole.  The writer is given in closed form: the order in which blocks are taken
   from the free list (lowest free block first) and the pointer tables that result; the correspondence check compares storage type,
   key pointer, block count and every pointer table with what the implementation leaves on a fresh volume.  No proofs here. *)
From A2 Require Import Base.Bytes.
Open Scope N_scope.

(* chunk indices present, as a membership test, and the end (greatest index + 1) *)
Definition present (cs : list N) (i : N) : bool := existsb (N.eqb i) cs.
Definition cs_end (cs : list N) : N := fold_left (fun m i => N.max m (i + 1)) cs 0.

Inductive ev := EData (i : N) | EIndex (g : N) | EMaster.

(* does index group g (chunks 256g .. 256g+255) hold a chunk below [upto] *)
Definition group_has (cs : list N) (g upto : N) : bool := existsb (fun i => (i / 256 =? g) && (i <? upto)) cs.

(* the blocks taken while chunk [c] is processed, in order: the master block when the 257th slot is reached, the index block of the
   group (for group 0 at the second slot, whatever it holds; for later groups at their first chunk present), then the data block *)
Definition events_at (cs : list N) (c : N) : list ev :=
  (if c =? 256 then [EMaster] else []) ++
  (if c =? 1 then [EIndex 0]
   else if (256 <=? c) && present cs c && negb (group_has cs (c / 256) c) then [EIndex (c / 256)] else []) ++
  (if present cs c then [EData c] else []).

Definition events (cs : list N) : list ev := flat_map (events_at cs) (map N.of_nat (seq 0 (N.to_nat (cs_end cs)))).

Definition ev_eqb (a b : ev) : bool :=
  match a, b with EData i, EData j => i =? j | EIndex g, EIndex h => g =? h | EMaster, EMaster => true | _, _ => false end.

(* the block an event received: events take the free blocks in order *)
Fixpoint block_of (e : ev) (evs : list ev) (free : list N) : N :=
  match evs, free with
  | x :: r, b :: f => if ev_eqb x e then b else block_of e r f
  | _, _ => 0
  end.

Record layout := { l_storage : N; l_key : N; l_blocks : N; l_master : list N; l_indexes : list (N * list N) }.

Definition index_table (cs : list N) (evs : list ev) (free : list N) (g : N) : list N :=
  map (fun j => let c := 256 * g + N.of_nat j in if present cs c then block_of (EData c) evs free else 0) (seq 0 256).

Definition groups (cs : list N) : list N := map N.of_nat (seq 0 (N.to_nat ((cs_end cs + 255) / 256))).

Definition pd_layout (cs : list N) (free : list N) : layout :=
  let evs := events cs in
  let e := cs_end cs in
  let has_index g := existsb (ev_eqb (EIndex g)) evs in
  {| l_storage := if e <=? 1 then 1 else if e <=? 256 then 2 else 3;
     l_key := if e <=? 1 then block_of (EData 0) evs free else if e <=? 256 then block_of (EIndex 0) evs free else block_of EMaster evs free;
     l_blocks := lenN evs;
     l_master := if e <=? 256 then [] else map (fun j => let g := N.of_nat j in if has_index g then block_of (EIndex g) evs free else 0) (seq 0 256);
     l_indexes := if e <=? 1 then [] else map (fun g => (block_of (EIndex g) evs free, index_table cs evs free g)) (filter has_index (groups cs)) |}.

(* the reader: chunk index -> data block, walking the structure from the key pointer *)
Definition table_of (l : layout) (b : N) : list N :=
  match find (fun p => fst p =? b) (l_indexes l) with Some p => snd p | None => [] end.
Definition read_index (l : layout) (g : N) (iptr : N) : list (N * N) :=
  flat_map (fun j => let p := dnth (table_of l iptr) j in if p =? 0 then [] else [(256 * g + N.of_nat j, p)]) (seq 0 256).
Definition pd_read (l : layout) : list (N * N) :=
  if l_storage l =? 1 then [(0, l_key l)]
  else if l_storage l =? 2 then read_index l 0 (l_key l)
  else flat_map (fun m => let ip := dnth (l_master l) m in if ip =? 0 then [] else read_index l (N.of_nat m) ip) (seq 0 256).
