(* Fs/Spec.v -- MODEL: file-system state machine shared by the five file systems.
   A state is the directory (paths -> file records, each with the allocation units it owns) and the set
   of units marked in use.  The per-file-system behaviour enters through [params]: allocation policy
   (first free / first-fit contiguous), index overhead, directory capacities and growth, holes, locking.
   The operations follow the order of checks and side effects of put/delete/rename/lock/mkdir in
   src/fs/{dos3x,prodos,pascal,cpm,fat}/mod.rs (see DESIGN appendix B.3).  No proofs here. *)
From A2 Require Import Base.Bytes.
From Coq Require Import Sorting.Mergesort Orders.
Open Scope N_scope.

Definition name := list N.
Definition pathT := list name.

Record file := mkfile { f_isdir : bool; f_chunks : list N; f_owned : list N; f_locked : bool }.
Record st := mkst { files : list (pathT * file); used : list N }.

Record params := mkparams {
  p_total : N;                 (* valid unit numbers are p_lo .. p_total-1 *)
  p_lo : N;
  p_contig : bool;             (* allocation policy: false = lowest free units first, true = first-fit contiguous run *)
  p_meta_kind : N;             (* 0 none, 1 DOS T/S lists (one per 122 chunk slots), 2 ProDOS index blocks *)
  p_holes : bool;              (* sparse files allowed *)
  p_force0 : bool;             (* chunk 0 is always materialised (ProDOS as coded until the first-slot fix; no instance sets it now) *)
  p_rootcap : N;               (* entries the root/volume directory can hold *)
  p_subdirs : bool;
  p_sub_first : N;             (* entries in the first unit of a subdirectory *)
  p_sub_more : N;              (* entries in each further unit *)
  p_lock : bool;               (* lock/unlock supported *)
  p_extent_slots : N           (* CP/M: chunk slots per directory entry (0 = one entry per file) *)
}.

(* ---------- small list utilities ---------- *)
Fixpoint name_eqb (a b : name) : bool :=
  match a, b with [], [] => true | x :: r, y :: q => andb (N.eqb x y) (name_eqb r q) | _, _ => false end.
Fixpoint path_eqb (a b : pathT) : bool :=
  match a, b with [] , [] => true | x :: r, y :: q => andb (name_eqb x y) (path_eqb r q) | _, _ => false end.
Definition memN (x : N) (l : list N) : bool := existsb (N.eqb x) l.

Fixpoint lookup (fs : list (pathT * file)) (p : pathT) : option file :=
  match fs with [] => None | (q, f) :: r => if path_eqb q p then Some f else lookup r p end.
Fixpoint remove_path (fs : list (pathT * file)) (p : pathT) : list (pathT * file) :=
  match fs with [] => [] | (q, f) :: r => if path_eqb q p then remove_path r p else (q, f) :: remove_path r p end.
Fixpoint update_path (fs : list (pathT * file)) (p : pathT) (g : file) : list (pathT * file) :=
  match fs with [] => [] | (q, f) :: r => if path_eqb q p then (q, g) :: update_path r p g else (q, f) :: update_path r p g end.

Definition parent (p : pathT) : pathT := removelast p.
(* a directory is renamed with everything below it: every path that starts with [p] starts with [q] afterwards *)
Fixpoint is_prefix (p r : pathT) : bool :=
  match p, r with [], _ => true | x :: p', y :: r' => andb (name_eqb x y) (is_prefix p' r') | _ :: _, [] => false end.
Definition rebase (p q r : pathT) : pathT := if is_prefix p r then q ++ skipn (length p) r else r.
Definition move_tree (fs : list (pathT * file)) (p q : pathT) : list (pathT * file) := map (fun e => (rebase p q (fst e), snd e)) fs.
Definition children (fs : list (pathT * file)) (d : pathT) : list (pathT * file) :=
  filter (fun e => andb (path_eqb (parent (fst e)) d) (negb (path_eqb (fst e) []))) fs.

(* insertion sort with deduplication: canonical chunk index lists *)
Fixpoint ins (x : N) (l : list N) : list N :=
  match l with [] => [x] | y :: r => if N.ltb x y then x :: l else if N.eqb x y then l else y :: ins x r end.
Definition norm_idx (l : list N) : list N := fold_right ins [] l.

Definition last_idx (l : list N) : N := fold_left N.max l 0.
Definition end_of (l : list N) : N := match l with [] => 0 | _ => 1 + last_idx l end.
Definition dense (l : list N) : bool := N.eqb (lenN (norm_idx l)) (end_of l).

(* ---------- allocation ---------- *)
Definition is_free (pr : params) (u : list N) (b : N) : bool :=
  andb (andb (N.leb (p_lo pr) b) (N.ltb b (p_total pr))) (negb (memN b u)).
Definition all_units (pr : params) : list N := map (fun i => p_lo pr + N.of_nat i) (seq 0 (N.to_nat (p_total pr - p_lo pr))).
Definition free_units (pr : params) (u : list N) : list N := filter (is_free pr u) (all_units pr).
Definition free_count (pr : params) (u : list N) : N := lenN (free_units pr u).

(* lowest n free units *)
Definition pick_first (pr : params) (u : list N) (n : N) : option (list N) :=
  let fr := free_units pr u in
  if N.leb n (lenN fr) then Some (takeN n fr) else None.
(* first-fit contiguous run of n units *)
Fixpoint run_from (pr : params) (u : list N) (b : N) (n : nat) : bool :=
  match n with O => true | S k => andb (is_free pr u b) (run_from pr u (b + 1) k) end.
Definition pick_contig (pr : params) (u : list N) (n : N) : option (list N) :=
  match find (fun b => run_from pr u b (N.to_nat n)) (all_units pr) with
  | Some b => Some (map (fun i => b + N.of_nat i) (seq 0 (N.to_nat n)))
  | None => None
  end.
Definition pick (pr : params) (u : list N) (n : N) : option (list N) :=
  if p_contig pr then pick_contig pr u n else pick_first pr u n.

(* ---------- index overhead ---------- *)
Definition groups_with_data (idx : list N) (size : N) (from : N) : N :=
  lenN (norm_idx (filter (fun g => N.leb from g) (map (fun i => i / size) idx))).
Definition meta_units (pr : params) (idx : list N) : N :=
  let e := end_of idx in
  match p_meta_kind pr with
  | 1 => 1 + (e - 1) / 122
  | 2 => (if N.ltb 1 e then 1 else 0) + (if N.ltb 256 e then 1 + groups_with_data idx 256 1 else 0)
  | _ => 0
  end.

(* directory entries a file consumes (CP/M: one per extent window that holds data, at least one) *)
Definition entries_of (pr : params) (idx : list N) : N :=
  if N.eqb (p_extent_slots pr) 0 then 1 else N.max 1 (groups_with_data idx (p_extent_slots pr) 0).

(* ---------- directories ---------- *)
Definition dir_entries (pr : params) (s : st) (d : pathT) : N :=
  fold_left (fun acc e => acc + (if f_isdir (snd e) then 1 else entries_of pr (f_chunks (snd e)))) (children (files s) d) 0.
(* CP/M keeps every user's files in the one directory *)
Definition all_entries (pr : params) (s : st) : N :=
  fold_left (fun acc e => acc + (if f_isdir (snd e) then 0 else entries_of pr (f_chunks (snd e)))) (files s) 0.

Definition dir_capacity (pr : params) (s : st) (d : pathT) : N :=
  match d with
  | [] => p_rootcap pr
  | _ => match lookup (files s) d with
         | Some f => p_sub_first pr + p_sub_more pr * (lenN (f_owned f) - 1)
         | None => 0
         end
  end.

Inductive result := Accepted | Refused.

(* make room for [n] more entries in directory [d]; a full subdirectory grows by one unit *)
Definition ensure_slot (pr : params) (s : st) (d : pathT) (n : N) : option st :=
  let cnt := if N.eqb (p_extent_slots pr) 0 then dir_entries pr s d else all_entries pr s in
  if N.leb (cnt + n) (dir_capacity pr s d) then Some s
  else match d with
       | [] => None
       | _ => match lookup (files s) d, pick_first pr (used s) 1 with
              | Some f, Some bs =>
                  Some (mkst (update_path (files s) d (mkfile true (f_chunks f) (f_owned f ++ bs) (f_locked f))) (bs ++ used s))
              | _, _ => None
              end
       end.

Definition dir_exists (s : st) (d : pathT) : bool :=
  match d with [] => true | _ => match lookup (files s) d with Some f => f_isdir f | None => false end end.

Inductive op :=
| Put (p : pathT) (idx : list N)
| Delete (p : pathT)
| Rename (p : pathT) (n : name)
| Lock (p : pathT)
| Unlock (p : pathT)
| Mkdir (p : pathT).

Definition has_children (s : st) (p : pathT) : bool := match children (files s) p with [] => false | _ => true end.

Definition step (pr : params) (s : st) (o : op) : st * result :=
  match o with
  | Put p idx =>
      let idx' := norm_idx (if p_force0 pr then 0 :: idx else idx) in
      match p, idx with
      | [], _ | _, [] => (s, Refused)
      | _, _ =>
        if negb (dir_exists s (parent p)) then (s, Refused)
        else if match lookup (files s) p with Some _ => true | None => false end then (s, Refused)
        else if andb (negb (p_holes pr)) (negb (dense idx')) then (s, Refused)
        else match ensure_slot pr s (parent p) (entries_of pr idx') with
             | None => (s, Refused)
             | Some s1 =>
                 let need := lenN idx' + meta_units pr idx' in
                 match pick pr (used s1) need with
                 | None => (s1, Refused)
                 | Some bs => (mkst ((p, mkfile false idx' bs false) :: files s1) (bs ++ used s1), Accepted)
                 end
             end
      end
  | Delete p =>
      match lookup (files s) p with
      | None => (s, Refused)
      | Some f =>
          if f_locked f then (s, Refused)
          else if andb (f_isdir f) (has_children s p) then (s, Refused)
          else (mkst (remove_path (files s) p) (filter (fun b => negb (memN b (f_owned f))) (used s)), Accepted)
      end
  | Rename p n =>
      match lookup (files s) p with
      | None => (s, Refused)
      | Some f =>
          let q := parent p ++ [n] in
          if f_locked f then (s, Refused)
          else if f_isdir f then
            (* (nothing can sit below a name that is not there; the model checks the whole subtree so that uniqueness needs no further invariant) *)
            if existsb (fun e => is_prefix q (fst e)) (files s) then (s, Refused)
            else (mkst (move_tree (files s) p q) (used s), Accepted)
          else if match lookup (files s) q with Some _ => true | None => false end then (s, Refused)
          else (mkst ((q, f) :: remove_path (files s) p) (used s), Accepted)
      end
  | Lock p =>
      match lookup (files s) p with
      | Some f => if p_lock pr then (mkst (update_path (files s) p (mkfile (f_isdir f) (f_chunks f) (f_owned f) true)) (used s), Accepted) else (s, Refused)
      | None => (s, Refused)
      end
  | Unlock p =>
      match lookup (files s) p with
      | Some f => if p_lock pr then (mkst (update_path (files s) p (mkfile (f_isdir f) (f_chunks f) (f_owned f) false)) (used s), Accepted) else (s, Refused)
      | None => (s, Refused)
      end
  | Mkdir p =>
      match p with
      | [] => (s, Refused)
      | _ =>
        if negb (p_subdirs pr) then (s, Refused)
        else if negb (dir_exists s (parent p)) then (s, Refused)
        else if match lookup (files s) p with Some _ => true | None => false end then (s, Refused)
        else match ensure_slot pr s (parent p) 1 with
             | None => (s, Refused)
             | Some s1 => match pick_first pr (used s1) 1 with
                          | None => (s1, Refused)
                          | Some bs => (mkst ((p, mkfile true [] bs false) :: files s1) (bs ++ used s1), Accepted)
                          end
             end
      end
  end.

Definition run (pr : params) (s : st) (ops : list op) : st := fold_left (fun s o => fst (step pr s o)) ops s.

(* observations *)
Definition reported_free (pr : params) (s : st) : N := free_count pr (used s).
Definition owned_all (s : st) : list N := flat_map (fun e => f_owned (snd e)) (files s).
