(* Fs/CpmExtentsProofs.v -- the end of file read back from the last directory entry of a CP/M file is the length that was written,
   rounded up to a 128-byte record on CP/M 2 and exact on CP/M 3, for every set of stored chunks and every disk parameter block
   whose pointers per entry split evenly into 16K logical extents. *)
From Coq Require Import Bool.
From A2 Require Import Base.Bytes Fs.CpmExtents.
Open Scope N_scope.

(* ---------- arithmetic of the record count ---------- *)
Lemma rc_total r : 0 < r -> ((r + 127) / 128 - 1) / 128 * 128 + rc_of r = (r + 127) / 128.
Proof.
  intros Hr. unfold rc_of. set (t := (r + 127) / 128).
  assert (Ht : 0 < t) by (unfold t; apply N.div_str_pos; lia).
  clearbody t.
  assert (t = 128 * (t/128) + t mod 128) by (apply N.div_mod; lia).
  assert ((t-1) = 128 * ((t-1)/128) + (t-1) mod 128) by (apply N.div_mod; lia).
  assert ((t-1) mod 128 < 128) by (apply N.mod_lt; lia).
  assert (t mod 128 < 128) by (apply N.mod_lt; lia).
  destruct (N.eqb_spec (t mod 128) 0) as [E|E]; destruct (N.ltb_spec 0 t); cbn [andb]; lia.
Qed.

Lemma rc_range r : 0 < r -> 1 <= rc_of r <= 128.
Proof.
  intros Hr. unfold rc_of. set (t := (r + 127) / 128).
  assert (Ht : 0 < t) by (unfold t; apply N.div_str_pos; lia).
  clearbody t.
  assert (t mod 128 < 128) by (apply N.mod_lt; lia).
  destruct (N.eqb_spec (t mod 128) 0) as [E|E]; destruct (N.ltb_spec 0 t); cbn [andb]; lia.
Qed.

Lemma lx_of_byte S bs j x : S * bs = 16384 -> j * bs <= x -> x < (j + 1) * bs -> x / 16384 = j / S.
Proof.
  intros HS H1 H2.
  assert (bs <> 0) by (intros ->; lia). assert (S <> 0) by (intros ->; lia).
  rewrite <- HS. rewrite (N.mul_comm S bs). rewrite <- N.div_div by assumption.
  f_equal. symmetry. apply N.div_unique with (x - j * bs); nia.
Qed.

Lemma tail_arith E spx bs x j eof :
  E - 1 = spx * x + j -> 0 < E -> j < spx -> (E - 1) * bs < eof -> eof <= E * bs ->
  j * bs < eof - x * (spx * bs) /\ eof - x * (spx * bs) <= (j + 1) * bs /\ eof - x * (spx * bs) <= spx * bs /\ eof = x * (spx * bs) + (eof - x * (spx * bs)).
Proof.
  intros Hx HE Hj Hlo Hhi.
  assert (H1 : (E - 1) * bs = x * (spx * bs) + j * bs) by (rewrite Hx; ring).
  assert (H2 : E * bs = x * (spx * bs) + j * bs + bs).
  { replace E with (E - 1 + 1) by lia. rewrite Hx. ring. }
  assert (H3 : (j + 1) * bs = j * bs + bs) by ring.
  assert (H4 : (j + 1) * bs <= spx * bs) by (apply N.mul_le_mono_r; lia).
  rewrite H1 in Hlo. rewrite H2 in Hhi. rewrite H3 in *.
  generalize dependent (x * (spx * bs)). generalize dependent (j * bs). generalize dependent (spx * bs).
  intros. lia.
Qed.

Lemma rc_lx S bs j r : S * bs = 16384 -> j * bs < r -> r <= (j + 1) * bs -> j / S * 128 + rc_of r = (r + 127) / 128.
Proof.
  intros HS H1 H2. assert (Hr0 : 0 < r) by lia.
  pose proof (rc_total r Hr0) as Hrc.
  assert (Ht : (r + 127) / 128 - 1 = (r - 1) / 128).
  { apply N.div_unique with ((r - 1) mod 128); [apply N.mod_lt; lia|].
    assert (r + 127 = 128 * ((r + 127) / 128) + (r + 127) mod 128) by (apply N.div_mod; lia).
    assert (r - 1 = 128 * ((r - 1) / 128) + (r - 1) mod 128) by (apply N.div_mod; lia).
    assert ((r + 127) mod 128 < 128) by (apply N.mod_lt; lia).
    assert ((r - 1) mod 128 < 128) by (apply N.mod_lt; lia).
    lia. }
  assert (Hq : ((r + 127) / 128 - 1) / 128 = j / S).
  { rewrite Ht, N.div_div by lia. change (128 * 128) with 16384. apply (lx_of_byte S bs); [exact HS| |]; lia. }
  rewrite Hq in Hrc. exact Hrc.
Qed.

Lemma eof_v2 S bs j r : S * bs = 16384 -> j * bs < r -> r <= (j + 1) * bs ->
  j / S * 16384 + (rc_of r - 1) * 128 + 128 = (r + 127) / 128 * 128.
Proof.
  intros HS H1 H2. pose proof (rc_lx S bs j r HS H1 H2) as H. assert (Hr0 : 0 < r) by lia. pose proof (rc_range r Hr0) as Hr.
  rewrite <- H. generalize dependent (rc_of r). generalize (j / S). intros. lia.
Qed.

Lemma eof_v3 S bs j r : S * bs = 16384 -> j * bs < r -> r <= (j + 1) * bs ->
  j / S * 16384 + (rc_of r - 1) * 128 + (if r mod 128 =? 0 then 128 else r mod 128) = r.
Proof.
  intros HS H1 H2. pose proof (rc_lx S bs j r HS H1 H2) as H. assert (Hr0 : 0 < r) by lia. pose proof (rc_range r Hr0) as Hr.
  assert (Hm : r = 128 * (r / 128) + r mod 128) by (apply N.div_mod; lia).
  assert (Hm2 : r mod 128 < 128) by (apply N.mod_lt; lia).
  assert (Hm3 : r + 127 = 128 * ((r + 127) / 128) + (r + 127) mod 128) by (apply N.div_mod; lia).
  assert (Hm4 : (r + 127) mod 128 < 128) by (apply N.mod_lt; lia).
  generalize dependent (rc_of r). generalize dependent (j / S). generalize dependent ((r + 127) / 128). generalize dependent ((r + 127) mod 128).
  generalize dependent (r / 128). generalize dependent (r mod 128).
  intros m q Hm Hm2 m' Hm4 t Hm3 d c Hc Hcr.
  destruct (N.eqb_spec m 0); lia.
Qed.

Lemma div_shift c k r : c = 128 * k -> (c + r + 127) / 128 * 128 = c + (r + 127) / 128 * 128.
Proof.
  intros ->. replace (128 * k + r + 127) with (k * 128 + (r + 127)) by lia. rewrite N.div_add_l by lia. lia.
Qed.

(* ---------- the chunk set ---------- *)
Lemma c_present_In cs i : c_present cs i = true <-> In i cs.
Proof.
  unfold c_present. rewrite existsb_exists. split.
  - intros [x [Hx E]]. apply N.eqb_eq in E. subst. exact Hx.
  - intros H. exists i. split; [exact H | apply N.eqb_refl].
Qed.

Lemma fold_max_ge cs m : m <= fold_left (fun m i => N.max m (i + 1)) cs m.
Proof. revert m. induction cs as [|c cs IH]; intros m; cbn [fold_left]; [lia|]. specialize (IH (N.max m (c + 1))). lia. Qed.

Lemma fold_max_bound cs m i : In i cs -> i + 1 <= fold_left (fun m i => N.max m (i + 1)) cs m.
Proof.
  revert m. induction cs as [|c cs IH]; intros m H; [destruct H|]. cbn [fold_left]. destruct H as [->|H].
  - pose proof (fold_max_ge cs (N.max m (i + 1))). lia.
  - apply IH, H.
Qed.

Lemma fold_max_attained cs m : let r := fold_left (fun m i => N.max m (i + 1)) cs m in r = m \/ (0 < r /\ In (r - 1) cs).
Proof.
  revert m. induction cs as [|c cs IH]; intros m; cbn [fold_left]; [left; reflexivity|].
  destruct (IH (N.max m (c + 1))) as [E|[Hp Hi]].
  - rewrite E. destruct (N.max_spec m (c + 1)) as [[_ ->]|[_ ->]].
    + right. split; [lia|]. left. lia.
    + left. reflexivity.
  - right. split; [exact Hp | right; exact Hi].
Qed.

Lemma c_end_bound cs i : In i cs -> i < c_end cs.
Proof. intros H. pose proof (fold_max_bound cs 0 i H). unfold c_end. lia. Qed.

Lemma c_end_last cs : cs <> [] -> 0 < c_end cs /\ In (c_end cs - 1) cs.
Proof.
  intros Hne. unfold c_end. destruct (fold_max_attained cs 0) as [E|H]; [|exact H].
  destruct cs as [|c cs]; [contradiction|]. pose proof (fold_max_bound (c :: cs) 0 c (or_introl eq_refl)). lia.
Qed.

(* ---------- a fold that keeps the largest of the marked values ---------- *)
Section FoldMax.
  Variable P : N -> bool.
  Variable g : N -> N.
  Let f := fun m c => if P c then N.max m (g c) else m.

  Lemma fm_ge l m : m <= fold_left f l m.
  Proof. revert m. induction l as [|c l IH]; intros m; cbn [fold_left]; [lia|]. specialize (IH (f m c)). unfold f in *. destruct (P c); lia. Qed.

  Lemma fm_lower l m c : In c l -> P c = true -> g c <= fold_left f l m.
  Proof.
    revert m. induction l as [|d l IH]; intros m H Hp; [destruct H|]. cbn [fold_left]. destruct H as [->|H].
    - pose proof (fm_ge l (f m c)). unfold f in *. rewrite Hp in *. lia.
    - apply IH; assumption.
  Qed.

  Lemma fm_upper l m b : m <= b -> (forall c, In c l -> P c = true -> g c <= b) -> fold_left f l m <= b.
  Proof.
    revert m. induction l as [|d l IH]; intros m Hm H; cbn [fold_left]; [exact Hm|]. apply IH.
    - unfold f. destruct (P d) eqn:Hp; [|exact Hm]. specialize (H d (or_introl eq_refl) Hp). lia.
    - intros c Hc. apply H. right. exact Hc.
  Qed.
End FoldMax.

(* ---------- the last entry ---------- *)
Lemma last_of_filtered {A} (f : N -> bool) (g : N -> A) (n : nat) :
  f (N.of_nat n) = true ->
  rev (map g (filter f (map N.of_nat (seq 0 (S n))))) = g (N.of_nat n) :: rev (map g (filter f (map N.of_nat (seq 0 n)))).
Proof.
  intros Hf. rewrite seq_S, map_app, filter_app, map_app, rev_app_distr. cbn [plus map filter]. rewrite Hf. reflexivity.
Qed.

Record wf (p : cpm) : Prop := {
  wf_spx : lx_per_x p * slots_per_lx p = c_spx p;
  wf_lx : slots_per_lx p * c_bs p = 16384;
}.

Lemma slots_of_In p x c : In c (slots_of p x) <-> x * c_spx p <= c < x * c_spx p + c_spx p.
Proof.
  unfold slots_of. rewrite in_map_iff. split.
  - intros [j [<- Hj]]. apply in_seq in Hj. lia.
  - intros H. exists (N.to_nat (c - x * c_spx p)). split; [lia|]. apply in_seq. lia.
Qed.

Lemma cpm_entries_nonempty p cs free eof : cs <> [] ->
  cpm_entries p cs free eof =
  map (entry_of p cs free eof ((c_end cs + c_spx p - 1) / c_spx p))
      (filter (fun x => existsb (c_present cs) (slots_of p x)) (map N.of_nat (seq 0 (N.to_nat ((c_end cs + c_spx p - 1) / c_spx p))))).
Proof. intros H. destruct cs; [contradiction | reflexivity]. Qed.

Theorem cpm_eof_correct p cs free eof :
  wf p -> cs <> [] -> (c_end cs - 1) * c_bs p < eof -> eof <= c_end cs * c_bs p ->
  cpm_eof (cpm_entries p cs free eof) = if c_v3 p then eof else (eof + 127) / 128 * 128.
Proof.
  intros [Hspx Hlx] Hne Hlo Hhi.
  rewrite (cpm_entries_nonempty p cs free eof Hne).
  destruct (c_end_last cs Hne) as [Hpos Hlast].
  set (E := c_end cs) in *. set (spx := c_spx p) in *. set (S := slots_per_lx p) in *. set (L := lx_per_x p) in *. set (bs := c_bs p) in *.
  assert (HS0 : S <> 0) by (intros Z; rewrite Z in Hlx; lia).
  assert (Hbs0 : bs <> 0) by (intros Z; rewrite Z in Hlx; lia).
  assert (HL0 : L <> 0) by (unfold L, lx_per_x; lia).
  assert (Hspx0 : spx <> 0) by (rewrite <- Hspx; nia).
  set (x := (E - 1) / spx).
  assert (Hx : E - 1 = spx * x + (E - 1) mod spx) by (apply N.div_mod; exact Hspx0).
  assert (Hxm : (E - 1) mod spx < spx) by (apply N.mod_lt; exact Hspx0).
  set (j := (E - 1) mod spx) in *.
  assert (Hnx : (E + spx - 1) / spx = x + 1).
  { symmetry. apply N.div_unique with j; lia. }
  rewrite Hnx.
  replace (N.to_nat (x + 1)) with (Datatypes.S (N.to_nat x)) by lia.
  unfold cpm_eof. rewrite last_of_filtered.
  2:{ rewrite N2Nat.id. apply existsb_exists. exists (E - 1). split.
      - apply slots_of_In. fold spx. lia.
      - apply c_present_In. exact Hlast. }
  rewrite N2Nat.id.
  (* the last entry *)
  unfold entry_of. cbn [e_idx e_rc e_lb]. rewrite N.eqb_refl. fold spx L S.
  set (used := fold_left _ (slots_of p x) 0).
  assert (Hused : used = j / S + 1).
  { apply N.le_antisymm.
    - apply fm_upper; [apply N.le_0_l|]. intros c Hc Hp. apply c_present_In, c_end_bound in Hp. fold E in Hp.
      apply slots_of_In in Hc. fold spx in Hc.
      apply N.add_le_mono_r. apply N.div_le_mono; [exact HS0|]. lia.
    - replace j with (E - 1 - x * spx) by lia.
      apply (fm_lower (c_present cs) (fun c => (c - x * spx) / S + 1)).
      + apply slots_of_In. fold spx. lia.
      + apply c_present_In. exact Hlast. }
  rewrite Hused. clear used Hused.
  (* the byte count of the last entry *)
  assert (Hcap : cap p = spx * bs) by (unfold cap; fold L; rewrite <- Hspx, <- Hlx; lia).
  rewrite Hcap.
  assert (Hcap0 : spx * bs <> 0) by (apply N.neq_mul_0; split; assumption).
  destruct (tail_arith E spx bs x j eof Hx Hpos Hxm Hlo Hhi) as [Hr1 [Hr2 [Hr3 Heof]]].
  set (r := eof - x * (spx * bs)) in *. clearbody r.
  assert (H0eof : (0 <? eof) = true) by (apply N.ltb_lt; lia).
  rewrite H0eof, !andb_true_r. cbn [negb andb orb].
  set (bytes := if eof mod (spx * bs) =? 0 then spx * bs else eof mod (spx * bs)).
  assert (Hbytes : bytes = r).
  { unfold bytes. destruct (N.eq_dec r (spx * bs)) as [Er|Er].
    - assert (eof mod (spx * bs) = 0) as ->.
      { rewrite Heof, Er. replace (x * (spx * bs) + spx * bs) with ((x + 1) * (spx * bs)) by lia. apply N.mod_mul. exact Hcap0. }
      rewrite N.eqb_refl. symmetry. exact Er.
    - assert (eof mod (spx * bs) = r) as ->.
      { symmetry. apply N.mod_unique with x; lia. }
      destruct (N.eqb_spec r 0); [lia|reflexivity]. }
  rewrite Hbytes. clear bytes Hbytes.
  (* the record count *)
  assert (Hr0 : 0 < r) by lia. pose proof (rc_range r Hr0) as Hrr.
  destruct (N.eqb_spec (rc_of r) 0) as [Z|_]; [lia|].
  replace (if rc_of r <? 128 then rc_of r - 1 else 127) with (rc_of r - 1) by (destruct (N.ltb_spec (rc_of r) 128); lia).
  assert (Hidx : (x * L + (j / S + 1) - 1) * 16384 = x * (spx * bs) + j / S * 16384).
  { rewrite (N.add_assoc (x * L)), N.add_sub.
    rewrite N.mul_add_distr_r. f_equal. rewrite <- Hspx, <- Hlx. ring. }
  rewrite Hidx, <- !N.add_assoc. unfold lb_of. destruct (c_v3 p).
  - rewrite Heof. f_equal. rewrite !N.add_assoc. apply (eof_v3 S bs); assumption.
  - cbn [N.eqb]. rewrite Heof. rewrite (div_shift (x * (spx * bs)) (x * (L * 128)) r).
    + f_equal. rewrite !N.add_assoc. apply (eof_v2 S bs); assumption.
    + rewrite <- Hspx. replace (L * S * bs) with (L * (S * bs)) by ring. rewrite Hlx. ring.
Qed.


(* ---------- reading the entries back ---------- *)
Definition here_of (p : cpm) (cs free : list N) (x : N) : list (N * N) :=
  map (fun c => (c, c_block_of cs free c)) (filter (c_present cs) (slots_of p x)).

Lemma combine_seq_map {A} (g : nat -> A) n : forall a, combine (seq a n) (map g (seq a n)) = map (fun j => (j, g j)) (seq a n).
Proof. induction n as [|n IH]; intros a; cbn [seq map combine]; [reflexivity|]. rewrite IH. reflexivity. Qed.

Lemma flat_map_map {A B C} (f : B -> list C) (k : A -> B) l : flat_map f (map k l) = flat_map (fun a => f (k a)) l.
Proof. induction l as [|a l IH]; cbn [map flat_map]; [reflexivity|]. rewrite IH. reflexivity. Qed.

Section ReadBack.
  Variable p : cpm.
  Variables cs free : list N.
  Variable eof : N.
  Hypothesis Hwf : wf p.
  Hypothesis Hnz : forall c, c_present cs c = true -> c_block_of cs free c <> 0.
  Let spx := c_spx p.
  Let L := lx_per_x p.
  Let S := slots_per_lx p.
  Let nx := (c_end cs + c_spx p - 1) / c_spx p.

  (* what one entry contributes when it is read with its window starting at chunk x * spx *)
  Lemma here_spec x :
    let ptrs := e_ptrs (entry_of p cs free eof nx x) in
    flat_map (fun jp : nat * N => if snd jp =? 0 then [] else [(x * spx + N.of_nat (fst jp), snd jp)]) (combine (seq 0 (length ptrs)) ptrs)
    = here_of p cs free x.
  Proof.
    unfold entry_of. cbn [e_ptrs]. unfold here_of, slots_of. fold spx.
    rewrite !map_length, seq_length, map_map, combine_seq_map, flat_map_map. cbn [fst snd].
    induction (seq 0 (N.to_nat spx)) as [|j l IH]; cbn [flat_map map filter]; [reflexivity|].
    rewrite IH. destruct (c_present cs (x * spx + N.of_nat j)) eqn:Ep.
    - destruct (N.eqb_spec (c_block_of cs free (x * spx + N.of_nat j)) 0) as [Z|_]; [exfalso; exact (Hnz _ Ep Z)|]. reflexivity.
    - reflexivity.
  Qed.

  Lemma ptrs_length x : lenN (e_ptrs (entry_of p cs free eof nx x)) = spx.
  Proof. unfold entry_of. cbn [e_ptrs]. unfold lenN, slots_of. rewrite !map_length, seq_length. apply N2Nat.id. Qed.

  (* the extent number of an entry: window x, and how many of its logical extents count *)
  Definition used_of (x : N) : N :=
    fold_left (fun m c => if c_present cs c then N.max m ((c - x * c_spx p) / slots_per_lx p + 1) else m) (slots_of p x) 0.
  Lemma idx_of x : e_idx (entry_of p cs free eof nx x) = x * L + (if x + 1 =? nx then used_of x else L) - 1.
  Proof. reflexivity. Qed.

  Lemma used_range x : existsb (c_present cs) (slots_of p x) = true -> 1 <= used_of x <= L.
  Proof.
    destruct Hwf as [Hspx Hlx]. fold L S spx in Hspx. fold S in Hlx.
    assert (HS0 : S <> 0) by (intros Z; rewrite Z in Hlx; lia).
    intros H. apply existsb_exists in H. destruct H as [c [Hc Hp]]. split.
    - apply N.le_trans with ((c - x * c_spx p) / slots_per_lx p + 1); [apply N.le_add_l|].
      apply (fm_lower (c_present cs) (fun c => (c - x * c_spx p) / slots_per_lx p + 1)); assumption.
    - apply fm_upper; [apply N.le_0_l|]. intros d Hd _. apply slots_of_In in Hd. fold spx S in Hd |- *.
      assert ((d - x * spx) / S < L); [|lia].
      apply N.div_lt_upper_bound; [exact HS0|]. rewrite (N.mul_comm S L), Hspx. lia.
  Qed.

  Fixpoint rising (k : N) (xs : list N) : Prop :=
    match xs with [] => True | x :: r => k <= x /\ x < nx /\ existsb (c_present cs) (slots_of p x) = true /\ rising (x + 1) r end.

  Lemma read_entries_spec xs : forall k, rising k xs ->
    read_entries p (map (entry_of p cs free eof nx) xs) (k * L) (k * spx) = Some (flat_map (here_of p cs free) xs).
  Proof.
    destruct Hwf as [Hspx Hlx]. fold L S spx in Hspx. fold S in Hlx.
    assert (HL0 : L <> 0) by (unfold L, lx_per_x; lia).
    assert (Hbs0 : c_bs p <> 0) by (intros Z; rewrite Z in Hlx; lia).
    induction xs as [|x r IH]; intros k Hr; [reflexivity|].
    destruct Hr as [Hk [Hx [Hex Hr]]].
    cbn [map read_entries flat_map].
    pose proof (used_range x Hex) as Hu.
    set (u := if x + 1 =? nx then used_of x else L).
    assert (Hu' : 1 <= u <= L) by (unfold u; destruct (x + 1 =? nx); lia).
    rewrite idx_of. fold u. fold L.
    assert (Hmod : (x * L + u - 1) mod L = u - 1).
    { symmetry. apply N.mod_unique with x; lia. }
    rewrite Hmod.
    assert (Hlow : x * L + u - 1 - (u - 1) = x * L) by lia.
    rewrite Hlow.
    assert (Hkx : k * L <= x * L) by (apply N.mul_le_mono_r; exact Hk).
    assert (Hc1 : (x * L + u - 1 + 1 =? k * L) = false) by (apply N.eqb_neq; lia).
    assert (Hc2 : (x * L <? k * L) = false) by (apply N.ltb_ge; exact Hkx).
    rewrite Hc1, Hc2. cbn [orb].
    assert (Hbase : k * spx + (x * L - k * L) * 16384 / c_bs p = x * spx).
    { rewrite <- N.mul_sub_distr_r. rewrite <- Hlx.
      replace ((x - k) * L * (S * c_bs p)) with ((x - k) * L * S * c_bs p) by ring.
      rewrite N.div_mul by exact Hbs0. rewrite <- N.mul_assoc, Hspx. rewrite N.mul_sub_distr_r. 
      assert (k * spx <= x * spx) by (apply N.mul_le_mono_r; exact Hk). lia. }
    rewrite Hbase. rewrite here_spec. rewrite ptrs_length.
    destruct r as [|y r'].
    - cbn [map read_entries flat_map]. reflexivity.
    - assert (Hy : x + 1 <= y /\ y < nx) by (destruct Hr as [A [B _]]; split; assumption).
      assert (Hul : u = L). { unfold u. destruct (N.eqb_spec (x + 1) nx); [lia|reflexivity]. }
      replace (x * L + u - 1 + 1) with ((x + 1) * L) by (rewrite Hul; lia).
      replace (x * spx + spx) with ((x + 1) * spx) by lia.
      rewrite (IH (x + 1) Hr). reflexivity.
  Qed.

  (* the windows that are written are exactly those with data, in ascending order *)
  Lemma rising_filter n : forall k, (k + N.of_nat n <= nx) ->
    rising k (filter (fun x => existsb (c_present cs) (slots_of p x)) (map N.of_nat (seq (N.to_nat k) n))).
  Proof.
    induction n as [|n IH]; intros k Hk; cbn [seq map filter]; [exact I|].
    rewrite N2Nat.id.
    assert (Hrest : forall k', k' <= k + 1 -> rising k' (filter (fun x => existsb (c_present cs) (slots_of p x)) (map N.of_nat (seq (Datatypes.S (N.to_nat k)) n)))).
    { intros k' Hk'. replace (Datatypes.S (N.to_nat k)) with (N.to_nat (k + 1)) by lia.
      specialize (IH (k + 1) ltac:(lia)). revert IH.
      generalize (filter (fun x => existsb (c_present cs) (slots_of p x)) (map N.of_nat (seq (N.to_nat (k + 1)) n))).
      intros l. destruct l as [|y l]; [intros _; exact I|]. cbn [rising]. intros [A B]. split; [lia | exact B]. }
    destruct (existsb (c_present cs) (slots_of p k)) eqn:Ex.
    - cbn [rising]. split; [lia|]. split; [lia|]. split; [exact Ex|]. apply Hrest. lia.
    - apply Hrest. lia.
  Qed.

  Lemma filter_none {A} (f : A -> bool) l : existsb f l = false -> filter f l = [].
  Proof. induction l as [|a l IH]; cbn; [reflexivity|]. destruct (f a); [discriminate|]. exact IH. Qed.

  Lemma flat_map_filter_skip {A B} (F : A -> list B) (P : A -> bool) l : (forall a, P a = false -> F a = []) -> flat_map F (filter P l) = flat_map F l.
  Proof.
    intros H. induction l as [|a l IH]; cbn [filter flat_map]; [reflexivity|].
    destruct (P a) eqn:E; cbn [flat_map]; rewrite IH; [reflexivity | rewrite (H a E); reflexivity].
  Qed.

  Lemma flat_map_map_filter {A B C} (g : B -> C) (f : B -> bool) (k : A -> list B) l :
    flat_map (fun a => map g (filter f (k a))) l = map g (filter f (flat_map k l)).
  Proof. induction l as [|a l IH]; cbn [flat_map]; [reflexivity|]. rewrite IH, filter_app, map_app. reflexivity. Qed.

  (* what get reads is what was stored: every stored chunk, in ascending order, with the block it was given *)
  Theorem cpm_read_correct : cs <> [] ->
    cpm_read p (cpm_entries p cs free eof)
    = Some (map (fun c => (c, c_block_of cs free c)) (filter (c_present cs) (flat_map (slots_of p) (map N.of_nat (seq 0 (N.to_nat nx)))))).
  Proof.
    intros Hne. rewrite (cpm_entries_nonempty p cs free eof Hne). fold nx. unfold cpm_read.
    pose proof (read_entries_spec _ 0 (rising_filter (N.to_nat nx) 0 ltac:(lia))) as H.
    rewrite !N.mul_0_l in H. change (N.to_nat 0) with 0%nat in H. rewrite H. f_equal.
    rewrite flat_map_filter_skip.
    - unfold here_of. apply flat_map_map_filter.
    - intros x Hx. unfold here_of. rewrite (filter_none _ _ Hx). reflexivity.
  Qed.

  (* every stored chunk, and nothing else, is among them *)
  Corollary cpm_read_members : cs <> [] -> exists l, cpm_read p (cpm_entries p cs free eof) = Some l /\
    forall c b, In (c, b) l <-> (c_present cs c = true /\ b = c_block_of cs free c).
  Proof.
    intros Hne. eexists. split; [apply (cpm_read_correct Hne)|]. intros c b.
    destruct Hwf as [Hspx Hlx]. fold L S spx in Hspx. fold S in Hlx.
    assert (Hspx0 : spx <> 0). { intros Z. rewrite Z in Hspx. apply N.eq_mul_0 in Hspx. destruct Hspx as [Z1|Z1]; [unfold L, lx_per_x in Z1; lia | fold S in Z1; rewrite Z1 in Hlx; lia]. }
    rewrite in_map_iff. split.
    - intros [c' [E Hin]]. inversion E; subst. apply filter_In in Hin. split; [apply Hin | reflexivity].
    - intros [Hp ->]. exists c. split; [reflexivity|]. apply filter_In. split; [|exact Hp].
      apply in_flat_map. exists (c / spx). 
      assert (Hc : c < c_end cs) by (apply c_end_bound, c_present_In, Hp).
      assert (Hd : c = spx * (c / spx) + c mod spx) by (apply N.div_mod; exact Hspx0).
      assert (Hm : c mod spx < spx) by (apply N.mod_lt; exact Hspx0).
      split.
      + apply in_map_iff. exists (N.to_nat (c / spx)). split; [apply N2Nat.id|]. apply in_seq.
        assert (Hq : c / spx < nx); [|generalize dependent (c / spx); generalize nx; intros; lia]. unfold nx. fold spx.
        apply N.div_lt_upper_bound; [exact Hspx0|].
        assert (Hn : c_end cs + spx - 1 = spx * ((c_end cs + spx - 1) / spx) + (c_end cs + spx - 1) mod spx) by (apply N.div_mod; exact Hspx0).
        assert (Hn2 : (c_end cs + spx - 1) mod spx < spx) by (apply N.mod_lt; exact Hspx0).
        lia.
      + apply slots_of_In. fold spx. lia.
  Qed.
End ReadBack.

Example cpm_example :
  let p := {| c_exm := 1; c_bs := 2048; c_spx := 16; c_v3 := false |} in
  wf p /\ cpm_eof (cpm_entries p [0; 1; 17] [5; 6; 7] 35000) = 35072
  /\ cpm_read p (cpm_entries p [0; 1; 17] [5; 6; 7] 35000) = Some [(0, 5); (1, 6); (17, 7)]
  /\ length (cpm_entries p [0; 1; 17] [5; 6; 7] 35000) = 2%nat.
Proof. split; [split; reflexivity | vm_compute; repeat split; reflexivity]. Qed.
