(* Fs/SpecProofs.v -- proofs about the file-system state machine of Fs/Spec.v, for every parameter record
   (hence for all five file systems and every volume geometry) and every operation history. *)
From A2 Require Import Base.Bytes Fs.Spec.
From Coq Require Import ZArith ZifyBool ZifyNat ZifyN.
Open Scope N_scope.

(* ---------- equality helpers ---------- *)
Lemma name_eqb_refl a : name_eqb a a = true.
Proof. induction a as [|x r IH]; cbn; [reflexivity|]. rewrite N.eqb_refl. exact IH. Qed.
Lemma name_eqb_eq a : forall b, name_eqb a b = true -> a = b.
Proof.
  induction a as [|x r IH]; intros [|y q]; cbn; try discriminate; auto.
  intros H. apply andb_true_iff in H. destruct H as [H1 H2]. apply N.eqb_eq in H1. subst. f_equal. apply IH, H2.
Qed.
Lemma path_eqb_refl a : path_eqb a a = true.
Proof. induction a as [|x r IH]; cbn; [reflexivity|]. rewrite name_eqb_refl. exact IH. Qed.
Lemma path_eqb_eq a : forall b, path_eqb a b = true -> a = b.
Proof.
  induction a as [|x r IH]; intros [|y q]; cbn; try discriminate; auto.
  intros H. apply andb_true_iff in H. destruct H as [H1 H2]. apply name_eqb_eq in H1. subst. f_equal. apply IH, H2.
Qed.
Lemma path_eqb_sym a b : path_eqb a b = path_eqb b a.
Proof.
  destruct (path_eqb a b) eqn:E.
  - apply path_eqb_eq in E. subst. symmetry. apply path_eqb_refl.
  - destruct (path_eqb b a) eqn:E2; [|reflexivity]. apply path_eqb_eq in E2. subst. rewrite path_eqb_refl in E. discriminate.
Qed.
Lemma memN_In x l : memN x l = true <-> In x l.
Proof.
  unfold memN. rewrite existsb_exists. split.
  - intros [y [Hy E]]. apply N.eqb_eq in E. subst. exact Hy.
  - intros H. exists x. split; [exact H | apply N.eqb_refl].
Qed.
Lemma memN_false x l : memN x l = false <-> ~ In x l.
Proof.
  split; intros H.
  - intros Hi. apply memN_In in Hi. congruence.
  - destruct (memN x l) eqn:E; [|reflexivity]. exfalso. apply H. apply memN_In. exact E.
Qed.

(* ---------- lookup / remove / update ---------- *)
Lemma lookup_remove_same fs p : lookup (remove_path fs p) p = None.
Proof.
  induction fs as [|[q f] r IH]; cbn; [reflexivity|].
  destruct (path_eqb q p) eqn:E; [exact IH|]. cbn. rewrite E. exact IH.
Qed.
Lemma lookup_remove_other fs p q : path_eqb p q = false -> lookup (remove_path fs p) q = lookup fs q.
Proof.
  intros H. induction fs as [|[r f] t IH]; cbn; [reflexivity|].
  destruct (path_eqb r p) eqn:E.
  - apply path_eqb_eq in E. subst. rewrite H. exact IH.
  - cbn. destruct (path_eqb r q); [reflexivity | exact IH].
Qed.
Lemma lookup_update_same fs p g : lookup fs p <> None -> lookup (update_path fs p g) p = Some g.
Proof.
  induction fs as [|[q f] r IH]; cbn; intros H; [congruence|].
  destruct (path_eqb q p) eqn:E; cbn; rewrite E; [reflexivity | apply IH, H].
Qed.
Lemma lookup_update_other fs p q g : path_eqb p q = false -> lookup (update_path fs p g) q = lookup fs q.
Proof.
  intros H. induction fs as [|[r f] t IH]; cbn; [reflexivity|].
  destruct (path_eqb r p) eqn:E; cbn.
  - apply path_eqb_eq in E. subst. rewrite H. exact IH.
  - destruct (path_eqb r q); [reflexivity | exact IH].
Qed.

(* ---------- renaming a directory: the subtree moves ---------- *)
Lemma is_prefix_refl p : is_prefix p p = true.
Proof. induction p as [|x p IH]; cbn; [reflexivity|]. rewrite name_eqb_refl. exact IH. Qed.
Lemma is_prefix_app q t : is_prefix q (q ++ t) = true.
Proof. induction q as [|x q IH]; cbn; [reflexivity|]. rewrite name_eqb_refl. exact IH. Qed.
Lemma is_prefix_split p : forall r, is_prefix p r = true -> r = p ++ skipn (length p) r.
Proof.
  induction p as [|x p IH]; intros r H; [reflexivity|]. destruct r as [|y r]; [discriminate|]. cbn in H.
  apply andb_true_iff in H. destruct H as [Hn Hp]. apply name_eqb_eq in Hn. subst. cbn. f_equal. apply IH, Hp.
Qed.
Lemma path_eqb_app q s t : path_eqb (q ++ s) (q ++ t) = path_eqb s t.
Proof. induction q as [|x q IH]; cbn; [reflexivity|]. rewrite name_eqb_refl. exact IH. Qed.
Lemma path_eqb_neq a b : a <> b -> path_eqb a b = false.
Proof. intros H. destruct (path_eqb a b) eqn:E; [|reflexivity]. apply path_eqb_eq in E. contradiction. Qed.

(* a path outside both the old and the new subtree is looked up as before *)
Lemma rebase_outside p q a r : is_prefix p r = false -> is_prefix q r = false -> path_eqb (rebase p q a) r = path_eqb a r.
Proof.
  intros Hp Hq. unfold rebase. destruct (is_prefix p a) eqn:Ea; [|reflexivity].
  rewrite (path_eqb_neq a r) by (intros ->; congruence).
  apply path_eqb_neq. intros E. rewrite <- E, is_prefix_app in Hq. discriminate.
Qed.
Lemma lookup_move_outside fs p q r : is_prefix p r = false -> is_prefix q r = false -> lookup (move_tree fs p q) r = lookup fs r.
Proof.
  intros Hp Hq. induction fs as [|[a f] t IH]; cbn; [reflexivity|].
  rewrite (rebase_outside p q a r Hp Hq). destruct (path_eqb a r); [reflexivity | exact IH].
Qed.
(* and what was at p ++ t is found at q ++ t, when nothing was below q before *)
Lemma lookup_move_inside fs p q t : (forall e, In e fs -> is_prefix q (fst e) = false) ->
  lookup (move_tree fs p q) (q ++ t) = lookup fs (p ++ t).
Proof.
  intros Hno. induction fs as [|[a f] r IH]; cbn; [reflexivity|].
  assert (Ha : is_prefix q a = false) by (apply (Hno (a, f)); left; reflexivity).
  assert (E : path_eqb (rebase p q a) (q ++ t) = path_eqb a (p ++ t)).
  { unfold rebase. destruct (is_prefix p a) eqn:Ea.
    - rewrite (is_prefix_split p a Ea) at 2. rewrite !path_eqb_app. reflexivity.
    - rewrite (path_eqb_neq a (q ++ t)) by (intros ->; rewrite is_prefix_app in Ha; discriminate).
      rewrite (path_eqb_neq a (p ++ t)) by (intros ->; rewrite is_prefix_app in Ea; discriminate). reflexivity. }
  rewrite E. destruct (path_eqb a (p ++ t)); [reflexivity|]. apply IH. intros e He. apply Hno. right. exact He.
Qed.
Lemma existsb_prefix_false fs q : existsb (fun e => is_prefix q (fst e)) fs = false -> forall e : pathT * file, In e fs -> is_prefix q (fst e) = false.
Proof.
  intros H e He. destruct (is_prefix q (fst e)) eqn:E; [|reflexivity].
  assert (X : existsb (fun e => is_prefix q (fst e)) fs = true) by (apply existsb_exists; exists e; split; assumption). congruence.
Qed.
Lemma lookup_some_prefix fs q : lookup fs q <> None -> existsb (fun e : pathT * file => is_prefix q (fst e)) fs = true.
Proof.
  induction fs as [|[a f] r IH]; cbn; [congruence|]. destruct (path_eqb a q) eqn:E.
  - intros _. apply path_eqb_eq in E. subst. rewrite is_prefix_refl. reflexivity.
  - intros H. rewrite (IH H). apply orb_true_r.
Qed.

(* what a user can observe of a file through get / catalog *)
Definition view (f : file) : bool * list N * bool := (f_isdir f, f_chunks f, f_locked f).
Definition vlookup (s : st) (q : pathT) : option (bool * list N * bool) := option_map view (lookup (files s) q).

Lemma vlookup_update_dir s d f bs q :
  lookup (files s) d = Some f ->
  vlookup (mkst (update_path (files s) d (mkfile true (f_chunks f) (f_owned f ++ bs) (f_locked f))) (bs ++ used s)) q
  = (if path_eqb d q then Some (true, f_chunks f, f_locked f) else vlookup s q).
Proof.
  intros Hl. unfold vlookup. cbn [files].
  destruct (path_eqb d q) eqn:E.
  - apply path_eqb_eq in E. subst. rewrite lookup_update_same by congruence. reflexivity.
  - rewrite lookup_update_other by exact E. reflexivity.
Qed.

(* ensure_slot never changes what is observable, except that it keeps the directory a directory *)
Lemma ensure_slot_view pr s d n s1 : ensure_slot pr s d n = Some s1 -> dir_exists s d = true ->
  forall q, vlookup s1 q = vlookup s q.
Proof.
  unfold ensure_slot. intros H Hd q.
  destruct (N.leb _ _); [inversion H; reflexivity|].
  destruct d as [|x d']; [discriminate|].
  destruct (lookup (files s) (x :: d')) as [f|] eqn:El; [|discriminate].
  destruct (pick_first pr (used s) 1) as [bs|]; [|discriminate].
  inversion H; subst; clear H. rewrite (vlookup_update_dir s (x :: d') f bs q El).
  destruct (path_eqb (x :: d') q) eqn:E; [|reflexivity].
  apply path_eqb_eq in E. subst. unfold vlookup. rewrite El. cbn. unfold view.
  unfold dir_exists in Hd. rewrite El in Hd. rewrite Hd. reflexivity.
Qed.

(* ---------- C05 / C02 at the level of observations ---------- *)
Definition target (o : op) : pathT :=
  match o with Put p _ | Delete p | Rename p _ | Lock p | Unlock p | Mkdir p => p end.

(* a refused operation changes nothing a user can observe *)
Theorem refused_unchanged pr s o : snd (step pr s o) = Refused -> forall q, vlookup (fst (step pr s o)) q = vlookup s q.
Proof.
  intros Hr q. destruct o as [p idx|p|p n|p|p|p]; cbn [step] in *.
  - destruct p as [|x p']; [reflexivity|]. destruct idx as [|i idx']; [reflexivity|].
    destruct (negb (dir_exists s (parent (x :: p')))) eqn:Ed; [reflexivity|].
    destruct (lookup (files s) (x :: p')); [reflexivity|]. cbn [fst snd] in *.
    destruct (andb _ _); [reflexivity|].
    destruct (ensure_slot pr s (parent (x :: p')) _) as [s1|] eqn:Es; [|reflexivity].
    destruct (pick pr (used s1) _); cbn [fst snd] in *; [discriminate|].
    apply (ensure_slot_view pr s _ _ s1 Es). apply negb_false_iff in Ed. exact Ed.
  - destruct (lookup (files s) p) as [f|]; [|reflexivity].
    destruct (f_locked f); [reflexivity|]. destruct (andb _ _); [reflexivity | discriminate].
  - destruct (lookup (files s) p) as [f|]; [|reflexivity].
    destruct (f_locked f); [reflexivity|]. destruct (f_isdir f); [destruct (existsb _ _); [reflexivity | discriminate]|].
    destruct (lookup (files s) (parent p ++ [n])); [reflexivity | discriminate].
  - destruct (lookup (files s) p) as [f|]; [|reflexivity]. destruct (p_lock pr); [discriminate | reflexivity].
  - destruct (lookup (files s) p) as [f|]; [|reflexivity]. destruct (p_lock pr); [discriminate | reflexivity].
  - destruct p as [|x p']; [reflexivity|].
    destruct (negb (p_subdirs pr)); [reflexivity|].
    destruct (negb (dir_exists s (parent (x :: p')))) eqn:Ed; [reflexivity|].
    destruct (lookup (files s) (x :: p')); [reflexivity|].
    destruct (ensure_slot pr s (parent (x :: p')) 1) as [s1|] eqn:Es; [|reflexivity].
    destruct (pick_first pr (used s1) 1); cbn [fst snd] in *; [discriminate|].
    apply (ensure_slot_view pr s _ _ s1 Es). apply negb_false_iff in Ed. exact Ed.
Qed.

(* C02 (observational frame): an operation on path p, accepted or refused, leaves every other path as it was;
   for an accepted rename the new name is the only other path that changes *)
Definition outside_tree (s : st) (o : op) (q : pathT) : Prop :=
  forall p n f, o = Rename p n -> lookup (files s) p = Some f -> f_isdir f = true ->
    is_prefix p q = false /\ is_prefix (parent p ++ [n]) q = false.
Theorem frame pr s o q :
  path_eqb (target o) q = false ->
  (forall p n, o = Rename p n -> path_eqb (parent p ++ [n]) q = false) ->
  outside_tree s o q ->
  vlookup (fst (step pr s o)) q = vlookup s q.
Proof.
  intros Hq Hren Hout.
  destruct (snd (step pr s o)) eqn:Er; [|apply refused_unchanged, Er].
  destruct o as [p idx|p|p n|p|p|p]; cbn [step target] in *.
  - destruct p as [|x p']; [reflexivity|]. destruct idx as [|i idx']; [reflexivity|].
    destruct (negb (dir_exists s (parent (x :: p')))) eqn:Ed; [reflexivity|].
    destruct (lookup (files s) (x :: p')); [reflexivity|].
    destruct (andb _ _); [reflexivity|].
    destruct (ensure_slot pr s (parent (x :: p')) _) as [s1|] eqn:Es; [|reflexivity].
    apply negb_false_iff in Ed.
    destruct (pick pr (used s1) _); cbn [fst snd] in *.
    + unfold vlookup at 1. cbn [files lookup]. rewrite Hq. apply (ensure_slot_view pr s _ _ s1 Es Ed).
    + apply (ensure_slot_view pr s _ _ s1 Es Ed).
  - destruct (lookup (files s) p) as [f|]; [|reflexivity].
    destruct (f_locked f); [reflexivity|]. destruct (andb _ _); [reflexivity|]. cbn [fst].
    unfold vlookup. cbn [files]. rewrite lookup_remove_other by exact Hq. reflexivity.
  - destruct (lookup (files s) p) as [f|] eqn:El; [|reflexivity].
    destruct (f_locked f); [reflexivity|]. destruct (f_isdir f) eqn:Ed.
    { destruct (existsb _ _); [reflexivity|]. cbn [fst]. destruct (Hout p n f eq_refl El Ed) as [H1 H2].
      unfold vlookup. cbn [files]. rewrite lookup_move_outside by assumption. reflexivity. }
    destruct (lookup (files s) (parent p ++ [n])); [reflexivity|]. cbn [fst].
    unfold vlookup. cbn [files lookup]. rewrite (Hren p n eq_refl). rewrite lookup_remove_other by exact Hq. reflexivity.
  - destruct (lookup (files s) p) as [f|]; [|reflexivity]. destruct (p_lock pr); [|reflexivity]. cbn [fst].
    unfold vlookup. cbn [files]. rewrite lookup_update_other by exact Hq. reflexivity.
  - destruct (lookup (files s) p) as [f|]; [|reflexivity]. destruct (p_lock pr); [|reflexivity]. cbn [fst].
    unfold vlookup. cbn [files]. rewrite lookup_update_other by exact Hq. reflexivity.
  - destruct p as [|x p']; [reflexivity|].
    destruct (negb (p_subdirs pr)); [reflexivity|].
    destruct (negb (dir_exists s (parent (x :: p')))) eqn:Ed; [reflexivity|].
    destruct (lookup (files s) (x :: p')); [reflexivity|].
    destruct (ensure_slot pr s (parent (x :: p')) 1) as [s1|] eqn:Es; [|reflexivity].
    apply negb_false_iff in Ed.
    destruct (pick_first pr (used s1) 1); cbn [fst snd] in *.
    + unfold vlookup at 1. cbn [files lookup]. rewrite Hq. apply (ensure_slot_view pr s _ _ s1 Es Ed).
    + apply (ensure_slot_view pr s _ _ s1 Es Ed).
Qed.

(* C01 at the level of the chunk map: an accepted put is what a later lookup returns *)
Theorem put_get pr s p idx :
  snd (step pr s (Put p idx)) = Accepted ->
  vlookup (fst (step pr s (Put p idx))) p = Some (false, norm_idx (if p_force0 pr then 0 :: idx else idx), false)
  /\ vlookup s p = None.
Proof.
  cbn [step]. destruct p as [|x p']; [discriminate|]. destruct idx as [|i idx']; [discriminate|].
  destruct (negb (dir_exists s (parent (x :: p')))); [discriminate|].
  destruct (lookup (files s) (x :: p')) eqn:El; [discriminate|].
  destruct (andb _ _); [discriminate|].
  destruct (ensure_slot pr s (parent (x :: p')) _) as [s1|]; [|discriminate].
  destruct (pick pr (used s1) _); cbn [fst snd]; [|discriminate].
  intros _. split.
  - unfold vlookup. cbn [files lookup]. rewrite path_eqb_refl. reflexivity.
  - unfold vlookup. rewrite El. reflexivity.
Qed.

(* and it stays readable, unchanged, under every later history that does not target it (C01 + C02 over histories) *)
Definition untouched (p : pathT) (o : op) : Prop :=
  path_eqb (target o) p = false /\
  (forall q n, o = Rename q n -> path_eqb (parent q ++ [n]) p = false /\ is_prefix q p = false /\ is_prefix (parent q ++ [n]) p = false).
Theorem get_stable pr ops : forall s p, Forall (untouched p) ops -> vlookup (run pr s ops) p = vlookup s p.
Proof.
  induction ops as [|o r IH]; intros s p H; [reflexivity|].
  inversion H as [|? ? [H1 H2] H3]; subst. unfold run. cbn [fold_left]. fold (run pr (fst (step pr s o)) r).
  rewrite IH by exact H3. apply frame; [exact H1 | intros q n E; apply (H2 q n E) | intros q n f E _ _; apply (H2 q n E)].
Qed.

(* C05: names are unique, and the listing changes exactly as the history says *)
Inductive uniq : list (pathT * file) -> Prop :=
| uniq_nil : uniq []
| uniq_cons q f r : lookup r q = None -> uniq r -> uniq ((q, f) :: r).

Lemma lookup_remove_none fs p q : lookup fs q = None -> lookup (remove_path fs p) q = None.
Proof.
  induction fs as [|[r f] t IH]; cbn; [reflexivity|].
  destruct (path_eqb r q) eqn:E; [discriminate|]. intros H.
  destruct (path_eqb r p); [apply IH, H|]. cbn. rewrite E. apply IH, H.
Qed.
Lemma uniq_remove fs p : uniq fs -> uniq (remove_path fs p).
Proof.
  induction 1 as [|q f r Hn Hu IH]; cbn; [constructor|].
  destruct (path_eqb q p); [exact IH|]. constructor; [apply lookup_remove_none, Hn | exact IH].
Qed.
Lemma lookup_update_none fs p g q : lookup fs q = None -> lookup (update_path fs p g) q = None.
Proof.
  induction fs as [|[r f] t IH]; cbn; [reflexivity|].
  destruct (path_eqb r q) eqn:E; [discriminate|]. intros H.
  destruct (path_eqb r p); cbn; rewrite E; apply IH, H.
Qed.
Lemma uniq_update fs p g : uniq fs -> uniq (update_path fs p g).
Proof.
  induction 1 as [|q f r Hn Hu IH]; cbn; [constructor|].
  destruct (path_eqb q p); constructor; try (apply lookup_update_none, Hn); exact IH.
Qed.
Lemma ensure_slot_uniq pr s d n s1 : ensure_slot pr s d n = Some s1 -> uniq (files s) -> uniq (files s1).
Proof.
  unfold ensure_slot. intros H Hu. destruct (N.leb _ _); [inversion H; subst; exact Hu|].
  destruct d; [discriminate|]. destruct (lookup (files s) _); [|discriminate].
  destruct (pick_first pr (used s) 1); [|discriminate]. inversion H; subst. cbn [files]. apply uniq_update, Hu.
Qed.
Lemma ensure_slot_lookup_none pr s d n s1 q : ensure_slot pr s d n = Some s1 -> lookup (files s) q = None -> lookup (files s1) q = None.
Proof.
  unfold ensure_slot. intros H Hn. destruct (N.leb _ _); [inversion H; subst; exact Hn|].
  destruct d; [discriminate|]. destruct (lookup (files s) (_ :: _)); [|discriminate].
  destruct (pick_first pr (used s) 1); [|discriminate]. inversion H; subst. cbn [files]. apply lookup_update_none, Hn.
Qed.

Lemma rebase_inj p q a b : is_prefix q a = false -> is_prefix q b = false -> rebase p q a = rebase p q b -> a = b.
Proof.
  unfold rebase. intros Ha Hb. destruct (is_prefix p a) eqn:Ea; destruct (is_prefix p b) eqn:Eb; intros E.
  - apply app_inv_head in E. rewrite (is_prefix_split p a Ea), (is_prefix_split p b Eb), E. reflexivity.
  - rewrite <- E, is_prefix_app in Hb. discriminate.
  - rewrite E, is_prefix_app in Ha. discriminate.
  - exact E.
Qed.
Lemma lookup_move_none fs p q a : (forall e, In e fs -> is_prefix q (fst e) = false) -> is_prefix q a = false ->
  lookup fs a = None -> lookup (move_tree fs p q) (rebase p q a) = None.
Proof.
  intros Hno Ha. induction fs as [|[b f] r IH]; cbn; [reflexivity|].
  destruct (path_eqb b a) eqn:E; [discriminate|]. intros Hl.
  assert (Hb : is_prefix q b = false) by (apply (Hno (b, f)); left; reflexivity).
  rewrite path_eqb_neq.
  - apply IH; [intros e He; apply Hno; right; exact He | exact Hl].
  - intros X. apply (rebase_inj p q b a Hb Ha) in X. subst. rewrite path_eqb_refl in E. discriminate.
Qed.
Lemma uniq_move fs p q : (forall e, In e fs -> is_prefix q (fst e) = false) -> uniq fs -> uniq (move_tree fs p q).
Proof.
  intros Hno Hu. induction Hu as [|a f r Hn Hu IH]; cbn; [constructor|]. constructor.
  - apply lookup_move_none; [intros e He; apply Hno; right; exact He | apply (Hno (a, f)); left; reflexivity | exact Hn].
  - apply IH. intros e He. apply Hno. right. exact He.
Qed.

Theorem names_unique pr s o : uniq (files s) -> uniq (files (fst (step pr s o))).
Proof.
  intros Hu. destruct o as [p idx|p|p n|p|p|p]; cbn [step].
  - destruct p as [|x p']; [exact Hu|]. destruct idx as [|i idx']; [exact Hu|].
    destruct (negb _); [exact Hu|]. destruct (lookup (files s) (x :: p')) eqn:El; [exact Hu|].
    destruct (andb _ _); [exact Hu|].
    destruct (ensure_slot pr s _ _) as [s1|] eqn:Es; [|exact Hu].
    destruct (pick pr (used s1) _); cbn [fst files].
    + constructor; [apply (ensure_slot_lookup_none pr s _ _ s1 _ Es El) | apply (ensure_slot_uniq pr s _ _ s1 Es Hu)].
    + apply (ensure_slot_uniq pr s _ _ s1 Es Hu).
  - destruct (lookup (files s) p) as [f|]; [|exact Hu]. destruct (f_locked f); [exact Hu|].
    destruct (andb _ _); [exact Hu|]. cbn [fst files]. apply uniq_remove, Hu.
  - destruct (lookup (files s) p) as [f|]; [|exact Hu]. destruct (f_locked f); [exact Hu|].
    destruct (f_isdir f).
    { destruct (existsb _ _) eqn:Ex; [exact Hu|]. cbn [fst files]. apply uniq_move; [apply existsb_prefix_false, Ex | exact Hu]. }
    destruct (lookup (files s) (parent p ++ [n])) eqn:El; [exact Hu|].
    cbn [fst files]. constructor; [apply lookup_remove_none, El | apply uniq_remove, Hu].
  - destruct (lookup (files s) p) as [f|]; [|exact Hu]. destruct (p_lock pr); [|exact Hu]. cbn [fst files]. apply uniq_update, Hu.
  - destruct (lookup (files s) p) as [f|]; [|exact Hu]. destruct (p_lock pr); [|exact Hu]. cbn [fst files]. apply uniq_update, Hu.
  - destruct p as [|x p']; [exact Hu|]. destruct (negb (p_subdirs pr)); [exact Hu|].
    destruct (negb _); [exact Hu|]. destruct (lookup (files s) (x :: p')) eqn:El; [exact Hu|].
    destruct (ensure_slot pr s _ 1) as [s1|] eqn:Es; [|exact Hu].
    destruct (pick_first pr (used s1) 1); cbn [fst files].
    + constructor; [apply (ensure_slot_lookup_none pr s _ _ s1 _ Es El) | apply (ensure_slot_uniq pr s _ _ s1 Es Hu)].
    + apply (ensure_slot_uniq pr s _ _ s1 Es Hu).
Qed.

(* storing to an existing name, or renaming onto one, is refused (and by refused_unchanged changes nothing) *)
Theorem dup_refused pr s p idx : lookup (files s) p <> None -> snd (step pr s (Put p idx)) = Refused.
Proof.
  intros H. cbn [step]. destruct p as [|x p']; [reflexivity|]. destruct idx; [reflexivity|].
  destruct (negb _); [reflexivity|]. destruct (lookup (files s) (x :: p')); [reflexivity | congruence].
Qed.
Theorem rename_onto_refused pr s p n : lookup (files s) (parent p ++ [n]) <> None -> snd (step pr s (Rename p n)) = Refused.
Proof.
  intros H. cbn [step]. destruct (lookup (files s) p) as [f|]; [|reflexivity].
  destruct (f_locked f); [reflexivity|]. destruct (f_isdir f); [rewrite (lookup_some_prefix _ _ H); reflexivity|].
  destruct (lookup (files s) (parent p ++ [n])); [reflexivity | congruence].
Qed.
(* after an accepted delete the path cannot be fetched any more; after an accepted rename it is found under the new name *)
Theorem delete_gone pr s p : snd (step pr s (Delete p)) = Accepted -> vlookup (fst (step pr s (Delete p))) p = None.
Proof.
  cbn [step]. destruct (lookup (files s) p) as [f|]; [|discriminate]. destruct (f_locked f); [discriminate|].
  destruct (andb _ _); [discriminate|]. intros _. cbn [fst]. unfold vlookup. cbn [files]. rewrite lookup_remove_same. reflexivity.
Qed.
Theorem rename_moves pr s p n : snd (step pr s (Rename p n)) = Accepted ->
  vlookup (fst (step pr s (Rename p n))) (parent p ++ [n]) = vlookup s p.
Proof.
  cbn [step]. destruct (lookup (files s) p) as [f|] eqn:El; [|discriminate]. destruct (f_locked f); [discriminate|].
  destruct (f_isdir f).
  { destruct (existsb _ _) eqn:Ex; [discriminate|]. intros _. cbn [fst]. unfold vlookup. cbn [files].
    pose proof (lookup_move_inside (files s) p (parent p ++ [n]) [] (existsb_prefix_false _ _ Ex)) as H.
    rewrite !app_nil_r in H. rewrite H. reflexivity. }
  destruct (lookup (files s) (parent p ++ [n])); [discriminate|].
  intros _. cbn [fst]. unfold vlookup. cbn [files lookup]. rewrite path_eqb_refl. rewrite El. reflexivity.
Qed.
(* a renamed directory takes everything below it along: what was at p/t is at the new name/t, unchanged *)
Theorem rename_moves_tree pr s p n f : lookup (files s) p = Some f -> f_isdir f = true -> snd (step pr s (Rename p n)) = Accepted ->
  forall t, vlookup (fst (step pr s (Rename p n))) ((parent p ++ [n]) ++ t) = vlookup s (p ++ t).
Proof.
  intros El Ed. cbn [step]. rewrite El. destruct (f_locked f); [discriminate|]. rewrite Ed.
  destruct (existsb _ _) eqn:Ex; [discriminate|]. intros _ t. cbn [fst]. unfold vlookup. cbn [files].
  rewrite (lookup_move_inside (files s) p (parent p ++ [n]) t (existsb_prefix_false _ _ Ex)). reflexivity.
Qed.

(* ---------- C19: protection ---------- *)
Theorem locked_blocks pr s p f : lookup (files s) p = Some f -> f_locked f = true ->
  (snd (step pr s (Delete p)) = Refused) /\ (forall n, snd (step pr s (Rename p n)) = Refused) /\ (forall idx, snd (step pr s (Put p idx)) = Refused).
Proof.
  intros Hl Hk. split; [|split].
  - cbn [step]. rewrite Hl, Hk. reflexivity.
  - intros n. cbn [step]. rewrite Hl, Hk. reflexivity.
  - intros idx. apply dup_refused. congruence.
Qed.
Theorem lock_unlock pr s p f : p_lock pr = true -> lookup (files s) p = Some f -> f_locked f = false ->
  vlookup (fst (step pr (fst (step pr s (Lock p))) (Unlock p))) p = vlookup s p
  /\ vlookup (fst (step pr s (Lock p))) p = Some (f_isdir f, f_chunks f, true).
Proof.
  intros Hp Hl Hk. cbn [step]. rewrite Hl, Hp. cbn [fst files].
  assert (E : lookup (update_path (files s) p (mkfile (f_isdir f) (f_chunks f) (f_owned f) true)) p = Some (mkfile (f_isdir f) (f_chunks f) (f_owned f) true))
    by (apply lookup_update_same; congruence).
  rewrite E. cbn [fst files f_isdir f_chunks f_owned]. split.
  - unfold vlookup. cbn [files]. rewrite lookup_update_same by (rewrite E; discriminate). rewrite Hl. cbn. unfold view. cbn. rewrite Hk. reflexivity.
  - unfold vlookup. cbn [files]. rewrite E. reflexivity.
Qed.

(* ---------- C03 / C04: ownership invariant ---------- *)
Record WF (pr : params) (sys : list N) (s : st) : Prop := {
  wf_nodup : NoDup (owned_all s);
  wf_used : forall b, In b (used s) <-> In b sys \/ In b (owned_all s);
  wf_sys : forall b, In b (owned_all s) -> ~ In b sys;
  wf_range : forall b, In b (owned_all s) -> p_lo pr <= b < p_total pr;
}.

Lemma is_free_spec pr u b : is_free pr u b = true <-> (p_lo pr <= b < p_total pr /\ ~ In b u).
Proof. unfold is_free. rewrite !andb_true_iff, negb_true_iff, memN_false, N.leb_le, N.ltb_lt. tauto. Qed.

Lemma all_units_nodup pr : NoDup (all_units pr).
Proof.
  unfold all_units. apply FinFun.Injective_map_NoDup; [|apply seq_NoDup].
  intros a b H. lia.
Qed.
Lemma free_units_spec pr u b : In b (free_units pr u) -> p_lo pr <= b < p_total pr /\ ~ In b u.
Proof. unfold free_units. rewrite filter_In. intros [_ H]. apply is_free_spec, H. Qed.
Lemma free_units_nodup pr u : NoDup (free_units pr u).
Proof. apply NoDup_filter, all_units_nodup. Qed.

Lemma firstn_incl {A} n (l : list A) : incl (firstn n l) l.
Proof. revert l. induction n; intros [|x l]; cbn; intros y H; try contradiction. destruct H; [left; exact H | right; apply IHn, H]. Qed.
Lemma firstn_nodup {A} n (l : list A) : NoDup l -> NoDup (firstn n l).
Proof.
  revert l. induction n; intros [|x l] H; cbn; try constructor.
  - inversion H; subst. intros Hin. apply firstn_incl in Hin. contradiction.
  - inversion H; subst. apply IHn. assumption.
Qed.

Lemma run_from_spec pr u n : forall b, run_from pr u b n = true -> forall i, (i < n)%nat -> is_free pr u (b + N.of_nat i) = true.
Proof.
  induction n as [|k IH]; intros b H i Hi; [lia|]. cbn [run_from] in H. apply andb_true_iff in H. destruct H as [H1 H2].
  destruct i as [|j].
  - replace (b + N.of_nat 0) with b by lia. exact H1.
  - replace (b + N.of_nat (S j)) with (b + 1 + N.of_nat j) by lia. apply IH; [exact H2 | lia].
Qed.

(* the allocation policy only hands out free, in-range, pairwise distinct units *)
Lemma pick_sound pr u n bs : pick pr u n = Some bs ->
  NoDup bs /\ (forall b, In b bs -> p_lo pr <= b < p_total pr /\ ~ In b u) /\ lenN bs = n.
Proof.
  unfold pick, pick_first, pick_contig. destruct (p_contig pr).
  - destruct (find _ _) as [b0|] eqn:Ef; [|discriminate]. intros H; inversion H; subst; clear H.
    apply find_some in Ef. destruct Ef as [_ Hrun]. split; [|split].
    + apply FinFun.Injective_map_NoDup; [|apply seq_NoDup]. intros a b H. lia.
    + intros b Hb. apply in_map_iff in Hb. destruct Hb as [i [<- Hi]]. apply in_seq in Hi.
      apply is_free_spec. apply (run_from_spec pr u _ _ Hrun). lia.
    + unfold lenN. rewrite map_length, seq_length. lia.
  - destruct (N.leb n (lenN (free_units pr u))) eqn:El; [|discriminate]. intros H; inversion H; subst; clear H.
    split; [|split].
    + apply firstn_nodup, free_units_nodup.
    + intros b Hb. apply firstn_incl in Hb. apply free_units_spec, Hb.
    + unfold lenN, takeN in *. rewrite firstn_length. lia.
Qed.
Lemma pick_first_sound pr u n bs : pick_first pr u n = Some bs ->
  NoDup bs /\ (forall b, In b bs -> p_lo pr <= b < p_total pr /\ ~ In b u) /\ lenN bs = n.
Proof.
  unfold pick_first. destruct (N.leb n (lenN (free_units pr u))) eqn:El; [|discriminate]. intros H; inversion H; subst; clear H.
  split; [|split].
  - apply firstn_nodup, free_units_nodup.
  - intros b Hb. apply firstn_incl in Hb. apply free_units_spec, Hb.
  - unfold lenN, takeN in *. rewrite firstn_length. lia.
Qed.

Lemma NoDup_app_remove_l {A} (l m : list A) : NoDup (l ++ m) -> NoDup m.
Proof. induction l as [|x l IH]; cbn; intros H; [exact H|]. inversion H; subst. apply IH. assumption. Qed.
Lemma NoDup_app_remove_r {A} (l m : list A) : NoDup (l ++ m) -> NoDup l.
Proof.
  induction l as [|x l IH]; cbn; intros H; [constructor|]. inversion H; subst. constructor; [|apply IH; assumption].
  intros Hx. apply H2. apply in_or_app. left. exact Hx.
Qed.

(* owned_all under the list operations *)
Lemma owned_remove_incl fs p b : In b (flat_map (fun e => f_owned (snd e)) (remove_path fs p)) -> In b (flat_map (fun e => f_owned (snd e)) fs).
Proof.
  induction fs as [|[q f] r IH]; cbn; [tauto|]. destruct (path_eqb q p); cbn; rewrite ?in_app_iff; intros H; [right; apply IH, H|].
  destruct H; [left; exact H | right; apply IH, H].
Qed.
Lemma owned_remove_nodup fs p : NoDup (flat_map (fun e => f_owned (snd e)) fs) -> NoDup (flat_map (fun e => f_owned (snd e)) (remove_path fs p)).
Proof.
  induction fs as [|[q f] r IH]; cbn; [constructor|]. intros H. apply NoDup_app_remove_l in H as H2.
  destruct (path_eqb q p); [apply IH, H2|]. cbn.
  revert H. generalize (f_owned f). intros l. induction l as [|x l IHl]; cbn; intros H; [apply IH, H2|].
  inversion H; subst. constructor; [|apply IHl; assumption].
  rewrite in_app_iff in *. intros [Hx|Hx]; [tauto|]. apply owned_remove_incl in Hx. tauto.
Qed.
(* removing the unique entry for p removes exactly its units *)
Lemma owned_remove_split fs p f : uniq fs -> lookup fs p = Some f -> NoDup (flat_map (fun e => f_owned (snd e)) fs) ->
  forall b, In b (flat_map (fun e => f_owned (snd e)) fs) <-> In b (f_owned f) \/ In b (flat_map (fun e => f_owned (snd e)) (remove_path fs p)).
Proof.
  induction 1 as [|q g r Hn Hu IH]; cbn; [discriminate|]. intros Hl Hnd b.
  destruct (path_eqb q p) eqn:E.
  - inversion Hl; subst. apply path_eqb_eq in E. subst.
    assert (R : remove_path r p = r).
    { clear - Hn. induction r as [|[q g] t IH]; cbn in *; [reflexivity|]. destruct (path_eqb q p); [discriminate|]. f_equal. apply IH, Hn. }
    rewrite R. rewrite in_app_iff. tauto.
  - cbn. rewrite !in_app_iff. apply NoDup_app_remove_l in Hnd. rewrite (IH Hl Hnd b). tauto.
Qed.
Lemma owned_remove_disjoint fs p f : uniq fs -> lookup fs p = Some f -> NoDup (flat_map (fun e => f_owned (snd e)) fs) ->
  forall b, In b (f_owned f) -> ~ In b (flat_map (fun e => f_owned (snd e)) (remove_path fs p)).
Proof.
  induction 1 as [|q g r Hn Hu IH]; cbn; [discriminate|]. intros Hl Hnd b Hb.
  destruct (path_eqb q p) eqn:E.
  - inversion Hl; subst. apply path_eqb_eq in E. subst.
    assert (R : remove_path r p = r).
    { clear - Hn. induction r as [|[q g] t IH]; cbn in *; [reflexivity|]. destruct (path_eqb q p); [discriminate|]. f_equal. apply IH, Hn. }
    rewrite R. clear - Hnd Hb. induction (f_owned f) as [|x l IHl]; cbn in *; [contradiction|].
    inversion Hnd; subst. destruct Hb as [->|Hb]; [rewrite in_app_iff in *; tauto | apply IHl; assumption].
  - cbn. rewrite in_app_iff. intros [Hx|Hx].
    + (* b in g and in f, f is inside r: contradiction with NoDup *)
      clear IH. assert (Hin : In b (flat_map (fun e => f_owned (snd e)) r)).
      { clear - Hl Hb. induction r as [|[q2 g2] t IHt]; cbn in *; [discriminate|]. rewrite in_app_iff.
        destruct (path_eqb q2 p); [inversion Hl; subst; left; exact Hb | right; apply IHt, Hl]. }
      clear - Hnd Hx Hin. induction (f_owned g) as [|x l IHl]; cbn in *; [contradiction|].
      inversion Hnd; subst. destruct Hx as [->|Hx]; [rewrite in_app_iff in *; tauto | apply IHl; assumption].
    + apply NoDup_app_remove_l in Hnd. exact (IH Hl Hnd b Hb Hx).
Qed.

Lemma owned_update fs p g f : uniq fs -> lookup fs p = Some f ->
  forall b, In b (flat_map (fun e => f_owned (snd e)) (update_path fs p g)) <->
            In b (f_owned g) \/ In b (flat_map (fun e => f_owned (snd e)) (remove_path fs p)).
Proof.
  induction 1 as [|q h r Hn Hu IH]; cbn; [discriminate|]. intros Hl b.
  destruct (path_eqb q p) eqn:E.
  - apply path_eqb_eq in E. subst. cbn. rewrite in_app_iff.
    assert (R : forall g', update_path r p g' = r /\ remove_path r p = r).
    { clear - Hn. intros g'. induction r as [|[q2 g2] t IHt]; cbn in *; [split; reflexivity|].
      destruct (path_eqb q2 p); [discriminate|]. destruct (IHt Hn) as [A B]. rewrite A, B. split; reflexivity. }
    destruct (R g) as [-> ->]. tauto.
  - cbn. rewrite !in_app_iff. rewrite (IH Hl b). tauto.
Qed.
Lemma nodup_app_disjoint (a X : list N) b : NoDup (a ++ X) -> In b a -> In b X -> False.
Proof.
  induction a as [|x a IH]; cbn; intros H Ha Hx; [contradiction|]. inversion H; subst.
  destruct Ha as [->|Ha]; [apply H2; apply in_or_app; right; exact Hx | apply IH; assumption].
Qed.
Lemma lookup_owned_incl fs p f b : lookup fs p = Some f -> In b (f_owned f) -> In b (flat_map (fun e => f_owned (snd e)) fs).
Proof.
  induction fs as [|[q g] r IH]; cbn; [discriminate|]. rewrite in_app_iff.
  destruct (path_eqb q p); intros Hl Hb; [inversion Hl; subst; left; exact Hb | right; apply IH; assumption].
Qed.
Lemma nodup_prepend_fresh (bs l : list N) : NoDup l -> NoDup bs -> (forall b, In b bs -> ~ In b l) -> NoDup (bs ++ l).
Proof.
  intros Hl Hbs Hf. induction bs as [|x bs IH]; cbn; [exact Hl|]. inversion Hbs as [|? ? Hx Hb]; subst.
  constructor; [|apply IH; [exact Hb | intros b Hin; apply Hf; right; exact Hin]].
  rewrite in_app_iff. intros [H|H]; [exact (Hx H) | exact (Hf x (or_introl eq_refl) H)].
Qed.
Lemma nodup_insert_fresh (a bs rest : list N) : NoDup (a ++ rest) -> NoDup bs -> (forall b, In b bs -> ~ In b (a ++ rest)) -> NoDup (a ++ bs ++ rest).
Proof.
  intros H1 H2 H3.
  assert (P : Permutation.Permutation (bs ++ a ++ rest) (a ++ bs ++ rest)).
  { rewrite !app_assoc. apply Permutation.Permutation_app_tail. apply Permutation.Permutation_app_comm. }
  apply (Permutation.Permutation_NoDup P). apply nodup_prepend_fresh; assumption.
Qed.

Lemma owned_update_nodup fs p f bs : uniq fs -> lookup fs p = Some f -> NoDup (flat_map (fun e => f_owned (snd e)) fs) ->
  NoDup bs -> (forall b, In b bs -> ~ In b (flat_map (fun e => f_owned (snd e)) fs)) ->
  NoDup (flat_map (fun e => f_owned (snd e)) (update_path fs p (mkfile true (f_chunks f) (f_owned f ++ bs) (f_locked f)))).
Proof.
  induction 1 as [|q h r Hn Hu IH]; cbn; [discriminate|]. intros Hl Hnd Hbs Hfresh.
  destruct (path_eqb q p) eqn:E.
  - inversion Hl; subst. apply path_eqb_eq in E. subst. cbn.
    assert (R : forall g', update_path r p g' = r).
    { clear - Hn. intros g'. induction r as [|[q2 g2] t IHt]; cbn in *; [reflexivity|].
      destruct (path_eqb q2 p); [discriminate|]. f_equal. apply IHt, Hn. }
    rewrite R. rewrite <- app_assoc. apply nodup_insert_fresh; assumption.
  - cbn. apply NoDup_app_remove_l in Hnd as Hnd2.
    assert (Hfresh2 : forall b, In b bs -> ~ In b (flat_map (fun e => f_owned (snd e)) r)).
    { intros b Hb Hx. apply (Hfresh b Hb). rewrite in_app_iff. right. exact Hx. }
    specialize (IH Hl Hnd2 Hbs Hfresh2).
    apply nodup_prepend_fresh; [exact IH | apply NoDup_app_remove_r in Hnd; exact Hnd |].
    intros b Hb Hx. apply (owned_update r p _ f Hu Hl) in Hx. cbn [f_owned] in Hx. rewrite in_app_iff in Hx.
    destruct Hx as [[Hx|Hx]|Hx].
    + apply (nodup_app_disjoint _ _ b Hnd Hb). apply (lookup_owned_incl r p f b Hl Hx).
    + apply (Hfresh b Hx). rewrite in_app_iff. left. exact Hb.
    + apply (nodup_app_disjoint _ _ b Hnd Hb). apply owned_remove_incl in Hx. exact Hx.
Qed.

Lemma owned_update_same fs p g f : uniq fs -> lookup fs p = Some f -> f_owned g = f_owned f ->
  flat_map (fun e => f_owned (snd e)) (update_path fs p g) = flat_map (fun e => f_owned (snd e)) fs.
Proof.
  induction 1 as [|q h r Hn Hu IH]; cbn; [discriminate|]. intros Hl Hg.
  destruct (path_eqb q p) eqn:E.
  - inversion Hl; subst. apply path_eqb_eq in E. subst. cbn. rewrite Hg.
    assert (R : update_path r p g = r).
    { clear - Hn. induction r as [|[q2 g2] t IHt]; cbn in *; [reflexivity|].
      destruct (path_eqb q2 p); [discriminate|]. f_equal. apply IHt, Hn. }
    rewrite R. reflexivity.
  - cbn. f_equal. apply IH; assumption.
Qed.

Lemma owned_move fs p q : flat_map (fun e => f_owned (snd e)) (move_tree fs p q) = flat_map (fun e => f_owned (snd e)) fs.
Proof. unfold move_tree. induction fs as [|[a f] r IH]; cbn [map flat_map fst snd]; [reflexivity|]. rewrite IH. reflexivity. Qed.

Lemma ensure_slot_wf pr sys s d n s1 : uniq (files s) -> WF pr sys s -> ensure_slot pr s d n = Some s1 -> WF pr sys s1.
Proof.
  intros Hu W. unfold ensure_slot. destruct (N.leb _ _); [intros H; inversion H; subst; exact W|].
  destruct d as [|x d']; [discriminate|]. destruct (lookup (files s) (x :: d')) as [f|] eqn:El; [|discriminate].
  destruct (pick_first pr (used s) 1) as [bs|] eqn:Ep; [|discriminate]. intros H; inversion H; subst; clear H.
  destruct (pick_first_sound _ _ _ _ Ep) as [Hnd [Hfree _]]. destruct W as [W1 W2 W3 W4].
  assert (Hfresh : forall b, In b bs -> ~ In b (owned_all s)).
  { intros b Hb Ho. destruct (Hfree b Hb) as [_ Hnu]. apply Hnu. apply W2. right. exact Ho. }
  constructor; unfold owned_all in *; cbn [files used].
  - apply owned_update_nodup; assumption.
  - intros b. rewrite in_app_iff. rewrite (owned_update (files s) (x :: d') _ f Hu El b). cbn [f_owned]. rewrite in_app_iff.
    rewrite W2. rewrite (owned_remove_split (files s) (x :: d') f Hu El W1 b). tauto.
  - intros b Hb. apply (owned_update (files s) (x :: d') _ f Hu El b) in Hb. cbn [f_owned] in Hb. rewrite in_app_iff in Hb.
    destruct Hb as [[Hb|Hb]|Hb].
    + apply W3. apply (owned_remove_split (files s) (x :: d') f Hu El W1 b). left. exact Hb.
    + intros Hs. destruct (Hfree b Hb) as [_ Hnu]. apply Hnu. apply W2. left. exact Hs.
    + apply W3. apply owned_remove_incl in Hb. exact Hb.
  - intros b Hb. apply (owned_update (files s) (x :: d') _ f Hu El b) in Hb. cbn [f_owned] in Hb. rewrite in_app_iff in Hb.
    destruct Hb as [[Hb|Hb]|Hb].
    + apply W4. apply (owned_remove_split (files s) (x :: d') f Hu El W1 b). left. exact Hb.
    + apply (Hfree b Hb).
    + apply W4. apply owned_remove_incl in Hb. exact Hb.
Qed.

Lemma add_file_wf pr sys s p g bs : WF pr sys s -> NoDup bs -> (forall b, In b bs -> p_lo pr <= b < p_total pr /\ ~ In b (used s)) ->
  f_owned g = bs -> WF pr sys (mkst ((p, g) :: files s) (bs ++ used s)).
Proof.
  intros [W1 W2 W3 W4] Hnd Hfree Hg. constructor; unfold owned_all in *; cbn [files used flat_map snd]; rewrite Hg.
  - clear Hg. induction bs as [|x bs IHb]; cbn; [exact W1|]. inversion Hnd; subst.
    constructor; [|apply IHb; [assumption | intros b Hb; apply Hfree; right; exact Hb]].
    rewrite in_app_iff. intros [Hx|Hx]; [contradiction|]. destruct (Hfree x (or_introl eq_refl)) as [_ Hnu]. apply Hnu, W2. right. exact Hx.
  - intros b. rewrite !in_app_iff, W2. tauto.
  - intros b. rewrite in_app_iff. intros [Hb|Hb]; [|apply W3, Hb]. intros Hs. destruct (Hfree b Hb) as [_ Hnu]. apply Hnu, W2. left. exact Hs.
  - intros b. rewrite in_app_iff. intros [Hb|Hb]; [apply (Hfree b Hb) | apply W4, Hb].
Qed.

(* C03: the ownership invariant is preserved by every operation, accepted or refused *)
Theorem WF_step pr sys s o : uniq (files s) -> WF pr sys s -> WF pr sys (fst (step pr s o)).
Proof.
  intros Hu W. destruct o as [p idx|p|p n|p|p|p]; cbn [step].
  - destruct p as [|x p']; [exact W|]. destruct idx as [|i idx']; [exact W|].
    destruct (negb _); [exact W|]. destruct (lookup (files s) (x :: p')); [exact W|]. destruct (andb _ _); [exact W|].
    destruct (ensure_slot pr s _ _) as [s1|] eqn:Es; [|exact W].
    pose proof (ensure_slot_wf pr sys s _ _ s1 Hu W Es) as W1.
    destruct (pick pr (used s1) _) as [bs|] eqn:Ep; cbn [fst]; [|exact W1].
    destruct (pick_sound _ _ _ _ Ep) as [Hnd [Hfree _]]. apply add_file_wf; auto.
  - destruct (lookup (files s) p) as [f|] eqn:El; [|exact W]. destruct (f_locked f); [exact W|]. destruct (andb _ _); [exact W|].
    cbn [fst]. destruct W as [W1 W2 W3 W4]. constructor; unfold owned_all in *; cbn [files used].
    + apply owned_remove_nodup, W1.
    + intros b. rewrite filter_In, negb_true_iff, memN_false, W2.
      rewrite (owned_remove_split (files s) p f Hu El W1 b).
      pose proof (owned_remove_disjoint (files s) p f Hu El W1 b) as Hd.
      split.
      * intros [[Hs|[Ho|Ho]] Hn]; tauto.
      * intros [Hs|Ho]; [|split; [tauto | intros Hf; exact (Hd Hf Ho)]].
        split; [tauto|]. intros Hf. apply (W3 b); [|exact Hs]. apply (owned_remove_split (files s) p f Hu El W1 b). tauto.
    + intros b Hb. apply W3. apply owned_remove_incl in Hb. exact Hb.
    + intros b Hb. apply W4. apply owned_remove_incl in Hb. exact Hb.
  - destruct (lookup (files s) p) as [f|] eqn:El; [|exact W]. destruct (f_locked f); [exact W|]. destruct (f_isdir f).
    { destruct (existsb _ _); [exact W|]. cbn [fst]. destruct W as [W1 W2 W3 W4].
      constructor; unfold owned_all in *; cbn [files used]; rewrite owned_move; assumption. }
    destruct (lookup (files s) (parent p ++ [n])); [exact W|]. cbn [fst].
    destruct W as [W1 W2 W3 W4].
    assert (Hsplit := owned_remove_split (files s) p f Hu El W1).
    assert (Hdis := owned_remove_disjoint (files s) p f Hu El W1).
    constructor; unfold owned_all in *; cbn [files used flat_map snd].
    + assert (Hf : NoDup (f_owned f)).
      { clear - El W1. induction (files s) as [|[q g] r IH]; cbn in *; [discriminate|].
        destruct (path_eqb q p); [inversion El; subst; apply NoDup_app_remove_r in W1; exact W1 | apply IH; [apply NoDup_app_remove_l in W1; exact W1 | exact El]]. }
      pose proof (owned_remove_nodup (files s) p W1) as Hr.
      revert Hf Hdis. generalize (f_owned f). intros l Hf Hd. induction l as [|x l IHl]; cbn; [exact Hr|].
      inversion Hf; subst. constructor; [|apply IHl; [assumption | intros b Hb; apply Hd; right; exact Hb]].
      rewrite in_app_iff. intros [Hx|Hx]; [contradiction|]. exact (Hd x (or_introl eq_refl) Hx).
    + intros b. rewrite in_app_iff, W2, (Hsplit b). tauto.
    + intros b. rewrite in_app_iff. intros Hb. apply W3, Hsplit. exact Hb.
    + intros b. rewrite in_app_iff. intros Hb. apply W4, Hsplit. exact Hb.
  - destruct (lookup (files s) p) as [f|] eqn:El; [|exact W]. destruct (p_lock pr); [|exact W]. cbn [fst].
    destruct W as [W1 W2 W3 W4]. constructor; unfold owned_all in *; cbn [files used];
      rewrite (owned_update_same (files s) p (mkfile (f_isdir f) (f_chunks f) (f_owned f) true) f Hu El eq_refl); assumption.
  - destruct (lookup (files s) p) as [f|] eqn:El; [|exact W]. destruct (p_lock pr); [|exact W]. cbn [fst].
    destruct W as [W1 W2 W3 W4]. constructor; unfold owned_all in *; cbn [files used];
      rewrite (owned_update_same (files s) p (mkfile (f_isdir f) (f_chunks f) (f_owned f) false) f Hu El eq_refl); assumption.
  - destruct p as [|x p']; [exact W|]. destruct (negb (p_subdirs pr)); [exact W|].
    destruct (negb _); [exact W|]. destruct (lookup (files s) (x :: p')); [exact W|].
    destruct (ensure_slot pr s _ 1) as [s1|] eqn:Es; [|exact W].
    pose proof (ensure_slot_wf pr sys s _ _ s1 Hu W Es) as W1.
    destruct (pick_first pr (used s1) 1) as [bs|] eqn:Ep; cbn [fst]; [|exact W1].
    destruct (pick_first_sound _ _ _ _ Ep) as [Hnd [Hfree _]]. apply add_file_wf; auto.
Qed.

(* every reachable state: histories of any length, from any well-formed start (in particular a fresh volume) *)
Theorem WF_history pr sys ops : forall s, uniq (files s) -> WF pr sys s -> WF pr sys (run pr s ops) /\ uniq (files (run pr s ops)).
Proof.
  induction ops as [|o r IH]; intros s Hu W; [split; assumption|].
  unfold run. cbn [fold_left]. fold (run pr (fst (step pr s o)) r).
  apply IH; [apply names_unique, Hu | apply WF_step; assumption].
Qed.

Lemma WF_init pr sys : WF pr sys (mkst [] sys).
Proof. constructor; unfold owned_all; cbn; [constructor | tauto | tauto | tauto]. Qed.

(* ---------- C04: free space ---------- *)
Lemma free_count_ext pr u v : (forall b, In b u <-> In b v) -> free_count pr u = free_count pr v.
Proof.
  intros H. unfold free_count, free_units. f_equal. apply filter_ext. intros b. unfold is_free. f_equal. f_equal.
  destruct (memN b u) eqn:E1, (memN b v) eqn:E2; try reflexivity.
  - apply memN_In in E1. apply H in E1. apply memN_In in E1. congruence.
  - apply memN_In in E2. apply H in E2. apply memN_In in E2. congruence.
Qed.

(* nothing leaks: the reported free count is determined by the system units and the units reachable from the directory *)
Theorem free_exact pr sys s : WF pr sys s -> reported_free pr s = free_count pr (sys ++ owned_all s).
Proof.
  intros W. unfold reported_free. apply free_count_ext. intros b. rewrite in_app_iff. apply (wf_used _ _ _ W).
Qed.

Lemma filter_disjoint_app (bs u : list N) : (forall b, In b bs -> ~ In b u) ->
  filter (fun b => negb (memN b bs)) (bs ++ u) = u.
Proof.
  intros H. rewrite filter_app.
  assert (E1 : filter (fun b => negb (memN b bs)) bs = []).
  { assert (G : forall l, incl l bs -> filter (fun b => negb (memN b bs)) l = []).
    { induction l as [|x l IH]; intros Hi; cbn; [reflexivity|].
      assert (Hx : memN x bs = true) by (apply memN_In, Hi; left; reflexivity). rewrite Hx. cbn. apply IH. intros y Hy. apply Hi. right. exact Hy. }
    apply G, incl_refl. }
  rewrite E1. cbn.
  induction u as [|x u IH]; cbn; [reflexivity|].
  assert (Hx : memN x bs = false). { apply memN_false. intros Hb. apply (H x Hb). left. reflexivity. }
  rewrite Hx. cbn. f_equal. apply IH. intros b Hb Hu. apply (H b Hb). right. exact Hu.
Qed.

(* storing a file and deleting it again restores the allocation map exactly (when the directory did not have to grow) *)
Theorem put_delete_restores pr s p idx :
  snd (step pr s (Put p idx)) = Accepted -> ensure_slot pr s (parent p) (entries_of pr (norm_idx (if p_force0 pr then 0 :: idx else idx))) = Some s ->
  let s1 := fst (step pr s (Put p idx)) in
  snd (step pr s1 (Delete p)) = Accepted /\ used (fst (step pr s1 (Delete p))) = used s /\ files (fst (step pr s1 (Delete p))) = remove_path (files s) p
  /\ reported_free pr (fst (step pr s1 (Delete p))) = reported_free pr s.
Proof.
  cbn [step]. destruct p as [|x p']; [discriminate|]. destruct idx as [|i idx']; [discriminate|].
  destruct (negb _); [discriminate|]. destruct (lookup (files s) (x :: p')) eqn:El; [discriminate|].
  destruct (andb _ _); [discriminate|]. intros Ha Hs. rewrite Hs in *.
  destruct (pick pr (used s) _) as [bs|] eqn:Ep; [|discriminate]. cbn [fst snd files used lookup].
  rewrite path_eqb_refl. cbn [f_locked f_isdir andb f_owned].
  destruct (pick_sound _ _ _ _ Ep) as [_ [Hfree _]].
  assert (E : filter (fun b => negb (memN b bs)) (bs ++ used s) = used s) by (apply filter_disjoint_app; intros b Hb; apply (Hfree b Hb)).
  cbn [fst snd files used remove_path]. rewrite path_eqb_refl. rewrite E. unfold reported_free. cbn [used]. repeat split; reflexivity.
Qed.

(* a file whose requirement (data + index units) fits the reported free space, and for which a directory slot
   exists, is accepted -- for the lowest-free-first policy (DOS, ProDOS, CP/M, FAT) *)
Theorem accept_first_fit pr s p idx :
  p_contig pr = false -> p <> [] -> idx <> [] -> dir_exists s (parent p) = true -> lookup (files s) p = None ->
  (p_holes pr = true \/ dense (norm_idx (if p_force0 pr then 0 :: idx else idx)) = true) ->
  forall s1, ensure_slot pr s (parent p) (entries_of pr (norm_idx (if p_force0 pr then 0 :: idx else idx))) = Some s1 ->
  lenN (norm_idx (if p_force0 pr then 0 :: idx else idx)) + meta_units pr (norm_idx (if p_force0 pr then 0 :: idx else idx)) <= reported_free pr s1 ->
  snd (step pr s (Put p idx)) = Accepted.
Proof.
  intros Hc Hp Hi Hd Hl Hh s1 Hs Hfit. cbn [step].
  destruct p as [|x p']; [congruence|]. destruct idx as [|i idx']; [congruence|].
  rewrite Hd. cbn [negb]. rewrite Hl.
  assert (Hh2 : andb (negb (p_holes pr)) (negb (dense (norm_idx (if p_force0 pr then 0 :: i :: idx' else i :: idx')))) = false).
  { destruct Hh as [-> | ->]; [reflexivity | apply andb_false_r]. }
  rewrite Hh2. rewrite Hs. unfold pick. rewrite Hc. unfold pick_first. unfold reported_free, free_count in Hfit.
  assert (E : N.leb (lenN (norm_idx (if p_force0 pr then 0 :: i :: idx' else i :: idx')) + meta_units pr (norm_idx (if p_force0 pr then 0 :: i :: idx' else i :: idx')))
                (lenN (free_units pr (used s1))) = true) by (apply N.leb_le; exact Hfit).
  rewrite E. reflexivity.
Qed.

(* ---------- acceptance under the first-fit contiguous policy (Pascal) ---------- *)
Lemma find_exists {A} (f : A -> bool) l x : In x l -> f x = true -> exists y, find f l = Some y.
Proof.
  induction l as [|a r IH]; intros Hin Hf; [contradiction|]. cbn [find].
  destruct (f a) eqn:E; [eexists; reflexivity|]. destruct Hin as [->|Hin]; [congruence|]. apply IH; assumption.
Qed.

(* first-fit contiguous policy (Pascal): a file is accepted as soon as SOME run of free units of the needed length exists,
   wherever it lies, provided a directory slot exists *)
Theorem accept_contiguous pr s p idx :
  p_contig pr = true -> p <> [] -> idx <> [] -> dir_exists s (parent p) = true -> lookup (files s) p = None ->
  (p_holes pr = true \/ dense (norm_idx (if p_force0 pr then 0 :: idx else idx)) = true) ->
  forall s1, ensure_slot pr s (parent p) (entries_of pr (norm_idx (if p_force0 pr then 0 :: idx else idx))) = Some s1 ->
  (exists b, In b (all_units pr) /\
     run_from pr (used s1) b (N.to_nat (lenN (norm_idx (if p_force0 pr then 0 :: idx else idx)) + meta_units pr (norm_idx (if p_force0 pr then 0 :: idx else idx)))) = true) ->
  snd (step pr s (Put p idx)) = Accepted.
Proof.
  intros Hc Hp Hi Hd Hl Hh s1 Hs (b & Hb & Hrun). cbn [step].
  destruct p as [|x p']; [congruence|]. destruct idx as [|i idx']; [congruence|].
  rewrite Hd. cbn [negb]. rewrite Hl.
  assert (Hh2 : andb (negb (p_holes pr)) (negb (dense (norm_idx (if p_force0 pr then 0 :: i :: idx' else i :: idx')))) = false).
  { destruct Hh as [-> | ->]; [reflexivity | apply andb_false_r]. }
  rewrite Hh2, Hs. unfold pick. rewrite Hc. unfold pick_contig.
  set (need := lenN (norm_idx (if p_force0 pr then 0 :: i :: idx' else i :: idx')) + meta_units pr (norm_idx (if p_force0 pr then 0 :: i :: idx' else i :: idx'))) in *.
  destruct (find_exists (fun b0 => run_from pr (used s1) b0 (N.to_nat need)) (all_units pr) b Hb Hrun) as (y & Ey).
  rewrite Ey. reflexivity.
Qed.
