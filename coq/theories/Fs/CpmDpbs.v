(* Fs/CpmDpbs.v -- the CP/M theorems of Fs/CpmExtentsProofs.v hold for every disk parameter block a2kit defines: the list Gen/Dpbs.v is
   regenerated from src/bios/dpb.rs on every run, so a new or changed block is checked against the hypothesis [wf] again. *)
From Coq Require Import Bool.
From A2 Require Import Base.Bytes Fs.CpmExtents Fs.CpmExtentsProofs Gen.Dpbs.
Open Scope N_scope.

(* DiskParameterBlock::block_size, ptr_size (one byte pointers below 256 blocks: 16 per entry, else 8) *)
Definition cpm_of (d : N * N * N) (v3 : bool) : cpm :=
  let '(bsh, exm, dsm) := d in {| c_exm := exm; c_bs := 128 * 2 ^ bsh; c_spx := if dsm <? 256 then 16 else 8; c_v3 := v3 |}.

Definition wfb (p : cpm) : bool := (lx_per_x p * slots_per_lx p =? c_spx p) && (slots_per_lx p * c_bs p =? 16384).
Lemma wfb_wf p : wfb p = true -> wf p.
Proof. unfold wfb. intros H. apply andb_true_iff in H. destruct H as [A B]. apply N.eqb_eq in A, B. constructor; assumption. Qed.

Lemma dpbs_wfb : forallb (fun d => wfb (cpm_of d false) && wfb (cpm_of d true)) dpbs = true.
Proof. vm_compute. reflexivity. Qed.

Theorem dpbs_wf d v3 : In d dpbs -> wf (cpm_of d v3).
Proof.
  intros H. pose proof (proj1 (forallb_forall _ _) dpbs_wfb d H) as W. apply andb_true_iff in W. destruct W as [W0 W1].
  apply wfb_wf. destruct v3; assumption.
Qed.

(* so, for every disk kind: what get reads is what was stored, and the length comes back (rounded to a record on CP/M 2) *)
Theorem cpm_read_every_dpb d v3 cs free eof : In d dpbs -> (forall c, c_present cs c = true -> c_block_of cs free c <> 0) -> cs <> [] ->
  exists l, cpm_read (cpm_of d v3) (cpm_entries (cpm_of d v3) cs free eof) = Some l /\
  forall c b, In (c, b) l <-> (c_present cs c = true /\ b = c_block_of cs free c).
Proof. intros Hd Hnz Hne. exact (cpm_read_members (cpm_of d v3) cs free eof (dpbs_wf d v3 Hd) Hnz Hne). Qed.

Theorem cpm_eof_every_dpb d v3 cs free eof : In d dpbs -> cs <> [] ->
  (c_end cs - 1) * c_bs (cpm_of d v3) < eof -> eof <= c_end cs * c_bs (cpm_of d v3) ->
  cpm_eof (cpm_entries (cpm_of d v3) cs free eof) = if v3 then eof else (eof + 127) / 128 * 128.
Proof.
  intros Hd Hne H1 H2. rewrite (cpm_eof_correct (cpm_of d v3) cs free eof (dpbs_wf d v3 Hd) Hne H1 H2).
  destruct d as [[bsh exm] dsm]. reflexivity.
Qed.
