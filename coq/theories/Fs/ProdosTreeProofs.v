From A2 Require Import Base.Bytes.
From A2 Require Import Fs.ProdosTree.
Open Scope N_scope.

Lemma ev_eqb_eq a b : ev_eqb a b = true <-> a = b.
Proof.
  destruct a, b; cbn [ev_eqb]; try (split; [discriminate|intros H; discriminate H]).
  - rewrite N.eqb_eq. split; [intros ->; reflexivity | intros H; injection H; auto].
  - rewrite N.eqb_eq. split; [intros ->; reflexivity | intros H; injection H; auto].
  - split; reflexivity.
Qed.
Lemma ev_eqb_refl a : ev_eqb a a = true. Proof. apply ev_eqb_eq. reflexivity. Qed.

(* ---------- blocks handed out in order: each event has its own block ---------- *)
Lemma block_of_in e : forall evs free, In e evs -> (length evs <= length free)%nat -> In (block_of e evs free) free.
Proof.
  induction evs as [|x r IH]; intros free Hi Hl; [destruct Hi|].
  destruct free as [|b f]; [cbn in Hl; lia|]. cbn [block_of].
  destruct (ev_eqb x e) eqn:E; [left; reflexivity|].
  right. apply IH; [|cbn in Hl; lia]. destruct Hi as [->|Hi]; [rewrite ev_eqb_refl in E; discriminate|exact Hi].
Qed.
Lemma block_of_inj e1 e2 : forall evs free, NoDup free -> (length evs <= length free)%nat -> In e1 evs -> In e2 evs ->
  block_of e1 evs free = block_of e2 evs free -> e1 = e2.
Proof.
  induction evs as [|x r IH]; intros free Hn Hl H1 H2 Hb; [destruct H1|].
  destruct free as [|b f]; [cbn in Hl; lia|]. cbn [block_of] in Hb. inversion Hn as [|? ? Hnb Hnf]; subst.
  assert (Hl' : (length r <= length f)%nat) by (cbn in Hl; lia).
  destruct (ev_eqb x e1) eqn:E1; destruct (ev_eqb x e2) eqn:E2.
  - apply ev_eqb_eq in E1, E2. congruence.
  - exfalso. apply Hnb. rewrite Hb. apply block_of_in; [|exact Hl'].
    destruct H2 as [->|H2]; [rewrite ev_eqb_refl in E2; discriminate|exact H2].
  - exfalso. apply Hnb. rewrite <- Hb. apply block_of_in; [|exact Hl'].
    destruct H1 as [->|H1]; [rewrite ev_eqb_refl in E1; discriminate|exact H1].
  - apply (IH f); try assumption.
    + destruct H1 as [->|H1]; [rewrite ev_eqb_refl in E1; discriminate|exact H1].
    + destruct H2 as [->|H2]; [rewrite ev_eqb_refl in E2; discriminate|exact H2].
Qed.

(* ---------- which events occur ---------- *)
Lemma present_in cs c : present cs c = true <-> In c cs.
Proof.
  unfold present. rewrite existsb_exists. split.
  - intros [x [Hx E]]. apply N.eqb_eq in E. subst x. exact Hx.
  - intros H. exists c. split; [exact H|apply N.eqb_refl].
Qed.
Lemma cs_end_ge cs : forall m c, In c cs -> c < fold_left (fun m i => N.max m (i + 1)) cs m.
Proof.
  induction cs as [|x r IH]; intros m c Hc; [destruct Hc|]. cbn [fold_left]. destruct Hc as [->|Hc].
  - assert (G : forall l a, a <= fold_left (fun m i => N.max m (i + 1)) l a) by (induction l as [|y l IHl]; intros a; cbn [fold_left]; [lia|]; specialize (IHl (N.max a (y + 1))); lia).
    specialize (G r (N.max m (c + 1))). lia.
  - apply IH, Hc.
Qed.
Lemma in_lt_end cs c : In c cs -> c < cs_end cs.
Proof. apply cs_end_ge. Qed.
Lemma cs_end_witness cs : forall m, m < fold_left (fun m i => N.max m (i + 1)) cs m -> exists c, In c cs /\ fold_left (fun m i => N.max m (i + 1)) cs m = c + 1.
Proof.
  induction cs as [|x r IH]; intros m H; cbn [fold_left] in *; [lia|].
  destruct (N.lt_ge_cases (N.max m (x + 1)) (fold_left (fun m i => N.max m (i + 1)) r (N.max m (x + 1)))) as [L|L].
  - destruct (IH _ L) as [c [Hc E]]. exists c. split; [right; exact Hc|exact E].
  - assert (G : forall l a, a <= fold_left (fun m i => N.max m (i + 1)) l a) by (induction l as [|y l IHl]; intros a; cbn [fold_left]; [lia|]; specialize (IHl (N.max a (y + 1))); lia).
    specialize (G r (N.max m (x + 1))). exists x. split; [left; reflexivity|]. lia.
Qed.

Definition counts (cs : list N) : list N := map N.of_nat (seq 0 (N.to_nat (cs_end cs))).
Lemma in_counts cs c : In c (counts cs) <-> c < cs_end cs.
Proof.
  unfold counts. rewrite in_map_iff. split.
  - intros [k [<- Hk]]. apply in_seq in Hk. lia.
  - intros H. exists (N.to_nat c). split; [lia|]. apply in_seq. lia.
Qed.
Lemma in_events cs e : In e (events cs) <-> exists c, c < cs_end cs /\ In e (events_at cs c).
Proof.
  unfold events. fold (counts cs). rewrite in_flat_map. split; intros [c [A B]]; exists c; (split; [apply in_counts|]; assumption).
Qed.

Lemma ev_data cs c : In (EData c) (events cs) <-> In c cs.
Proof.
  rewrite in_events. split.
  - intros [d [_ H]]. unfold events_at in H. apply in_app_or in H. destruct H as [H|H].
    + destruct (d =? 256); [destruct H as [H|[]]; discriminate H | destruct H].
    + apply in_app_or in H. destruct H as [H|H].
      * destruct (d =? 1); [destruct H as [H|[]]; discriminate H|].
        destruct ((256 <=? d) && present cs d && negb (group_has cs (d / 256) d)); [destruct H as [H|[]]; discriminate H | destruct H].
      * destruct (present cs d) eqn:P; [|destruct H]. destruct H as [H|[]]. injection H as <-. apply present_in, P.
  - intros H. exists c. split; [apply in_lt_end, H|]. unfold events_at. apply in_or_app. right. apply in_or_app. right.
    rewrite (proj2 (present_in cs c) H). left. reflexivity.
Qed.
Lemma ev_index0 cs : 1 < cs_end cs -> In (EIndex 0) (events cs).
Proof.
  intros H. apply in_events. exists 1. split; [exact H|]. unfold events_at. apply in_or_app. right. apply in_or_app. left.
  change (1 =? 1) with true. left. reflexivity.
Qed.
Lemma ev_master cs : 256 < cs_end cs -> In EMaster (events cs).
Proof.
  intros H. apply in_events. exists 256. split; [exact H|]. unfold events_at. apply in_or_app. left. left. reflexivity.
Qed.

(* the least element satisfying a decidable predicate *)
Lemma least_true (p : N -> bool) : forall k c, (N.to_nat c < k)%nat -> p c = true -> exists c0, p c0 = true /\ c0 <= c /\ forall i, i < c0 -> p i = false.
Proof.
  induction k as [|k IH]; intros c Hk Hp; [lia|].
  destruct (existsb p (map N.of_nat (seq 0 (N.to_nat c)))) eqn:E.
  - apply existsb_exists in E. destruct E as [d [Hd Pd]]. apply in_map_iff in Hd. destruct Hd as [j [<- Hj]]. apply in_seq in Hj.
    destruct (IH (N.of_nat j) ltac:(lia) Pd) as [c0 [A [B C]]]. exists c0. split; [exact A|]. split; [lia|exact C].
  - exists c. split; [exact Hp|]. split; [lia|]. intros i Hi. destruct (p i) eqn:Pi; [|reflexivity].
    exfalso. assert (X : existsb p (map N.of_nat (seq 0 (N.to_nat c))) = true).
    { apply existsb_exists. exists i. split; [|exact Pi]. apply in_map_iff. exists (N.to_nat i). split; [lia|]. apply in_seq. lia. }
    rewrite X in E. discriminate.
Qed.

Lemma ev_index_group cs c : In c cs -> 256 <= c -> In (EIndex (c / 256)) (events cs).
Proof.
  intros Hc H256. set (g := c / 256).
  pose (p := fun x => present cs x && (x / 256 =? g)).
  assert (Pc : p c = true) by (unfold p; rewrite (proj2 (present_in cs c) Hc), N.eqb_refl; reflexivity).
  destruct (least_true p (S (N.to_nat c)) c ltac:(lia) Pc) as [c0 [P0 [_ Least]]].
  unfold p in P0. apply andb_prop in P0. destruct P0 as [Pr G0]. apply N.eqb_eq in G0.
  assert (Hc0 : In c0 cs) by (apply present_in, Pr).
  assert (G1 : 1 <= g) by (unfold g; apply N.div_le_lower_bound; lia).
  assert (C256 : 256 <= c0).
  { destruct (N.lt_ge_cases c0 256) as [L|L]; [|exact L]. rewrite (N.div_small c0 256 L) in G0. lia. }
  apply in_events. exists c0. split; [apply in_lt_end, Hc0|].
  unfold events_at. apply in_or_app. right. apply in_or_app. left.
  destruct (N.eqb_spec c0 1); [lia|].
  destruct (N.leb_spec 256 c0); [|lia]. rewrite Pr. cbn [andb].
  assert (GH : group_has cs (c0 / 256) c0 = false).
  { unfold group_has. destruct (existsb (fun i => (i / 256 =? c0 / 256) && (i <? c0)) cs) eqn:E; [|reflexivity].
    exfalso. apply existsb_exists in E. destruct E as [i [Hi Q]]. apply andb_prop in Q. destruct Q as [Q1 Q2].
    apply N.eqb_eq in Q1. apply N.ltb_lt in Q2. specialize (Least i Q2). unfold p in Least.
    rewrite (proj2 (present_in cs i) Hi) in Least. cbn [andb] in Least. apply N.eqb_neq in Least. congruence. }
  rewrite GH. cbn [negb]. rewrite G0. left. reflexivity.
Qed.
Lemma ev_index_bound cs g : In (EIndex g) (events cs) -> g < (cs_end cs + 255) / 256.
Proof.
  intros H. apply in_events in H. destruct H as [c [Hc H]]. unfold events_at in H.
  assert (Hb : forall x, x < cs_end cs -> x / 256 < (cs_end cs + 255) / 256).
  { intros x Hx. apply N.div_lt_upper_bound; [lia|].
    pose proof (N.div_mod (cs_end cs + 255) 256 ltac:(lia)). pose proof (N.mod_upper_bound (cs_end cs + 255) 256 ltac:(lia)). lia. }
  apply in_app_or in H. destruct H as [H|H].
  - destruct (c =? 256); [destruct H as [H|[]]; discriminate H | destruct H].
  - apply in_app_or in H. destruct H as [H|H].
    + destruct (N.eqb_spec c 1) as [->|].
      * destruct H as [H|[]]. injection H as <-. specialize (Hb 1 Hc). change (1 / 256) with 0 in Hb. exact Hb.
      * destruct ((256 <=? c) && present cs c && negb (group_has cs (c / 256) c)); [|destruct H].
        destruct H as [H|[]]. injection H as <-. apply Hb, Hc.
    + destruct (present cs c); [destruct H as [H|[]]; discriminate H | destruct H].
Qed.

Lemma ev_index_needs cs g : In (EIndex g) (events cs) -> 1 < cs_end cs.
Proof.
  intros H. apply in_events in H. destruct H as [c [Hc H]]. unfold events_at in H.
  apply in_app_or in H. destruct H as [H|H].
  - destruct (c =? 256); [destruct H as [H|[]]; discriminate H | destruct H].
  - apply in_app_or in H. destruct H as [H|H].
    + destruct (N.eqb_spec c 1) as [->|]; [exact Hc|].
      destruct (N.leb_spec 256 c); [lia|]. cbn [andb] in H. destruct H.
    + destruct (present cs c); [destruct H as [H|[]]; discriminate H | destruct H].
Qed.

(* ---------- reading the structure back ---------- *)
Lemma dnth_map_seq (f : nat -> N) n j : (j < n)%nat -> dnth (map f (seq 0 n)) j = f j.
Proof.
  intros H. unfold dnth. rewrite (nth_indep _ 0 (f 0%nat)) by (rewrite map_length, seq_length; exact H).
  rewrite map_nth. rewrite seq_nth by exact H. reflexivity.
Qed.
Lemma has_index_in evs g : existsb (ev_eqb (EIndex g)) evs = true <-> In (EIndex g) evs.
Proof.
  rewrite existsb_exists. split.
  - intros [x [Hx E]]. apply ev_eqb_eq in E. subst x. exact Hx.
  - intros H. exists (EIndex g). split; [exact H|apply ev_eqb_refl].
Qed.
Lemma find_table (B : N -> N) (T : N -> list N) gs m : In m gs -> (forall g, In g gs -> B g = B m -> g = m) ->
  match find (fun p => fst p =? B m) (map (fun g => (B g, T g)) gs) with Some p => snd p | None => [] end = T m.
Proof.
  induction gs as [|x r IH]; intros Hm Hinj; [destruct Hm|]. cbn [map find fst].
  destruct (N.eqb_spec (B x) (B m)) as [E|E].
  - rewrite (Hinj x (or_introl eq_refl) E). reflexivity.
  - apply IH; [destruct Hm as [->|Hm]; [contradiction|exact Hm] | intros g Hg; apply Hinj; right; exact Hg].
Qed.

Section Read.
  Variables (cs free : list N).
  Hypothesis Hne : cs <> [].
  Hypothesis Hend : cs_end cs <= 32768.
  Hypothesis Hnd : NoDup free.
  Hypothesis Hz : ~ In 0 free.
  Hypothesis Hlen : (length (events cs) <= length free)%nat.
  Let evs := events cs.
  Let B e := block_of e evs free.

  Lemma B_nonzero e : In e evs -> B e <> 0.
  Proof. intros H E. apply Hz. rewrite <- E. apply block_of_in; assumption. Qed.

  Lemma read_index_spec l g iptr : table_of l iptr = index_table cs evs free g ->
    forall c b, In (c, b) (read_index l g iptr) <-> (exists j, (j < 256)%nat /\ c = 256 * g + N.of_nat j) /\ In c cs /\ b = B (EData c).
  Proof.
    intros Ht c b. unfold read_index. rewrite in_flat_map. rewrite Ht. split.
    - intros [j [Hj H]]. apply in_seq in Hj. unfold index_table in H. rewrite dnth_map_seq in H by lia.
      destruct (present cs (256 * g + N.of_nat j)) eqn:P.
      + assert (Hin : In (256 * g + N.of_nat j) cs) by (apply present_in, P).
        destruct (N.eqb_spec (block_of (EData (256 * g + N.of_nat j)) evs free) 0) as [E|E]; [destruct H|].
        destruct H as [H|[]]. injection H as <- <-. split; [exists j; split; [lia|reflexivity]|]. split; [exact Hin|reflexivity].
      + change (0 =? 0) with true in H. destruct H.
    - intros [[j [Hj ->]] [Hin ->]]. exists j. split; [apply in_seq; lia|]. unfold index_table. rewrite dnth_map_seq by lia.
      rewrite (proj2 (present_in cs _) Hin).
      destruct (N.eqb_spec (block_of (EData (256 * g + N.of_nat j)) evs free) 0) as [E|E].
      + exfalso. apply (B_nonzero (EData (256 * g + N.of_nat j))); [apply ev_data, Hin|exact E].
      + left. reflexivity.
  Qed.

  Lemma indexes_lookup m : In (EIndex m) evs ->
    table_of (pd_layout cs free) (B (EIndex m)) = index_table cs evs free m.
  Proof.
    intros Hm. unfold table_of, pd_layout. cbn [l_indexes]. fold evs.
    destruct (N.leb_spec (cs_end cs) 1) as [L|L].
    - pose proof (ev_index_needs cs m Hm). lia.
    - apply (find_table (fun g => block_of (EIndex g) evs free) (fun g => index_table cs evs free g)).
      + apply filter_In. split; [|apply has_index_in, Hm].
        unfold groups. apply in_map_iff. exists (N.to_nat m). pose proof (ev_index_bound cs m Hm). split; [lia|]. apply in_seq. lia.
      + intros g Hg E. apply filter_In in Hg. destruct Hg as [_ Hg]. apply has_index_in in Hg.
        assert (X : EIndex g = EIndex m) by (apply (block_of_inj _ _ evs free); assumption). injection X; auto.
  Qed.

  Lemma lay_storage : l_storage (pd_layout cs free) = if cs_end cs <=? 1 then 1 else if cs_end cs <=? 256 then 2 else 3.
  Proof. reflexivity. Qed.
  Lemma lay_key : l_key (pd_layout cs free) = if cs_end cs <=? 1 then B (EData 0) else if cs_end cs <=? 256 then B (EIndex 0) else B EMaster.
  Proof. reflexivity. Qed.
  Lemma lay_master : l_master (pd_layout cs free) =
    if cs_end cs <=? 256 then [] else map (fun j => let g := N.of_nat j in if existsb (ev_eqb (EIndex g)) evs then B (EIndex g) else 0) (seq 0 256).
  Proof. reflexivity. Qed.

  (* every chunk stored, and nothing else, is found again at its own index, in its own data block *)
  Theorem pd_read_correct : forall c b, In (c, b) (pd_read (pd_layout cs free)) <-> In c cs /\ b = B (EData c).
  Proof.
    intros c b. unfold pd_read. rewrite lay_storage, lay_key.
    destruct (N.leb_spec (cs_end cs) 1) as [E1|E1].
    - change (1 =? 1) with true. cbv iota. split.
      + intros [H|[]]. injection H as <- <-. split; [|reflexivity].
        destruct cs as [|x r]; [contradiction|]. pose proof (in_lt_end (x :: r) x (or_introl eq_refl)). assert (x = 0) by lia. subst x. left. reflexivity.
      + intros [Hc ->]. pose proof (in_lt_end cs c Hc). assert (c = 0) by lia. subst c. left. reflexivity.
    - destruct (N.leb_spec (cs_end cs) 256) as [E2|E2].
      + change (2 =? 1) with false. change (2 =? 2) with true. cbv iota.
        rewrite (read_index_spec _ 0 _ (indexes_lookup 0 (ev_index0 cs E1))). split.
        * intros [_ H]. exact H.
        * intros [Hc ->]. split; [|split; [exact Hc|reflexivity]]. pose proof (in_lt_end cs c Hc). exists (N.to_nat c). split; lia.
      + change (3 =? 1) with false. change (3 =? 2) with false. cbv iota. rewrite lay_master.
        destruct (N.leb_spec (cs_end cs) 256) as [X|_]; [lia|]. rewrite in_flat_map. split.
        * intros [m [Hm H]]. apply in_seq in Hm. rewrite dnth_map_seq in H by lia. cbv zeta in H.
          destruct (existsb (ev_eqb (EIndex (N.of_nat m))) evs) eqn:HI; [|change (0 =? 0) with true in H; destruct H].
          apply has_index_in in HI. destruct (N.eqb_spec (B (EIndex (N.of_nat m))) 0) as [Z|Z]; [destruct H|].
          apply (read_index_spec _ _ _ (indexes_lookup _ HI)) in H. destruct H as [_ H]. exact H.
        * intros [Hc ->]. pose proof (in_lt_end cs c Hc) as Lc.
          assert (HI : In (EIndex (c / 256)) evs).
          { destruct (N.lt_ge_cases c 256) as [L|L]; [rewrite (N.div_small c 256 L); apply ev_index0; lia | apply ev_index_group; assumption]. }
          assert (Hm : c / 256 < 128) by (apply N.div_lt_upper_bound; lia).
          exists (N.to_nat (c / 256)). split; [apply in_seq; lia|]. rewrite dnth_map_seq by lia. cbv zeta. rewrite N2Nat.id.
          rewrite (proj2 (has_index_in evs (c / 256)) HI).
          destruct (N.eqb_spec (B (EIndex (c / 256))) 0) as [Z|Z]; [exfalso; exact (B_nonzero _ HI Z)|].
          apply (read_index_spec _ _ _ (indexes_lookup _ HI)). split; [|split; [exact Hc|reflexivity]].
          exists (N.to_nat (c mod 256)). pose proof (N.mod_upper_bound c 256 ltac:(lia)). split; [lia|].
          rewrite N2Nat.id. apply N.div_mod. lia.
  Qed.

  (* no block has two owners: data blocks, index blocks and the master block are pairwise different, taken from the free list, never block 0 *)
  Theorem pd_blocks_distinct : forall e1 e2, In e1 evs -> In e2 evs -> B e1 = B e2 -> e1 = e2.
  Proof. intros e1 e2 H1 H2 E. apply (block_of_inj e1 e2 evs free); assumption. Qed.
  Theorem pd_blocks_from_free : forall e, In e evs -> In (B e) free /\ B e <> 0.
  Proof. intros e H. split; [apply block_of_in; assumption | apply B_nonzero, H]. Qed.
End Read.


Example pd_example : let cs := [0; 255; 256; 600; 1300] in let free := map N.of_nat (seq 7 40) in
  cs <> [] /\ cs_end cs <= 32768 /\ (length (events cs) <= length free)%nat /\ l_storage (pd_layout cs free) = 3 /\ l_blocks (pd_layout cs free) = 10.
Proof. cbv zeta. split; [discriminate|]. vm_compute. repeat split; try discriminate; try lia. Qed.
