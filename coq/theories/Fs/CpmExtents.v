(* Fs/CpmExtents.v -- MODEL of the directory entries ("extents") of one CP/M file as src/fs/cpm/mod.rs write_file / close_extent and
   src/fs/cpm/directory.rs Extent::set_eof / set_data_ptr build them, and as read_file / get_eof read them back.
   A directory entry holds [spx] block pointers (16 one-byte or 8 two-byte ones) covering exm+1 logical extents of 16K; its extent
   number counts logical extents, in the last entry only those that hold data; RC is the record count within the last logical
   extent.  Entries whose slots are all holes are not written.  Closed form of the writer; the correspondence stream compares
   every entry (extent number, record count, byte count, pointers) with what the implementation leaves in the directory. *)
From A2 Require Import Base.Bytes.
Open Scope N_scope.

Record cpm := { c_exm : N; c_bs : N; c_spx : N; c_v3 : bool }.     (* extent mask, block size, pointers per entry, CP/M 3 *)
Definition lx_per_x (p : cpm) : N := c_exm p + 1.
Definition slots_per_lx (p : cpm) : N := c_spx p / lx_per_x p.
Definition cap (p : cpm) : N := lx_per_x p * 16384.

Definition c_present (cs : list N) (i : N) : bool := existsb (N.eqb i) cs.
Definition c_end (cs : list N) : N := fold_left (fun m i => N.max m (i + 1)) cs 0.

Record entry := { e_idx : N; e_rc : N; e_lb : N; e_ptrs : list N }.

(* blocks are handed out lowest first, in the order the chunks are stored (ascending index) *)
Fixpoint c_rank (cs : list N) (c : N) (k : nat) (i : N) : N :=      (* number of c_present chunks below c among i, i+1, ... (k steps) *)
  match k with
  | O => 0
  | S k' => if i <? c then (if c_present cs i then 1 else 0) + c_rank cs c k' (i + 1) else 0
  end.
Definition c_block_of (cs free : list N) (c : N) : N := dnth free (N.to_nat (c_rank cs c (N.to_nat (c_end cs)) 0)).

Definition slots_of (p : cpm) (x : N) : list N := map (fun j => x * c_spx p + N.of_nat j) (seq 0 (N.to_nat (c_spx p))).

(* Extent::set_eof *)
Definition rc_of (bytes : N) : N :=
  let total := (bytes + 127) / 128 in
  let r := total mod 128 in if (r =? 0) && (0 <? total) then 128 else r.
Definition lb_of (p : cpm) (bytes : N) : N := if c_v3 p then bytes mod 128 else 0.

Definition entry_of (p : cpm) (cs free : list N) (eof : N) (nx x : N) : entry :=
  let slots := slots_of p x in
  let is_last := x + 1 =? nx in
  let used := fold_left (fun m c => if c_present cs c then N.max m ((c - x * c_spx p) / slots_per_lx p + 1) else m) slots 0 in
  let lx_used := if is_last then used else lx_per_x p in
  let rem := eof mod cap p in
  let bytes := if (negb is_last && (0 <? eof)) || ((rem =? 0) && (0 <? eof)) then cap p else rem in
  {| e_idx := x * lx_per_x p + lx_used - 1; e_rc := rc_of bytes; e_lb := lb_of p bytes;
     e_ptrs := map (fun c => if c_present cs c then c_block_of cs free c else 0) slots |}.

Definition cpm_entries (p : cpm) (cs free : list N) (eof : N) : list entry :=
  let nx := (c_end cs + c_spx p - 1) / c_spx p in
  match cs with
  | [] => [{| e_idx := 0; e_rc := rc_of (eof mod cap p); e_lb := lb_of p (eof mod cap p); e_ptrs := repeat 0 (N.to_nat (c_spx p)) |}]
  | _ => map (entry_of p cs free eof nx)
           (filter (fun x => existsb (c_present cs) (slots_of p x)) (map N.of_nat (seq 0 (N.to_nat nx))))
  end.

(* read_file: chunk index -> block, and the end of file as Extent::get_eof of the last entry gives it *)
Fixpoint read_entries (p : cpm) (es : list entry) (prev count : N) : option (list (N * N)) :=
  match es with
  | [] => Some []
  | e :: r =>
      let lower := e_idx e - e_idx e mod lx_per_x p in
      if (e_idx e + 1 =? prev) || (lower <? prev) then None
      else
        let base := count + (lower - prev) * 16384 / c_bs p in
        let here := flat_map (fun jp => if snd jp =? 0 then [] else [(base + N.of_nat (fst jp), snd jp)]) (combine (seq 0 (length (e_ptrs e))) (e_ptrs e)) in
        match read_entries p r (e_idx e + 1) (base + lenN (e_ptrs e)) with
        | Some rest => Some (here ++ rest)
        | None => None
        end
  end.
Definition cpm_read (p : cpm) (es : list entry) : option (list (N * N)) := read_entries p es 0 0.
Definition cpm_eof (es : list entry) : N :=
  match rev es with
  | [] => 0
  | e :: _ => if e_rc e =? 0 then e_idx e * 16384
              else e_idx e * 16384 + (if e_rc e <? 128 then e_rc e - 1 else 127) * 128 + (if e_lb e =? 0 then 128 else e_lb e)
  end.
