(* Pack/PascalText.v -- MODEL of the Pascal text codec, src/fs/pascal/types.rs TextConverter::from_utf8 / to_utf8 and paginate:
   lines end in CR, a line after the first starts with DLE (0x10) and a count byte 0x20+n standing for n leading blanks (at most 223),
   the text is cut into 1024-byte pages, each padded with NUL after its last CR.  No proofs here. *)
From A2 Require Import Base.Bytes.
Open Scope N_scope.

Record est := { e_start : bool; e_ind : N; e_page : nat; e_cnt : N; e_ans : list N }.

(* the last index i < 1024 with ans[off+i] = CR *)
Fixpoint last_cr (ans : list N) (off : nat) (i : nat) : option nat :=
  match i with
  | O => None
  | S j => if dnth ans (off + j) =? 13 then Some j else last_cr ans off j
  end.

(* paginate: once 1024 or more bytes are counted on the page, pad with NUL after the last CR among the first 1024 bytes of the page *)
Definition paginate (ans : list N) (page : nat) (cnt : N) : option (list N * nat) :=
  if cnt <? 1024 then Some (ans, page)
  else match last_cr ans (page * 1024) 1024 with
       | Some i => Some (firstn (page * 1024 + i + 1) ans ++ repeat 0 (1023 - i) ++ skipn (page * 1024 + i + 1) ans, S page)
       | None => None
       end.

Definition is_nl (c : N) : bool := (c =? 10) || (c =? 13).

(* one character that is not the CR of a CR LF pair; [first] = it is the first byte of the text *)
Definition enc_char (first : bool) (s : est) (c : N) : option est :=
  let out := if is_nl c then 13 else c in
  let pushed : option (bool * N * N * list N) :=       (* start, indent, bytes counted, bytes appended *)
    if e_start s then
      if negb first && (c =? 32) then Some (false, e_ind s + 1, 0, [])
      else Some (is_nl c, e_ind s, (if first then 1 else 3), (if first then [] else [16; 32]) ++ [out])
    else if 0 <? e_ind s then
      if (c =? 32) && (e_ind s + 32 <? 255) then Some (false, e_ind s + 1, 0, [])
      else Some (is_nl c, 0, 3, [16; 32 + e_ind s; out])
    else if is_nl c then Some (true, 0, 1, [13])
    else if c <? 128 then Some (false, 0, 1, [c])
    else None in
  match pushed with
  | None => None
  | Some (st, ind, k, bytes) =>
      let ans := e_ans s ++ bytes in
      match paginate ans (e_page s) (e_cnt s + k) with
      | None => None
      | Some (ans', page') => Some {| e_start := st; e_ind := ind; e_page := page'; e_cnt := (e_cnt s + k) mod 1024; e_ans := ans' |}
      end
  end.

Fixpoint enc_loop (first : bool) (s : est) (src : list N) : option est :=
  match src with
  | [] => Some s
  | c :: r =>
      match r with
      | d :: _ => if (c =? 13) && (d =? 10) then enc_loop false s r      (* the CR of CR LF is skipped; the index still advances *)
                  else match enc_char first s c with Some s' => enc_loop false s' r | None => None end
      | [] => match enc_char first s c with Some s' => enc_loop false s' r | None => None end
      end
  end.

Definition pad_page (l : list N) : list N :=
  let r := (length l mod 1024)%nat in if Nat.eqb r 0 then l else l ++ repeat 0 (1024 - r).

Definition pas_encode (src : list N) : option (list N) :=
  match enc_loop true {| e_start := true; e_ind := 0; e_page := 0; e_cnt := 0; e_ans := [] |} src with
  | None => None
  | Some s =>
      let terminated := match rev (e_ans s) with 13 :: _ => true | _ => false end in
      let ans := if terminated then e_ans s else e_ans s ++ [13] in
      let cnt := if terminated then e_cnt s else e_cnt s + 1 in
      match paginate ans (e_page s) cnt with
      | None => None
      | Some (ans', _) => Some (pad_page ans')
      end
  end.

(* to_utf8: CR becomes LF, DLE takes the next byte as a count (below 32: none), NUL and bytes from 127 up are dropped *)
Fixpoint pas_decode (src : list N) : list N :=
  match src with
  | [] => []
  | c :: r =>
      if c =? 16 then match r with
                      | [] => []
                      | k :: r' => repeat 32 (N.to_nat (k - 32)) ++ pas_decode r'
                      end
      else if c =? 13 then 10 :: pas_decode r
      else if (0 <? c) && (c <? 127) then c :: pas_decode r
      else pas_decode r
  end.
