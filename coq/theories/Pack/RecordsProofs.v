(* Pack/RecordsProofs.v -- what is stored for a set of records is, at every offset of the file, the byte of the one record that
   covers it (zero where no text was written): every record reads back in full whatever the other records are. *)
From Coq Require Import Bool Permutation.
From A2 Require Import Base.Bytes Pack.Records.
Open Scope N_scope.

Lemma sorted_ids_In x l : In x (sorted_ids l) <-> In x l.
Proof.
  assert (Hins : forall y m, In x (insert_sorted y m) <-> x = y \/ In x m).
  { intros y m. induction m as [|z m IH]; cbn [insert_sorted].
    - cbn. intuition.
    - destruct (N.ltb_spec y z); [cbn; intuition|]. destruct (N.eqb_spec y z) as [->|E]; cbn [In]; [intuition|]. rewrite IH. intuition. }
  induction l as [|y l IH]; cbn [sorted_ids fold_right]; [tauto|]. fold (sorted_ids l). rewrite Hins, IH. cbn. intuition.
Qed.

Lemma find_ids {A} (g : N -> A) c ids :
  find (fun ch : N * A => fst ch =? c) (map (fun c => (c, g c)) ids) = if existsb (N.eqb c) ids then Some (c, g c) else None.
Proof.
  induction ids as [|d ids IH]; cbn [map find existsb fst]; [reflexivity|].
  rewrite (N.eqb_sym c d). destruct (N.eqb_spec d c) as [->|E]; [reflexivity|]. cbn [orb]. exact IH.
Qed.

Lemma byte_at_none ws off : (forall v, ~ In (off, v) ws) -> byte_at ws off = 0.
Proof.
  intros H. unfold byte_at. destruct (find _ ws) as [[o v]|] eqn:E; [|reflexivity].
  apply find_some in E. destruct E as [Hin He]. cbn [fst] in He. apply N.eqb_eq in He. subst. exfalso. exact (H v Hin).
Qed.
Lemma byte_at_some ws off v : In (off, v) ws -> exists v', In (off, v') ws /\ byte_at ws off = v'.
Proof.
  intros H. unfold byte_at. destruct (find _ ws) as [[o v']|] eqn:E.
  - apply find_some in E. destruct E as [Hin He]. cbn [fst] in He. apply N.eqb_eq in He. subst. exists v'. split; [exact Hin | reflexivity].
  - exfalso. apply (find_none _ _ E) in H. cbn [fst] in H. rewrite N.eqb_refl in H. discriminate.
Qed.

Lemma chunk_len_ge L ws c : forall m off v, In (off, v) ws -> off / L = c ->
  off mod L + 1 <= fold_left (fun m (w : N * N) => if fst w / L =? c then N.max m (fst w mod L + 1) else m) ws m.
Proof.
  assert (Hge : forall (ws : list (N * N)) m, m <= fold_left (fun m (w : N * N) => if fst w / L =? c then N.max m (fst w mod L + 1) else m) ws m).
  { induction ws0 as [|w ws0 IH]; intros m; cbn [fold_left]; [lia|]. specialize (IH (if fst w / L =? c then N.max m (fst w mod L + 1) else m)).
    destruct (fst w / L =? c); lia. }
  induction ws as [|w ws IH]; intros m off v H Hc; [destruct H|]. cbn [fold_left]. destruct H as [->|H].
  - cbn [fst]. rewrite Hc, N.eqb_refl. pose proof (Hge ws (N.max m (off mod L + 1))). lia.
  - apply (IH _ off v H Hc).
Qed.

Lemma nth_map_seq (g : nat -> N) n k : (k < n)%nat -> nth k (map g (seq 0 n)) 0 = g k.
Proof.
  intros H. rewrite (nth_indep _ 0 (g 0%nat)) by (rewrite map_length, seq_length; exact H).
  rewrite map_nth, seq_nth by exact H. reflexivity.
Qed.

Lemma combine_seq_In (d : list N) i b : forall a, In (i, b) (combine (seq a (length d)) d) -> (a <= i < a + length d)%nat /\ b = nth (i - a) d 0.
Proof.
  induction d as [|x d IH]; intros a H; [destruct H|]. cbn [length seq combine] in H. destruct H as [E|H].
  - inversion E; subst. split; [cbn [length]; lia|]. replace (i - i)%nat with 0%nat by lia. reflexivity.
  - destruct (IH (S a) H) as [R V]. split; [cbn [length]; lia|]. replace (i - a)%nat with (S (i - S a)) by lia. exact V.
Qed.
Lemma combine_seq_In' (d : list N) : forall i a, (i < length d)%nat -> In ((a + i)%nat, nth i d 0) (combine (seq a (length d)) d).
Proof.
  induction d as [|x d IH]; intros i a H; [cbn in H; lia|]. cbn [length seq combine]. destruct i as [|i].
  - left. rewrite Nat.add_0_r. reflexivity.
  - right. replace (a + S i)%nat with (S a + i)%nat by lia. apply IH. cbn [length] in H. lia.
Qed.

Section Stored.
  Variables L rl : N.
  Variable force0 : bool.
  Variable rs : recset.
  Hypothesis HL : 0 < L.
  Let ws := writes rl rs.

  (* the chunks hold exactly the written bytes: at every offset *)
  Lemma stored_is_written off : stored_at L (rec_pack L rl force0 rs) off = byte_at ws off.
  Proof.
    unfold stored_at, rec_pack. cbn [r_chunks]. fold ws. rewrite find_ids.
    set (c := off / L). set (k := off mod L).
    assert (Hoff : c * L + k = off) by (unfold c, k; rewrite N.mul_comm; symmetry; apply N.div_mod; lia).
    assert (Hk : k < L) by (apply N.mod_lt; lia).
    destruct (existsb (N.eqb c) _) eqn:Ex; cbn [snd].
    - set (n := if force0 && (c =? 0) then L else chunk_len_of L ws c).
      destruct (N.ltb_spec k n) as [Hlt|Hge].
      + unfold dnth. rewrite nth_map_seq by lia. rewrite N2Nat.id, Hoff. reflexivity.
      + unfold dnth. rewrite nth_overflow by (rewrite map_length, seq_length; lia).
        symmetry. apply byte_at_none. intros v Hin.
        pose proof (chunk_len_ge L ws c 0 off v Hin eq_refl) as Hc. fold k in Hc. fold (chunk_len_of L ws c) in Hc.
        unfold n in Hge. destruct (force0 && (c =? 0)); lia.
    - symmetry. apply byte_at_none. intros v Hin.
      assert (Hid : In c (sorted_ids ((if force0 then [0] else []) ++ chunk_ids L ws))).
      { apply sorted_ids_In. apply in_or_app. right. unfold chunk_ids. apply in_map_iff. exists (off, v). split; [reflexivity | exact Hin]. }
      assert (X : existsb (N.eqb c) (sorted_ids ((if force0 then [0] else []) ++ chunk_ids L ws)) = true).
      { apply existsb_exists. exists c. split; [exact Hid | apply N.eqb_refl]. }
      congruence.
  Qed.

  (* the written bytes of distinct records do not meet *)
  Hypothesis Hkeys : NoDup (map fst rs).
  Hypothesis Hfit : forall r d, In (r, d) rs -> lenN d <= rl.

  Lemma writes_In off v : In (off, v) ws <-> exists r d i, In (r, d) rs /\ (i < length d)%nat /\ off = r * rl + N.of_nat i /\ v = nth i d 0.
  Proof.
    unfold ws, writes. rewrite in_flat_map. split.
    - intros [[r d] [Hr Hw]]. unfold rec_writes in Hw. cbn [fst snd] in Hw. apply in_map_iff in Hw. destruct Hw as [[i b] [E Hc]].
      cbn [fst snd] in E. injection E as <- <-.
      assert (Hi : (i < length d)%nat /\ b = nth i d 0).
      { destruct (combine_seq_In d i b 0%nat Hc) as [R V]. split; [lia|]. rewrite Nat.sub_0_r in V. exact V. }
      destruct Hi as [Hi ->]. exists r, d, i. repeat split; assumption.
    - intros [r [d [i [Hr [Hi [-> ->]]]]]]. exists (r, d). split; [exact Hr|]. unfold rec_writes. cbn [fst snd].
      apply in_map_iff. exists (i, nth i d 0). split; [reflexivity|].
      exact (combine_seq_In' d i 0%nat Hi).
  Qed.

  Lemma lookup_unique r d d' : In (r, d) rs -> In (r, d') rs -> d = d'.
  Proof.
    clear Hfit. induction rs as [|[q e] t IH]; intros H1 H2; [destruct H1|]. cbn [map fst] in Hkeys. inversion Hkeys as [|? ? Hn Hd]; subst.
    destruct H1 as [E1|H1]; destruct H2 as [E2|H2].
    - congruence.
    - inversion E1; subst. exfalso. apply Hn. apply in_map_iff. exists (r, d'). split; [reflexivity | exact H2].
    - inversion E2; subst. exfalso. apply Hn. apply in_map_iff. exists (r, d). split; [reflexivity | exact H1].
    - apply (IH Hd H1 H2).
  Qed.

  (* every record reads back in full: its text, then zeros to the end of its window *)
  Theorem rec_pack_reads r d i : In (r, d) rs -> i < rl ->
    stored_at L (rec_pack L rl force0 rs) (r * rl + i) = dnth d (N.to_nat i).
  Proof.
    intros Hr Hi. rewrite stored_is_written.
    assert (Huniq : forall r' d' i', In (r', d') rs -> (i' < length d')%nat -> r' * rl + N.of_nat i' = r * rl + i -> r' = r /\ N.of_nat i' = i).
    { intros r' d' i' Hr' Hi' E. pose proof (Hfit r' d' Hr') as F. unfold lenN in F.
      assert (N.of_nat i' < rl) by lia.
      assert (r' = r).
      { assert (A : (r' * rl + N.of_nat i') / rl = r') by (rewrite N.mul_comm; symmetry; apply N.div_unique with (N.of_nat i'); lia).
        assert (B : (r * rl + i) / rl = r) by (rewrite N.mul_comm; symmetry; apply N.div_unique with i; lia). congruence. }
      subst. split; [reflexivity | lia]. }
    destruct (Nat.lt_ge_cases (N.to_nat i) (length d)) as [Hin|Hout].
    - assert (Hw : In (r * rl + i, nth (N.to_nat i) d 0) ws).
      { apply writes_In. exists r, d, (N.to_nat i). repeat split; try assumption. rewrite N2Nat.id. reflexivity. }
      destruct (byte_at_some ws _ _ Hw) as [v' [Hv' ->]]. apply writes_In in Hv'. destruct Hv' as [r' [d' [i' [Hr' [Hi' [E ->]]]]]].
      destruct (Huniq r' d' i' Hr' Hi' (eq_sym E)) as [-> Ei]. rewrite (lookup_unique r d' d Hr' Hr).
      unfold dnth. f_equal. lia.
    - unfold dnth. rewrite nth_overflow by exact Hout. apply byte_at_none. intros v Hv. apply writes_In in Hv.
      destruct Hv as [r' [d' [i' [Hr' [Hi' [E _]]]]]]. destruct (Huniq r' d' i' Hr' Hi' (eq_sym E)) as [-> Ei].
      rewrite (lookup_unique r d' d Hr' Hr) in Hi'. lia.
  Qed.
End Stored.

(* ---------- the packed image does not depend on the order in which the records are taken ---------- *)

Fixpoint sorted_lt (l : list N) : Prop := match l with [] => True | x :: r => (forall y, In y r -> x < y) /\ sorted_lt r end.

Lemma insert_sorted_In x y m : In x (insert_sorted y m) <-> x = y \/ In x m.
Proof.
  induction m as [|z m IH]; cbn [insert_sorted]; [cbn; intuition|].
  destruct (N.ltb_spec y z); [cbn; intuition|]. destruct (N.eqb_spec y z) as [->|E]; cbn [In]; [intuition|]. rewrite IH. intuition.
Qed.
Lemma insert_sorted_sorted y m : sorted_lt m -> sorted_lt (insert_sorted y m).
Proof.
  induction m as [|z m IH]; intros H; cbn [insert_sorted]; [cbn; intuition|]. destruct H as [Hz Hm].
  destruct (N.ltb_spec y z) as [Hlt|Hge].
  - cbn [sorted_lt]. split; [|split; assumption]. intros w [<-|Hw]; [exact Hlt | specialize (Hz w Hw); lia].
  - destruct (N.eqb_spec y z) as [->|E]; [cbn [sorted_lt]; split; assumption|].
    cbn [sorted_lt]. split; [|apply IH, Hm]. intros w Hw. apply insert_sorted_In in Hw. destruct Hw as [->|Hw]; [lia | apply Hz, Hw].
Qed.
Lemma sorted_ids_sorted l : sorted_lt (sorted_ids l).
Proof. induction l as [|x l IH]; cbn [sorted_ids fold_right]; [exact I|]. apply insert_sorted_sorted, IH. Qed.

Lemma sorted_ext l : forall l', sorted_lt l -> sorted_lt l' -> (forall x, In x l <-> In x l') -> l = l'.
Proof.
  induction l as [|a l IH]; intros [|b l'] H H' E.
  - reflexivity.
  - exfalso. apply (E b). left. reflexivity.
  - exfalso. apply (E a). left. reflexivity.
  - destruct H as [Ha Hl]. destruct H' as [Hb Hl'].
    assert (a = b).
    { destruct (proj1 (E a) (or_introl eq_refl)) as [->|Hin]; [reflexivity|]. destruct (proj2 (E b) (or_introl eq_refl)) as [->|Hin']; [reflexivity|].
      specialize (Ha b Hin'). specialize (Hb a Hin). lia. }
    subst b. f_equal. apply IH; try assumption. intros x. split; intros Hx.
    + destruct (proj1 (E x) (or_intror Hx)) as [->|G]; [|exact G]. specialize (Ha x Hx). lia.
    + destruct (proj2 (E x) (or_intror Hx)) as [->|G]; [|exact G]. specialize (Hb x Hx). lia.
Qed.

Lemma fold_max_perm (P : N * N -> bool) (g : N * N -> N) l l' : Permutation l l' ->
  forall m, fold_left (fun m w => if P w then N.max m (g w) else m) l m = fold_left (fun m w => if P w then N.max m (g w) else m) l' m.
Proof.
  induction 1 as [|x l l' _ IH|x y l|l l' l'' _ IH1 _ IH2]; intros m; cbn [fold_left].
  - reflexivity.
  - apply IH.
  - f_equal. destruct (P x), (P y); lia.
  - rewrite IH1. apply IH2.
Qed.

Section Order.
  Variables L rl : N.
  Variable force0 : bool.
  Variables rs rs' : recset.
  Hypothesis HL : 0 < L.
  Hypothesis Hperm : Permutation rs rs'.
  Hypothesis Hkeys : NoDup (map fst rs).
  Hypothesis Hfit : forall r d, In (r, d) rs -> lenN d <= rl.

  Lemma writes_perm : Permutation (writes rl rs) (writes rl rs').
  Proof. unfold writes. apply Permutation_flat_map. exact Hperm. Qed.

  (* an offset is written at most once *)
  Lemma writes_functional off v v' : In (off, v) (writes rl rs) -> In (off, v') (writes rl rs) -> v = v'.
  Proof.
    intros H H'. apply (writes_In L rl rs HL Hfit) in H. apply (writes_In L rl rs HL Hfit) in H'.
    destruct H as [r [d [i [Hr [Hi [E ->]]]]]]. destruct H' as [r' [d' [i' [Hr' [Hi' [E' ->]]]]]].
    pose proof (Hfit r d Hr) as F. pose proof (Hfit r' d' Hr') as F'. unfold lenN in F, F'.
    assert (r' = r).
    { assert (A : off / rl = r) by (rewrite E, N.mul_comm; symmetry; apply N.div_unique with (N.of_nat i); lia).
      assert (B : off / rl = r') by (rewrite E', N.mul_comm; symmetry; apply N.div_unique with (N.of_nat i'); lia). congruence. }
    subst r'. rewrite (lookup_unique rl rs Hkeys r d' d Hr' Hr). f_equal. lia.
  Qed.

  Lemma byte_at_perm off : byte_at (writes rl rs) off = byte_at (writes rl rs') off.
  Proof.
    destruct (find (fun w => fst w =? off) (writes rl rs)) as [[o v]|] eqn:E.
    - apply find_some in E. destruct E as [Hin He]. cbn [fst] in He. apply N.eqb_eq in He. subst o.
      destruct (byte_at_some _ _ _ Hin) as [v1 [H1 ->]].
      destruct (byte_at_some _ _ _ (Permutation_in _ writes_perm Hin)) as [v2 [H2 ->]].
      apply (Permutation_in _ (Permutation_sym writes_perm)) in H2. exact (writes_functional off v1 v2 H1 H2).
    - assert (N1 : forall v, ~ In (off, v) (writes rl rs)).
      { intros v Hv. apply (find_none _ _ E) in Hv. cbn [fst] in Hv. rewrite N.eqb_refl in Hv. discriminate. }
      rewrite (byte_at_none _ _ N1). symmetry. apply byte_at_none. intros v Hv. apply (N1 v). exact (Permutation_in _ (Permutation_sym writes_perm) Hv).
  Qed.

  Theorem rec_pack_order : rec_pack L rl force0 rs = rec_pack L rl force0 rs'.
  Proof.
    unfold rec_pack.
    assert (Hlen : forall c, chunk_len_of L (writes rl rs) c = chunk_len_of L (writes rl rs') c).
    { intros c. unfold chunk_len_of. apply (fold_max_perm (fun w => fst w / L =? c) (fun w => fst w mod L + 1)). exact writes_perm. }
    assert (Hids : sorted_ids ((if force0 then [0] else []) ++ chunk_ids L (writes rl rs)) = sorted_ids ((if force0 then [0] else []) ++ chunk_ids L (writes rl rs'))).
    { apply sorted_ext; try apply sorted_ids_sorted. intros x. rewrite !sorted_ids_In, !in_app_iff. unfold chunk_ids.
      assert (P : Permutation (map (fun w : N * N => fst w / L) (writes rl rs)) (map (fun w : N * N => fst w / L) (writes rl rs'))) by (apply Permutation_map, writes_perm).
      split; (intros [H|H]; [left; exact H | right]); [exact (Permutation_in _ P H) | exact (Permutation_in _ (Permutation_sym P) H)]. }
    rewrite Hids. f_equal.
    - apply map_ext. intros c. f_equal. rewrite Hlen. apply map_ext. intros j. apply byte_at_perm.
    - assert (G : forall ids m, fold_left (fun m c => if chunk_len_of L (writes rl rs) c =? 0 then m else N.max m (c * L + (if force0 && (c =? 0) then L else chunk_len_of L (writes rl rs) c))) ids m
                        = fold_left (fun m c => if chunk_len_of L (writes rl rs') c =? 0 then m else N.max m (c * L + (if force0 && (c =? 0) then L else chunk_len_of L (writes rl rs') c))) ids m).
      { induction ids as [|c ids IH]; intros m; cbn [fold_left]; [reflexivity|]. rewrite Hlen. apply IH. }
      apply G.
  Qed.
End Order.

Example rec_pack_example :
  let img := rec_pack 256 300 true [(0, [72; 73; 13]); (1, [65; 13]); (3, [90])] in
  map fst (r_chunks img) = [0; 1; 3] /\ r_eof img = 901 /\ stored_at 256 img 300 = 65 /\ stored_at 256 img 302 = 0 /\ stored_at 256 img 900 = 90.
Proof. vm_compute. repeat split; reflexivity. Qed.
