From A2 Require Import Base.Bytes.
From A2 Require Import Pack.PascalText.
Open Scope N_scope.

(* ---------- the encoded text as a sequence of tokens ---------- *)
Inductive tok := TC (c : N) | TCR | TI (k : N) | TZ.
Definition tok_ok (t : tok) : Prop :=
  match t with TC c => 0 < c /\ c < 127 /\ c <> 13 /\ c <> 16 | TI k => 32 <= k | _ => True end.
Definition tflat (t : tok) : list N := match t with TC c => [c] | TCR => [13] | TI k => [16; k] | TZ => [0] end.
Definition tdec (t : tok) : list N := match t with TC c => [c] | TCR => [10] | TI k => repeat 32 (N.to_nat (k - 32)) | TZ => [] end.
Definition flat (ts : list tok) : list N := flat_map tflat ts.
Definition tsdec (ts : list tok) : list N := flat_map tdec ts.

Lemma flat_app a b : flat (a ++ b) = flat a ++ flat b. Proof. apply flat_map_app. Qed.
Lemma tsdec_app a b : tsdec (a ++ b) = tsdec a ++ tsdec b. Proof. apply flat_map_app. Qed.

Lemma dec_flat ts : Forall tok_ok ts -> pas_decode (flat ts) = tsdec ts.
Proof.
  induction 1 as [|t r Ht _ IH]; [reflexivity|].
  destruct t as [c| |k|]; cbn [flat tsdec flat_map tflat tdec app] in *.
  - destruct Ht as [H0 [H1 [H2 H3]]]. cbn [pas_decode].
    destruct (N.eqb_spec c 16); [contradiction|]. destruct (N.eqb_spec c 13); [contradiction|].
    destruct (N.ltb_spec 0 c); [|lia]. destruct (N.ltb_spec c 127); [|lia]. cbn [andb]. fold (flat r). rewrite IH. reflexivity.
  - cbn [pas_decode]. change (13 =? 16) with false. change (13 =? 13) with true. cbv iota. fold (flat r). rewrite IH. reflexivity.
  - cbn [pas_decode]. change (16 =? 16) with true. cbv iota. fold (flat r). rewrite IH. reflexivity.
  - cbn [pas_decode]. change (0 =? 16) with false. change (0 =? 13) with false. change (0 <? 0) with false. cbn [andb]. fold (flat r). exact IH.
Qed.

(* a CR byte anywhere in the encoded text is a CR token: no other token contains the value 13 *)
Lemma split_cr ts : Forall tok_ok ts -> forall p, dnth (flat ts) p = 13 ->
  exists t1 t2, ts = t1 ++ TCR :: t2 /\ length (flat t1) = p.
Proof.
  induction 1 as [|t r Ht _ IH]; intros p Hp.
  - unfold dnth in Hp. destruct p; cbn in Hp; discriminate.
  - destruct t as [c| |k|]; cbn [flat flat_map tflat app] in Hp; fold (flat r) in Hp.
    + destruct p as [|p]; [unfold dnth in Hp; cbn in Hp; destruct Ht as [_ [_ [H _]]]; contradiction|].
      change (dnth (c :: flat r) (S p)) with (dnth (flat r) p) in Hp. destruct (IH p Hp) as [t1 [t2 [-> L]]].
      exists (TC c :: t1), t2. split; [reflexivity|]. cbn [flat flat_map tflat app length]. fold (flat t1). rewrite L. reflexivity.
    + destruct p as [|p]; [exists [], r; split; reflexivity|].
      change (dnth (13 :: flat r) (S p)) with (dnth (flat r) p) in Hp. destruct (IH p Hp) as [t1 [t2 [-> L]]].
      exists (TCR :: t1), t2. split; [reflexivity|]. cbn [flat flat_map tflat app length]. fold (flat t1). rewrite L. reflexivity.
    + destruct p as [|[|p]]; [unfold dnth in Hp; cbn in Hp; discriminate | unfold dnth in Hp; cbn in Hp; cbn in Ht; lia |].
      change (dnth (16 :: k :: flat r) (S (S p))) with (dnth (flat r) p) in Hp. destruct (IH p Hp) as [t1 [t2 [-> L]]].
      exists (TI k :: t1), t2. split; [reflexivity|]. cbn [flat flat_map tflat app length]. fold (flat t1). rewrite L. reflexivity.
    + destruct p as [|p]; [unfold dnth in Hp; cbn in Hp; discriminate|].
      change (dnth (0 :: flat r) (S p)) with (dnth (flat r) p) in Hp. destruct (IH p Hp) as [t1 [t2 [-> L]]].
      exists (TZ :: t1), t2. split; [reflexivity|]. cbn [flat flat_map tflat app length]. fold (flat t1). rewrite L. reflexivity.
Qed.

Lemma last_cr_some ans off n i : last_cr ans off n = Some i -> (i < n)%nat /\ dnth ans (off + i) = 13.
Proof.
  induction n as [|n IH]; cbn [last_cr]; [discriminate|].
  destruct (N.eqb_spec (dnth ans (off + n)) 13) as [E|E]; intros H.
  - injection H as <-. split; [lia|exact E].
  - destruct (IH H) as [A B]. split; [lia|exact B].
Qed.

Lemma flat_zeros k : flat (repeat TZ k) = repeat 0 k.
Proof. induction k as [|k IH]; [reflexivity|]. cbn [repeat flat flat_map tflat app]. fold (flat (repeat TZ k)). rewrite IH. reflexivity. Qed.
Lemma tsdec_zeros k : tsdec (repeat TZ k) = [].
Proof. induction k as [|k IH]; [reflexivity|]. cbn [repeat tsdec flat_map tdec app]. exact IH. Qed.
Lemma ok_zeros k : Forall tok_ok (repeat TZ k).
Proof. apply Forall_forall. intros x Hx. apply repeat_spec in Hx. subst x. exact I. Qed.

(* pagination inserts NUL tokens after a CR token and nothing else *)
Lemma paginate_tokens ts page cnt ans' page' : Forall tok_ok ts -> paginate (flat ts) page cnt = Some (ans', page') ->
  exists ts', ans' = flat ts' /\ Forall tok_ok ts' /\ tsdec ts' = tsdec ts.
Proof.
  intros Hok. unfold paginate. destruct (cnt <? 1024).
  - intros H. injection H as <- <-. exists ts. repeat split; assumption.
  - destruct (last_cr (flat ts) (page * 1024) 1024) as [i|] eqn:E; [|discriminate]. intros H. injection H as <- <-.
    destruct (last_cr_some _ _ _ _ E) as [Hi Hp].
    destruct (split_cr ts Hok _ Hp) as [t1 [t2 [-> L]]].
    exists (t1 ++ TCR :: repeat TZ (1023 - i) ++ t2).
    split; [|split].
    + assert (A : flat (t1 ++ TCR :: t2) = (flat t1 ++ [13]) ++ flat t2).
      { rewrite flat_app. cbn [flat flat_map tflat app]. rewrite <- app_assoc. reflexivity. }
      assert (B : flat (t1 ++ TCR :: repeat TZ (1023 - i) ++ t2) = (flat t1 ++ [13]) ++ repeat 0 (1023 - i) ++ flat t2).
      { rewrite flat_app. cbn [flat flat_map tflat app]. fold (flat (repeat TZ (1023 - i) ++ t2)). rewrite flat_app, flat_zeros, <- app_assoc. reflexivity. }
      rewrite A, B. set (pre := flat t1 ++ [13]).
      assert (Lp : length pre = (page * 1024 + i + 1)%nat) by (unfold pre; rewrite app_length, L; cbn [length]; lia).
      rewrite <- Lp. rewrite firstn_app, firstn_all, Nat.sub_diag, firstn_O, app_nil_r.
      rewrite skipn_app, skipn_all, Nat.sub_diag. cbn [skipn app]. reflexivity.
    + apply Forall_app in Hok. destruct Hok as [H1 H2]. apply Forall_app. split; [exact H1|].
      inversion H2 as [|? ? _ H3]; subst. constructor; [exact I|]. apply Forall_app. split; [apply ok_zeros | exact H3].
    + rewrite !tsdec_app. cbn [tsdec flat_map tdec app]. fold (tsdec t2). fold (tsdec (repeat TZ (1023 - i) ++ t2)).
      rewrite tsdec_app, tsdec_zeros. reflexivity.
Qed.

(* ---------- pagination keeps the byte count below the real length and the final CR at the end ---------- *)
Lemma last_app_ne {A} (a b : list A) d : b <> [] -> last (a ++ b) d = last b d.
Proof.
  intros Hb. induction a as [|x a IH]; [reflexivity|]. cbn [app].
  assert (Hn : a ++ b <> []) by (destruct a; cbn; [exact Hb|discriminate]).
  destruct (a ++ b) as [|y l] eqn:E; [contradiction|]. rewrite <- IH. reflexivity.
Qed.
Lemma last_skipn {A} (l : list A) n d : (n < length l)%nat -> last (skipn n l) d = last l d.
Proof.
  intros H. rewrite <- (firstn_skipn n l) at 2. symmetry. apply last_app_ne.
  intros E. apply (f_equal (@length A)) in E. rewrite skipn_length in E. cbn in E. lia.
Qed.
Lemma dnth_in_range l p : dnth l p <> 0 -> (p < length l)%nat.
Proof. intros H. destruct (Nat.lt_ge_cases p (length l)) as [L|L]; [exact L|]. unfold dnth in H. rewrite nth_overflow in H by exact L. contradiction. Qed.

Lemma paginate_len ans page cnt ans' page' : paginate ans page cnt = Some (ans', page') -> cnt < 2048 ->
  N.of_nat (page * 1024) + cnt <= lenN ans ->
  N.of_nat (page' * 1024) + cnt mod 1024 <= lenN ans' /\ (last ans 0 = 13 -> last ans' 0 = 13).
Proof.
  unfold paginate. intros H Hc Hl. destruct (N.ltb_spec cnt 1024) as [C|C].
  - injection H as <- <-. rewrite N.mod_small by exact C. split; [exact Hl | tauto].
  - destruct (last_cr ans (page * 1024) 1024) as [i|] eqn:E; [|discriminate]. injection H as <- <-.
    destruct (last_cr_some _ _ _ _ E) as [Hi Hp].
    assert (Hr : (page * 1024 + i < length ans)%nat) by (apply dnth_in_range; rewrite Hp; discriminate).
    assert (M : cnt mod 1024 = cnt - 1024).
    { replace cnt with ((cnt - 1024) + 1 * 1024) at 1 by lia. rewrite N.mod_add by discriminate. apply N.mod_small. lia. }
    split.
    + unfold lenN in *. rewrite !app_length, firstn_length, skipn_length, repeat_length. rewrite M. lia.
    + intros L13. destruct (Nat.eq_dec (page * 1024 + i + 1) (length ans)) as [Q|Q].
      * assert (i = 1023)%nat by (unfold lenN in Hl; lia). subst i. cbn [Nat.sub repeat app].
        rewrite Q, firstn_all, skipn_all, app_nil_r. exact L13.
      * rewrite app_assoc. rewrite last_app_ne.
        -- rewrite last_skipn by lia. exact L13.
        -- intros Z. apply (f_equal (@length N)) in Z. rewrite skipn_length in Z. cbn in Z. lia.
Qed.

(* ---------- the encoder invariant ---------- *)
Definition dom (c : N) : Prop := c = 10 \/ (32 <= c /\ c < 127).

Definition Inv (s : est) (pre : list N) : Prop :=
  exists ts, e_ans s = flat ts /\ Forall tok_ok ts /\ tsdec ts ++ repeat 32 (N.to_nat (e_ind s)) = pre
    /\ e_ind s <= 223 /\ (e_start s = true -> e_ind s = 0)
    /\ N.of_nat (e_page s * 1024) + e_cnt s <= lenN (e_ans s) /\ e_cnt s < 1024
    /\ (last pre 0 = 10 -> e_start s = true /\ last (e_ans s) 0 = 13).

Lemma repeat_snoc {A} (x : A) n : repeat x n ++ [x] = repeat x (S n).
Proof. induction n as [|n IH]; [reflexivity|]. cbn [repeat app]. rewrite IH. reflexivity. Qed.

(* what one character appends, before pagination: tokens [nt], [k] bytes counted *)
Lemma enc_char_inv first s c pre s' : Inv s pre -> dom c -> enc_char first s c = Some s' -> Inv s' (pre ++ [c]).
Proof.
  intros [ts [Ha [Hok [Hpre [Hi [Hs [Hl [Hc Hlast]]]]]]]] Hd He.
  unfold enc_char in He.
  assert (Hnl : is_nl c = (c =? 10)) by (unfold is_nl; destruct Hd as [->|[? ?]]; [reflexivity|]; destruct (N.eqb_spec c 13); [lia|]; apply orb_false_r).
  (* the appended tokens in each branch *)
  set (out := if is_nl c then 13 else c) in He.
  assert (Hout : forall pfx, Forall tok_ok pfx -> Forall tok_ok (pfx ++ [if c =? 10 then TCR else TC c])).
  { intros pfx Hp. apply Forall_app. split; [exact Hp|]. constructor; [|constructor].
    destruct (N.eqb_spec c 10); [exact I|]. destruct Hd as [->|[? ?]]; [contradiction|]. cbn. lia. }
  assert (Fout : flat [if c =? 10 then TCR else TC c] = [out]) by (unfold out; rewrite Hnl; destruct (c =? 10); reflexivity).
  assert (Dout : tsdec [if c =? 10 then TCR else TC c] = [c]) by (destruct (N.eqb_spec c 10) as [->|]; reflexivity).
  (* common tail: given the pushed description, run pagination *)
  assert (Fin : forall st ind k nt,
            Forall tok_ok nt -> N.of_nat (length (flat nt)) = k -> k <= 3 ->
            tsdec (ts ++ nt) ++ repeat 32 (N.to_nat ind) = pre ++ [c] -> ind <= 223 -> (st = true -> ind = 0) ->
            (c = 10 -> st = true /\ last (e_ans s ++ flat nt) 0 = 13) ->
            match paginate (e_ans s ++ flat nt) (e_page s) (e_cnt s + k) with
            | None => None
            | Some (ans', page') => Some {| e_start := st; e_ind := ind; e_page := page'; e_cnt := (e_cnt s + k) mod 1024; e_ans := ans' |}
            end = Some s' -> Inv s' (pre ++ [c])).
  { intros st ind k nt Hnt Hk Hk3 Hdec Hind Hst Hc10 Hp.
    destruct (paginate (e_ans s ++ flat nt) (e_page s) (e_cnt s + k)) as [[ans' page']|] eqn:P; [|discriminate].
    cbv beta iota in Hp. injection Hp as <-.
    assert (Hfl : e_ans s ++ flat nt = flat (ts ++ nt)) by (rewrite flat_app, Ha; reflexivity).
    rewrite Hfl in P. destruct (paginate_tokens _ _ _ _ _ (proj2 (Forall_app _ _ _) (conj Hok Hnt)) P) as [ts' [A1 [A2 A3]]].
    rewrite <- Hfl in P.
    destruct (paginate_len _ _ _ _ _ P ltac:(lia)) as [B1 B2].
    { unfold lenN in *. rewrite app_length. lia. }
    exists ts'. cbn [e_ans e_ind e_start e_page e_cnt].
    split; [exact A1|]. split; [exact A2|]. split; [rewrite A3; exact Hdec|]. split; [exact Hind|]. split; [exact Hst|].
    split; [exact B1|]. split; [apply N.mod_upper_bound; discriminate|].
    intros L. rewrite last_last in L. destruct (Hc10 L) as [S1 S2]. split; [exact S1 | apply B2, S2]. }
  destruct (e_start s) eqn:Es.
  - specialize (Hs eq_refl). rewrite Hs in *. cbn [N.to_nat repeat] in Hpre. rewrite app_nil_r in Hpre.
    destruct (negb first && (c =? 32)) eqn:Eb.
    + (* first blank of a line after the first: counted, nothing pushed *)
      apply andb_prop in Eb. destruct Eb as [_ Ec]. apply N.eqb_eq in Ec. subst c.
      apply (Fin false 1 0 []); try (cbn; lia); try constructor.
      * rewrite app_nil_r. cbn [N.to_nat Pos.to_nat Pos.iter_op Nat.add repeat]. rewrite Hpre. reflexivity.
      * rewrite N.add_0_r, app_nil_r in *. exact He.
    + destruct first.
      * apply (Fin (is_nl c) 0 1 [if c =? 10 then TCR else TC c]); try (apply (Hout []); constructor).
        -- rewrite Fout. reflexivity.
        -- lia.
        -- rewrite tsdec_app, Dout. cbn [N.to_nat repeat]. rewrite app_nil_r, Hpre. reflexivity.
        -- lia.
        -- reflexivity.
        -- intros ->. split; [reflexivity|]. rewrite Fout. unfold out. cbn. apply last_last.
        -- rewrite Fout. exact He.
      * apply (Fin (is_nl c) 0 3 ([TI 32] ++ [if c =? 10 then TCR else TC c])).
        -- apply Hout. constructor; [cbn; lia|constructor].
        -- rewrite flat_app, Fout. reflexivity.
        -- lia.
        -- rewrite !tsdec_app, Dout. cbn [tsdec flat_map tdec N.sub N.to_nat repeat app]. rewrite app_nil_r, Hpre. reflexivity.
        -- lia.
        -- reflexivity.
        -- intros ->. split; [reflexivity|]. rewrite flat_app, Fout. unfold out. cbn [is_nl N.eqb Pos.eqb orb]. rewrite !app_assoc. apply last_last.
        -- rewrite flat_app, Fout. exact He.
  - destruct (N.ltb_spec 0 (e_ind s)) as [Ip|Ip].
    + destruct ((c =? 32) && (e_ind s + 32 <? 255)) eqn:Eb.
      * apply andb_prop in Eb. destruct Eb as [Ec El]. apply N.eqb_eq in Ec. apply N.ltb_lt in El. subst c.
        apply (Fin false (e_ind s + 1) 0 []); try (cbn; lia); try constructor.
        -- rewrite app_nil_r. rewrite <- Hpre. rewrite <- app_assoc. f_equal.
           replace (N.to_nat (e_ind s + 1)) with (S (N.to_nat (e_ind s))) by lia. symmetry. apply repeat_snoc.
        -- rewrite N.add_0_r, app_nil_r in *. exact He.
      * apply (Fin (is_nl c) 0 3 ([TI (32 + e_ind s)] ++ [if c =? 10 then TCR else TC c])).
        -- apply Hout. constructor; [cbn; lia|constructor].
        -- rewrite flat_app, Fout. reflexivity.
        -- lia.
        -- rewrite !tsdec_app, Dout. cbn [tsdec flat_map tdec app N.to_nat repeat]. rewrite !app_nil_r.
           replace (32 + e_ind s - 32) with (e_ind s) by lia. rewrite app_assoc, Hpre. reflexivity.
        -- lia.
        -- reflexivity.
        -- intros ->. split; [reflexivity|]. rewrite flat_app, Fout. unfold out. cbn [is_nl N.eqb Pos.eqb orb]. rewrite !app_assoc. apply last_last.
        -- rewrite flat_app, Fout. exact He.
    + assert (I0 : e_ind s = 0) by lia. rewrite I0 in *. cbn [N.to_nat repeat] in Hpre. rewrite app_nil_r in Hpre.
      destruct (is_nl c) eqn:En.
      * assert (c = 10) by (apply N.eqb_eq; symmetry; exact Hnl). subst c.
        apply (Fin true 0 1 [TCR]); try (cbn; lia); try (repeat constructor).
        -- rewrite tsdec_app. cbn [tsdec flat_map tdec app N.to_nat repeat]. rewrite app_nil_r, Hpre. reflexivity.
        -- cbn [flat flat_map tflat app]. apply last_last.
        -- exact He.
      * destruct (N.ltb_spec c 128) as [C8|C8]; [|discriminate].
        assert (c <> 10) by (intros E10; rewrite E10 in Hnl; cbn in Hnl; discriminate Hnl).
        apply (Fin false 0 1 [TC c]); try (cbn; lia).
        -- constructor; [|constructor]. destruct Hd as [->|[? ?]]; [contradiction|]. cbn. lia.
        -- rewrite tsdec_app. cbn [tsdec flat_map tdec app N.to_nat repeat]. rewrite app_nil_r, Hpre. reflexivity.
        -- exact He.
Qed.

Lemma enc_loop_inv : forall src first s pre s', Inv s pre -> Forall dom src -> enc_loop first s src = Some s' -> Inv s' (pre ++ src).
Proof.
  induction src as [|c r IH]; intros first s pre s' Hi Hd He.
  - cbn [enc_loop] in He. injection He as <-. rewrite app_nil_r. exact Hi.
  - inversion Hd as [|? ? Hc Hr]; subst.
    assert (C13 : (c =? 13) = false) by (destruct Hc as [->|[? ?]]; [reflexivity|]; apply N.eqb_neq; lia).
    assert (Step : match enc_char first s c with Some s1 => enc_loop false s1 r | None => None end = Some s').
    { cbn [enc_loop] in He. destruct r as [|d r']; [exact He|]. rewrite C13 in He. cbn [andb] in He. exact He. }
    destruct (enc_char first s c) as [s1|] eqn:E1; [|discriminate].
    pose proof (enc_char_inv first s c pre s1 Hi Hc E1) as Hi1.
    replace (pre ++ c :: r) with ((pre ++ [c]) ++ r) by (rewrite <- app_assoc; reflexivity).
    exact (IH false s1 (pre ++ [c]) s' Hi1 Hr Step).
Qed.

Lemma pad_page_len l : (length (pad_page l) mod 1024 = 0)%nat.
Proof.
  unfold pad_page. destruct (Nat.eqb_spec (length l mod 1024) 0) as [E|E]; [exact E|].
  rewrite app_length, repeat_length.
  pose proof (Nat.div_mod (length l) 1024 ltac:(lia)) as D.
  pose proof (Nat.mod_upper_bound (length l) 1024 ltac:(lia)) as U.
  replace (length l + (1024 - length l mod 1024))%nat with (0 + (length l / 1024 + 1) * 1024)%nat by lia.
  rewrite Nat.mod_add by lia. reflexivity.
Qed.

Lemma last_13_rev l : last l 0 = 13 -> exists l', rev l = 13 :: l'.
Proof.
  intros H. destruct l as [|x r]; [cbn in H; discriminate|].
  assert (N : x :: r <> []) by discriminate.
  rewrite (app_removelast_last 0 N), H, rev_app_distr. cbn [rev app]. eexists. reflexivity.
Qed.

(* ---------- text made of printable-ASCII lines ending in newlines comes back exactly ---------- *)
Theorem pas_roundtrip t e : Forall dom t -> last t 0 = 10 -> pas_encode t = Some e ->
  pas_decode e = t /\ (length e mod 1024 = 0)%nat.
Proof.
  intros Hd Hl He. unfold pas_encode in He.
  set (s0 := {| e_start := true; e_ind := 0; e_page := 0; e_cnt := 0; e_ans := [] |}) in He.
  assert (I0 : Inv s0 []).
  { exists []. unfold s0; cbn [e_ans e_ind e_start e_page e_cnt].
    split; [reflexivity|]. split; [constructor|]. split; [reflexivity|]. split; [lia|]. split; [reflexivity|].
    split; [cbn; lia|]. split; [lia|]. cbn. intros H; discriminate H. }
  destruct (enc_loop true s0 t) as [s|] eqn:E; [|discriminate].
  pose proof (enc_loop_inv t true s0 [] s I0 Hd E) as [ts [Ha [Hok [Hpre [_ [Hs [Hlen [Hc Hlast]]]]]]]].
  cbn [app] in Hpre, Hlast. destruct (Hlast Hl) as [St L13].
  destruct (last_13_rev _ L13) as [l' R]. rewrite R in He.
  destruct (paginate (e_ans s) (e_page s) (e_cnt s)) as [[ans' page']|] eqn:P; [|discriminate]. injection He as <-.
  rewrite Ha in P. destruct (paginate_tokens _ _ _ _ _ Hok P) as [ts' [A1 [A2 A3]]].
  split; [|apply pad_page_len].
  rewrite (Hs St) in Hpre. cbn [N.to_nat repeat] in Hpre. rewrite app_nil_r in Hpre.
  unfold pad_page. destruct (Nat.eqb (length ans' mod 1024) 0).
  - rewrite A1, (dec_flat _ A2), A3. exact Hpre.
  - rewrite A1, <- flat_zeros, <- flat_app. rewrite dec_flat by (apply Forall_app; split; [exact A2 | apply ok_zeros]).
    rewrite tsdec_app, tsdec_zeros, app_nil_r, A3. exact Hpre.
Qed.

(* non-vacuity: a three-line text with indentation is in the domain and is accepted *)
Example pas_example : let t := [72; 105; 10; 32; 32; 120; 10; 10] in
  Forall dom t /\ last t 0 = 10 /\ exists e, pas_encode t = Some e.
Proof.
  cbv zeta. split; [|split; [reflexivity|]].
  - repeat constructor; unfold dom; lia.
  - eexists. vm_compute. reflexivity.
Qed.
