(* Pack/Fimg.v -- MODEL of FileImage::desequence / sequence (src/fs/fimg.rs) and of the DOS 3.x binary and
   token headers (src/fs/dos3x/types.rs BinaryData / TokenizedProgram, pack.rs pack_bin / unpack_bin).
   The 16 bit guards on length and address are modelled as written.  No proofs here. *)
From A2 Require Import Base.Bytes.
Open Scope N_scope.

(* desequence: split into chunks of [n] bytes, the last one unpadded (fuel = length of the data) *)
Fixpoint chunks_of (fuel : nat) (n : nat) (d : list N) : list (list N) :=
  match fuel with
  | O => []
  | S k => match d with
           | [] => []
           | _ => firstn n d :: chunks_of k n (skipn n d)
           end
  end.
Definition desequence (n : nat) (d : list N) : list (list N) := chunks_of (length d) n d.
Definition sequence (cs : list (list N)) : list N := concat cs.
Definition fimg_eof (d : list N) : N := lenN d.

(* DOS 3.x binary file: start(2) length(2) data ; length is `len as u16` *)
Definition dos_pack_bin (dat : list N) (addr : N) : outcome (list N) :=
  if N.leb 65536 (lenN dat) then RErr 1   (* length must fit the 16 bit field *)
  else if N.leb 65536 addr then RErr 1   (* u16::try_from(addr)? *)
  else ROk (le16 addr ++ le16 (lenN dat mod 65536) ++ dat).
Definition dos_unpack_bin (f : list N) : outcome (N * list N) :=
  if N.ltb (lenN f) 4 then RErr 2
  else let len := un_le16 (dropN 2 f) in
       if N.ltb (lenN f) (4 + len) then RErr 2
       else ROk (un_le16 f, slice f 4 len).
(* DOS 3.x tokenized program: length(2) program *)
Definition dos_pack_tok (tok : list N) : outcome (list N) :=
  if N.leb 65536 (lenN tok) then RErr 1 else ROk (le16 (lenN tok mod 65536) ++ tok).
Definition dos_unpack_tok (f : list N) : outcome (list N) :=
  if N.ltb (lenN f) 2 then RErr 2
  else let len := un_le16 f in
       if N.ltb (lenN f) (2 + len) then RErr 2 else ROk (slice f 2 len).

(* ---- ProDOS binary (src/fs/prodos/pack.rs pack_bin / unpack_bin): the data goes into 512 byte chunks as is, the load
   address into the 16 bit aux field, the length into eof; an address that does not fit is refused ---- *)
Record pfimg := mkpfimg { pf_chunks : list (list N); pf_eof : N; pf_aux : list N }.
Definition prodos_pack_bin (dat : list N) (addr : N) : outcome pfimg :=
  if N.ltb 65535 addr then RErr 1 else ROk (mkpfimg (desequence 512 dat) (fimg_eof dat) (le16 addr)).
Definition prodos_unpack_bin (f : pfimg) : N * list N := (un_le16 (pf_aux f), takeN (pf_eof f) (sequence (pf_chunks f))).
