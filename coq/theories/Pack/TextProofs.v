From A2 Require Import Base.Bytes.
From A2 Require Import Pack.Text.
Open Scope N_scope.

Definition tdom (c : N) : Prop := c = 10 \/ (32 <= c /\ c < 127).

Lemma leqb_refl a : leqb a a = true.
Proof. induction a as [|x a IH]; [reflexivity|]. cbn [leqb]. rewrite N.eqb_refl, IH. reflexivity. Qed.
Lemma ends_with_self t : ends_with t t = true.
Proof. unfold ends_with. destruct t as [|x t]; [reflexivity|]. rewrite Nat.leb_refl, Nat.sub_diag. cbn [skipn andb]. apply leqb_refl. Qed.
Lemma ends_with_app p e t : ends_with e t = true -> ends_with (p ++ e) t = true.
Proof.
  unfold ends_with. destruct t as [|x t]; [reflexivity|]. set (T := x :: t). intros H.
  apply andb_prop in H. destruct H as [L E]. apply Nat.leb_le in L. apply andb_true_intro. split.
  - apply Nat.leb_le. rewrite app_length. lia.
  - rewrite app_length. replace (length p + length e - length T)%nat with (length p + (length e - length T))%nat by lia.
    rewrite skipn_app. rewrite skipn_all2 by lia. replace (length p + (length e - length T) - length p)%nat with (length e - length T)%nat by lia.
    exact E.
Qed.

Lemma tenc_loop_dom f t : Forall tdom t -> exists e, tenc_loop f t = Some e /\ text_decode f e = t
  /\ (last t 0 = 10 -> ends_with e (t_nl f) = true).
Proof.
  induction 1 as [|c r Hc _ IH].
  - exists []. split; [reflexivity|]. split; [reflexivity|]. cbn. intros H; discriminate H.
  - destruct IH as [e [He [Hd Ht]]].
    assert (C13 : (c =? 13) = false) by (destruct Hc as [->|[? ?]]; [reflexivity|]; apply N.eqb_neq; lia).
    assert (Hskip : match r with d :: _ => (c =? 13) && (d =? 10) | [] => false end = false) by (destruct r; [reflexivity|]; rewrite C13; reflexivity).
    cbn [tenc_loop]. rewrite Hskip, C13, orb_false_r.
    destruct (N.eqb_spec c 10) as [->|Hn].
    + rewrite He. cbn [option_map]. exists (t_nl f ++ e). split; [reflexivity|]. split.
      * destruct f; cbn [t_nl app text_decode]; rewrite ?Hd; reflexivity.
      * intros Hl. destruct r as [|d r'].
        -- cbn in He. injection He as <-. rewrite app_nil_r. apply ends_with_self.
        -- apply ends_with_app, Ht. exact Hl.
    + destruct Hc as [->|[Lo Hi]]; [contradiction|].
      destruct (N.ltb_spec c 128); [|lia]. rewrite He. cbn [option_map]. exists (t_char f c :: e). split; [reflexivity|]. split.
      * destruct f; cbn [t_char text_decode].
        -- destruct (N.eqb_spec (c + 128) 141); [lia|]. destruct (N.ltb_spec 127 (c + 128)); [|lia]. rewrite Hd. f_equal. lia.
        -- destruct (N.eqb_spec c 13); [lia|]. destruct (N.ltb_spec c 128); [|lia]. rewrite Hd. reflexivity.
        -- destruct (N.eqb_spec c 13); [lia|]. destruct (N.ltb_spec 127 c); [lia|]. destruct (N.eqb_spec c 26); [lia|]. rewrite Hd. reflexivity.
      * intros Hl. destruct r as [|d r']; [cbn in Hl; lia|].
        change (t_char f c :: e) with ([t_char f c] ++ e). apply ends_with_app, Ht. exact Hl.
Qed.


Theorem text_roundtrip f t : Forall tdom t -> last t 0 = 10 ->
  exists e, text_encode f (std_term f) t = Some e /\ text_decode f e = t.
Proof.
  intros Hd Hl. destruct (tenc_loop_dom f t Hd) as [e [He [Hdec Hend]]].
  exists e. unfold text_encode. rewrite He. split; [|exact Hdec].
  replace (ends_with e (std_term f)) with true; [reflexivity|].
  destruct f; cbn [std_term]; [symmetry; exact (Hend Hl) | symmetry; exact (Hend Hl) | reflexivity].
Qed.
(* bytes from 128 up are refused, never altered *)
Theorem text_refuses_non_ascii f term a c b : 128 <= c -> text_encode f term (a ++ c :: b) = None.
Proof.
  intros Hc. unfold text_encode.
  assert (G : tenc_loop f (a ++ c :: b) = None).
  { induction a as [|x a IH]; cbn [app tenc_loop].
    - assert (c =? 13 = false) by (apply N.eqb_neq; lia). assert (c =? 10 = false) by (apply N.eqb_neq; lia).
      destruct b as [|d b']; rewrite ?H, ?H0; cbn [andb orb]; destruct (N.ltb_spec c 128); try lia; reflexivity.
    - rewrite IH. destruct (a ++ c :: b) as [|d r'] eqn:E; [destruct a; discriminate|].
      destruct ((x =? 13) && (d =? 10)); [reflexivity|]. destruct ((x =? 10) || (x =? 13)); [reflexivity|]. destruct (x <? 128); reflexivity. }
  rewrite G. reflexivity.
Qed.
