(* Pack/Text.v -- MODEL of the flat text converters (src/fs/dos3x/types.rs, src/fs/prodos/types.rs, src/fs/cpm/types.rs which FAT re-uses):
   TextConverter::from_utf8 / to_utf8.  A newline (LF, a lone CR, or CR LF) becomes the file system's line end, other ASCII bytes are
   copied (DOS 3.x sets the high bit), anything from 128 up refuses the text; a missing final line end is appended when the converter
   was made with one.  No proofs here. *)
From A2 Require Import Base.Bytes.
Open Scope N_scope.

Inductive tfs := TDos | TProdos | TCpm.           (* FAT uses the CP/M converter *)

Definition t_nl (f : tfs) : list N := match f with TDos => [141] | TProdos => [13] | TCpm => [13; 10] end.
Definition t_char (f : tfs) (c : N) : N := match f with TDos => c + 128 | _ => c end.

Fixpoint tenc_loop (f : tfs) (src : list N) : option (list N) :=
  match src with
  | [] => Some []
  | c :: r =>
      let skip := match r with d :: _ => (c =? 13) && (d =? 10) | [] => false end in
      if skip then tenc_loop f r
      else if (c =? 10) || (c =? 13) then option_map (app (t_nl f)) (tenc_loop f r)
      else if c <? 128 then option_map (cons (t_char f c)) (tenc_loop f r)
      else None
  end.

Fixpoint leqb (a b : list N) : bool :=
  match a, b with [], [] => true | x :: a', y :: b' => (x =? y) && leqb a' b' | _, _ => false end.

(* is_terminated: does [bytes] end with [term] (an empty [term] always does) *)
Definition ends_with (bytes term : list N) : bool :=
  match term with
  | [] => true
  | _ => (length term <=? length bytes)%nat && leqb (skipn (length bytes - length term) bytes) term
  end.

Definition text_encode (f : tfs) (term : list N) (src : list N) : option (list N) :=
  match tenc_loop f src with
  | None => None
  | Some ans => Some (if ends_with ans term then ans else ans ++ term)
  end.

(* the terminators the packers use: DOS 3.x 0x8D, ProDOS 0x0D, CP/M and FAT none *)
Definition std_term (f : tfs) : list N := match f with TDos => [141] | TProdos => [13] | TCpm => [] end.

Fixpoint text_decode (f : tfs) (src : list N) : list N :=
  match src with
  | [] => []
  | c :: r =>
      match f with
      | TDos => (if c =? 141 then 10 else if 127 <? c then c - 128 else 0) :: text_decode f r
      | TProdos => (if c =? 13 then 10 else if c <? 128 then c else 0) :: text_decode f r
      | TCpm => if c =? 13 then text_decode f r
                else if 127 <? c then 0 :: text_decode f r
                else if c =? 26 then []
                else c :: text_decode f r
      end
  end.
