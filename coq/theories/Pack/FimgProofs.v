(* Pack/FimgProofs.v *)
From A2 Require Import Base.Bytes Pack.Fimg.
From Coq Require Import ZArith ZifyBool ZifyNat ZifyN.
Open Scope N_scope.

Lemma chunks_concat fuel n d : (0 < n)%nat -> (length d <= fuel)%nat -> concat (chunks_of fuel n d) = d.
Proof.
  intros Hn. revert d. induction fuel as [|k IH]; intros d Hl.
  - destruct d; [reflexivity | cbn in Hl; lia].
  - destruct d as [|x r]; [reflexivity|]. cbn [chunks_of concat].
    rewrite IH.
    + apply firstn_skipn.
    + rewrite skipn_length. cbn [length] in *. lia.
Qed.

(* sequence after desequence is the identity on every byte string, for every positive chunk length *)
Theorem sequence_desequence n d : (0 < n)%nat -> sequence (desequence n d) = d.
Proof. intros Hn. unfold sequence, desequence. apply chunks_concat; [exact Hn | lia]. Qed.

(* every chunk but the last is full, none is empty, none longer than the chunk length *)
Lemma chunks_sizes fuel n d : (0 < n)%nat -> (length d <= fuel)%nat ->
  Forall (fun c => (0 < length c <= n)%nat) (chunks_of fuel n d).
Proof.
  intros Hn. revert d. induction fuel as [|k IH]; intros d Hl; [constructor|].
  destruct d as [|x r]; [constructor|]. cbn [chunks_of]. constructor.
  - rewrite firstn_length. cbn [length]. lia.
  - apply IH. rewrite skipn_length. cbn [length] in *. lia.
Qed.
Theorem desequence_chunk_sizes n d : (0 < n)%nat -> Forall (fun c => (0 < length c <= n)%nat) (desequence n d).
Proof. intros Hn. apply chunks_sizes; [exact Hn | lia]. Qed.

Lemma un_le16_app v rest : v < 65536 -> un_le16 (le16 v ++ rest) = v.
Proof. intros H. rewrite <- (un_le16_le16 v H) at 2. reflexivity. Qed.

(* DOS binary header: exact inverse pair under the guard the format imposes (16-bit length and address) *)
Theorem dos_bin_roundtrip dat addr : lenN dat < 65536 -> addr < 65536 ->
  exists f, dos_pack_bin dat addr = ROk f /\ dos_unpack_bin f = ROk (addr, dat).
Proof.
  intros Hl Ha. unfold dos_pack_bin. replace (N.leb 65536 (lenN dat)) with false by (symmetry; apply N.leb_gt; lia).
  replace (N.leb 65536 addr) with false by (symmetry; apply N.leb_gt; lia).
  eexists. split; [reflexivity|]. rewrite (N.mod_small _ _ Hl). unfold dos_unpack_bin.
  assert (L : lenN (le16 addr ++ le16 (lenN dat) ++ dat) = 4 + lenN dat) by (unfold lenN, le16; rewrite !app_length; cbn [length]; lia).
  rewrite L. replace (N.ltb (4 + lenN dat) 4) with false by (symmetry; apply N.ltb_ge; lia).
  assert (E2 : dropN 2 (le16 addr ++ le16 (lenN dat) ++ dat) = le16 (lenN dat) ++ dat) by reflexivity.
  rewrite E2, (un_le16_app _ _ Hl), (un_le16_app _ _ Ha).
  replace (N.ltb (4 + lenN dat) (4 + lenN dat)) with false by (symmetry; apply N.ltb_ge; lia).
  f_equal. f_equal. unfold slice.
  assert (E4 : dropN 4 (le16 addr ++ le16 (lenN dat) ++ dat) = dat) by reflexivity.
  rewrite E4. unfold takeN, lenN. rewrite Nat2N.id. apply firstn_all.
Qed.
Theorem dos_bin_addr_refused dat addr : 65536 <= addr \/ 65536 <= lenN dat -> dos_pack_bin dat addr = RErr 1.
Proof.
  intros H. unfold dos_pack_bin. destruct (N.leb_spec 65536 (lenN dat)); [reflexivity|].
  replace (N.leb 65536 addr) with true by (symmetry; apply N.leb_le; lia). reflexivity.
Qed.

Theorem dos_tok_roundtrip tok : lenN tok < 65536 -> exists f, dos_pack_tok tok = ROk f /\ dos_unpack_tok f = ROk tok.
Proof.
  intros Hl. unfold dos_pack_tok. replace (N.leb 65536 (lenN tok)) with false by (symmetry; apply N.leb_gt; lia).
  eexists. split; [reflexivity|]. unfold dos_unpack_tok. rewrite (N.mod_small _ _ Hl).
  assert (L : lenN (le16 (lenN tok) ++ tok) = 2 + lenN tok) by (unfold lenN, le16; rewrite !app_length; cbn [length]; lia).
  rewrite L. replace (N.ltb (2 + lenN tok) 2) with false by (symmetry; apply N.ltb_ge; lia).
  rewrite (un_le16_app _ _ Hl). replace (N.ltb (2 + lenN tok) (2 + lenN tok)) with false by (symmetry; apply N.ltb_ge; lia).
  f_equal. unfold slice. assert (E : dropN 2 (le16 (lenN tok) ++ tok) = tok) by reflexivity. rewrite E.
  unfold takeN, lenN. rewrite Nat2N.id. apply firstn_all.
Qed.
Theorem dos_tok_len_refused tok : 65536 <= lenN tok -> dos_pack_tok tok = RErr 1.
Proof. intros H. unfold dos_pack_tok. replace (N.leb 65536 (lenN tok)) with true by (symmetry; apply N.leb_le; lia). reflexivity. Qed.

Theorem prodos_bin_roundtrip dat addr : addr < 65536 ->
  exists f, prodos_pack_bin dat addr = ROk f /\ prodos_unpack_bin f = (addr, dat).
Proof.
  intros Ha. unfold prodos_pack_bin. destruct (N.ltb_spec 65535 addr) as [L|_]; [lia|].
  eexists. split; [reflexivity|]. unfold prodos_unpack_bin. cbn [pf_aux pf_eof pf_chunks].
  rewrite un_le16_le16 by exact Ha. rewrite sequence_desequence by lia.
  unfold fimg_eof, takeN, lenN. rewrite Nat2N.id, firstn_all. reflexivity.
Qed.
Theorem prodos_bin_addr_refused dat addr : 65536 <= addr -> prodos_pack_bin dat addr = RErr 1.
Proof. intros H. unfold prodos_pack_bin. destruct (N.ltb_spec 65535 addr); [reflexivity | lia]. Qed.
