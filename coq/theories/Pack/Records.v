(* Pack/Records.v -- MODEL of random-access text records in a file image (src/fs/recs.rs Records::update_fimg): record number r
   occupies the bytes r*rl .. r*rl+rl-1 of the file; only the bytes of its text are written; the file is kept as chunks of [L] bytes,
   a chunk exists when a byte was written into it and is as long as its last written byte requires (ProDOS: chunk 0 always exists,
   whole).  The order in which the records are taken (a hash map in the implementation) does not matter to the result, which is
   what makes a closed form possible.  No proofs here. *)
From A2 Require Import Base.Bytes Pack.Text.
Open Scope N_scope.

Definition recset := list (N * list N).        (* record number, bytes of the record as the text converter gives them *)

(* every byte written: (file offset, value) *)
Definition rec_writes (rl : N) (r : N * list N) : list (N * N) :=
  map (fun ib => (fst r * rl + N.of_nat (fst ib), snd ib)) (combine (seq 0 (length (snd r))) (snd r)).
Definition writes (rl : N) (rs : recset) : list (N * N) := flat_map (rec_writes rl) rs.
Definition byte_at (ws : list (N * N)) (off : N) : N :=
  match find (fun w => fst w =? off) ws with Some w => snd w | None => 0 end.

(* length of chunk c: one beyond the last byte written into it (0: nothing written) *)
Definition chunk_len_of (L : N) (ws : list (N * N)) (c : N) : N :=
  fold_left (fun m w => if fst w / L =? c then N.max m (fst w mod L + 1) else m) ws 0.
Definition chunk_ids (L : N) (ws : list (N * N)) : list N := map (fun w => fst w / L) ws.
Fixpoint insert_sorted (x : N) (l : list N) : list N :=
  match l with [] => [x] | y :: r => if x <? y then x :: l else if x =? y then l else y :: insert_sorted x r end.
Definition sorted_ids (l : list N) : list N := fold_right insert_sorted [] l.

Record rimg := { r_chunks : list (N * list N); r_eof : N }.
Definition rec_pack (L rl : N) (force0 : bool) (rs : recset) : rimg :=
  let ws := writes rl rs in
  let ids := sorted_ids ((if force0 then [0] else []) ++ chunk_ids L ws) in
  let len_of c := if force0 && (c =? 0) then L else chunk_len_of L ws c in
  let chunks := map (fun c => (c, map (fun j => byte_at ws (c * L + N.of_nat j)) (seq 0 (N.to_nat (len_of c))))) ids in
  {| r_chunks := chunks;
     r_eof := fold_left (fun m c => if chunk_len_of L ws c =? 0 then m else N.max m (c * L + len_of c)) ids 0 |}.

(* what a reader finds at a file offset: the byte of the chunk that holds it, zero where the chunk is short or missing *)
Definition stored_at (L : N) (img : rimg) (off : N) : N :=
  match find (fun ch => fst ch =? off / L) (r_chunks img) with
  | Some ch => dnth (snd ch) (N.to_nat (off mod L))
  | None => 0
  end.

(* FileImage::pack_rec for DOS 3.x (chunks of 256 bytes) and ProDOS (chunks of 512 bytes, chunk 0 always there): every record text goes
   through the text converter of the file system with its line terminator; a record length outside 2..32767 and a record whose bytes
   do not fit are refused *)
Fixpoint encode_all (f : tfs) (rs : recset) : option recset :=
  match rs with
  | [] => Some []
  | (n, t) :: r => match text_encode f (std_term f) t, encode_all f r with
                   | Some b, Some r' => Some ((n, b) :: r')
                   | _, _ => None
                   end
  end.
Definition pack_rec (f : tfs) (rl : N) (rs : recset) : option rimg :=
  if (rl <? 2) || (32767 <? rl) then None
  else match encode_all f rs with
       | None => None
       | Some es => if existsb (fun e => rl <? lenN (snd e)) es then None
                    else Some (rec_pack (match f with TDos => 256 | _ => 512 end) rl (match f with TProdos => true | _ => false end) es)
       end.
