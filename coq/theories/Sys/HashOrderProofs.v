From A2 Require Import Base.Bytes Fs.Spec Gen.HashSites Img.Skew Sys.HashOrder.
From Coq Require Import ZArith ZifyBool ZifyNat ZifyN Sorting.Permutation.
Open Scope N_scope.

(* ins keeps a strictly increasing list strictly increasing, and adds exactly x *)
Inductive ssorted : list N -> Prop :=
| ss_nil : ssorted []
| ss_one x : ssorted [x]
| ss_cons x y r : x < y -> ssorted (y :: r) -> ssorted (x :: y :: r).

Lemma ins_in x l y : In y (ins x l) <-> y = x \/ In y l.
Proof.
  induction l as [|a r IH]; cbn; [intuition|].
  destruct (N.ltb_spec x a); [cbn; intuition|]. destruct (N.eqb_spec x a); [subst; cbn; intuition|]. cbn. rewrite IH. intuition.
Qed.
Lemma ins_sorted x l : ssorted l -> ssorted (ins x l).
Proof.
  induction 1 as [|a|a b r Hab Hs IH]; cbn.
  - constructor.
  - destruct (N.ltb_spec x a); [constructor; [assumption | constructor]|]. destruct (N.eqb_spec x a); [constructor|].
    constructor; [lia | constructor].
  - destruct (N.ltb_spec x a); [constructor; [assumption | constructor; assumption]|].
    destruct (N.eqb_spec x a); [constructor; assumption|].
    cbn in IH. destruct (N.ltb_spec x b).
    + constructor; [lia | constructor; assumption].
    + destruct (N.eqb_spec x b); [constructor; assumption|]. constructor; [assumption | exact IH].
Qed.
Lemma norm_sorted l : ssorted (norm_idx l).
Proof. induction l as [|x r IH]; cbn; [constructor | apply ins_sorted, IH]. Qed.
Lemma norm_in l y : In y (norm_idx l) <-> In y l.
Proof. induction l as [|x r IH]; cbn; [tauto|]. rewrite ins_in, IH. intuition. Qed.

Lemma ssorted_head_min x r : ssorted (x :: r) -> forall y, In y r -> x < y.
Proof.
  revert x. induction r as [|a r IH]; intros x H y Hy; [contradiction|]. inversion H; subst.
  destruct Hy as [<-|Hy]; [assumption|]. specialize (IH a H4 y Hy). lia.
Qed.
(* two strictly increasing lists with the same elements are equal *)
Lemma ssorted_unique l : forall l', ssorted l -> ssorted l' -> (forall y, In y l <-> In y l') -> l = l'.
Proof.
  induction l as [|x r IH]; intros l' H H' E.
  - destruct l' as [|a q]; [reflexivity|]. exfalso. apply (E a). left. reflexivity.
  - destruct l' as [|a q]; [exfalso; apply (E x); left; reflexivity|].
    assert (Hxa : x = a).
    { destruct (proj1 (E x) (or_introl eq_refl)) as [Hax|Hx]; [symmetry; exact Hax|].
      destruct (proj2 (E a) (or_introl eq_refl)) as [Hxa|Ha]; [exact Hxa|].
      pose proof (ssorted_head_min _ _ H a Ha). pose proof (ssorted_head_min _ _ H' x Hx). lia. }
    subst a. f_equal. apply IH.
    + inversion H; subst; [constructor | assumption].
    + inversion H'; subst; [constructor | assumption].
    + intros y. split; intros Hy.
      * destruct (proj1 (E y) (or_intror Hy)) as [Hxy|Hq]; [|exact Hq]. pose proof (ssorted_head_min _ _ H y Hy). lia.
      * destruct (proj2 (E y) (or_intror Hy)) as [Hxy|Hq]; [|exact Hq]. pose proof (ssorted_head_min _ _ H' y Hy). lia.
Qed.

(* class 1: an output produced from sorted keys is the same for EVERY iteration order of the same key set *)
Theorem order_free_sorted l l' f : (forall x, In x l <-> In x l') -> render_sorted l f = render_sorted l' f.
Proof.
  intros E. unfold render_sorted. f_equal. apply ssorted_unique; try apply norm_sorted.
  intros y. rewrite !norm_in. apply E.
Qed.
Corollary order_free_sorted_perm l l' f : Permutation l l' -> render_sorted l f = render_sorted l' f.
Proof. intros P. apply order_free_sorted. intros x. split; apply Permutation_in; [exact P | apply Permutation_sym, P]. Qed.

(* class 2: a map built by inserting entries with distinct keys does not depend on the order of insertion *)
Lemma built_some_key l k : forall v, built l k = Some v -> In k (map fst l).
Proof.
  induction l as [|[a w] r IH]; cbn; intros v; [discriminate|]. destruct (built r k) as [n|] eqn:E2.
  - intros _. right. apply (IH n). reflexivity.
  - destruct (N.eqb_spec a k); [intros _; left; assumption | discriminate].
Qed.
Lemma built_in l k v : NoDup (map fst l) -> In (k, v) l -> built l k = Some v.
Proof.
  induction l as [|[a w] r IH]; cbn; intros Hnd Hin; [contradiction|]. inversion Hnd; subst.
  destruct Hin as [E|Hin].
  - inversion E; subst. destruct (built r k) eqn:Eb.
    + exfalso. apply H1. apply (built_some_key r k n Eb).
    + rewrite N.eqb_refl. reflexivity.
  - rewrite (IH H2 Hin). reflexivity.
Qed.
Lemma built_none l k : (forall v, ~ In (k, v) l) -> built l k = None.
Proof.
  induction l as [|[a w] r IH]; cbn; intros H; [reflexivity|]. rewrite IH by (intros v Hv; apply (H v); right; exact Hv).
  destruct (N.eqb_spec a k); [subst; exfalso; apply (H w); left; reflexivity | reflexivity].
Qed.
Theorem order_free_inserts l l' : NoDup (map fst l) -> Permutation l l' -> forall k, built l k = built l' k.
Proof.
  intros Hnd P k.
  assert (Hnd' : NoDup (map fst l')) by (apply (Permutation_NoDup (Permutation_map fst P)), Hnd).
  destruct (built l k) as [v|] eqn:E.
  - assert (Hin : In (k, v) l).
    { clear - E. induction l as [|[a w] r IH]; cbn in *; [discriminate|]. destruct (built r k) eqn:E2.
      - inversion E; subst. right. apply IH. reflexivity.
      - destruct (N.eqb_spec a k); [inversion E; subst; left; reflexivity | discriminate]. }
    symmetry. apply built_in; [exact Hnd' | apply (Permutation_in _ P), Hin].
  - symmetry. apply built_none. intros v Hv. apply (Permutation_in _ (Permutation_sym P)) in Hv.
    rewrite (built_in l k v Hnd Hv) in E. discriminate.
Qed.

(* every iteration site found in the sources is classified, and none emits in iteration order *)
Theorem all_sites_classified : forallb (fun s => match class_of s with Some 0 | None => false | Some _ => true end) hash_sites = true.
Proof. vm_compute. reflexivity. Qed.
