(* Sys/HashOrder.v -- MODEL of hash-container iteration: the order in which a HashMap / HashSet yields its entries is an
   arbitrary arrangement of the same entries (it changes with the per-process hash seed).  An output is deterministic when it
   does not depend on that arrangement.  Gen/HashSites.v lists every iteration site of the sources; [site_class] classifies them. *)
From A2 Require Import Base.Bytes Fs.Spec Gen.HashSites Img.Skew.
Open Scope N_scope.

(* class of use of the iteration:
   1 = keys are sorted (or collected into an ordered map) before anything is emitted
   2 = the loop body only inserts into another map / set or accumulates a commutative quantity (count, max, sum, any, membership)
   3 = the scanner matched a Vec / slice of the same name (not a hash container)
   4 = language-server only (completion lists, symbol bookkeeping): not one of the outputs the property lists
   0 = output order follows iteration order (would be a violation) *)
Definition site_class : list (list N * N) := [
  ([115;114;99;47;102;115;47;102;105;109;103;46;114;115;32;116;111;95;106;115;111;110;32;99;104;117;110;107;115], 1);                  (* src/fs/fimg.rs to_json chunks *)
  ([115;114;99;47;102;115;47;114;101;99;115;46;114;115;32;116;111;95;106;115;111;110;32;109;97;112], 1);                              (* src/fs/recs.rs to_json map *)
  ([115;114;99;47;102;115;47;114;101;99;115;46;114;115;32;102;109;116;32;109;97;112], 1);                                          (* src/fs/recs.rs fmt map *)
  ([115;114;99;47;102;115;47;114;101;99;115;46;114;115;32;102;114;111;109;95;102;105;109;103;32;99;104;117;110;107;115], 2);          (* src/fs/recs.rs from_fimg chunks *)
  ([115;114;99;47;102;115;47;114;101;99;115;46;114;115;32;117;112;100;97;116;101;95;102;105;109;103;32;109;97;112], 2);              (* src/fs/recs.rs update_fimg map *)
  ([115;114;99;47;102;115;47;109;111;100;46;114;115;32;99;111;109;98;105;110;101;95;105;103;110;111;114;97;98;108;101;95;111;102;102;115;101;116;115;32;111;116;104;101;114], 2);  (* src/fs/mod.rs combine_ignorable_offsets other *)
  ([115;114;99;47;108;97;110;103;47;109;101;114;108;105;110;47;100;105;115;97;115;115;101;109;98;108;121;46;114;115;32;102;111;114;109;97;116;95;108;105;110;101;115;32;114;101;102;101;114;101;110;99;101;115], 3)   (* src/lang/merlin/disassembly.rs format_lines references *);
  ([115;114;99;47;102;115;47;102;105;109;103;46;114;115;32;111;114;100;101;114;101;100;95;105;110;100;105;99;101;115;32;99;111;112;121], 1)   (* src/fs/fimg.rs ordered_indices copy *);
  ([115;114;99;47;108;97;110;103;47;97;112;112;108;101;115;111;102;116;47;100;105;97;103;110;111;115;116;105;99;115;46;114;115;32;99;111;108;108;105;115;105;111;110;32;108;111;110;103;95;115;101;116], 1)   (* src/lang/applesoft/diagnostics.rs collision long_set *);
  ([115;114;99;47;108;97;110;103;47;97;112;112;108;101;115;111;102;116;47;109;105;110;105;102;105;101;114;46;114;115;32;109;105;110;105;102;121;95;115;116;97;103;101;50;32;108;105;110;101;95;109;97;112], 2)   (* src/lang/applesoft/minifier.rs minify_stage2 line_map *);
  ([115;114;99;47;108;97;110;103;47;109;101;114;108;105;110;47;100;105;97;103;110;111;115;116;105;99;115;47;109;111;100;46;114;115;32;101;114;114;95;119;97;114;110;95;105;110;102;111;95;99;111;117;110;116;115;32;100;105;97;103;110;111;115;116;105;99;95;115;101;116], 2)   (* src/lang/merlin/diagnostics/mod.rs err_warn_info_counts diagnostic_set *);
  ([115;114;99;47;108;97;110;103;47;109;101;114;108;105;110;47;100;105;97;103;110;111;115;116;105;99;115;47;119;111;114;107;115;112;97;99;101;46;114;115;32;103;101;116;95;105;110;99;108;117;100;101;95;100;111;99;32;97;110;115], 3)   (* src/lang/merlin/diagnostics/workspace.rs get_include_doc ans *);
  ([115;114;99;47;108;97;110;103;47;109;101;114;108;105;110;47;100;105;97;103;110;111;115;116;105;99;115;47;119;111;114;107;115;112;97;99;101;46;114;115;32;103;101;116;95;109;97;115;116;101;114;115;32;109;97;115;116;101;114;115], 2)   (* src/lang/merlin/diagnostics/workspace.rs get_masters masters *);
  ([115;114;99;47;108;97;110;103;47;109;101;114;108;105;110;47;100;105;97;103;110;111;115;116;105;99;115;47;119;111;114;107;115;112;97;99;101;46;114;115;32;103;101;116;95;109;97;115;116;101;114;32;109;97;115;116;101;114;115], 2)   (* src/lang/merlin/diagnostics/workspace.rs get_master masters *)
].

Fixpoint starts_with (p s : list N) : bool :=
  match p, s with [], _ => true | x :: r, y :: q => andb (N.eqb x y) (starts_with r q) | _, [] => false end.
(* src/bin/ and what is under src/lang/ is language-server state (completion lists, symbol bookkeeping), EXCEPT the modules
   whose results are printed or published: diagnostics, minifier, tokenizer, renumber, (dis)assembly - their sites must be listed above *)
Definition lang_prefix : list N := [115;114;99;47;108;97;110;103;47].   (* "src/lang/" *)
Definition bin_prefix : list N := [115;114;99;47;98;105;110;47].         (* "src/bin/" *)
Fixpoint class_lookup (s : list N) (l : list (list N * N)) : option N :=
  match l with [] => None | (k, c) :: r => if list_eqb k s then Some c else class_lookup s r end.
Fixpoint contains (p s : list N) : bool :=
  match s with [] => match p with [] => true | _ => false end | _ :: r => orb (starts_with p s) (contains p r) end.
Definition output_modules : list (list N) :=
  [[100;105;97;103;110;111;115;116;105;99;115]; [109;105;110;105;102;105;101;114]; [116;111;107;101;110;105;122;101;114];
   [114;101;110;117;109;98;101;114]; [97;115;115;101;109;98;108;121]].   (* diagnostics minifier tokenizer renumber assembly *)
Definition class_of (s : list N) : option N :=
  match class_lookup s site_class with
  | Some c => Some c
  | None => if starts_with bin_prefix s then Some 4
            else if andb (starts_with lang_prefix s) (negb (existsb (fun m => contains m s) output_modules)) then Some 4 else None
  end.

(* rendering through sorted keys: what to_json does after the fix *)
Definition render_sorted (keys : list N) (f : N -> list N) : list N := flat_map (fun k => k :: f k) (norm_idx keys).
(* map built by inserting entries in iteration order: later entries win *)
Fixpoint built (l : list (N * N)) (k : N) : option N :=
  match l with [] => None | (a, v) :: r => match built r k with Some x => Some x | None => if N.eqb a k then Some v else None end end.
