(* Sys/Parsers.v -- MODEL (panic-explicit, fuel-explicit) of parsers that face untrusted bytes:
   woz.rs get_next_chunk and the chunk walk of Woz1/Woz2::from_bytes; imd.rs Track::update_from_bytes (as repaired);
   td0.rs Sector::unpack is in Img/Codec.v.  No proofs here. *)
From A2 Require Import Base.Bytes Img.Codec.
Open Scope N_scope.

Definition INFO_ID : N := 1330007625.
Definition TMAP_ID : N := 1346456916.
Definition TRKS_ID : N := 1397445204.
Definition WRIT_ID : N := 1414091351.
Definition META_ID : N := 1096041805.
Definition known_id (id : N) : bool :=
  orb (N.eqb id INFO_ID) (orb (N.eqb id TMAP_ID) (orb (N.eqb id TRKS_ID) (orb (N.eqb id WRIT_ID) (N.eqb id META_ID)))).

(* get_next_chunk(ptr,buf) -> (next, id, Some(offset,len of the chunk incl. its 8 byte header) | None) *)
Definition woz_next_chunk (ptr : N) (buf : list N) : N * N * option (N * N) :=
  if N.ltb (lenN buf) (ptr + 8) then (0, 0, None)
  else let id := un_le32 (dropN ptr buf) in
       let size := un_le32 (dropN (ptr + 4) buf) in
       let e := ptr + 8 + size in
       if N.ltb (lenN buf) e then (0, 0, None)
       else let next := if N.ltb (lenN buf) (e + 8) then 0 else e in
            if known_id id then (next, id, Some (ptr, e - ptr)) else (next, id, None).

(* the loop `while ptr>0 { (next,..) = get_next_chunk(ptr,buf); ...; ptr = next }` of from_bytes, started at 12 *)
Fixpoint woz_walk (fuel : nat) (ptr : N) (buf : list N) : outcome (list (N * N * N)) :=
  if N.eqb ptr 0 then ROk []
  else match fuel with
       | O => RFuel
       | S k => let '(next, id, c) := woz_next_chunk ptr buf in
                do r <- woz_walk k next buf;
                ROk (match c with Some (o, l) => (id, o, l) :: r | None => r end)
       end.

(* IMD track record: mode cyl head nsec shift, sector map, optional cylinder / head maps, then per sector a code byte
   and its data.  Returns the number of bytes consumed and the in-file (compressed) track buffer. *)
Fixpoint imd_records (size : N) (n : nat) (b : list N) : outcome (list N) :=
  match n with
  | O => ROk []
  | S k => match b with
           | [] => RErr 1
           | c :: rest =>
               match imd_sec_size size c with
               | None => RErr 2
               | Some sz => if N.ltb (lenN rest) (sz - 1) then RErr 1
                            else do r <- imd_records size k (dropN (sz - 1) rest); ROk (c :: takeN (sz - 1) rest ++ r)
               end
           end
  end.
Definition imd_parse_track (b : list N) : outcome (N * list N) :=
  if N.ltb (lenN b) 5 then RErr 1
  else let head := dnth b 2 in let nsec := dnth b 3 in let shift := dnth b 4 in
       if N.ltb 6 shift then RErr 2
       else let maps := nsec * (1 + (if N.eqb (N.land head 128) 0 then 0 else 1) + (if N.eqb (N.land head 64) 0 then 0 else 1)) in
            if N.ltb (lenN b) (5 + maps) then RErr 1
            else do r <- imd_records (128 * 2 ^ shift) (N.to_nat nsec) (dropN (5 + maps) b);
                 ROk (5 + maps + lenN r, r).
