(* Sys/ServerProofs.v *)
From A2 Require Import Base.Bytes Sys.Server.
Open Scope N_scope.

Lemma subseq_refl {A} (l : list A) : subseq l l.
Proof. induction l; constructor; assumption. Qed.
Lemma subseq_app_r {A} (a b c : list A) : subseq a b -> subseq a (b ++ c).
Proof. induction 1; cbn [app]; constructor; assumption. Qed.
Lemma subseq_snoc {A} (a b : list A) x : subseq a b -> subseq (a ++ [x]) (b ++ [x]).
Proof. induction 1 as [l| | ]; cbn [app]; try (constructor; assumption). induction l; cbn [app]; constructor; [constructor | assumption]. Qed.
Lemma subseq_snoc_skip {A} (a b : list A) x : subseq a b -> subseq a (b ++ [x]).
Proof. apply subseq_app_r. Qed.

Lemma map_key_set_state q k f : (forall j, key (f j) = key j) -> map key (set_state q k f) = map key q.
Proof.
  intros Hf. revert k. induction q as [|j r IH]; intros k; [destruct k; reflexivity|].
  destruct k; cbn [set_state map]; [rewrite Hf | rewrite IH]; reflexivity.
Qed.

(* the invariant: what was launched = what has left the queue (of which the published ones are a subsequence) followed
   by what is still queued, in order *)
Definition inv (s : sstate) : Prop :=
  exists gone, launched s = gone ++ map key (queue s) /\ subseq (published s) gone.

Lemma inv_step s e : inv s -> inv (step s e).
Proof.
  intros (gone & HL & HS). destruct e as [d v | k p | ]; cbn [step].
  - exists gone. cbn [queue published launched]. rewrite HL, map_app, app_assoc. split; [reflexivity | exact HS].
  - destruct (nth_error (queue s) k) as [j|]; [|exists gone; auto].
    destruct (j_state j); try (exists gone; auto; fail).
    destruct (poisoned s); [|destruct p]; exists gone; cbn [queue published launched];
      rewrite map_key_set_state by reflexivity; auto.
  - destruct (queue s) as [|j r] eqn:Q; [exists gone; rewrite Q; auto|].
    destruct (j_state j) eqn:J.
    + exists gone. rewrite Q. auto.
    + exists (gone ++ [key j]). cbn [queue published launched]. rewrite HL. cbn [map]. rewrite <- app_assoc. split; [reflexivity|].
      apply subseq_snoc. exact HS.
    + exists (gone ++ [key j]). cbn [queue published launched]. rewrite HL. cbn [map]. rewrite <- app_assoc. split; [reflexivity|].
      apply subseq_snoc_skip. exact HS.
Qed.

Lemma inv_run es : forall s, inv s -> inv (fold_left step es s).
Proof. induction es as [|e r IH]; intros s H; [exact H | apply IH, inv_step, H]. Qed.

(* under EVERY schedule the diagnostics are published in the order the changes were sent, none twice, none invented *)
Theorem published_in_launch_order : forall es, subseq (published (run es)) (launched (run es)).
Proof.
  intros es. unfold run. destruct (inv_run es init) as (gone & HL & HS).
  - exists []. split; [reflexivity | constructor].
  - rewrite HL. apply subseq_app_r. exact HS.
Qed.

(* if no thread dies, nothing is lost: whatever has left the queue has been published *)
Definition inv2 (s : sstate) : Prop :=
  poisoned s = false /\ Forall (fun j => j_state j <> Dead) (queue s) /\ launched s = published s ++ map key (queue s).

Lemma set_state_forall q k f (P : job -> Prop) : Forall P q -> (forall j, P j -> P (f j)) -> Forall P (set_state q k f).
Proof.
  intros H Hf. revert k. induction H as [|j r Hj Hr IH]; intros k; [destruct k; constructor|].
  destruct k; cbn [set_state]; constructor; auto.
Qed.

Lemma inv2_step s e : (forall k, e <> Finish k true) -> inv2 s -> inv2 (step s e).
Proof.
  intros Hn (HP & HF & HL). destruct e as [d v | k p | ]; cbn [step].
  - repeat split; cbn [queue published launched poisoned]; auto.
    + apply Forall_app. split; [exact HF | constructor; [discriminate | constructor]].
    + rewrite HL, map_app, app_assoc. reflexivity.
  - destruct (nth_error (queue s) k) as [j|]; [|repeat split; auto].
    destruct (j_state j); try (repeat split; auto; fail).
    rewrite HP. destruct p; [exfalso; apply (Hn k); reflexivity|].
    repeat split; cbn [queue published launched poisoned]; auto.
    + apply set_state_forall; [exact HF | intros; discriminate].
    + rewrite map_key_set_state by reflexivity. exact HL.
  - destruct (queue s) as [|j r] eqn:Q; [repeat split; auto; rewrite Q; auto|].
    inversion HF as [|? ? Hj Hr]; subst.
    destruct (j_state j) eqn:J.
    + repeat split; auto; rewrite Q; auto.
    + repeat split; cbn [queue published launched poisoned]; auto. rewrite HL. cbn [map]. rewrite <- app_assoc. reflexivity.
    + contradiction.
Qed.

Theorem nothing_lost_without_panic : forall es, no_panic es ->
  launched (run es) = published (run es) ++ map key (queue (run es)).
Proof.
  intros es Hn. unfold run.
  assert (G : forall es s, (forall k, ~ In (Finish k true) es) -> inv2 s -> inv2 (fold_left step es s)).
  { clear. induction es as [|e r IH]; intros s Hn H; [exact H|]. cbn [fold_left]. apply IH.
    - intros k I. apply (Hn k). right. exact I.
    - apply inv2_step; [|exact H]. intros k ->. apply (Hn k). left. reflexivity. }
  destruct (G es init Hn) as (_ & _ & HL); [|exact HL].
  repeat split; constructor.
Qed.

(* so once the queue has drained, the last thing published for a document is the last thing that was sent for it *)
Theorem drained_means_all_published : forall es, no_panic es -> queue (run es) = [] -> published (run es) = launched (run es).
Proof. intros es Hn Hq. rewrite (nothing_lost_without_panic es Hn), Hq. cbn [map]. rewrite app_nil_r. reflexivity. Qed.

(* the hazard the property warns about is real in the model: after a thread has died holding the lock, no later analysis
   is ever published *)
Lemma poisoned_stays s e : poisoned s = true -> poisoned (step s e) = true.
Proof.
  intros H. destruct e as [d v | k p | ]; cbn [step]; auto.
  - destruct (nth_error (queue s) k) as [j|]; auto. destruct (j_state j); auto. rewrite H. reflexivity.
  - destruct (queue s) as [|j r]; auto. destruct (j_state j); auto.
Qed.
Definition no_ok_running (s : sstate) : Prop := Forall (fun j => j_state j <> DoneOk) (queue s).
Lemma poisoned_publishes_nothing s e : poisoned s = true -> no_ok_running s ->
  published (step s e) = published s /\ no_ok_running (step s e).
Proof.
  intros HP HF. destruct e as [d v | k p | ]; cbn [step].
  - split; [reflexivity|]. unfold no_ok_running. cbn [queue]. apply Forall_app. split; [exact HF | constructor; [discriminate | constructor]].
  - destruct (nth_error (queue s) k) as [j|]; [|auto]. destruct (j_state j); auto. rewrite HP.
    split; [reflexivity|]. unfold no_ok_running. cbn [queue]. apply set_state_forall; [exact HF | intros; discriminate].
  - destruct (queue s) as [|j r] eqn:Q; [auto|]. unfold no_ok_running in HF. rewrite Q in HF. inversion HF as [|? ? Hj Hr]; subst.
    destruct (j_state j) eqn:J; [split; [reflexivity | unfold no_ok_running; rewrite Q; exact HF] | contradiction |].
    split; [reflexivity | exact Hr].
Qed.
Theorem poisoned_lock_silences_the_server : forall es s, poisoned s = true -> no_ok_running s ->
  published (fold_left step es s) = published s.
Proof.
  induction es as [|e r IH]; intros s HP HF; [reflexivity|]. cbn [fold_left].
  destruct (poisoned_publishes_nothing s e HP HF) as [E F]. rewrite IH; [exact E | apply poisoned_stays; exact HP | exact F].
Qed.
