(* Sys/Mkdsk.v -- MODEL of the accept / refuse decision of `a2kit mkdsk` (src/commands/mkdsk.rs mkdsk, mkimage,
   mkdos3x, mkprodos, mkpascal, mkcpm, mkfat and Dot2mg::create) over the tables GENERATED from those sources.
   Identifiers are character-code lists.  No proofs here. *)
From A2 Require Import Base.Bytes Gen.Mkdsk Img.Skew.
Open Scope N_scope.

Definition str := list N.
Fixpoint assoc (k : str) (l : list (str * str)) : option str :=
  match l with [] => None | (a, b) :: r => if list_eqb a k then Some b else assoc k r end.
Fixpoint assocN (k : str) (l : list (str * N)) : option N :=
  match l with [] => None | (a, b) :: r => if list_eqb a k then Some b else assocN k r end.
Definition mem_str (k : str) (l : list str) : bool := existsb (list_eqb k) l.

Definition s_DOS32 : str := [65;50;95;68;79;83;51;50].           (* "A2_DOS32" *)
Definition s_DOS33 : str := [65;50;95;68;79;83;51;51].           (* "A2_DOS33" *)
Definition s_A2_400 : str := [65;50;95;52;48;48].
Definition s_A2_800 : str := [65;50;95;56;48;48].
Definition s_HDMAX : str := [65;50;95;72;68;95;77;65;88].         (* "A2_HD_MAX" *)
Definition s_DOT2MG : str := [68;79;84;50;77;71].
Definition s_PO : str := [80;79].
Definition s_NONE : str := [78;79;78;69].
Definition s_dos32 : str := [100;111;115;51;50].
Definition s_dos33 : str := [100;111;115;51;51].
Definition s_prodos : str := [112;114;111;100;111;115].
Definition s_pascal : str := [112;97;115;99;97;108].
Definition s_cpm2 : str := [99;112;109;50].
Definition s_cpm3 : str := [99;112;109;51].
Definition s_fat : str := [102;97;116].

(* first matching arm of mkimage *)
Fixpoint mkimage_lookup (ty k : str) (arms : list (str * str * N)) : bool :=
  match arms with
  | [] => false
  | (t, kk, a) :: r => if andb (list_eqb t ty) (list_eqb kk k) then N.eqb a 1 else mkimage_lookup ty k r
  end.

(* kind after the dos32 refinement of mkdsk *)
Definition refine_kind (os k : str) : str := if andb (list_eqb k s_DOS33) (list_eqb os s_dos32) then s_DOS32 else k.

(* decision for (os, kind name, image type name, optional wrap name); the volume argument is assumed well formed,
   the boot flag off, and the file extension right *)
Definition decide (os kname tname : str) (wrap : option str) : bool :=
  match assoc kname kind_of_name, assoc tname type_of_name with
  | Some k0, Some ty =>
      let k := refine_kind os k0 in
      let wrap_ok := match wrap with
                     | None => negb (list_eqb ty s_DOT2MG)
                     | Some _ => list_eqb ty s_DOT2MG
                     end in
      let wty := match wrap with None => s_NONE | Some w => match assoc w type_of_name with Some x => x | None => s_NONE end end in
      let image_ok := andb (mkimage_lookup ty k mkimage_arms)
                        (if list_eqb ty s_DOT2MG then existsb (fun p => andb (list_eqb (fst p) k) (list_eqb (snd p) wty)) dot2mg_arms else true) in
      let holds_po_only := orb (list_eqb ty s_PO) (list_eqb wty s_PO) in
      let os_ok :=
        if orb (list_eqb os s_cpm2) (list_eqb os s_cpm3) then andb (mem_str k dpb_kinds) (negb holds_po_only)
        else if list_eqb os s_dos32 then list_eqb k s_DOS32
        else if list_eqb os s_dos33 then andb (list_eqb k s_DOS33) (negb holds_po_only)
        else if list_eqb os s_prodos then mem_str k [s_DOS33; s_A2_400; s_A2_800; s_HDMAX]
        else if list_eqb os s_pascal then list_eqb k s_DOS33
        else if list_eqb os s_fat then mem_str k bpb_kinds
        else false in
      andb wrap_ok (andb image_ok os_ok)
  | _, _ => false
  end.

(* everything an accepted configuration needs exists: DPB for CP/M, BPB for FAT, a 13/16 sector 35 track capacity for DOS,
   a whole number of at most 65535 blocks for ProDOS / Pascal *)
Definition params_exist (os kname : str) : bool :=
  match assoc kname kind_of_name with
  | None => false
  | Some k0 =>
      let k := refine_kind os k0 in
      match assocN k kind_capacity with
      | None => false
      | Some cap =>
          if orb (list_eqb os s_cpm2) (list_eqb os s_cpm3) then mem_str k dpb_kinds
          else if orb (list_eqb os s_dos32) (list_eqb os s_dos33) then orb (N.eqb cap (35 * 13 * 256)) (N.eqb cap (35 * 16 * 256))
          else if orb (list_eqb os s_prodos) (list_eqb os s_pascal) then
            let blocks := if orb (list_eqb k s_A2_400) (list_eqb k s_A2_800) then cap / 524 else cap / 512 in
            andb (N.leb 280 blocks) (N.leb blocks 65535)
          else mem_str k bpb_kinds
      end
  end.

Definition all_tuples : list (str * str * str * option str) :=
  flat_map (fun os => flat_map (fun k => flat_map (fun t => map (fun w => (os, k, t, w)) (None :: map Some cli_wrap_types)) cli_img_types) cli_disk_kinds) cli_os_names.
