(* Sys/ParsersProofs.v *)
From A2 Require Import Base.Bytes Img.Codec Sys.Parsers.
From Coq Require Import ZArith ZifyBool ZifyNat ZifyN.
Open Scope N_scope.

(* get_next_chunk always makes progress: the next pointer is 0 (stop) or at least 8 bytes further and inside the buffer *)
Lemma woz_next_progress ptr buf : let '(next, _, _) := woz_next_chunk ptr buf in next = 0 \/ (ptr + 8 <= next /\ next + 8 <= lenN buf).
Proof.
  unfold woz_next_chunk. destruct (N.ltb_spec (lenN buf) (ptr + 8)); [left; reflexivity|].
  set (size := un_le32 (dropN (ptr + 4) buf)).
  destruct (N.ltb_spec (lenN buf) (ptr + 8 + size)); [left; reflexivity|].
  destruct (N.ltb_spec (lenN buf) (ptr + 8 + size + 8)); destruct (known_id _); cbn; try (left; reflexivity); right; lia.
Qed.

(* hence the chunk walk of from_bytes terminates on EVERY byte string: fuel = number of bytes suffices, no panic *)
Lemma woz_walk_fuel fuel : forall ptr buf, (N.to_nat (lenN buf - ptr) < 8 * fuel)%nat \/ ptr = 0 ->
  exists cs, woz_walk fuel ptr buf = ROk cs.
Proof.
  induction fuel as [|k IH]; intros ptr buf Hm.
  - destruct Hm as [Hm | ->]; [lia|]. exists []. reflexivity.
  - cbn [woz_walk]. destruct (N.eqb_spec ptr 0) as [-> | Hp]; [exists []; reflexivity|].
    destruct Hm as [Hm|Hm]; [|contradiction].
    pose proof (woz_next_progress ptr buf) as Hprog.
    destruct (woz_next_chunk ptr buf) as [[next id] c].
    assert (Hk : exists cs, woz_walk k next buf = ROk cs).
    { apply IH. destruct Hprog as [-> | [H1 H2]]; [right; reflexivity | left; lia]. }
    destruct Hk as [cs ->]. cbn [obind]. destruct c as [[o l]|]; eexists; reflexivity.
Qed.
Theorem woz_walk_total buf : exists cs, woz_walk (S (length buf)) 12 buf = ROk cs.
Proof. apply woz_walk_fuel. left. unfold lenN. lia. Qed.

(* TD0 sector unpack is total on arbitrary bytes: the fuel given (length of the data + 1) is never exhausted *)
Lemma td0_rep_fuel fuel : forall size acc d, (length d < fuel)%nat -> td0_rep fuel size acc d <> RFuel.
Proof.
  induction fuel as [|k IH]; intros size acc d H; [lia|]. cbn [td0_rep].
  destruct (N.leb size (lenN acc)); [discriminate|].
  destruct d as [|c0 [|c1 [|b0 [|b1 r]]]]; try discriminate. apply IH. cbn [length] in H. lia.
Qed.
Lemma td0_rle_fuel fuel : forall size acc d, (length d < fuel)%nat -> td0_rle fuel size acc d <> RFuel.
Proof.
  induction fuel as [|k IH]; intros size acc d H; [lia|]. cbn [td0_rle].
  destruct (N.leb size (lenN acc)); [discriminate|].
  destruct d as [|c d1]; [discriminate|]. destruct d1 as [|n r]; [destruct c; discriminate|].
  destruct c as [|p].
  - destruct (N.ltb (lenN r) n); [discriminate|]. apply IH. unfold dropN. rewrite skipn_length. cbn [length] in H. lia.
  - destruct (N.ltb (lenN r) (2 * N.pos p)); [discriminate|]. apply IH. unfold dropN. rewrite skipn_length. cbn [length] in H. lia.
Qed.
Theorem td0_unpack_total size data : td0_unpack size data <> RFuel /\ forall c, td0_unpack size data <> RPanic c.
Proof.
  unfold td0_unpack. destruct data as [|a [|b [|enc r]]]; try (split; [discriminate | intros; discriminate]).
  assert (Hrep := td0_rep_fuel (S (length r)) size [] r (Nat.lt_succ_diag_r _)).
  assert (Hrle := td0_rle_fuel (S (length r)) size [] r (Nat.lt_succ_diag_r _)).
  assert (Prep : forall fuel acc d c, td0_rep fuel size acc d <> RPanic c).
  { induction fuel as [|k IH]; intros acc d c; cbn [td0_rep]; [discriminate|]. destruct (N.leb size (lenN acc)); [discriminate|].
    destruct d as [|c0 [|c1 [|b0 [|b1 r']]]]; try discriminate. apply IH. }
  assert (Prle : forall fuel acc d c, td0_rle fuel size acc d <> RPanic c).
  { induction fuel as [|k IH]; intros acc d c; cbn [td0_rle]; [discriminate|]. destruct (N.leb size (lenN acc)); [discriminate|].
    destruct d as [|c0 d1]; [discriminate|]. destruct d1 as [|n r']; [destruct c0; discriminate|]. destruct c0 as [|p].
    - destruct (N.ltb (lenN r') n); [discriminate | apply IH].
    - destruct (N.ltb (lenN r') (2 * N.pos p)); [discriminate | apply IH]. }
  destruct enc as [|p].
  - destruct (N.ltb (lenN r) size); [split; [discriminate | intros; discriminate]|].
    destruct (N.eqb _ size); split; try discriminate; intros; discriminate.
  - destruct p as [p'|p'|].
    + split; [discriminate | intros; discriminate].
    + destruct p'; try (split; [discriminate | intros; discriminate]).
      destruct (td0_rle (S (length r)) size [] r) eqn:E; try (split; [discriminate | intros; discriminate]).
      * destruct (N.eqb _ size); split; try discriminate; intros; discriminate.
      * exfalso. exact (Prle _ _ _ _ E).
      * exfalso. exact (Hrle eq_refl).
    + destruct (td0_rep (S (length r)) size [] r) eqn:E; try (split; [discriminate | intros; discriminate]).
      * destruct (N.eqb _ size); split; try discriminate; intros; discriminate.
      * exfalso. exact (Prep _ _ _ _ E).
      * exfalso. exact (Hrep eq_refl).
Qed.

(* the (repaired) IMD track parser never panics and never runs out of fuel: every byte string gives a track or an error *)
Lemma imd_records_total size n : forall b, (forall c, imd_records size n b <> RPanic c) /\ imd_records size n b <> RFuel.
Proof.
  induction n as [|k IH]; intros b; cbn [imd_records]; [split; [intros; discriminate | discriminate]|].
  destruct b as [|c rest]; [split; [intros; discriminate | discriminate]|].
  destruct (imd_sec_size size c) as [sz|]; [|split; [intros; discriminate | discriminate]].
  destruct (N.ltb _ _); [split; [intros; discriminate | discriminate]|].
  destruct (IH (dropN (sz - 1) rest)) as [H1 H2].
  destruct (imd_records size k (dropN (sz - 1) rest)) as [r|e|pc|] eqn:E; cbn [obind]; split; try (intros; discriminate); try discriminate.
  - intros c0 _. exact (H1 pc eq_refl).
  - exfalso. exact (H2 eq_refl).
Qed.
Theorem imd_parse_track_total b : (forall c, imd_parse_track b <> RPanic c) /\ imd_parse_track b <> RFuel.
Proof.
  unfold imd_parse_track. destruct (N.ltb (lenN b) 5); [split; [intros; discriminate | discriminate]|].
  destruct (N.ltb 6 (dnth b 4)); [split; [intros; discriminate | discriminate]|].
  destruct (N.ltb (lenN b) _); [split; [intros; discriminate | discriminate]|].
  match goal with |- context [imd_records ?s ?n ?d] => destruct (imd_records_total s n d) as [H1 H2]; destruct (imd_records s n d) as [r|e|pc|] eqn:E end;
    cbn [obind]; split; try (intros; discriminate); try discriminate.
  - intros c _. exact (H1 pc eq_refl).
  - exfalso. exact (H2 eq_refl).
Qed.

(* ---------- the chunk walk reads back what to_bytes lays out ---------- *)
(* how to_bytes lays the chunks out: id, size, data, one after the other *)
Definition woz_chunk (c : N * list N) : list N := le32 (fst c) ++ le32 (lenN (snd c)) ++ snd c.
Definition woz_body (cs : list (N * list N)) : list N := flat_map woz_chunk cs.

Lemma un_le32_le32_app v rest : v < 4294967296 -> un_le32 (le32 v ++ rest) = v.
Proof.
  intros H. unfold un_le32, le32, dnth. cbn [app nth].
  assert (A : v / 16777216 < 256) by (apply N.div_lt_upper_bound; lia).
  rewrite (N.mod_small (v / 16777216) 256) by exact A. lia.
Qed.
Lemma dropN_app_exact {A} (a b : list A) n : lenN a = n -> dropN n (a ++ b) = b.
Proof. intros <-. unfold dropN, lenN. rewrite Nat2N.id, skipn_app, Nat.sub_diag, skipn_all. reflexivity. Qed.
Lemma lenN_app {A} (a b : list A) : lenN (a ++ b) = lenN a + lenN b.
Proof. unfold lenN. rewrite app_length. lia. Qed.
Lemma lenN_chunk c : lenN (woz_chunk c) = 8 + lenN (snd c).
Proof. unfold woz_chunk. rewrite !lenN_app. unfold le32, lenN. cbn [length]. lia. Qed.

Fixpoint expect (off : N) (cs : list (N * list N)) : list (N * N * N) :=
  match cs with [] => [] | c :: r => (fst c, off, 8 + lenN (snd c)) :: expect (off + 8 + lenN (snd c)) r end.

(* the chunk walk of from_bytes finds exactly the chunks to_bytes laid out, each at its offset with its length *)
Theorem woz_walk_print : forall cs pre,
  cs <> [] -> lenN pre <> 0 ->
  Forall (fun c => known_id (fst c) = true /\ fst c < 4294967296 /\ lenN (snd c) < 4294967296) cs ->
  forall fuel, (length cs < fuel)%nat ->
  woz_walk fuel (lenN pre) (pre ++ woz_body cs) = ROk (expect (lenN pre) cs).
Proof.
  induction cs as [|c r IH]; intros pre Hne Hp HF fuel Hf; [contradiction|].
  inversion HF as [|? ? (Hk & Hid & Hsz) Hr]; subst.
  destruct fuel as [|n]; [cbn [length] in Hf; lia|].
  cbn [woz_walk]. destruct (N.eqb_spec (lenN pre) 0) as [E|_]; [contradiction|].
  cbn [woz_body flat_map]. set (rest := flat_map woz_chunk r).
  unfold woz_next_chunk.
  assert (L : lenN (pre ++ woz_chunk c ++ rest) = lenN pre + 8 + lenN (snd c) + lenN rest) by (rewrite !lenN_app, lenN_chunk; lia).
  destruct (N.ltb_spec (lenN (pre ++ woz_chunk c ++ rest)) (lenN pre + 8)) as [X|_]; [lia|].
  rewrite (dropN_app_exact pre _ (lenN pre) eq_refl).
  assert (Eid : un_le32 (woz_chunk c ++ rest) = fst c).
  { unfold woz_chunk. rewrite <- !app_assoc. apply un_le32_le32_app. exact Hid. }
  rewrite Eid.
  assert (Esz : un_le32 (dropN (lenN pre + 4) (pre ++ woz_chunk c ++ rest)) = lenN (snd c)).
  { unfold woz_chunk. rewrite <- !app_assoc. rewrite (app_assoc pre (le32 (fst c))).
    rewrite (dropN_app_exact (pre ++ le32 (fst c)) _ (lenN pre + 4)) by (rewrite lenN_app; unfold le32, lenN; cbn [length]; lia).
    apply un_le32_le32_app. exact Hsz. }
  rewrite Esz.
  destruct (N.ltb_spec (lenN (pre ++ woz_chunk c ++ rest)) (lenN pre + 8 + lenN (snd c))) as [X|_]; [lia|].
  rewrite Hk.
  replace (lenN pre + 8 + lenN (snd c) - lenN pre) with (8 + lenN (snd c)) by lia.
  destruct r as [|c2 r2].
  - (* last chunk: nothing follows, the walk stops *)
    assert (Rz : lenN rest = 0) by reflexivity.
    destruct (N.ltb_spec (lenN (pre ++ woz_chunk c ++ rest)) (lenN pre + 8 + lenN (snd c) + 8)) as [_|X]; [|lia].
    destruct n; cbn [woz_walk]; change (0 =? 0) with true; cbn [obind expect]; reflexivity.
  - inversion Hr as [|? ? (Hk2 & Hid2 & Hsz2) Hr2]; subst.
    assert (R8 : 8 <= lenN rest) by (unfold rest; cbn [flat_map]; rewrite lenN_app, lenN_chunk; lia).
    destruct (N.ltb_spec (lenN (pre ++ woz_chunk c ++ rest)) (lenN pre + 8 + lenN (snd c) + 8)) as [X|_]; [lia|].
    specialize (IH (pre ++ woz_chunk c) ltac:(discriminate) ltac:(rewrite lenN_app; lia) Hr n ltac:(cbn [length] in *; lia)).
    rewrite lenN_app, lenN_chunk in IH. rewrite <- app_assoc in IH.
    replace (lenN pre + (8 + lenN (snd c))) with (lenN pre + 8 + lenN (snd c)) in IH by lia.
    unfold rest. unfold woz_body in IH. rewrite IH. cbn [obind expect]. reflexivity.
Qed.
