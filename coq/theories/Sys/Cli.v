(* Sys/Cli.v -- MODEL of a command handler as a sequence of events, and the write-last discipline.
   A handler path is a list of events: [Fallible] (a `?`, expect, return Err, or any call that may fail), [Write] (the call
   that writes the image file) and [Pure].  A run with the k-th fallible event failing stops there with a non-zero exit.
   The GENERATED list Gen/Cli.v classifies every image-writing call site of the sources by its syntactic position. *)
From A2 Require Import Base.Bytes Gen.Cli.
Open Scope N_scope.

Inductive event := Fallible | Write | Pure.

(* run a path; [fail_at] counts fallible events (Write is itself fallible: it is the last thing that can go wrong);
   result: (exit ok?, number of completed writes) *)
Fixpoint run_path (p : list event) (fail_at : option nat) (writes : nat) : bool * nat :=
  match p with
  | [] => (true, writes)
  | Pure :: r => run_path r fail_at writes
  | Fallible :: r => match fail_at with
                     | Some O => (false, writes)
                     | Some (S k) => run_path r (Some k) writes
                     | None => run_path r None writes
                     end
  | Write :: r => match fail_at with
                  | Some O => (false, writes)          (* the write itself failed: nothing completed *)
                  | Some (S k) => run_path r (Some k) (S writes)
                  | None => run_path r None (S writes)
                  end
  end.

(* the discipline: nothing that can fail comes after a write *)
Fixpoint write_is_last (p : list event) : bool :=
  match p with
  | [] => true
  | Write :: r => forallb (fun e => match e with Pure => true | _ => false end) r
  | _ :: r => write_is_last r
  end.

(* the shape of a handler path for each syntactic class of write site:
   1 `return write(..)`, 2 `write(..)?; Ok(())`, 3 tail expression: fallible prefix of any length, then the write, then nothing fallible *)
Definition site_path (cls : N) (prefix : nat) : list event :=
  match cls with
  | 1 | 2 | 3 => repeat Fallible prefix ++ [Write] ++ [Pure]
  | _ => repeat Fallible prefix ++ [Write] ++ [Fallible]    (* unknown position: assume something fallible follows *)
  end.
Definition site_ok (cls : N) : bool := match cls with 1 | 2 | 3 => true | _ => false end.
