(* Sys/Server.v -- MODEL of the bookkeeping of the language servers' main loops
   (src/bin/server-{applesoft,integerbasic,merlin}/main.rs: launch_analysis_thread, the "gather data from analysis
   threads" block of the main loop; notification.rs: didOpen / didChange push a handle at the back of the queue).
   A schedule is any sequence of events: the client launches analyses, threads finish in any order (or die), and the
   main loop looks at the FRONT of the queue only.  A thread that dies while it holds the analyzer lock poisons it:
   every later analysis gets no result.  What an analysis computes is not modelled, only which result is published when.
   No proofs here. *)
From A2 Require Import Base.Bytes.
Open Scope N_scope.

Inductive jstate := Running | DoneOk | Dead.
Record job := mkjob { j_doc : N; j_ver : N; j_state : jstate }.
Record sstate := mkss { queue : list job; published : list (N * N); launched : list (N * N); poisoned : bool }.
Definition init : sstate := mkss [] [] [] false.

Inductive event :=
| Launch (doc ver : N)            (* didOpen / didChange: spawn a thread, push its handle at the back *)
| Finish (k : nat) (panics : bool)(* the thread of the k-th queued job ends; panics = it died while holding the lock *)
| Harvest.                        (* one pass of the main loop over the front handle *)

Fixpoint set_state (q : list job) (k : nat) (f : job -> job) : list job :=
  match q, k with
  | [], _ => []
  | j :: r, O => f j :: r
  | j :: r, S n => j :: set_state r n f
  end.

Definition step (s : sstate) (e : event) : sstate :=
  match e with
  | Launch d v => mkss (queue s ++ [mkjob d v Running]) (published s) (launched s ++ [(d, v)]) (poisoned s)
  | Finish k panics =>
      match nth_error (queue s) k with
      | Some j =>
          match j_state j with
          | Running =>
              if poisoned s then mkss (set_state (queue s) k (fun j => mkjob (j_doc j) (j_ver j) Dead)) (published s) (launched s) true   (* lock() fails: None *)
              else if panics then mkss (set_state (queue s) k (fun j => mkjob (j_doc j) (j_ver j) Dead)) (published s) (launched s) true
              else mkss (set_state (queue s) k (fun j => mkjob (j_doc j) (j_ver j) DoneOk)) (published s) (launched s) false
          | _ => s
          end
      | None => s
      end
  | Harvest =>
      match queue s with
      | [] => s
      | j :: r =>
          match j_state j with
          | Running => s                                             (* is_finished() is false: nothing happens *)
          | DoneOk => mkss r (published s ++ [(j_doc j, j_ver j)]) (launched s) (poisoned s)
          | Dead => mkss r (published s) (launched s) (poisoned s)  (* join gives Err or None: nothing is published *)
          end
      end
  end.
Definition run (es : list event) : sstate := fold_left step es init.

Inductive subseq {A} : list A -> list A -> Prop :=
| sub_nil : forall l, subseq [] l
| sub_take : forall x a b, subseq a b -> subseq (x :: a) (x :: b)
| sub_skip : forall x a b, subseq a b -> subseq a (x :: b).

Definition key (j : job) : N * N := (j_doc j, j_ver j).
Definition no_panic (es : list event) : Prop := forall k, ~ In (Finish k true) es.
