From A2 Require Import Base.Bytes Gen.Cli Sys.Cli.
From Coq Require Import ZArith ZifyBool ZifyNat ZifyN.
Open Scope N_scope.

Lemma run_pure_tail r fa w : forallb (fun e => match e with Pure => true | _ => false end) r = true -> run_path r fa w = (true, w).
Proof.
  revert fa w. induction r as [|e r IH]; intros fa w H; [reflexivity|]. cbn in H. destruct e; try discriminate. cbn. apply IH, H.
Qed.

(* if the write is the last thing that can fail, a run that exits with an error has completed no write *)
Lemma write_last_gen : forall p w, write_is_last p = true -> forall fa, fst (run_path p fa w) = false -> snd (run_path p fa w) = w.
Proof.
  induction p as [|e r IH]; intros w H fa Hf.
  - cbn in Hf. discriminate Hf.
  - destruct e; cbn [write_is_last] in H; cbn [run_path] in Hf |- *.
    + destruct fa as [[|k]|]; [reflexivity | apply IH; assumption | apply IH; assumption].
    + destruct fa as [[|k]|]; [reflexivity | |]; rewrite (run_pure_tail r _ _ H) in Hf; cbn in Hf; discriminate Hf.
    + apply IH; assumption.
Qed.
Theorem write_last_sound p : write_is_last p = true -> forall fa, fst (run_path p fa 0) = false -> snd (run_path p fa 0) = 0%nat.
Proof. intros H fa Hf. apply write_last_gen; assumption. Qed.

Lemma site_path_last cls n : site_ok cls = true -> write_is_last (site_path cls n) = true.
Proof.
  intros H. assert (E : site_path cls n = repeat Fallible n ++ [Write] ++ [Pure]).
  { destruct cls as [|[[|[]|]|[|[]|]|]]; try discriminate; reflexivity. }
  rewrite E. clear. induction n as [|k IH]; [reflexivity | exact IH].
Qed.
