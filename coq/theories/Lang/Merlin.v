(* Lang/Merlin.v -- MODEL of the byte encoding of Merlin source lines (src/lang/merlin/tokenizer.rs):
   tokenize_line: the walk leaves column separators as the byte A0 and all other text as ASCII; then every byte below
   128 other than the blank gets its high bit set, and the line is closed by 8D.
   detokenize: 8D closes a line, A0 becomes the column separator character (U+0100), blank and tab pass, any other
   byte below 128 is an error, everything else loses its high bit.  Proofs at the end (the file is small). *)
From A2 Require Import Base.Bytes.
Open Scope N_scope.

Definition m_enc_byte (c : N) : N := if (c <? 128) && negb (c =? 32) then c + 128 else c.
Definition m_enc_line (l : list N) : list N := map m_enc_byte l ++ [141].

Definition SEP : N := 256.
(* returns the decoded line and the remaining bytes; RErr 1 = unexpected positive ASCII *)
Fixpoint m_dec_line (bs : list N) : outcome (list N * list N) :=
  match bs with
  | [] => ROk ([], [])
  | b :: r =>
      if b =? 141 then ROk ([], r)
      else if b =? 160 then (do '(l, rest) <- m_dec_line r; ROk (SEP :: l, rest))
      else if (b =? 32) || (b =? 9) then (do '(l, rest) <- m_dec_line r; ROk (b :: l, rest))
      else if b <? 128 then RErr 1
      else (do '(l, rest) <- m_dec_line r; ROk (b - 128 :: l, rest))
  end.

(* text produced by the walk: ASCII other than CR, or the separator byte A0 *)
Definition m_char_ok (c : N) : bool := ((c <? 128) && negb (c =? 13)) || (c =? 160).
Definition m_view (c : N) : N := if c =? 160 then SEP else c.

Lemma m_byte_roundtrip c : m_char_ok c = true ->
  let b := m_enc_byte c in
  (b =? 141) = false /\
  (if b =? 160 then SEP else if (b =? 32) || (b =? 9) then b else b - 128) = m_view c /\
  ((b =? 160) = false -> ((b =? 32) || (b =? 9)) = false -> (b <? 128) = false).
Proof.
  intros H. assert (Hc : c < 161).
  { unfold m_char_ok in H. apply orb_prop in H as [H|H].
    - apply andb_prop in H as [H _]. apply N.ltb_lt in H. lia.
    - apply N.eqb_eq in H. lia. }
  pose (P := fun c : N => negb (m_char_ok c) ||
     (let b := m_enc_byte c in negb (b =? 141) && ((if b =? 160 then SEP else if (b =? 32) || (b =? 9) then b else b - 128) =? m_view c)
        && ((b =? 160) || ((b =? 32) || (b =? 9)) || negb (b <? 128)))).
  assert (G : P c = true) by (apply (sweep1 P 161); [vm_compute; reflexivity | exact Hc]).
  unfold P in G. rewrite H in G. cbn [negb orb] in G. cbv zeta in G |- *.
  apply andb_prop in G as [G G3]. apply andb_prop in G as [G1 G2].
  apply negb_true_iff in G1. apply N.eqb_eq in G2. repeat split; auto.
  intros A B. rewrite A, B in G3. cbn [orb] in G3. apply negb_true_iff in G3. exact G3.
Qed.

Theorem merlin_line_roundtrip : forall l rest, forallb m_char_ok l = true ->
  m_dec_line (m_enc_line l ++ rest) = ROk (map m_view l, rest).
Proof.
  induction l as [|c l IH]; intros rest H.
  - reflexivity.
  - cbn [forallb] in H. apply andb_prop in H as [Hc Hl].
    destruct (m_byte_roundtrip c Hc) as (B1 & B2 & B3). cbv zeta in B1, B2, B3.
    unfold m_enc_line in *. cbn [map app m_dec_line]. rewrite B1.
    specialize (IH rest Hl). unfold m_enc_line in IH.
    destruct (m_enc_byte c =? 160) eqn:E160.
    + rewrite IH. cbn [obind map]. rewrite B2. reflexivity.
    + destruct ((m_enc_byte c =? 32) || (m_enc_byte c =? 9)) eqn:E32.
      * rewrite IH. cbn [obind map]. rewrite B2. reflexivity.
      * rewrite (B3 eq_refl eq_refl). rewrite IH. cbn [obind map]. rewrite B2. reflexivity.
Qed.
