(* Lang/Merlin.v -- MODEL of the byte encoding of Merlin source lines (src/lang/merlin/tokenizer.rs):
   tokenize_line: the walk leaves column separators as the byte A0 and all other text as ASCII; then every byte below
   128 other than the blank gets its high bit set, and the line is closed by 8D.
   detokenize: 8D closes a line, A0 becomes the column separator character (U+0100), blank and tab pass, any other
   byte below 128 is an error, everything else loses its high bit.  Proofs at the end (the file is small). *)
From A2 Require Import Base.Bytes.
Open Scope N_scope.

Definition m_enc_byte (c : N) : N := if (c <? 128) && negb (c =? 32) then c + 128 else c.
Definition m_enc_line (l : list N) : list N := map m_enc_byte l ++ [141].

Definition SEP : N := 256.
(* returns the decoded line and the remaining bytes; RErr 1 = unexpected positive ASCII *)
Fixpoint m_dec_line (bs : list N) : outcome (list N * list N) :=
  match bs with
  | [] => ROk ([], [])
  | b :: r =>
      if b =? 141 then ROk ([], r)
      else if b =? 160 then (do '(l, rest) <- m_dec_line r; ROk (SEP :: l, rest))
      else if (b =? 32) || (b =? 9) then (do '(l, rest) <- m_dec_line r; ROk (b :: l, rest))
      else if b <? 128 then RErr 1
      else (do '(l, rest) <- m_dec_line r; ROk (b - 128 :: l, rest))
  end.

(* text produced by the walk: ASCII other than CR, or the separator byte A0 *)
Definition m_char_ok (c : N) : bool := ((c <? 128) && negb (c =? 13)) || (c =? 160).
Definition m_view (c : N) : N := if c =? 160 then SEP else c.

Lemma m_byte_roundtrip c : m_char_ok c = true ->
  let b := m_enc_byte c in
  (b =? 141) = false /\
  (if b =? 160 then SEP else if (b =? 32) || (b =? 9) then b else b - 128) = m_view c /\
  ((b =? 160) = false -> ((b =? 32) || (b =? 9)) = false -> (b <? 128) = false).
Proof.
  intros H. assert (Hc : c < 161).
  { unfold m_char_ok in H. apply orb_prop in H as [H|H].
    - apply andb_prop in H as [H _]. apply N.ltb_lt in H. lia.
    - apply N.eqb_eq in H. lia. }
  pose (P := fun c : N => negb (m_char_ok c) ||
     (let b := m_enc_byte c in negb (b =? 141) && ((if b =? 160 then SEP else if (b =? 32) || (b =? 9) then b else b - 128) =? m_view c)
        && ((b =? 160) || ((b =? 32) || (b =? 9)) || negb (b <? 128)))).
  assert (G : P c = true) by (apply (sweep1 P 161); [vm_compute; reflexivity | exact Hc]).
  unfold P in G. rewrite H in G. cbn [negb orb] in G. cbv zeta in G |- *.
  apply andb_prop in G as [G G3]. apply andb_prop in G as [G1 G2].
  apply negb_true_iff in G1. apply N.eqb_eq in G2. repeat split; auto.
  intros A B. rewrite A, B in G3. cbn [orb] in G3. apply negb_true_iff in G3. exact G3.
Qed.

Theorem merlin_line_roundtrip : forall l rest, forallb m_char_ok l = true ->
  m_dec_line (m_enc_line l ++ rest) = ROk (map m_view l, rest).
Proof.
  induction l as [|c l IH]; intros rest H.
  - reflexivity.
  - cbn [forallb] in H. apply andb_prop in H as [Hc Hl].
    destruct (m_byte_roundtrip c Hc) as (B1 & B2 & B3). cbv zeta in B1, B2, B3.
    unfold m_enc_line in *. cbn [map app m_dec_line]. rewrite B1.
    specialize (IH rest Hl). unfold m_enc_line in IH.
    destruct (m_enc_byte c =? 160) eqn:E160.
    + rewrite IH. cbn [obind map]. rewrite B2. reflexivity.
    + destruct ((m_enc_byte c =? 32) || (m_enc_byte c =? 9)) eqn:E32.
      * rewrite IH. cbn [obind map]. rewrite B2. reflexivity.
      * rewrite (B3 eq_refl eq_refl). rewrite IH. cbn [obind map]. rewrite B2. reflexivity.
Qed.

(* ---------------------------------------------------------------------------------------------
   Column formatting of a detokenized line (src/lang/merlin/formatter.rs format_tokens, Variable style):
   each column is followed by max 1 (width - length) blanks (width 1 after the third column), a column starting with
   a semicolon is pushed right by the widths of the columns it skipped, and the line ends with its last column: the padding behind
   it is dropped, blanks that belong to it are kept (an empty last column is kept by the padding of the column in front of it).
   In front of a comment column there are at least two blanks: one blank can be part of an operand (file names, macro arguments). *)
Definition spaces (n : nat) : list N := repeat 32 n.
Fixpoint sum_nat (l : list nat) : nat := match l with [] => O | x :: r => (x + sum_nat r)%nat end.
Fixpoint fmt_cols (widths : list nat) (idx : nat) (cols : list (list N)) : list N :=
  match cols with
  | [] => []
  | col :: r =>
      let pre := match col with 59 :: _ => sum_nat (skipn idx (firstn 3 widths)) | _ => O end in
      let w := if Nat.ltb idx 3 then nth idx widths 1%nat else 1%nat in
      let pad := Nat.max 1 (w - length col) in
      spaces pre ++ col ++ spaces pad ++ fmt_cols widths (S idx) r
  end.
Fixpoint fmt_upto (widths : list nat) (idx : nat) (cols : list (list N)) : list N :=
  match cols with
  | [] => []
  | col :: r =>
      let pre := match col with 59 :: _ => sum_nat (skipn idx (firstn 3 widths)) | _ => O end in
      let w := if Nat.ltb idx 3 then nth idx widths 1%nat else 1%nat in
      let pad := Nat.max (match r with (59 :: _) :: _ => 2 | _ => 1 end) (w - length col) in
      match r with
      | [] => spaces pre ++ col
      | _ => spaces pre ++ col ++ spaces pad ++ fmt_upto widths (S idx) r
      end
  end.
Definition fmt_line (widths : list nat) (cols : list (list N)) : list N := fmt_upto widths 0 cols.

(* the blank-separated words of a line *)
Fixpoint words_aux (cur : list N) (l : list N) : list (list N) :=
  match l with
  | [] => match cur with [] => [] | _ => [rev cur] end
  | c :: r => if c =? 32 then (match cur with [] => words_aux [] r | _ => rev cur :: words_aux [] r end)
              else words_aux (c :: cur) r
  end.
Definition words (l : list N) : list (list N) := words_aux [] l.
Definition nonnil (c : list N) : bool := match c with [] => false | _ => true end.

Lemma words_aux_col col : forall cur l, ~ In 32 col -> words_aux cur (col ++ l) = words_aux (rev col ++ cur) l.
Proof.
  induction col as [|c col IH]; intros cur l H; [reflexivity|].
  cbn [app words_aux]. destruct (N.eqb_spec c 32) as [E|E]; [exfalso; apply H; left; auto|].
  rewrite IH by (intros I; apply H; right; exact I). cbn [rev]. rewrite <- app_assoc. reflexivity.
Qed.
Lemma words_aux_spaces n : forall l, words_aux [] (spaces n ++ l) = words_aux [] l.
Proof. induction n as [|n IH]; intros l; [reflexivity|]. cbn [spaces repeat app words_aux]. change (32 =? 32) with true. cbv iota. apply IH. Qed.
Lemma words_aux_end cur n l : (0 < n)%nat -> cur <> [] -> words_aux cur (spaces n ++ l) = rev cur :: words_aux [] l.
Proof.
  intros Hn Hc. destruct n as [|n]; [lia|]. cbn [spaces repeat app words_aux]. change (32 =? 32) with true. cbv iota.
  destruct cur; [contradiction|]. f_equal. apply words_aux_spaces.
Qed.

(* every column comes back as one word, in order: columns never fuse and never split *)
Theorem fmt_cols_words widths : forall cols idx, Forall (fun c => ~ In 32 c) cols ->
  words (fmt_cols widths idx cols) = filter nonnil cols.
Proof.
  induction cols as [|col r IH]; intros idx H; [reflexivity|].
  inversion H as [|? ? Hc Hr]; subst. cbn [fmt_cols filter]. unfold words.
  rewrite words_aux_spaces, words_aux_col by exact Hc. rewrite app_nil_r.
  destruct col as [|c col].
  - cbn [rev nonnil]. rewrite words_aux_spaces. apply IH; exact Hr.
  - rewrite words_aux_end.
    + rewrite rev_involutive. cbn [nonnil]. f_equal. apply IH; exact Hr.
    + lia.
    + intros E. apply (f_equal (@length N)) in E. rewrite rev_length in E. discriminate.
Qed.

Lemma words_aux_last col : ~ In 32 col -> words_aux [] col = filter nonnil [col].
Proof.
  intros H. rewrite <- (app_nil_r col) at 1. rewrite words_aux_col by exact H. rewrite app_nil_r. cbn [words_aux filter].
  destruct col as [|c col]; [reflexivity|]. cbn [nonnil].
  destruct (rev (c :: col)) eqn:E; [apply (f_equal (@length N)) in E; rewrite rev_length in E; discriminate|].
  rewrite <- E, rev_involutive. reflexivity.
Qed.

Lemma minpad_pos (r : list (list N)) : (0 < match r with (59%N :: _) :: _ => 2 | _ => 1 end)%nat.
Proof. destruct r as [|[|x c] r']; try lia. destruct x as [|p]; [lia|]. do 6 (destruct p as [p|p|]; try lia). Qed.

Theorem fmt_upto_words widths : forall cols idx, Forall (fun c => ~ In 32 c) cols ->
  words (fmt_upto widths idx cols) = filter nonnil cols.
Proof.
  induction cols as [|col r IH]; intros idx H; [reflexivity|].
  inversion H as [|? ? Hc Hr]; subst. cbn [fmt_upto]. destruct r as [|c2 r'].
  - unfold words. rewrite words_aux_spaces. apply words_aux_last. exact Hc.
  - cbn [filter]. unfold words.
    rewrite words_aux_spaces, words_aux_col by exact Hc. rewrite app_nil_r.
    destruct col as [|c col].
    + cbn [rev nonnil]. rewrite words_aux_spaces. apply IH; exact Hr.
    + rewrite words_aux_end.
      * rewrite rev_involutive. cbn [nonnil]. f_equal. apply IH; exact Hr.
      * eapply Nat.lt_le_trans; [apply (minpad_pos (c2 :: r')) | apply Nat.le_max_l].
      * intros E. apply (f_equal (@length N)) in E. rewrite rev_length in E. discriminate.
Qed.

Theorem merlin_format_keeps_columns widths cols : Forall (fun c => ~ In 32 c) cols ->
  words (fmt_line widths cols) = filter nonnil cols.
Proof. intros H. unfold fmt_line. apply fmt_upto_words. exact H. Qed.

(* the line ends with its last column exactly as it is, blanks of its own included: nothing of it is trimmed, nothing follows it *)
Theorem merlin_format_keeps_last_column widths : forall cols idx c, exists t, fmt_upto widths idx (cols ++ [c]) = t ++ c.
Proof.
  induction cols as [|col r IH]; intros idx c.
  - cbn [app fmt_upto]. eexists; reflexivity.
  - destruct (IH (S idx) c) as [t Ht]. cbn [app fmt_upto]. destruct (r ++ [c]) eqn:E; [destruct r; discriminate|].
    rewrite Ht. eexists. rewrite !app_assoc. reflexivity.
Qed.

(* a line without a label starts with a blank (that is how the parser tells the label column from the others) *)
Theorem merlin_format_label_column widths r : r <> [] -> exists t, fmt_line widths ([] :: r) = 32 :: t.
Proof.
  intros Hr. unfold fmt_line. cbn [fmt_upto]. destruct r as [|c r']; [contradiction|].
  change (Nat.ltb 0 3) with true. cbv iota. cbn [length app spaces repeat].
  assert (P : (0 < Nat.max (match c :: r' with (59%N :: _) :: _ => 2 | _ => 1 end) (nth 0 widths 1%nat - 0))%nat)
    by (eapply Nat.lt_le_trans; [apply (minpad_pos (c :: r')) | apply Nat.le_max_l]).
  destruct (Nat.max _ _) eqn:E; [lia|]. cbn [repeat app]. eexists; reflexivity.
Qed.
