(* Lang/RenumberProofs.v *)
From A2 Require Import Base.Bytes Lang.Renumber.
Open Scope N_scope.

(* ---------- replacements applied from the right = simultaneous substitution ---------- *)
Lemma firstn_app_short {A} (l x : list A) c0 c1 : (c0 <= c1 <= length l)%nat -> firstn c0 (firstn c1 l ++ x) = firstn c0 l.
Proof.
  intros H. rewrite firstn_app, firstn_firstn, firstn_length.
  rewrite (Nat.min_l c1 (length l)) by lia. replace (c0 - c1)%nat with O by lia.
  cbn [firstn]. rewrite app_nil_r, (Nat.min_l c0 c1) by lia. reflexivity.
Qed.
Lemma skipn_app_exact {A} (l x : list A) c1 : (c1 <= length l)%nat -> skipn c1 (firstn c1 l ++ x) = x.
Proof.
  intros H. rewrite skipn_app, firstn_length, (Nat.min_l c1 (length l)) by lia.
  rewrite Nat.sub_diag. cbn [skipn]. rewrite skipn_all2 by (rewrite firstn_length; lia). reflexivity.
Qed.
Lemma firstn_split {A} (l : list A) cur c0 : (cur <= c0)%nat -> firstn c0 l = firstn cur l ++ firstn (c0 - cur) (skipn cur l).
Proof.
  intros H. rewrite <- (firstn_skipn cur l) at 1. rewrite firstn_app, firstn_firstn, (Nat.min_l c0 cur).
Abort.
Lemma firstn_split {A} : forall (l : list A) cur c0, (cur <= c0)%nat -> firstn c0 l = firstn cur l ++ firstn (c0 - cur) (skipn cur l).
Proof.
  induction l as [|a l IH]; intros cur c0 H.
  - rewrite !firstn_nil, skipn_nil, firstn_nil. reflexivity.
  - destruct cur as [|cur]; [cbn [firstn skipn app]; rewrite Nat.sub_0_r; reflexivity|].
    destruct c0 as [|c0]; [lia|]. cbn [firstn skipn app Nat.sub]. rewrite (IH cur c0) by lia. reflexivity.
Qed.

Lemma apply_right_prefix line : forall es cur, edits_ok cur (length line) es ->
  apply_right line es = firstn cur line ++ subst_from line cur es.
Proof.
  induction es as [|[[c0 c1] t] r IH]; intros cur H.
  - unfold apply_right. cbn [rev fold_left subst_from]. symmetry. apply firstn_skipn.
  - cbn [edits_ok] in H. destruct H as [(A & B & C) Hr].
    unfold apply_right in *. cbn [rev]. rewrite fold_left_app. cbn [fold_left].
    rewrite (IH c1 Hr). unfold replace1.
    rewrite firstn_app_short by lia. rewrite skipn_app_exact by lia.
    cbn [subst_from]. rewrite (firstn_split line cur c0 A). rewrite <- app_assoc. reflexivity.
Qed.

Theorem apply_right_spec line es : edits_ok 0 (length line) es -> apply_right line es = subst_from line 0 es.
Proof. intros H. rewrite (apply_right_prefix line es 0 H). reflexivity. Qed.

(* ---------- mapping arithmetic ---------- *)
Lemma arith_nth ks : forall l0 dl k d, (k < length ks)%nat -> nth k (map snd (arith l0 dl ks)) d = l0 + N.of_nat k * dl.
Proof.
  induction ks as [|x r IH]; intros l0 dl k d H; cbn [length] in H; [lia|].
  destruct k as [|k]; cbn [arith map nth snd].
  - change (N.of_nat 0) with 0. rewrite N.mul_0_l, N.add_0_r. reflexivity.
  - rewrite IH by lia. rewrite Nat2N.inj_succ, N.mul_succ_l. lia.
Qed.
Lemma arith_keys ks : forall l0 dl, map fst (arith l0 dl ks) = ks.
Proof. induction ks as [|x r IH]; intros; cbn; [reflexivity | rewrite IH; reflexivity]. Qed.

(* an accepted request maps the selected numbers, taken in ascending order, to first, first+step, ... and the last one fits *)
Theorem build_mapping rows s e l0 dl mv maxn m ins : build rows s e l0 dl mv maxn = Accepted m ins ->
  let ks := keys_of (map snd (filter (fun d => in_sel s e (fst d)) (defs_from 0 rows))) in
  map fst m = ks /\ (forall k d, (k < length ks)%nat -> nth k (map snd m) d = l0 + N.of_nat k * dl) /\
  ks <> [] /\ 1 <= dl /\ l0 + dl * (lenN ks - 1) <= maxn.
Proof.
  unfold build. intros H. cbv zeta.
  destruct ((maxn <? l0) || (dl <? 1) || (maxn <? dl)) eqn:G; [discriminate|].
  apply orb_false_elim in G as [G G3]. apply orb_false_elim in G as [G1 G2]. apply N.ltb_ge in G2.
  set (ks := keys_of (map snd (filter (fun d => in_sel s e (fst d)) (defs_from 0 rows)))) in *.
  destruct ks as [|k0 kr] eqn:Ek; [discriminate|]. rewrite <- Ek in *.
  destruct (N.ltb_spec maxn (l0 + dl * (lenN ks - 1))) as [|L]; [discriminate|].
  destruct (existsb _ _); [discriminate|]. destruct (existsb _ _); [discriminate|].
  destruct (negb mv && negb _); [discriminate|]. injection H as <- <-.
  repeat split; try assumption.
  - apply arith_keys.
  - intros k d Hk. apply arith_nth. exact Hk.
  - rewrite Ek. discriminate.
Qed.

(* no new number collides with a line that keeps its number *)
Theorem build_no_collision rows s e l0 dl mv maxn m ins : build rows s e l0 dl mv maxn = Accepted m ins ->
  forall row p, In (row, p) (defs_from 0 rows) -> in_sel s e row = false ->
  let ks := keys_of (map snd (filter (fun d => in_sel s e (fst d)) (defs_from 0 rows))) in
  p < l0 \/ l0 + dl * (lenN ks - 1) < p.
Proof.
  unfold build. intros H row p Hin Hs. cbv zeta.
  destruct ((maxn <? l0) || (dl <? 1) || (maxn <? dl)); [discriminate|].
  set (ks := keys_of (map snd (filter (fun d => in_sel s e (fst d)) (defs_from 0 rows)))) in *.
  destruct ks as [|k0 kr] eqn:Ek; [discriminate|]. rewrite <- Ek in *.
  destruct (maxn <? l0 + dl * (lenN ks - 1)); [discriminate|].
  destruct (existsb _ _); [discriminate|].
  destruct (existsb (fun d => negb (in_sel s e (fst d)) && (l0 <=? snd d) && (snd d <=? l0 + dl * (lenN ks - 1))) (defs_from 0 rows)) eqn:X; [discriminate|].
  assert (Y : forall d, In d (defs_from 0 rows) -> (negb (in_sel s e (fst d)) && (l0 <=? snd d) && (snd d <=? l0 + dl * (lenN ks - 1))) = false).
  { intros d Hd. destruct (negb (in_sel s e (fst d)) && (l0 <=? snd d) && (snd d <=? l0 + dl * (lenN ks - 1))) eqn:Z; [|reflexivity].
    assert (existsb (fun d => negb (in_sel s e (fst d)) && (l0 <=? snd d) && (snd d <=? l0 + dl * (lenN ks - 1))) (defs_from 0 rows) = true)
      by (apply existsb_exists; exists d; split; assumption). congruence. }
  specialize (Y _ Hin). cbn [fst snd] in Y. rewrite Hs in Y. cbn [negb andb] in Y.
  destruct (N.leb_spec l0 p); [|lia]. destruct (N.leb_spec p (l0 + dl * (lenN ks - 1))); [discriminate|lia].
Qed.

(* an accepted request without permission to move leaves the block where it is *)
Theorem build_no_move rows s e l0 dl maxn m ins : build rows s e l0 dl false maxn = Accepted m ins -> ins = s.
Proof.
  unfold build. intros H.
  destruct ((maxn <? l0) || (dl <? 1) || (maxn <? dl)); [discriminate|].
  destruct (keys_of _); [discriminate|]. destruct (maxn <? _); [discriminate|].
  destruct (existsb _ _); [discriminate|]. destruct (existsb _ _); [discriminate|].
  cbn [negb andb] in H. destruct (N.eqb_spec (skip_blank 0 rows (insert_base (defs_from 0 rows) s e l0)) s) as [E|E]; cbn [negb] in H; [|discriminate].
  injection H as _ <-. exact E.
Qed.

(* ---------- nothing interleaves: an in-place renumbering keeps the program ascending ---------- *)

Lemma defs_from_in rows : forall k r p, In (r, p) (defs_from k rows) ->
  k <= r /\ nth_error rows (N.to_nat (r - k)) = Some (Some p).
Proof.
  induction rows as [|o rest IH]; intros k r p H; [contradiction|].
  destruct o as [n|]; cbn [defs_from] in H.
  - destruct H as [E|H].
    + injection E as <- <-. split; [lia|]. rewrite N.sub_diag. reflexivity.
    + destruct (IH _ _ _ H) as [L E]. split; [lia|].
      replace (N.to_nat (r - k)) with (S (N.to_nat (r - (k + 1)))) by lia. exact E.
  - destruct (IH _ _ _ H) as [L E]. split; [lia|].
    replace (N.to_nat (r - k)) with (S (N.to_nat (r - (k + 1)))) by lia. exact E.
Qed.

(* skip_blank never moves back, and stops at the first row that holds a line *)
Lemma skip_blank_ge rows : forall k ins, ins <= skip_blank k rows ins.
Proof.
  induction rows as [|o rest IH]; intros k ins; cbn [skip_blank]; [lia|].
  destruct ((ins =? k) && match o with None => true | Some _ => false end); [specialize (IH (k + 1) (ins + 1)) | specialize (IH (k + 1) ins)]; lia.
Qed.
Lemma skip_blank_stops rows : forall k ins r p, k <= r -> ins <= r -> nth_error rows (N.to_nat (r - k)) = Some (Some p) ->
  skip_blank k rows ins <= r.
Proof.
  induction rows as [|o rest IH]; intros k ins r p Hk Hi Hn.
  - destruct (N.to_nat (r - k)); discriminate.
  - cbn [skip_blank]. destruct (N.eq_dec r k) as [->|Ne].
    + rewrite N.sub_diag in Hn. cbn in Hn. injection Hn as ->. 
      destruct (N.eqb_spec ins k) as [->|Ne2]; cbn [andb].
      * clear IH. assert (G : forall rows k ins, ins <= k -> skip_blank (k + 1) rows ins = ins).
        { clear. induction rows as [|o rest IH]; intros k ins H; cbn [skip_blank]; [reflexivity|].
          destruct (N.eqb_spec ins (k + 1)); [lia|]. cbn [andb]. apply IH. lia. }
        rewrite G by lia. lia.
      * assert (G : forall rows k ins, ins <= k -> skip_blank (k + 1) rows ins = ins).
        { clear. induction rows as [|o rest IH]; intros k ins H; cbn [skip_blank]; [reflexivity|].
          destruct (N.eqb_spec ins (k + 1)); [lia|]. cbn [andb]. apply IH. lia. }
        rewrite G by lia. lia.
    + assert (Hn' : nth_error rest (N.to_nat (r - (k + 1))) = Some (Some p)).
      { replace (N.to_nat (r - k)) with (S (N.to_nat (r - (k + 1)))) in Hn by lia. exact Hn. }
      destruct ((ins =? k) && match o with None => true | Some _ => false end) eqn:C.
      * apply andb_prop in C as [C _]. apply N.eqb_eq in C. subst ins. apply (IH (k + 1) (k + 1) r p); [lia | lia | exact Hn'].
      * apply (IH (k + 1) ins r p); [lia | lia | exact Hn'].
Qed.

(* insert_base: one past the last unselected row whose number is below the first new number *)
Definition qual (s e l0 : N) (d : N * N) : bool := negb (in_sel s e (fst d)) && (snd d <? l0).
Lemma insert_base_fold defs s e l0 : forall acc,
  let b := fold_left (fun acc d => let '(row, p) := d in if negb (in_sel s e row) && (p <? l0) && (acc <=? row) then row + 1 else acc) defs acc in
  acc <= b /\ (forall d, In d defs -> qual s e l0 d = true -> fst d + 1 <= b) /\
  (forall X, acc <= X -> (forall d, In d defs -> qual s e l0 d = true -> fst d + 1 <= X) -> b <= X).
Proof.
  induction defs as [|[row p] rest IH]; intros acc; cbn [fold_left]; cbv beta iota.
  - repeat split; try lia. intros d [].
  - set (acc' := if negb (in_sel s e row) && (p <? l0) && (acc <=? row) then row + 1 else acc).
    destruct (IH acc') as (A & B & C). cbv zeta in *.
    assert (Ha : acc <= acc').
    { unfold acc'. destruct (negb (in_sel s e row) && (p <? l0)); cbn [andb]; [|lia]. destruct (N.leb_spec acc row); lia. }
    repeat split.
    + eapply N.le_trans; [exact Ha | exact A].
    + intros d [<-|Hd] Hq; [|apply B; assumption].
      unfold qual in Hq. cbn [fst snd] in Hq.
      assert (Hr : row + 1 <= acc').
      { unfold acc'. rewrite Hq. cbn [andb]. destruct (N.leb_spec acc row); lia. }
      cbn [fst]. eapply N.le_trans; [exact Hr | exact A].
    + intros X HX Hall. apply C.
      * unfold acc'. destruct (negb (in_sel s e row) && (p <? l0)) eqn:Q; cbn [andb]; [|exact HX].
        destruct (N.leb_spec acc row); [|exact HX]. apply (Hall (row, p)); [left; reflexivity | exact Q].
      * intros d Hd. apply Hall. right. exact Hd.
Qed.

(* accepted in place: every line in front of the block is numbered below the first new number and every line behind it
   above the last one, provided the program's numbers ascend - so the renumbered program ascends again: nothing interleaves *)
Theorem build_in_place_keeps_order rows s e l0 dl maxn m ins :
  build rows s e l0 dl false maxn = Accepted m ins ->
  (forall r1 p1 r2 p2, In (r1, p1) (defs_from 0 rows) -> In (r2, p2) (defs_from 0 rows) -> r1 < r2 -> p1 < p2) ->
  let ln := l0 + dl * (lenN (keys_of (map snd (filter (fun d => in_sel s e (fst d)) (defs_from 0 rows)))) - 1) in
  (exists r p, In (r, p) (defs_from 0 rows) /\ in_sel s e r = true) /\
  (forall r p, In (r, p) (defs_from 0 rows) -> r < s -> p < l0) /\
  (forall r p, In (r, p) (defs_from 0 rows) -> e < r -> ln < p).
Proof.
  intros H Hasc ln.
  pose proof (build_no_move _ _ _ _ _ _ _ _ H) as Hins.
  pose proof (build_no_collision _ _ _ _ _ _ _ _ _ H) as Hcol. cbv zeta in Hcol. fold ln in Hcol.
  (* the insert position *)
  assert (Hpos : skip_blank 0 rows (insert_base (defs_from 0 rows) s e l0) = s).
  { unfold build in H. destruct ((maxn <? l0) || (dl <? 1) || (maxn <? dl)); [discriminate|].
    destruct (keys_of _); [discriminate|]. destruct (maxn <? _); [discriminate|].
    destruct (existsb _ _); [discriminate|]. destruct (existsb _ _); [discriminate|].
    cbn [negb andb] in H. destruct (N.eqb_spec (skip_blank 0 rows (insert_base (defs_from 0 rows) s e l0)) s) as [E|E]; [exact E|discriminate]. }
  (* the selection is not empty *)
  assert (Hsel : exists r p, In (r, p) (defs_from 0 rows) /\ in_sel s e r = true).
  { destruct (build_mapping _ _ _ _ _ _ _ _ _ H) as (_ & _ & Hne & _). cbv zeta in Hne.
    destruct (filter (fun d => in_sel s e (fst d)) (defs_from 0 rows)) as [|[r p] t] eqn:F; [exfalso; apply Hne; reflexivity|].
    assert (I : In (r, p) (filter (fun d => in_sel s e (fst d)) (defs_from 0 rows))) by (rewrite F; left; reflexivity).
    apply filter_In in I as [I1 I2]. exists r, p. split; assumption. }
  destruct (insert_base_fold (defs_from 0 rows) s e l0 0) as (_ & Blow & Bup). cbv zeta in Blow, Bup.
  fold (insert_base (defs_from 0 rows) s e l0) in Blow, Bup.
  set (B := insert_base (defs_from 0 rows) s e l0) in *.
  pose proof (skip_blank_ge rows 0 B) as Hge. rewrite Hpos in Hge.
  destruct Hsel as (rs & ps & Hrs & Hsrs).
  assert (Hse : s <= rs <= e) by (unfold in_sel in Hsrs; apply andb_prop in Hsrs as [X Y]; apply N.leb_le in X; apply N.leb_le in Y; lia).
  split; [exists rs, ps; split; assumption|]. split.
  - (* in front of the block *)
    intros r p Hin Hr.
    destruct (N.lt_ge_cases p l0) as [|Hp]; [assumption|exfalso].
    assert (Hnot : in_sel s e r = false) by (unfold in_sel; destruct (N.leb_spec s r); [lia | reflexivity]).
    (* every qualifying line lies before row r, so the base is at most r, and row r holds a line: the position stops there *)
    assert (HB : B <= r).
    { apply Bup; [lia|]. intros [r' p'] Hd Hq. unfold qual in Hq. cbn [fst snd] in *.
      apply andb_prop in Hq as [Hq1 Hq2]. apply N.ltb_lt in Hq2.
      destruct (N.lt_ge_cases r' r) as [|Hge']; [lia|exfalso].
      destruct (N.eq_dec r' r) as [->|Hne].
      - (* same row: same line *)
        destruct (defs_from_in _ _ _ _ Hd) as [_ E1]. destruct (defs_from_in _ _ _ _ Hin) as [_ E2]. rewrite E1 in E2. injection E2 as ->. lia.
      - assert (r < r') by lia. pose proof (Hasc _ _ _ _ Hin Hd H0). lia. }
    destruct (defs_from_in _ _ _ _ Hin) as [_ En].
    pose proof (skip_blank_stops rows 0 B r p ltac:(lia) HB En) as Hstop. rewrite Hpos in Hstop. lia.
  - (* behind the block *)
    intros r p Hin Hr.
    assert (Hnot : in_sel s e r = false) by (unfold in_sel; destruct (N.leb_spec r e); [lia | rewrite andb_false_r; reflexivity]).
    destruct (Hcol r p Hin Hnot) as [Hlt|Hgt]; [exfalso | exact Hgt].
    assert (Q : qual s e l0 (r, p) = true) by (unfold qual; cbn [fst snd]; rewrite Hnot; cbn [negb andb]; apply N.ltb_lt; exact Hlt).
    pose proof (Blow (r, p) Hin Q) as X. cbn [fst] in X. lia.
Qed.
