(* Lang/RenumberProofs.v *)
From A2 Require Import Base.Bytes Lang.Renumber.
Open Scope N_scope.

(* ---------- replacements applied from the right = simultaneous substitution ---------- *)
Lemma firstn_app_short {A} (l x : list A) c0 c1 : (c0 <= c1 <= length l)%nat -> firstn c0 (firstn c1 l ++ x) = firstn c0 l.
Proof.
  intros H. rewrite firstn_app, firstn_firstn, firstn_length.
  rewrite (Nat.min_l c1 (length l)) by lia. replace (c0 - c1)%nat with O by lia.
  cbn [firstn]. rewrite app_nil_r, (Nat.min_l c0 c1) by lia. reflexivity.
Qed.
Lemma skipn_app_exact {A} (l x : list A) c1 : (c1 <= length l)%nat -> skipn c1 (firstn c1 l ++ x) = x.
Proof.
  intros H. rewrite skipn_app, firstn_length, (Nat.min_l c1 (length l)) by lia.
  rewrite Nat.sub_diag. cbn [skipn]. rewrite skipn_all2 by (rewrite firstn_length; lia). reflexivity.
Qed.
Lemma firstn_split {A} (l : list A) cur c0 : (cur <= c0)%nat -> firstn c0 l = firstn cur l ++ firstn (c0 - cur) (skipn cur l).
Proof.
  intros H. rewrite <- (firstn_skipn cur l) at 1. rewrite firstn_app, firstn_firstn, (Nat.min_l c0 cur).
Abort.
Lemma firstn_split {A} : forall (l : list A) cur c0, (cur <= c0)%nat -> firstn c0 l = firstn cur l ++ firstn (c0 - cur) (skipn cur l).
Proof.
  induction l as [|a l IH]; intros cur c0 H.
  - rewrite !firstn_nil, skipn_nil, firstn_nil. reflexivity.
  - destruct cur as [|cur]; [cbn [firstn skipn app]; rewrite Nat.sub_0_r; reflexivity|].
    destruct c0 as [|c0]; [lia|]. cbn [firstn skipn app Nat.sub]. rewrite (IH cur c0) by lia. reflexivity.
Qed.

Lemma apply_right_prefix line : forall es cur, edits_ok cur (length line) es ->
  apply_right line es = firstn cur line ++ subst_from line cur es.
Proof.
  induction es as [|[[c0 c1] t] r IH]; intros cur H.
  - unfold apply_right. cbn [rev fold_left subst_from]. symmetry. apply firstn_skipn.
  - cbn [edits_ok] in H. destruct H as [(A & B & C) Hr].
    unfold apply_right in *. cbn [rev]. rewrite fold_left_app. cbn [fold_left].
    rewrite (IH c1 Hr). unfold replace1.
    rewrite firstn_app_short by lia. rewrite skipn_app_exact by lia.
    cbn [subst_from]. rewrite (firstn_split line cur c0 A). rewrite <- app_assoc. reflexivity.
Qed.

Theorem apply_right_spec line es : edits_ok 0 (length line) es -> apply_right line es = subst_from line 0 es.
Proof. intros H. rewrite (apply_right_prefix line es 0 H). reflexivity. Qed.

(* ---------- mapping arithmetic ---------- *)
Lemma arith_nth ks : forall l0 dl k d, (k < length ks)%nat -> nth k (map snd (arith l0 dl ks)) d = l0 + N.of_nat k * dl.
Proof.
  induction ks as [|x r IH]; intros l0 dl k d H; cbn [length] in H; [lia|].
  destruct k as [|k]; cbn [arith map nth snd].
  - change (N.of_nat 0) with 0. rewrite N.mul_0_l, N.add_0_r. reflexivity.
  - rewrite IH by lia. rewrite Nat2N.inj_succ, N.mul_succ_l. lia.
Qed.
Lemma arith_keys ks : forall l0 dl, map fst (arith l0 dl ks) = ks.
Proof. induction ks as [|x r IH]; intros; cbn; [reflexivity | rewrite IH; reflexivity]. Qed.

(* an accepted request maps the selected numbers, taken in ascending order, to first, first+step, ... and the last one fits *)
Theorem build_mapping rows s e l0 dl mv maxn m ins : build rows s e l0 dl mv maxn = Accepted m ins ->
  let ks := keys_of (map snd (filter (fun d => in_sel s e (fst d)) (defs_from 0 rows))) in
  map fst m = ks /\ (forall k d, (k < length ks)%nat -> nth k (map snd m) d = l0 + N.of_nat k * dl) /\
  ks <> [] /\ 1 <= dl /\ l0 + dl * (lenN ks - 1) <= maxn.
Proof.
  unfold build. intros H. cbv zeta.
  destruct ((maxn <? l0) || (dl <? 1) || (maxn <? dl)) eqn:G; [discriminate|].
  apply orb_false_elim in G as [G G3]. apply orb_false_elim in G as [G1 G2]. apply N.ltb_ge in G2.
  set (ks := keys_of (map snd (filter (fun d => in_sel s e (fst d)) (defs_from 0 rows)))) in *.
  destruct ks as [|k0 kr] eqn:Ek; [discriminate|]. rewrite <- Ek in *.
  destruct (N.ltb_spec maxn (l0 + dl * (lenN ks - 1))) as [|L]; [discriminate|].
  destruct (existsb _ _); [discriminate|]. destruct (existsb _ _); [discriminate|].
  destruct (negb mv && negb _); [discriminate|]. injection H as <- <-.
  repeat split; try assumption.
  - apply arith_keys.
  - intros k d Hk. apply arith_nth. exact Hk.
  - rewrite Ek. discriminate.
Qed.

(* no new number collides with a line that keeps its number *)
Theorem build_no_collision rows s e l0 dl mv maxn m ins : build rows s e l0 dl mv maxn = Accepted m ins ->
  forall row p, In (row, p) (defs_from 0 rows) -> in_sel s e row = false ->
  let ks := keys_of (map snd (filter (fun d => in_sel s e (fst d)) (defs_from 0 rows))) in
  p < l0 \/ l0 + dl * (lenN ks - 1) < p.
Proof.
  unfold build. intros H row p Hin Hs. cbv zeta.
  destruct ((maxn <? l0) || (dl <? 1) || (maxn <? dl)); [discriminate|].
  set (ks := keys_of (map snd (filter (fun d => in_sel s e (fst d)) (defs_from 0 rows)))) in *.
  destruct ks as [|k0 kr] eqn:Ek; [discriminate|]. rewrite <- Ek in *.
  destruct (maxn <? l0 + dl * (lenN ks - 1)); [discriminate|].
  destruct (existsb _ _); [discriminate|].
  destruct (existsb (fun d => negb (in_sel s e (fst d)) && (l0 <=? snd d) && (snd d <=? l0 + dl * (lenN ks - 1))) (defs_from 0 rows)) eqn:X; [discriminate|].
  assert (Y : forall d, In d (defs_from 0 rows) -> (negb (in_sel s e (fst d)) && (l0 <=? snd d) && (snd d <=? l0 + dl * (lenN ks - 1))) = false).
  { intros d Hd. destruct (negb (in_sel s e (fst d)) && (l0 <=? snd d) && (snd d <=? l0 + dl * (lenN ks - 1))) eqn:Z; [|reflexivity].
    assert (existsb (fun d => negb (in_sel s e (fst d)) && (l0 <=? snd d) && (snd d <=? l0 + dl * (lenN ks - 1))) (defs_from 0 rows) = true)
      by (apply existsb_exists; exists d; split; assumption). congruence. }
  specialize (Y _ Hin). cbn [fst snd] in Y. rewrite Hs in Y. cbn [negb andb] in Y.
  destruct (N.leb_spec l0 p); [|lia]. destruct (N.leb_spec p (l0 + dl * (lenN ks - 1))); [discriminate|lia].
Qed.

(* an accepted request without permission to move leaves the block where it is *)
Theorem build_no_move rows s e l0 dl maxn m ins : build rows s e l0 dl false maxn = Accepted m ins -> ins = s.
Proof.
  unfold build. intros H.
  destruct ((maxn <? l0) || (dl <? 1) || (maxn <? dl)); [discriminate|].
  destruct (keys_of _); [discriminate|]. destruct (maxn <? _); [discriminate|].
  destruct (existsb _ _); [discriminate|]. destruct (existsb _ _); [discriminate|].
  cbn [negb andb] in H. destruct (N.eqb_spec (skip_blank 0 rows (insert_base (defs_from 0 rows) s e l0)) s) as [E|E]; cbn [negb] in H; [|discriminate].
  injection H as _ <-. exact E.
Qed.
