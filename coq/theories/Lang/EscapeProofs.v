(* Lang/EscapeProofs.v -- the escape codec round trip: tokenize-side unescape inverts detokenize-side escape. *)
From A2 Require Import Base.Bytes Lang.Escape.
Open Scope N_scope.

(* a suffix that cannot complete an escape started in front of it *)
Definition t_ok (t : list N) : Prop := match t with [] => True | c :: _ => is_hex c = false /\ c <> 120 end.

Lemma hexdig_ok : forall b, b < 256 ->
  is_hex (hexdig (b / 16)) = true /\ is_hex (hexdig (b mod 16)) = true /\ 16 * hexval (hexdig (b / 16)) + hexval (hexdig (b mod 16)) = b.
Proof.
  intros b Hb.
  pose (P := fun b : N => is_hex (hexdig (b / 16)) && is_hex (hexdig (b mod 16)) && (16 * hexval (hexdig (b / 16)) + hexval (hexdig (b mod 16)) =? b)).
  assert (H : P b = true) by (apply (sweep1 P 256); [vm_compute; reflexivity | exact Hb]).
  unfold P in H. apply andb_prop in H as [H H3]. apply andb_prop in H as [H1 H2]. apply N.eqb_eq in H3. auto.
Qed.

Section Unesc.
  Variables inverted caps : bool.
  Lemma U_esc b t : b < 256 -> unesc inverted caps 0 (esc_byte b ++ t) = b :: unesc inverted caps 0 t.
  Proof.
    intros Hb. destruct (hexdig_ok b Hb) as (H1 & H2 & H3).
    unfold esc_byte. cbn [app unesc starts_hex]. change (92 =? 92) with true. change (120 =? 120) with true.
    rewrite H1, H2. cbn [andb]. rewrite H3. reflexivity.
  Qed.
  Lemma U_plain c t : c <> 92 -> unesc inverted caps 0 (c :: t) = plain inverted caps c ++ unesc inverted caps 0 t.
  Proof. intros Hc. cbn [unesc]. destruct (N.eqb_spec c 92) as [E|_]; [contradiction|]. reflexivity. Qed.
  Lemma U_bs t : starts_hex t = false -> unesc inverted caps 0 (92 :: t) = plain inverted caps 92 ++ unesc inverted caps 0 t.
  Proof. intros Ht. cbn [unesc]. rewrite Ht, andb_false_r. reflexivity. Qed.
  Lemma U_lit v t : is_hex (hexdig (v / 16)) = true -> is_hex (hexdig (v mod 16)) = true ->
    unesc inverted caps 0 (92 :: 120 :: hexdig (v / 16) :: hexdig (v mod 16) :: t)
    = (16 * hexval (hexdig (v / 16)) + hexval (hexdig (v mod 16))) :: unesc inverted caps 0 t.
  Proof. intros H1 H2. cbn [unesc starts_hex]. change (92 =? 92) with true. change (120 =? 120) with true. rewrite H1, H2. reflexivity. Qed.
End Unesc.

(* ================= Applesoft ================= *)
Lemma as_piece_cases b r :
  (exists u, as_piece b r = 92 :: u) \/ (as_piece b r = [b] /\ b <> 92 /\ b <= 126).
Proof.
  unfold as_piece. destruct (N.eqb_spec b 92) as [E|E].
  - left. destruct (starts_hex r); eexists; reflexivity.
  - destruct ((b =? 10) || (b =? 13) || (126 <? b)) eqn:X.
    + left. unfold esc_byte. eexists; reflexivity.
    + right. apply orb_false_elim in X as [_ X]. apply N.ltb_ge in X. auto.
Qed.

Lemma as_first ctx : forall r q e rest t c u,
  as_escape ctx q r = (e, rest) -> t_ok t -> e ++ t = c :: u -> (is_hex c = true \/ c = 120) ->
  exists r' q' e', r = c :: r' /\ as_escape ctx q' r' = (e', rest) /\ u = e' ++ t.
Proof.
  intros r q e rest t c u H Ht Hc Hx.
  assert (Bad : t = c :: u -> False).
  { intros ->. cbn in Ht. destruct Ht as [A B]. destruct Hx as [Hx|Hx]; congruence. }
  destruct r as [|b r]; cbn [as_escape] in H.
  - injection H as <- <-. cbn [app] in Hc. contradiction (Bad Hc).
  - destruct (as_stop ctx q b).
    + injection H as <- <-. cbn [app] in Hc. contradiction (Bad Hc).
    + destruct (as_escape ctx (if b =? 34 then q + 1 else q) r) as [e1 rest1] eqn:E1. injection H as <- <-.
      destruct (as_piece_cases b r) as [[u0 P]|(P & Pb & _)]; rewrite P in Hc.
      * cbn [app] in Hc. injection Hc as <- _. exfalso. destruct Hx as [Hx|Hx]; [vm_compute in Hx|]; discriminate.
      * cbn [app] in Hc. injection Hc as <- <-. exists r, (if b =? 34 then q + 1 else q), e1. repeat split; [exact E1].
Qed.

Lemma as_head ctx r q e rest t :
  as_escape ctx q r = (e, rest) -> t_ok t -> starts_hex (e ++ t) = true -> starts_hex r = true.
Proof.
  intros H Ht S.
  destruct (e ++ t) as [|x [|h1 [|h2 w]]] eqn:ET; cbn [starts_hex] in S; try discriminate.
  apply andb_prop in S as [S S3]. apply andb_prop in S as [S1 S2]. apply N.eqb_eq in S1. subst x.
  destruct (as_first ctx r q e rest t 120 _ H Ht ET (or_intror eq_refl)) as (r1 & q1 & e1 & -> & H1 & ET1).
  symmetry in ET1.
  destruct (as_first ctx r1 q1 e1 rest t h1 _ H1 Ht ET1 (or_introl S2)) as (r2 & q2 & e2 & -> & H2 & ET2).
  symmetry in ET2.
  destruct (as_first ctx r2 q2 e2 rest t h2 _ H2 Ht ET2 (or_introl S3)) as (r3 & q3 & e3 & -> & H3 & ET3).
  cbn [starts_hex]. change (120 =? 120) with true. rewrite S2, S3. reflexivity.
Qed.

(* the round trip, with any text [t] after the escaped payload that cannot complete an escape (a quote, a colon, end) *)
Theorem as_escape_roundtrip ctx : forall bs q e rest t,
  bytes bs -> as_escape ctx q bs = (e, rest) -> t_ok t ->
  exists payload, bs = payload ++ rest /\ unesc false false 0 (e ++ t) = payload ++ unesc false false 0 t.
Proof.
  induction bs as [|b r IH]; intros q e rest t Hb H Ht; cbn [as_escape] in H.
  - injection H as <- <-. exists []. split; reflexivity.
  - destruct (as_stop ctx q b).
    + injection H as <- <-. exists []. split; reflexivity.
    + destruct (as_escape ctx (if b =? 34 then q + 1 else q) r) as [e1 rest1] eqn:E1. injection H as <- <-.
      inversion Hb as [|? ? Hb0 Hbr]; subst.
      destruct (IH _ _ _ t Hbr E1 Ht) as (p & -> & Hp).
      exists (b :: p). split; [reflexivity|].
      rewrite <- app_assoc. unfold as_piece.
      destruct (N.eqb_spec b 92) as [E|E].
      * subst b. destruct (starts_hex (p ++ rest1)) eqn:SH.
        -- change [92; 120; 53; 99] with (esc_byte 92). rewrite U_esc by reflexivity. rewrite Hp. reflexivity.
        -- cbn [app]. rewrite U_bs.
           ++ rewrite Hp. reflexivity.
           ++ destruct (starts_hex (e1 ++ t)) eqn:S2; [|reflexivity].
              rewrite (as_head ctx _ _ _ _ t E1 Ht S2) in SH. discriminate.
      * destruct ((b =? 10) || (b =? 13) || (126 <? b)) eqn:X.
        -- rewrite U_esc by exact Hb0. rewrite Hp. reflexivity.
        -- cbn [app]. rewrite U_plain by exact E. rewrite Hp.
           apply orb_false_elim in X as [_ X]. apply N.ltb_ge in X.
           unfold plain. destruct (N.ltb_spec b 128) as [_|G]; [|lia]. rewrite N.add_0_r. reflexivity.
Qed.

(* the bytes consumed contain no terminator, and what remains starts at one *)
Theorem as_escape_stops ctx : forall bs q e rest, as_escape ctx q bs = (e, rest) ->
  rest = [] \/ exists b w q', rest = b :: w /\ as_stop ctx q' b = true.
Proof.
  induction bs as [|b r IH]; intros q e rest H; cbn [as_escape] in H.
  - injection H as <- <-. left; reflexivity.
  - destruct (as_stop ctx q b) eqn:S.
    + injection H as <- <-. right. eauto.
    + destruct (as_escape ctx (if b =? 34 then q + 1 else q) r) as [e1 rest1] eqn:E1. injection H as <- <-. eapply IH; eauto.
Qed.

(* ================= Integer BASIC ================= *)
(* a payload byte is faithful when the tokenizer (sign flip, capitals) maps its listed form back to it *)
Lemma int_piece_cases ctx b r : b < 256 ->
  (exists v, int_piece ctx b r = esc_byte v /\ v = b) \/
  (int_piece ctx b r = [92] /\ b = 220) \/
  (exists c, int_piece ctx b r = [c] /\ c <> 92 /\ c <> 120 /\ plain true true c = [b] /\ (is_hex c = true -> c <= 70)).
Proof.
  intros Hb. unfold int_piece.
  destruct ((b =? 220) && (3 <=? lenN r)) eqn:B.
  - apply andb_prop in B as [B _]. apply N.eqb_eq in B. subst b.
    destruct (starts_hex_neg r); [left; exists 220; split; reflexivity | right; left; split; reflexivity].
  - destruct ((b =? 138) || (b =? 141) || (254 <? b) || (b <? 128) || ((225 <=? b) && (b <=? 250))) eqn:X.
    + left. exists b. split; reflexivity.
    + destruct ((ctx =? 0) && (b =? 162)) eqn:Q.
      * apply andb_prop in Q as [_ Q]. apply N.eqb_eq in Q. subst b. left. exists 162. split; reflexivity.
      * destruct (N.eqb_spec b 220) as [E|E].
        -- subst b. right. left. split; reflexivity.
        -- right. right. exists (b - 128).
           apply orb_false_elim in X as [X X5]. apply orb_false_elim in X as [X X4]. apply orb_false_elim in X as [X X3].
           apply N.ltb_ge in X4. apply N.ltb_ge in X3.
           pose (P := fun b : N => (b <? 128) || (b =? 220) || ((225 <=? b) && (b <=? 250)) || (254 <? b)
                        || (negb (b - 128 =? 92) && negb (b - 128 =? 120) && (match plain true true (b - 128) with [v] => v =? b | _ => false end)
                            && (negb (is_hex (b - 128)) || (b - 128 <=? 70)))).
           assert (G : P b = true) by (apply (sweep1 P 256); [vm_compute; reflexivity | exact Hb]).
           unfold P in G.
           destruct (N.ltb_spec b 128) as [L|_]; [lia|]. destruct (N.eqb_spec b 220) as [L|_]; [contradiction|].
           rewrite X5 in G. destruct (N.ltb_spec 254 b) as [L|_]; [lia|]. cbn [orb] in G.
           apply andb_prop in G as [G G4]. apply andb_prop in G as [G G3]. apply andb_prop in G as [G1 G2].
           split; [reflexivity|]. split; [intros K; rewrite K in G1; discriminate|]. split; [intros K; rewrite K in G2; discriminate|].
           split.
           ++ destruct (plain true true (b - 128)) as [|v [|? ?]]; try discriminate. apply N.eqb_eq in G3. subst v. reflexivity.
           ++ intros Hh. rewrite Hh in G4. cbn [negb orb] in G4. apply N.leb_le in G4. exact G4.
Qed.

(* after a lone backslash the listed text can never begin with x and two hex digits: the letter x is always escaped *)
Lemma int_no_x ctx : forall r e rest t, int_escape ctx r = (e, rest) -> bytes r -> t_ok t -> starts_hex (e ++ t) = false.
Proof.
  intros r e rest t H Hb Ht.
  destruct r as [|b r]; cbn [int_escape] in H.
  - injection H as <- <-. cbn [app]. destruct t as [|c [|h1 [|h2 w]]]; try reflexivity. cbn in Ht. destruct Ht as [_ Ht].
    cbn [starts_hex]. destruct (N.eqb_spec c 120); [contradiction|reflexivity].
  - destruct (int_stop ctx b).
    + injection H as <- <-. cbn [app]. destruct t as [|c [|h1 [|h2 w]]]; try reflexivity. cbn in Ht. destruct Ht as [_ Ht].
      cbn [starts_hex]. destruct (N.eqb_spec c 120); [contradiction|reflexivity].
    + destruct (int_escape ctx r) as [e1 rest1]. injection H as <- <-. inversion Hb as [|? ? Hb0 _]; subst.
      destruct (int_piece_cases ctx b r Hb0) as [(v & P & _)|[(P & _)|(c & P & C1 & C2 & _)]]; rewrite P.
      * unfold esc_byte. cbn [app starts_hex]. reflexivity.
      * cbn [app]. destruct (e1 ++ t) as [|? [|? ?]]; reflexivity.
      * cbn [app]. destruct (e1 ++ t) as [|h1 [|h2 w]]; try reflexivity. cbn [starts_hex].
        destruct (N.eqb_spec c 120); [contradiction|reflexivity].
Qed.

Theorem int_escape_roundtrip ctx : forall bs e rest t,
  bytes bs -> int_escape ctx bs = (e, rest) -> t_ok t ->
  exists payload, bs = payload ++ rest /\ unesc true true 0 (e ++ t) = payload ++ unesc true true 0 t.
Proof.
  induction bs as [|b r IH]; intros e rest t Hb H Ht; cbn [int_escape] in H.
  - injection H as <- <-. exists []. split; reflexivity.
  - destruct (int_stop ctx b).
    + injection H as <- <-. exists []. split; reflexivity.
    + destruct (int_escape ctx r) as [e1 rest1] eqn:E1. injection H as <- <-.
      inversion Hb as [|? ? Hb0 Hbr]; subst.
      destruct (IH _ _ t Hbr eq_refl Ht) as (p & -> & Hp).
      exists (b :: p). split; [reflexivity|].
      rewrite <- app_assoc.
      destruct (int_piece_cases ctx b (p ++ rest1) Hb0) as [(v & P & ->)|[(P & ->)|(c & P & C1 & C2 & C3 & _)]]; rewrite P.
      * rewrite U_esc by exact Hb0. rewrite Hp. reflexivity.
      * cbn [app]. rewrite U_bs by (eapply int_no_x; eauto). rewrite Hp. reflexivity.
      * cbn [app]. rewrite U_plain by exact C1. rewrite C3, Hp. reflexivity.
Qed.
