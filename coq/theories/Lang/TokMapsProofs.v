(* Lang/TokMapsProofs.v -- the generated token tables (Gen/TokMaps.v, regenerated from src/lang/*/token_maps.rs on every run)
   are mutually inverse in the sense the tokenizers rely on, and the constants the escape model was written against
   are the ones in the source. *)
From A2 Require Import Base.Bytes Lang.Escape Gen.TokMaps.
Open Scope N_scope.

Definition memN (x : N) (l : list N) : bool := existsb (N.eqb x) l.
Fixpoint leqb (a b : list N) : bool :=
  match a, b with [], [] => true | x :: r, y :: q => (x =? y) && leqb r q | _, _ => false end.
Fixpoint lnodupb (l : list (list N)) : bool :=
  match l with [] => true | x :: r => negb (existsb (leqb x) r) && lnodupb r end.

Lemma leqb_eq a : forall b, leqb a b = true <-> a = b.
Proof.
  induction a as [|x r IH]; destruct b as [|y q]; cbn [leqb]; split; intros H; try reflexivity; try discriminate.
  - apply andb_prop in H as [H1 H2]. apply N.eqb_eq in H1. apply IH in H2. congruence.
  - injection H as -> ->. rewrite N.eqb_refl. cbn [andb]. apply IH. reflexivity.
Qed.
Lemma lnodupb_NoDup l : lnodupb l = true -> NoDup l.
Proof.
  induction l as [|x r IH]; cbn [lnodupb]; intros H; constructor.
  - apply andb_prop in H as [H _]. intros I. apply negb_true_iff in H.
    assert (existsb (leqb x) r = true) by (apply existsb_exists; exists x; split; [exact I | apply leqb_eq; reflexivity]). congruence.
  - apply IH. apply andb_prop in H as [_ H]. exact H.
Qed.

(* ---- Applesoft: 107 tokens, exactly the bytes 128..234, both tables list the same bytes once, listings distinct ---- *)
Theorem as_tok_bytes_distinct : NoDup (map snd as_tok_map).
Proof. apply nodupb_NoDup. vm_compute. reflexivity. Qed.
Theorem as_detok_bytes_distinct : NoDup (map fst as_detok_map).
Proof. apply nodupb_NoDup. vm_compute. reflexivity. Qed.
Theorem as_tok_names_distinct : NoDup (map fst as_tok_map).
Proof. apply lnodupb_NoDup. vm_compute. reflexivity. Qed.
Theorem as_detok_texts_distinct : NoDup (map snd as_detok_map).
Proof. apply lnodupb_NoDup. vm_compute. reflexivity. Qed.
Theorem as_tables_same_bytes : forall t, In t (map snd as_tok_map) <-> In t (map fst as_detok_map).
Proof.
  assert (A : forallb (fun t => memN t (map fst as_detok_map)) (map snd as_tok_map) = true) by (vm_compute; reflexivity).
  assert (B : forallb (fun t => memN t (map snd as_tok_map)) (map fst as_detok_map) = true) by (vm_compute; reflexivity).
  intros t. split; intros H.
  - rewrite forallb_forall in A. specialize (A t H). apply existsb_exists in A as (y & Hy & E). apply N.eqb_eq in E. subst. exact Hy.
  - rewrite forallb_forall in B. specialize (B t H). apply existsb_exists in B as (y & Hy & E). apply N.eqb_eq in E. subst. exact Hy.
Qed.
Theorem as_token_range : forall t, In t (map fst as_detok_map) <-> 128 <= t <= 234.
Proof.
  assert (A : forallb (fun t => (128 <=? t) && (t <=? 234)) (map fst as_detok_map) = true) by (vm_compute; reflexivity).
  assert (B : forallb (fun i => memN (128 + i) (map fst as_detok_map)) (below 107) = true) by (vm_compute; reflexivity).
  intros t. split; intros H.
  - rewrite forallb_forall in A. specialize (A t H). apply andb_prop in A as [A1 A2]. apply N.leb_le in A1. apply N.leb_le in A2. lia.
  - rewrite forallb_forall in B. assert (I : In (t - 128) (below 107)) by (apply below_in; lia).
    specialize (B _ I). apply existsb_exists in B as (y & Hy & E). apply N.eqb_eq in E. replace y with t in Hy by lia. exact Hy.
Qed.

(* ---- Integer BASIC: tokens are positive ASCII, both tables list the same bytes once, none is the end of line 01 ---- *)
Theorem int_tok_bytes_distinct : NoDup (map snd int_tok_map).
Proof. apply nodupb_NoDup. vm_compute. reflexivity. Qed.
Theorem int_detok_bytes_distinct : NoDup (map fst int_detok_map).
Proof. apply nodupb_NoDup. vm_compute. reflexivity. Qed.
Theorem int_tok_names_distinct : NoDup (map fst int_tok_map).
Proof. apply lnodupb_NoDup. vm_compute. reflexivity. Qed.
Theorem int_tables_same_bytes : forall t, In t (map snd int_tok_map) <-> In t (map fst int_detok_map).
Proof.
  assert (A : forallb (fun t => memN t (map fst int_detok_map)) (map snd int_tok_map) = true) by (vm_compute; reflexivity).
  assert (B : forallb (fun t => memN t (map snd int_tok_map)) (map fst int_detok_map) = true) by (vm_compute; reflexivity).
  intros t. split; intros H.
  - rewrite forallb_forall in A. specialize (A t H). apply existsb_exists in A as (y & Hy & E). apply N.eqb_eq in E. subst. exact Hy.
  - rewrite forallb_forall in B. specialize (B t H). apply existsb_exists in B as (y & Hy & E). apply N.eqb_eq in E. subst. exact Hy.
Qed.
Theorem int_token_range : forall t, In t (map fst int_detok_map) -> 1 < t < 128.
Proof.
  assert (A : forallb (fun t => (1 <? t) && (t <? 128)) (map fst int_detok_map) = true) by (vm_compute; reflexivity).
  intros t H. rewrite forallb_forall in A. specialize (A t H). apply andb_prop in A as [A1 A2]. apply N.ltb_lt in A1. apply N.ltb_lt in A2. lia.
Qed.

(* ---- the escape model is written against the constants now in the source ---- *)
Theorem as_escapes_tie : forall b, ((b =? 10) || (b =? 13)) = memN b as_default_escapes.
Proof. intros b. unfold as_default_escapes, memN. cbn [existsb]. rewrite orb_false_r, (N.eqb_sym b 10), (N.eqb_sym b 13). reflexivity. Qed.
Theorem int_escapes_tie : forall b, ((b =? 138) || (b =? 141)) = memN b int_default_escapes.
Proof. intros b. unfold int_default_escapes, memN. cbn [existsb]. rewrite orb_false_r, (N.eqb_sym b 138), (N.eqb_sym b 141). reflexivity. Qed.
Theorem int_constants_tie :
  esc_byte int_literal_backslash = [92; 120; 100; 99] /\ int_escapes_lowercase = 1 /\ int_string_quote_replaced = 1.
Proof. repeat split; vm_compute; reflexivity. Qed.
