(* Lang/Tokens.v -- MODEL of the container structure of tokenized programs:
   Applesoft (src/lang/applesoft/tokenizer.rs tokenize_line / tokenize, detokenize's line walk): each line is
     link16 num16 body 00, link = address of the following line, program ends 00 00;
   Integer BASIC (src/lang/integer/tokenizer.rs): each line is len8 num16 body 01, len = total length of the line.
   A line body is the token bytes of the statement list (opaque here).  u16 address arithmetic is explicit.  No proofs here. *)
From A2 Require Import Base.Bytes.
Open Scope N_scope.

Definition line := (N * list N)%type.    (* (line number, body) *)

(* ---- Applesoft ---- *)
Fixpoint asm_as (addr : N) (ls : list line) : outcome (list N) :=
  match ls with
  | [] => ROk [0; 0]
  | (num, body) :: r =>
      let next := addr + lenN body + 5 in
      if N.leb 65536 next then RPanic 1      (* u16 overflow of curr_addr: debug build panics *)
      else do rest <- asm_as next r; ROk (le16 next ++ le16 num ++ body ++ [0] ++ rest)
  end.

(* the line walk of detokenize: stop at a zero link, skip the link, read the number, read up to the terminating 0 *)
Fixpoint take_until0 (l : list N) : list N * list N :=
  match l with [] => ([], []) | x :: r => if N.eqb x 0 then ([], r) else let '(a, b) := take_until0 r in (x :: a, b) end.
Fixpoint scan_as (fuel : nat) (b : list N) : outcome (list line) :=
  match fuel with
  | O => RFuel
  | S k => match b with
           | l0 :: l1 :: r =>
               if andb (N.eqb l0 0) (N.eqb l1 0) then ROk []
               else match r with
                    | n0 :: n1 :: r2 => let '(body, rest) := take_until0 r2 in
                                        do ls <- scan_as k rest; ROk ((n0 + 256 * n1, body) :: ls)
                    | _ => RErr 1
                    end
           | _ => ROk []       (* the loop condition addr+1 < len fails: the walk just ends *)
           end
  end.
(* the links alone: following them from the load address must land on every line start and end on the 00 00 marker *)
Fixpoint follow_links (fuel : nat) (base addr : N) (b : list N) : outcome (list N) :=
  match fuel with
  | O => RFuel
  | S k => let off := addr - base in
           if N.ltb addr base then RErr 2
           else let link := un_le16 (dropN off b) in
                if N.ltb (lenN b) (off + 2) then RErr 1
                else if N.eqb link 0 then ROk [addr]
                else do r <- follow_links k base link b; ROk (addr :: r)
  end.

(* ---- Integer BASIC ---- *)
Fixpoint asm_int (ls : list line) : outcome (list N) :=
  match ls with
  | [] => ROk []
  | (num, body) :: r =>
      if N.ltb 255 (lenN body + 4) then RErr 1       (* line too long for the length byte *)
      else do rest <- asm_int r; ROk ([lenN body + 4] ++ le16 num ++ body ++ [1] ++ rest)
  end.
Fixpoint scan_int (fuel : nat) (b : list N) : outcome (list line) :=
  match fuel with
  | O => RFuel
  | S k => match b with
           | [] => ROk []
           | len :: r =>
               if N.ltb len 4 then RErr 1
               else if N.ltb (lenN r) (len - 1) then RErr 1
               else let ln := takeN (len - 1) r in
                    if negb (N.eqb (dnth ln (N.to_nat (len - 2))) 1) then RErr 2
                    else do ls <- scan_int k (dropN (len - 1) r);
                         ROk ((un_le16 ln, slice ln 2 (len - 4)) :: ls)
           end
  end.
