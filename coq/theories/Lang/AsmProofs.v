(* Lang/AsmProofs.v -- disassembly reassembles to the identical bytes, instruction by instruction, for every operand value. *)
From A2 Require Import Base.Bytes Gen.Opcodes Lang.Asm.
Open Scope N_scope.

(* ---------- the opcode map is a function ---------- *)
Theorem dasm_map_total : forall code, code < 256 -> dasm_entry code <> None.
Proof.
  intros code H.
  pose (P := fun c : N => match dasm_entry c with Some _ => true | None => false end).
  assert (G : P code = true) by (apply (sweep1 P 256); [vm_compute; reflexivity | exact H]).
  unfold P in G. destruct (dasm_entry code); [discriminate | discriminate].
Qed.

(* ---------- relative addresses ---------- *)
Theorem rel_roundtrip : forall pc rel n d, (n = 1 \/ n = 2) -> rel < (if n =? 1 then 256 else 65536) ->
  rel_to_abs pc rel n = Some d -> abs_to_rel pc d n = Some rel /\ d < 65536.
Proof.
  intros pc rel n d Hn Hr H. unfold rel_to_abs in H. unfold abs_to_rel.
  destruct Hn as [-> | ->].
  - change (1 =? 1) with true in *. cbv iota in *. change (128 * 1) with 128 in *. change (256 * 1) with 256 in *.
    destruct (N.ltb_spec rel 128) as [A|A].
    + destruct (N.ltb_spec 65535 (rel + pc + 1 + 1)) as [B|B]; [discriminate|]. injection H as <-.
      destruct (N.leb_spec (pc + 1 + 1) (rel + pc + 1 + 1)) as [C|C]; [|lia].
      replace (rel + pc + 1 + 1 - (pc + 1 + 1)) with rel by lia.
      destruct (N.ltb_spec rel 128); [|lia]. split; [reflexivity | lia].
    + destruct (N.ltb_spec rel 256) as [B|B]; [|lia].
      destruct (N.ltb_spec (rel + pc + 1 + 1) 256) as [C|C]; [discriminate|].
      destruct (N.ltb_spec 65535 (rel + pc + 1 + 1 - 256)) as [D|D]; [discriminate|]. injection H as <-.
      destruct (N.leb_spec (pc + 1 + 1) (rel + pc + 1 + 1 - 256)) as [E|E]; [lia|].
      destruct (N.leb_spec (pc + 1 + 1 - (rel + pc + 1 + 1 - 256)) 128) as [F|F]; [|lia].
      split; [f_equal; lia | lia].
  - change (2 =? 1) with false in *. cbv iota in *. change (128 * 256) with 32768 in *. change (256 * 256) with 65536 in *.
    destruct (N.ltb_spec rel 32768) as [A|A].
    + destruct (N.ltb_spec 65535 (rel + pc + 2 + 1)) as [B|B]; [discriminate|]. injection H as <-.
      destruct (N.leb_spec (pc + 2 + 1) (rel + pc + 2 + 1)) as [C|C]; [|lia].
      replace (rel + pc + 2 + 1 - (pc + 2 + 1)) with rel by lia.
      destruct (N.ltb_spec rel 32768); [|lia]. split; [reflexivity | lia].
    + destruct (N.ltb_spec rel 65536) as [B|B]; [|lia].
      destruct (N.ltb_spec (rel + pc + 2 + 1) 65536) as [C|C]; [discriminate|].
      destruct (N.ltb_spec 65535 (rel + pc + 2 + 1 - 65536)) as [D|D]; [discriminate|]. injection H as <-.
      destruct (N.leb_spec (pc + 2 + 1) (rel + pc + 2 + 1 - 65536)) as [E|E]; [lia|].
      destruct (N.leb_spec (pc + 2 + 1 - (rel + pc + 2 + 1 - 65536)) 32768) as [F|F]; [|lia].
      split; [f_equal; lia | lia].
Qed.

(* ---------- operand bytes ---------- *)
Lemma le4_le_val l : bytes l -> (length l <= 3)%nat -> takeN (lenN l) (le4 (le_val l)) = l /\ le_val l < 256 ^ lenN l.
Proof.
  intros Hb Hl.
  destruct l as [|a [|b [|c [|d l]]]]; cbn [length] in Hl; try lia; unfold lenN, takeN; cbn [length le_val].
  - split; [reflexivity | cbn; lia].
  - inversion Hb as [|? ? Ha _]; subst. rewrite Nat2N.id. cbn [N.of_nat firstn le4]. split; [f_equal; lia | cbn; lia].
  - inversion Hb as [|? ? Ha Hb1]; subst. inversion Hb1 as [|? ? Hb2 _]; subst.
    rewrite Nat2N.id. cbn [firstn le4]. split; [repeat f_equal; lia | cbn; lia].
  - inversion Hb as [|? ? Ha Hb1]; subst. inversion Hb1 as [|? ? Hb2 Hb3]; subst. inversion Hb3 as [|? ? Hc _]; subst.
    rewrite Nat2N.id. cbn [firstn le4]. split; [repeat f_equal; lia | cbn; lia].
Qed.

Lemma width_class_lt v : (v <? 256) = (width_class v =? 1) /\ (v <? 65536) = negb (width_class v =? 3).
Proof.
  unfold width_class. destruct (N.ltb_spec 65535 v); destruct (N.ltb_spec 255 v); destruct (N.ltb_spec v 256); destruct (N.ltb_spec v 65536);
    try lia; split; reflexivity.
Qed.
Lemma width_class_bound v n : v < 256 ^ n -> (n = 1 \/ n = 2 \/ n = 3) -> width_class v <= n /\ 1 <= width_class v.
Proof.
  intros H Hn. unfold width_class. destruct (N.ltb_spec 65535 v); destruct (N.ltb_spec 255 v); destruct Hn as [->|[->| ->]]; cbn in H; lia.
Qed.

(* ---------- the finite part: for every opcode, processor, register width and assembler variant the assembler's choice
   of opcode and operand width, which depends on the value only through the number of bytes it needs, is the original ---------- *)
Definition suf_of (mn n wc : N) : N :=
  if (n =? 2) && (wc =? 1) && abs_suffixable mn then 1 else if (n =? 3) && negb (wc =? 3) && absl_suffixable mn then 2 else 0.
Definition pre_of (mn md n : N) : N := if (n =? 3) && absl_prefixable mn then 1 else if md =? md_imm then 2 else 0.
Definition is_rel (md : N) : bool := (md =? md_rel) || (md =? md_rell).

(* which declarations go together: 6502 and 65c02 are 8 bit and assembled as Merlin 8; the 65802 is Merlin 8 with XC twice
   (no MX pseudo-op there, so 8 bit registers) or any 16 bit variant; the 65816 needs a 16 bit variant *)
Definition settings_ok (proc : N) (m8 x8 v8 : bool) : bool :=
  match proc with
  | 0 | 1 => m8 && x8 && v8
  | 2 => if v8 then m8 && x8 else true
  | 3 => negb v8
  | _ => false
  end.

Definition sweep_ent (ent : option (N * N * N)) (code proc : N) (m8 x8 v8 : bool) : bool :=
  match ent with
  | None => false
  | Some (mn, md, mask) =>
      if negb (in_mask proc mask) || (code =? 0) then true
      else let nb := nthN mode_bytes md 0 in
      if nb =? 255 then (match asm_mov mn 7 9 with ROk [c; 9; 7] => c =? code | _ => false end)
      else if nb =? 0 then (match asm_implied mn with ROk [c] => c =? code | _ => false end)
      else
        let wide := (md =? md_imm) && ((m_sens mn && negb m8) || (x_sens mn && negb x8)) in
        let n := nb + (if wide then 1 else 0) in
        let rm := nthN mode_reduced md 0 in
        (n <=? 3) && (1 <=? n) &&
        if is_rel md then
          (n =? (if md =? md_rel then 1 else 2)) &&
          forallb (fun wc => match asm_shape v8 proc m8 x8 (mkinstr mn 0 0 rm 0) wc with
                             | Some (c, md', _, _) => (c =? code) && (md' =? md)
                             | None => false end) [1; 2]
        else
          forallb (fun wc => if wc <=? n then
                               match asm_shape v8 proc m8 x8 (mkinstr mn (suf_of mn n wc) (pre_of mn md n) rm 0) wc with
                               | Some (c, md', b, e) => (c =? code) && (b =? 0) && (e =? n) && negb (is_rel md')
                               | None => false end
                             else true) [1; 2; 3]
  end.
Definition sweep_instr (code proc : N) (m8 x8 v8 : bool) : bool := sweep_ent (dasm_entry code) code proc m8 x8 v8.

Definition all_settings : list (N * bool * bool * bool) :=
  flat_map (fun p => flat_map (fun m => flat_map (fun x => map (fun v => (p, m, x, v)) [true; false]) [true; false]) [true; false]) [0; 1; 2; 3].

Lemma sweep_all : forallb (fun s => let '(p, m, x, v) := s in
    negb (settings_ok p m x v) || forallb (fun code => sweep_instr code p m x v) (below 256)) all_settings = true.
Proof. vm_compute. reflexivity. Qed.

Lemma sweep_instr_ok code proc m8 x8 v8 : code < 256 -> settings_ok proc m8 x8 v8 = true -> sweep_instr code proc m8 x8 v8 = true.
Proof.
  intros Hc Hs. pose proof sweep_all as A. rewrite forallb_forall in A.
  assert (I : In (proc, m8, x8, v8) all_settings).
  { assert (Hp : proc = 0 \/ proc = 1 \/ proc = 2 \/ proc = 3).
    { destruct proc as [|p]; [auto|]. destruct p as [[|[]|]|[|[]|]|]; auto; discriminate. }
    unfold all_settings. destruct Hp as [->|[->|[->| ->]]]; destruct m8, x8, v8; cbn; tauto. }
  specialize (A _ I). cbv beta iota in A. rewrite Hs in A. cbn [negb orb] in A.
  rewrite forallb_forall in A. apply A. apply below_in. exact Hc.
Qed.

Lemma asm_shape_val v8 proc m8 x8 mn suf pre rm v w wc :
  asm_shape v8 proc m8 x8 (mkinstr mn suf pre rm v) wc = asm_shape v8 proc m8 x8 (mkinstr mn suf pre rm w) wc.
Proof. reflexivity. Qed.

(* ---------- instruction round trip ---------- *)
Definition wide_of (mn md : N) (m8 x8 : bool) : bool := (md =? md_imm) && ((m_sens mn && negb m8) || (x_sens mn && negb x8)).

Lemma dasm_decode_instr_inv ent proc m8 x8 addr code rest avail i n :
  dasm_decode ent proc m8 x8 addr code rest avail = Some (DInstr i n) ->
  exists mn md mask,
    ent = Some (mn, md, mask) /\ in_mask proc mask = true /\ (code =? 0) = false /\
    (nthN mode_bytes md 0 =? 255) = false /\ (nthN mode_bytes md 0 =? 0) = false /\
    n = nthN mode_bytes md 0 + (if wide_of mn md m8 x8 then 1 else 0) /\ n <= avail /\
    let v := le_val (takeN n rest) in
    ((is_rel md = true /\ exists dest, rel_to_abs addr v n = Some dest /\ i = mkinstr mn 0 0 (nthN mode_reduced md 0) dest) \/
     (is_rel md = false /\ i = mkinstr mn (suf_of mn n (width_class v)) (pre_of mn md n) (nthN mode_reduced md 0) v)).
Proof.
  intros H. unfold dasm_decode in H.
  destruct ent as [[[mn md] mask]|]; [|discriminate].
  exists mn, md, mask.
  destruct (in_mask proc mask) eqn:Em; cbn [negb] in H; [|discriminate].
  destruct (code =? 0) eqn:E0; [discriminate|].
  destruct (nthN mode_bytes md 0 =? 255) eqn:E255; [destruct (2 <=? avail); discriminate|].
  destruct (nthN mode_bytes md 0 =? 0) eqn:Enb0; [discriminate|].
  fold (wide_of mn md m8 x8) in H.
  remember (nthN mode_bytes md 0 + (if wide_of mn md m8 x8 then 1 else 0)) as n0 eqn:En0.
  destruct (N.leb_spec n0 avail) as [Hn|Hn]; cbn [negb] in H; [|discriminate].
  fold (is_rel md) in H.
  destruct (is_rel md) eqn:Erel.
  - destruct (rel_to_abs addr (le_val (takeN n0 rest)) n0) as [dest|] eqn:Er; [|discriminate].
    injection H as <- <-. repeat split; auto. left. split; [reflexivity|]. exists dest. split; [exact Er | reflexivity].
  - injection H as <- <-. repeat split; auto. right. split; [reflexivity|].
    destruct (width_class_lt (le_val (takeN n0 rest))) as [W1 W2]. unfold suf_of, pre_of. rewrite <- W1, <- W2. reflexivity.
Qed.

Lemma sweep_inv code proc m8 x8 v8 mn md mask :
  sweep_ent (Some (mn, md, mask)) code proc m8 x8 v8 = true -> in_mask proc mask = true -> (code =? 0) = false ->
  (nthN mode_bytes md 0 =? 255) = false -> (nthN mode_bytes md 0 =? 0) = false ->
  let n := nthN mode_bytes md 0 + (if wide_of mn md m8 x8 then 1 else 0) in
  1 <= n <= 3 /\
  (is_rel md = true -> n = (if md =? md_rel then 1 else 2) /\
     forall wc, wc = 1 \/ wc = 2 -> exists b e, asm_shape v8 proc m8 x8 (mkinstr mn 0 0 (nthN mode_reduced md 0) 0) wc = Some (code, md, b, e)) /\
  (is_rel md = false -> forall wc, 1 <= wc <= n -> exists md',
     asm_shape v8 proc m8 x8 (mkinstr mn (suf_of mn n wc) (pre_of mn md n) (nthN mode_reduced md 0) 0) wc = Some (code, md', 0, n) /\ is_rel md' = false).
Proof.
  intros S Hm H0 H255 Hnb0. unfold sweep_ent in S. rewrite Hm, H0, H255, Hnb0 in S. cbn [negb orb] in S.
  fold (wide_of mn md m8 x8) in S. cbv zeta.
  remember (nthN mode_bytes md 0 + (if wide_of mn md m8 x8 then 1 else 0)) as n eqn:En.
  apply andb_prop in S as [S S2]. apply andb_prop in S as [Sn3 Sn1]. apply N.leb_le in Sn3. apply N.leb_le in Sn1.
  split; [lia|]. split.
  - intros Er. rewrite Er in S2. apply andb_prop in S2 as [Sn S2]. apply N.eqb_eq in Sn. split; [exact Sn|].
    intros wc Hwc. rewrite forallb_forall in S2. assert (I : In wc [1; 2]) by (cbn; destruct Hwc; auto).
    specialize (S2 _ I). cbv beta in S2.
    destruct (asm_shape v8 proc m8 x8 (mkinstr mn 0 0 (nthN mode_reduced md 0) 0) wc) as [[[[c md'] b] e]|]; [|discriminate].
    apply andb_prop in S2 as [Ec Emd]. apply N.eqb_eq in Ec. apply N.eqb_eq in Emd. subst. eauto.
  - intros Er. rewrite Er in S2. intros wc Hwc. rewrite forallb_forall in S2.
    assert (I : In wc [1; 2; 3]) by (cbn; lia). specialize (S2 _ I). cbv beta in S2.
    destruct (N.leb_spec wc n) as [_|X]; [|lia].
    destruct (asm_shape v8 proc m8 x8 (mkinstr mn (suf_of mn n wc) (pre_of mn md n) (nthN mode_reduced md 0) 0) wc) as [[[[c md'] b] e]|]; [|discriminate].
    apply andb_prop in S2 as [S2 Enr]. apply andb_prop in S2 as [S2 Ee]. apply andb_prop in S2 as [Ec Eb].
    apply N.eqb_eq in Ec. apply N.eqb_eq in Eb. apply N.eqb_eq in Ee. subst c b e.
    apply negb_true_iff in Enr. exists md'. split; [reflexivity | exact Enr].
Qed.

Lemma operand_bytes rest n avail : bytes rest -> avail <= lenN rest -> n <= avail -> 1 <= n <= 3 ->
  takeN n (le4 (le_val (takeN n rest))) = takeN n rest /\ le_val (takeN n rest) < 256 ^ n.
Proof.
  intros Hb Hav Hn Hn3.
  assert (Hlen : lenN (takeN n rest) = n) by (unfold lenN, takeN; rewrite firstn_length; unfold lenN in Hav; lia).
  assert (Hbt : bytes (takeN n rest)).
  { unfold takeN. rewrite <- (firstn_skipn (N.to_nat n) rest) in Hb. apply Forall_app in Hb. tauto. }
  assert (Hl3 : (length (takeN n rest) <= 3)%nat) by (unfold lenN in Hlen; lia).
  destruct (le4_le_val _ Hbt Hl3) as [Hrt Hlt]. rewrite Hlen in Hrt, Hlt. split; assumption.
Qed.

Theorem instr_roundtrip : forall proc m8 x8 v8 addr code rest avail i n,
  code < 256 -> settings_ok proc m8 x8 v8 = true -> bytes rest -> avail <= lenN rest ->
  dasm_one proc m8 x8 addr code rest avail = Some (DInstr i n) ->
  asm_instr v8 proc m8 x8 addr i = ROk (code :: takeN n rest).
Proof.
  intros proc m8 x8 v8 addr code rest avail i n Hc Hs Hb Hav H.
  unfold dasm_one in H.
  destruct (dasm_decode_instr_inv _ _ _ _ _ _ _ _ _ _ H) as (mn & md & mask & He & Hm & H0 & H255 & Hnb0 & Hn & Hle & Hcase).
  pose proof (sweep_instr_ok code proc m8 x8 v8 Hc Hs) as S0. unfold sweep_instr in S0. rewrite He in S0.
  pose proof (sweep_inv code proc m8 x8 v8 mn md mask S0 Hm H0 H255 Hnb0) as S.
  cbv zeta in S, Hcase. rewrite <- Hn in S. destruct S as (Hn13 & Srel & Snon).
  destruct (operand_bytes rest n avail Hb Hav Hle Hn13) as [Hrt Hlt].
  remember (le_val (takeN n rest)) as v eqn:Ev.
  destruct Hcase as [(Er & dest & Hd & ->) | (Er & ->)].
  - destruct (Srel Er) as [Sn Sw].
    assert (Hn12 : n = 1 \/ n = 2) by (rewrite Sn; destruct (md =? md_rel); auto).
    assert (Hv : v < (if n =? 1 then 256 else 65536)) by (destruct Hn12 as [E|E]; rewrite E in *; exact Hlt).
    destruct (rel_roundtrip addr v n dest Hn12 Hv Hd) as [Hback Hdl].
    assert (Hwc : width_class dest = 1 \/ width_class dest = 2).
    { unfold width_class. destruct (N.ltb_spec 65535 dest); [lia|]. destruct (255 <? dest); auto. }
    destruct (Sw _ Hwc) as (b & e & Hs2).
    unfold asm_instr. cbn [i_val]. rewrite (asm_shape_val _ _ _ _ _ _ _ _ dest 0), Hs2.
    unfold is_rel in Er. rewrite Er.
    replace (if md =? md_rel then 1 else 2) with n by exact Sn.
    replace (dest mod 65536 + (n - 1) * 65536 * (dest / 65536 mod 256)) with dest
      by (rewrite (N.mod_small dest 65536) by lia; rewrite (N.div_small dest 65536) by lia; cbn; lia).
    rewrite Hback. f_equal. f_equal. exact Hrt.
  - destruct (width_class_bound v n Hlt ltac:(lia)) as [Wle Wge].
    destruct (Snon Er (width_class v) (conj Wge Wle)) as (md' & Hs2 & Er').
    unfold asm_instr. cbn [i_val]. rewrite (asm_shape_val _ _ _ _ _ _ _ _ v 0), Hs2.
    unfold is_rel in Er'. rewrite Er'.
    f_equal. f_equal. unfold slice, dropN. cbn [skipn N.to_nat]. rewrite N.sub_0_r. exact Hrt.
Qed.

Lemma dasm_decode_other_inv ent proc m8 x8 addr code rest avail it :
  dasm_decode ent proc m8 x8 addr code rest avail = Some it -> (forall i n, it <> DInstr i n) -> (forall n, it <> DRelData n) ->
  exists mn md mask, ent = Some (mn, md, mask) /\ in_mask proc mask = true /\ (code =? 0) = false /\
    ((nthN mode_bytes md 0 =? 255) = true /\ (2 <=? avail) = true /\ it = DMov mn (nthN rest 1 0) (nthN rest 0 0) \/
     (nthN mode_bytes md 0 =? 255) = false /\ (nthN mode_bytes md 0 =? 0) = true /\ it = DImplied mn).
Proof.
  intros H N1 N2. unfold dasm_decode in H.
  destruct ent as [[[mn md] mask]|]; [|discriminate].
  exists mn, md, mask.
  destruct (in_mask proc mask) eqn:Em; cbn [negb] in H; [|discriminate].
  destruct (code =? 0) eqn:E0; [discriminate|].
  destruct (nthN mode_bytes md 0 =? 255) eqn:E255.
  - destruct (2 <=? avail) eqn:E2; [|discriminate]. injection H as <-. repeat split; auto.
  - destruct (nthN mode_bytes md 0 =? 0) eqn:Enb0.
    + injection H as <-. repeat split; auto.
    + exfalso. destruct (negb _) in H; [discriminate|].
      destruct ((md =? md_rel) || (md =? md_rell)).
      * destruct (rel_to_abs _ _ _); injection H as <-; [eapply N1 | eapply N2]; reflexivity.
      * injection H as <-. eapply N1; reflexivity.
Qed.

Theorem implied_roundtrip : forall proc m8 x8 v8 addr code rest avail mn,
  code < 256 -> settings_ok proc m8 x8 v8 = true ->
  dasm_one proc m8 x8 addr code rest avail = Some (DImplied mn) -> asm_implied mn = ROk [code].
Proof.
  intros proc m8 x8 v8 addr code rest avail mn0 Hc Hs H. unfold dasm_one in H.
  destruct (dasm_decode_other_inv _ _ _ _ _ _ _ _ _ H) as (mn & md & mask & He & Hm & H0 & Hcase); try discriminate.
  pose proof (sweep_instr_ok code proc m8 x8 v8 Hc Hs) as S. unfold sweep_instr in S. rewrite He in S.
  unfold sweep_ent in S. rewrite Hm, H0 in S. cbn [negb orb] in S.
  destruct Hcase as [(E255 & _ & X) | (E255 & Enb0 & X)]; [discriminate|]. injection X as Emn. subst mn0.
  rewrite E255, Enb0 in S.
  destruct (asm_implied mn) as [[|c [|? ?]]| | |]; try discriminate. apply N.eqb_eq in S. subst c. reflexivity.
Qed.

Theorem mov_roundtrip : forall proc m8 x8 v8 addr code rest avail mn a b,
  code < 256 -> settings_ok proc m8 x8 v8 = true -> (2 <= length rest)%nat ->
  dasm_one proc m8 x8 addr code rest avail = Some (DMov mn a b) -> asm_mov mn a b = ROk (code :: firstn 2 rest).
Proof.
  intros proc m8 x8 v8 addr code rest avail mn0 a b Hc Hs Hl H. unfold dasm_one in H.
  destruct (dasm_decode_other_inv _ _ _ _ _ _ _ _ _ H) as (mn & md & mask & He & Hm & H0 & Hcase); try discriminate.
  pose proof (sweep_instr_ok code proc m8 x8 v8 Hc Hs) as S. unfold sweep_instr in S. rewrite He in S.
  unfold sweep_ent in S. rewrite Hm, H0 in S. cbn [negb orb] in S.
  destruct Hcase as [(E255 & _ & X) | (E255 & Enb0 & X)]; [|discriminate]. injection X as Emn Ea Eb. subst mn0 a b.
  rewrite E255 in S.
  unfold asm_mov in *. destruct (code_of mn md_xyc) as [c|]; [|discriminate]. apply N.eqb_eq in S. subst c.
  destruct rest as [|r0 [|r1 r]]; cbn [length] in Hl; try lia. reflexivity.
Qed.

(* ---------- every byte is accounted for exactly once ---------- *)
(* bounds on the run trackers after m bytes have been examined *)
Definition tr_inv (m : N) (t : trackers) : Prop :=
  fst (t_pos t) <= m /\ fst (t_neg t) <= m /\
  (fst (t_uni t) = 0 \/ fst (t_uni t) + 1 <= m) /\ (fst (t_p2 t) = 0 \/ fst (t_p2 t) + 2 <= m) /\ (fst (t_p4 t) = 0 \/ fst (t_p4 t) + 4 <= m).

Lemma tr_inv_mono m m' t : m <= m' -> tr_inv m t -> tr_inv m' t.
Proof. unfold tr_inv. intros H (A & B & C & D & E). repeat split; try lia. Qed.

Lemma track_inv k c prev t : tr_inv k t -> tr_inv (k + 1) (track t k c prev).
Proof.
  unfold tr_inv, track. intros (A & B & C & D & E). cbn [t_pos t_neg t_uni t_p2 t_p4].
  destruct (t_pos t) as [p pa]; destruct (t_neg t) as [q qa]; destruct (t_uni t) as [u ua]; destruct (t_p2 t) as [x xa]; destruct (t_p4 t) as [y ya].
  cbn [fst snd] in *.
  repeat split.
  - destruct pa; [destruct (probably_string c 0)|]; cbn [fst]; lia.
  - destruct qa; [destruct (probably_string c 128)|]; cbn [fst]; lia.
  - change (1 - 1) with 0. destruct (N.ltb_spec 0 k) as [K|K].
    + destruct (ua && true && (c =? nthN prev 0 256)); cbn [fst]; lia.
    + rewrite andb_false_r. cbn [andb fst]. lia.
  - change (2 - 1) with 1. destruct (N.ltb_spec 1 k) as [K|K].
    + destruct (xa && true && (c =? nthN prev 1 256)); cbn [fst]; lia.
    + rewrite andb_false_r. cbn [andb fst]. lia.
  - change (4 - 1) with 3. destruct (N.ltb_spec 3 k) as [K|K].
    + destruct (ya && true && (c =? nthN prev 3 256)); cbn [fst]; lia.
    + rewrite andb_false_r. cbn [andb fst]. lia.
Qed.

Lemma scan_run_inv bs : forall k prev t, tr_inv k t -> tr_inv (k + lenN bs) (scan_run bs k prev t).
Proof.
  induction bs as [|c r IH]; intros k prev t H; cbn [scan_run].
  - unfold lenN. cbn. rewrite N.add_0_r. exact H.
  - destruct (alive t).
    + replace (k + lenN (c :: r)) with (k + 1 + lenN r) by (unfold lenN; cbn [length]; lia). apply IH. apply track_inv. exact H.
    + eapply tr_inv_mono; [|exact H]. lia.
Qed.

Theorem data_run_bound bs : snd (data_run bs) <= lenN bs.
Proof.
  unfold data_run, data_run_ex.
  pose proof (scan_run_inv bs 0 [] (mktr (0, true) (0, true) (0, true) (0, true) (0, true))) as H.
  assert (I0 : tr_inv 0 (mktr (0, true) (0, true) (0, true) (0, true) (0, true))) by (unfold tr_inv; cbn; lia).
  specialize (H I0). rewrite N.add_0_l in H.
  set (t := scan_run bs 0 [] _) in *. destruct H as (A & B & C & D & E).
  assert (X : forall len off, len <= lenN bs ->
     len + match nth_error bs (N.to_nat len) with Some la => if (la =? 0) || probably_string la off then 1 else 0 | None => 0 end <= lenN bs).
  { intros len off Hl. destruct (nth_error bs (N.to_nat len)) eqn:En; [|lia].
    assert (N.to_nat len < length bs)%nat by (apply nth_error_Some; congruence).
    destruct ((n =? 0) || probably_string n off); unfold lenN in *; lia. }
  pose proof (N.mod_le (fst (t_p2 t) + 2) 2 ltac:(lia)) as M2. pose proof (N.mod_le (fst (t_p4 t) + 4) 4 ltac:(lia)) as M4.
  repeat match goal with |- context [if ?b then _ else _] => destruct b eqn:? end; cbn [snd]; rewrite ?N.add_0_r;
    try lia; try (apply X; lia);
    repeat match goal with Hx : (0 <? _) = true |- _ => apply N.ltb_lt in Hx end; lia.
Qed.

Lemma dasm_decode_size ent proc m8 x8 addr code rest it :
  dasm_decode ent proc m8 x8 addr code rest (lenN rest) = Some it -> 1 <= item_size it <= lenN rest + 1.
Proof.
  unfold dasm_decode. destruct ent as [[[mn md] mask]|]; [|discriminate].
  destruct (negb (in_mask proc mask)); [discriminate|]. destruct (code =? 0); [discriminate|].
  destruct (nthN mode_bytes md 0 =? 255).
  - destruct (N.leb_spec 2 (lenN rest)) as [L2|L2]; [|discriminate]. intros Hx; injection Hx as <-. cbn [item_size]. lia.
  - destruct (nthN mode_bytes md 0 =? 0); [intros Hx; injection Hx as <-; cbn [item_size]; lia|].
    match goal with |- context [negb (?n <=? lenN rest)] => destruct (N.leb_spec n (lenN rest)) as [L|L]; cbn [negb]; [|discriminate] end.
    destruct ((md =? md_rel) || (md =? md_rell)).
    + destruct (rel_to_abs _ _ _); intros Hx; injection Hx as <-; cbn [item_size]; lia.
    + intros Hx; injection Hx as <-. cbn [item_size]. lia.
Qed.

Fixpoint sumN (l : list N) : N := match l with [] => 0 | x :: r => x + sumN r end.

(* the lines of a disassembly tile the input: positive sizes that add up to its length; the loop never reaches past the range *)
Theorem dasm_accounts : forall fuel proc m8 x8 addr bs, (length bs < fuel)%nat ->
  exists sizes, dasm_sizes fuel proc m8 x8 addr bs = ROk sizes /\ sumN sizes = lenN bs /\ Forall (fun s => 0 < s) sizes.
Proof.
  induction fuel as [|k IH]; intros proc m8 x8 addr bs Hf; [lia|].
  destruct bs as [|code rest]; cbn [dasm_sizes].
  - exists []. repeat split; constructor.
  - set (sz := match dasm_one proc m8 x8 addr code rest (lenN rest) with Some it => item_size it
               | None => let '(_, n) := data_run (code :: rest) in if n =? 0 then 1 else n end).
    assert (Hsz : 1 <= sz <= lenN (code :: rest)).
    { unfold sz. replace (lenN (code :: rest)) with (lenN rest + 1) by (unfold lenN; cbn [length]; lia).
      destruct (dasm_one proc m8 x8 addr code rest (lenN rest)) as [it|] eqn:E.
      - unfold dasm_one in E. apply dasm_decode_size in E. exact E.
      - pose proof (data_run_bound (code :: rest)) as B. destruct (data_run (code :: rest)) as [kd n]. cbn [snd] in B.
        replace (lenN (code :: rest)) with (lenN rest + 1) in B by (unfold lenN; cbn [length]; lia).
        destruct (N.eqb_spec n 0); lia. }
    destruct (N.ltb_spec (lenN (code :: rest)) sz) as [X|_]; [lia|].
    assert (Hl : (length (dropN sz (code :: rest)) < k)%nat).
    { unfold dropN. rewrite skipn_length. unfold lenN in Hsz. cbn [length] in *. lia. }
    destruct (IH proc m8 x8 (addr + sz) _ Hl) as (sizes & E & Hsum & Hpos).
    rewrite E. cbn [obind]. exists (sz :: sizes). repeat split.
    + cbn [sumN]. rewrite Hsum. unfold lenN, dropN. rewrite skipn_length. unfold lenN in Hsz. lia.
    + constructor; [lia | exact Hpos].
Qed.

(* ---------- contents of a DS line ---------- *)

(* the uniform-run tracker: after the bytes [done], the first count+1 bytes are all equal to the first one, the count
   stays within what was seen, and while the tracker is alive that is all of them *)
Definition uni_inv (done : list N) (s : N * bool) : Prop :=
  Forall (fun b => b = hd 0 done) (firstn (S (N.to_nat (fst s))) done) /\
  (done <> [] -> (S (N.to_nat (fst s)) <= length done)%nat) /\ (done = [] -> fst s = 0) /\
  (snd s = true -> done <> [] -> length done = S (N.to_nat (fst s))).

Lemma firstn_snoc_short {A} (l : list A) x n : (n <= length l)%nat -> firstn n (l ++ [x]) = firstn n l.
Proof. intros H. rewrite firstn_app. replace (n - length l)%nat with O by lia. cbn [firstn]. apply app_nil_r. Qed.
Lemma hd_snoc (l : list N) x : l <> [] -> hd 0 (l ++ [x]) = hd 0 l.
Proof. destruct l; [contradiction | reflexivity]. Qed.

Definition uni_next (s : N * bool) (k c : N) (prev : list N) : N * bool :=
  if snd s && (1 - 1 <? k) && (c =? nthN prev (1 - 1) 256) then (fst s + 1, true) else if 1 - 1 <? k then (fst s, false) else s.

Lemma uni_step done s c : uni_inv done s -> uni_inv (done ++ [c]) (uni_next s (lenN done) c (rev done)).
Proof.
  intros (HF & HB & HZ & HA). unfold uni_next. change (1 - 1) with 0.
  destruct s as [u a]. cbn [fst snd] in *.
  destruct done as [|d0 dr] eqn:D.
  - unfold lenN. cbn [length N.of_nat]. change (0 <? 0) with false. rewrite andb_false_r. cbn [andb fst snd].
    rewrite (HZ eq_refl). cbn [app]. unfold uni_inv. cbn [fst snd]. split; [|split; [|split]].
    + cbn. constructor; [reflexivity | constructor].
    + intros _. cbn. lia.
    + discriminate.
    + intros _ _. reflexivity.
  - rewrite <- D in *. assert (Hne : done <> []) by (rewrite D; discriminate).
    assert (Hk : (0 <? lenN done) = true) by (rewrite D; reflexivity).
    rewrite Hk, andb_true_r. specialize (HB Hne).
    assert (Hne2 : done ++ [c] <> []) by (destruct done; discriminate).
    destruct (a && (c =? nthN (rev done) 0 256)) eqn:C; cbn [fst snd].
    + apply andb_prop in C as [Ca Cc]. subst a. apply N.eqb_eq in Cc. specialize (HA eq_refl Hne).
      unfold uni_inv. cbn [fst snd]. split; [|split; [|split]].
      * replace (N.to_nat (u + 1)) with (S (N.to_nat u)) by lia.
        rewrite hd_snoc by exact Hne.
        rewrite firstn_all2 by (rewrite app_length; cbn [length]; lia).
        rewrite <- HA in HF. rewrite firstn_all in HF.
        apply Forall_app. split; [exact HF|]. constructor; [|constructor].
        subst c. unfold nthN. cbn [N.to_nat].
        rewrite Forall_forall in HF. apply HF.
        destruct (rev done) as [|x r] eqn:R; [exfalso; apply Hne; rewrite <- (rev_involutive done), R; reflexivity|].
        cbn [nth]. apply in_rev. rewrite R. left. reflexivity.
      * intros _. rewrite app_length. cbn [length]. lia.
      * intros E. contradiction.
      * intros _ _. rewrite app_length. cbn [length]. lia.
    + unfold uni_inv. cbn [fst snd]. split; [|split; [|split]].
      * rewrite hd_snoc by exact Hne. rewrite firstn_snoc_short by exact HB. exact HF.
      * intros _. rewrite app_length. cbn [length]. lia.
      * intros E. contradiction.
      * discriminate.
Qed.

Lemma track_uni t k c prev : t_uni (track t k c prev) = uni_next (t_uni t) k c prev.
Proof. reflexivity. Qed.

Lemma scan_uni bs : forall done t, uni_inv done (t_uni t) ->
  exists done', uni_inv done' (t_uni (scan_run bs (lenN done) (rev done) t)) /\ exists rest, done ++ bs = done' ++ rest.
Proof.
  induction bs as [|c r IH]; intros done t H; cbn [scan_run].
  - exists done. split; [exact H | exists []; reflexivity].
  - destruct (alive t).
    + assert (E1 : lenN done + 1 = lenN (done ++ [c])) by (unfold lenN; rewrite app_length; cbn [length]; lia).
      assert (E2 : c :: rev done = rev (done ++ [c])) by (rewrite rev_app_distr; reflexivity).
      rewrite E1, E2.
      destruct (IH (done ++ [c]) (track t (lenN done) c (rev done))) as (done' & Hd & rest & Hr).
      * rewrite track_uni. apply uni_step. exact H.
      * exists done'. split; [exact Hd|]. exists rest. rewrite <- Hr, <- app_assoc. reflexivity.
    + exists done. split; [exact H | exists (c :: r); reflexivity].
Qed.

(* a DS line stands for exactly the bytes it replaces: count copies of the first byte *)
Theorem ds_run_is_uniform bs n e : data_run_ex bs = (1, n, e) -> e = 0 /\ Forall (fun b => b = hd 0 bs) (takeN n bs) /\ 1 < n.
Proof.
  unfold data_run_ex.
  assert (I0 : uni_inv [] (t_uni (mktr (0, true) (0, true) (0, true) (0, true) (0, true)))).
  { unfold uni_inv. cbn [t_uni fst snd]. split; [|split; [|split]]; [constructor | intros X; contradiction | reflexivity | intros _ X; contradiction]. }
  destruct (scan_uni bs [] _ I0) as (done' & (HF & HB & HZ & _) & rest & Hr).
  change (lenN (@nil N)) with 0 in *. change (rev (@nil N)) with (@nil N) in *. cbn [app] in Hr.
  remember (scan_run bs 0 [] (mktr (0, true) (0, true) (0, true) (0, true) (0, true))) as t eqn:Et. clear Et.
  intros H.
  destruct (0 <? fst (t_uni t)) eqn:U.
  - apply N.ltb_lt in U.
    assert (Hd : done' <> []) by (intros E; specialize (HZ E); lia).
    specialize (HB Hd).
    assert (G : n = fst (t_uni t) + 1 /\ e = 0).
    { repeat match type of H with context [if ?b then _ else _] => destruct b end; try discriminate; injection H as <- <-; try discriminate; split; reflexivity. }
    destruct G as [-> ->]. split; [reflexivity|]. split; [|lia].
    unfold takeN. replace (N.to_nat (fst (t_uni t) + 1)) with (S (N.to_nat (fst (t_uni t)))) by lia.
    rewrite Hr, firstn_app. replace (S (N.to_nat (fst (t_uni t))) - length done')%nat with O by lia. cbn [firstn]. rewrite app_nil_r.
    replace (hd 0 (done' ++ rest)) with (hd 0 done') by (destruct done'; [contradiction | reflexivity]). exact HF.
  - exfalso. change (0 <? 0) with false in H. cbn [andb] in H.
    repeat match type of H with context [if ?b then _ else _] => destruct b end; discriminate.
Qed.
