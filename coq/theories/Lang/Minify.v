(* Lang/Minify.v -- MODEL of two mechanisms of the Applesoft minifier (src/lang/applesoft/minifier.rs):
   1. the computed hidden-token guard (forms_hidden_token / needs_guard) against the keyword list regenerated from
      token_maps.rs, together with a model of how the machine reads a run of characters (keywords are recognised
      greedily from the left, blanks already removed);
   2. the map from deleted line numbers to the line that takes over their references (set_line_ref_map), and the
      un-deletion of trailing deleted lines in minify_stage1.
   Which node is a variable and what follows it comes from the tree-sitter walk (not modelled).  No proofs here. *)
From A2 Require Import Base.Bytes Gen.TokMaps Gen.Guards.
Open Scope N_scope.

Definition upc (c : N) : N := if (97 <=? c) && (c <=? 122) then c - 32 else c.
Definition keywords : list (list N) := map (fun e => map upc (snd e)) as_detok_map.

Fixpoint is_prefix (k l : list N) : bool :=
  match k, l with [] , _ => true | x :: r, y :: q => (x =? y) && is_prefix r q | _ :: _, [] => false end.

(* forms_hidden_token: some keyword longer than what is left of the short name starts inside the short name *)
Fixpoint hidden_from (short following : list N) : bool :=
  match short with
  | [] => false
  | _ :: rest =>
      existsb (fun k => Nat.ltb (length short) (length k) && is_prefix k (short ++ following)) keywords
      || hidden_from rest following
  end.
Definition forms_hidden_token (short following : list N) : bool := hidden_from (map upc short) (map upc following).

(* a name is clean when no keyword lies inside it *)
Fixpoint clean (v : list N) : bool :=
  match v with
  | [] => true
  | _ :: rest => negb (existsb (fun k => Nat.leb (length k) (length v) && is_prefix k v) keywords) && clean rest
  end.

(* how a run of characters is read: at each position the first keyword that matches is taken as a token *)
Inductive item := Tok (k : list N) | Chr (c : N).
Fixpoint crunch (fuel : nat) (l : list N) : list item :=
  match fuel with
  | O => []
  | S n => match l with
           | [] => []
           | c :: r => match find (fun k => negb (Nat.eqb (length k) 0) && is_prefix k l) keywords with
                       | Some k => Tok k :: crunch n (skipn (length k) l)
                       | None => Chr c :: crunch n r
                       end
           end
  end.

(* ---- line reference map ---- *)
Definition memNl (x : N) (l : list N) : bool := existsb (N.eqb x) l.
(* the replacement of a deleted line: the first line after it that is not deleted *)
Fixpoint next_kept (d : N) (all deleted : list N) : option N :=
  match all with
  | [] => None
  | x :: r => if (d <? x) && negb (memNl x deleted) then Some x else next_kept d r deleted
  end.
(* set_line_ref_map as written: one cursor moving forward over all_lines while the deleted lines are visited in order *)
Fixpoint advance (fuel : nat) (d : N) (all deleted : list N) : option (list N) :=      (* remaining lines, head = replacement *)
  match fuel with
  | O => None
  | S n => match all with
           | [] => None
           | x :: r => if (x <=? d) || memNl x deleted then advance n d r deleted else Some all
           end
  end.
Fixpoint ref_map (ds all deleted : list N) : option (list (N * N)) :=
  match ds with
  | [] => Some []
  | d :: rest => match advance (S (length all)) d all deleted with
                 | None => None
                 | Some all' => match all' with
                                | [] => None
                                | x :: _ => match ref_map rest all' deleted with Some m => Some ((d, x) :: m) | None => None end
                                end
                 end
  end.
(* minify_stage1: trailing deleted lines are kept *)
Fixpoint undelete_trailing (all_rev deleted_rev : list N) : list N * list N :=    (* both latest first; returns (all, deleted) latest first *)
  match all_rev, deleted_rev with
  | a :: ar, d :: dr => if a =? d then undelete_trailing ar dr else (all_rev, deleted_rev)
  | _, _ => (all_rev, deleted_rev)
  end.
