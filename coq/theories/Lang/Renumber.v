(* Lang/Renumber.v -- MODEL of BASIC renumbering (src/lang/linenum.rs Renumber::build_edits, the renumber() wrappers in
   src/lang/{applesoft,integer}/renumber.rs, src/lang/mod.rs apply_edits / replace_range).
   A program is seen as its rows: [None] for a blank row, [Some n] for a line whose primary number is n.  The line number
   nodes themselves (where they are, which are references) come from the tree-sitter walk and are inputs here.
   Part 1: the decision (selection, mapping old -> new, refusals, insert position).
   Part 2: applying a set of single-line replacements bottom-up.   No proofs here. *)
From A2 Require Import Base.Bytes.
Open Scope N_scope.

(* ---- sorted keys of a BTreeMap ---- *)
Fixpoint ins_key (x : N) (l : list N) : list N :=
  match l with [] => [x] | y :: r => if x <? y then x :: l else if x =? y then l else y :: ins_key x r end.
Definition keys_of (l : list N) : list N := fold_right ins_key [] l.
Fixpoint count_key (x : N) (l : list N) : nat := match l with [] => O | y :: r => ((if N.eqb x y then 1%nat else 0%nat) + count_key x r)%nat end.

(* rows with their numbers: (row index, number) for the non-blank rows *)
Fixpoint defs_from (row : N) (rows : list (option N)) : list (N * N) :=
  match rows with [] => [] | None :: r => defs_from (row + 1) r | Some n :: r => (row, n) :: defs_from (row + 1) r end.
Definition in_sel (s e row : N) : bool := (s <=? row) && (row <=? e).

Inductive decision :=
| Refused (why : N)        (* 1 nothing to change, 2 upper bound, 3 duplicate primary, 4 existing line within range, 5 move needed, 6 bad start/step *)
| Accepted (mapping : list (N * N)) (insert_row : N).

Fixpoint lookup_map (m : list (N * N)) (k : N) : option N :=
  match m with [] => None | (a, b) :: r => if a =? k then Some b else lookup_map r k end.
Fixpoint arith (l0 dl : N) (ks : list N) : list (N * N) := match ks with [] => [] | k :: r => (k, l0) :: arith (l0 + dl) dl r end.

(* the insert position: one past the last unselected row whose number is below the first new number ... *)
Definition insert_base (defs : list (N * N)) (s e l0 : N) : N :=
  fold_left (fun acc d => let '(row, p) := d in if negb (in_sel s e row) && (p <? l0) && (acc <=? row) then row + 1 else acc) defs 0.
(* ... pushed past blank rows *)
Fixpoint skip_blank (row : N) (rows : list (option N)) (ins : N) : N :=
  match rows with
  | [] => ins
  | r :: rest => skip_blank (row + 1) rest (if (ins =? row) && (match r with None => true | Some _ => false end) then ins + 1 else ins)
  end.

Definition build (rows : list (option N)) (s e l0 dl : N) (allow_move : bool) (maxn : N) : decision :=
  if (maxn <? l0) || (dl <? 1) || (maxn <? dl) then Refused 6 else
  let defs := defs_from 0 rows in
  let sel := filter (fun d => in_sel s e (fst d)) defs in
  let ks := keys_of (map snd sel) in
  match ks with
  | [] => Refused 1
  | _ =>
      let ln := l0 + dl * (lenN ks - 1) in
      if maxn <? ln then Refused 2
      else if existsb (fun d => Nat.ltb 1 (count_key (snd d) (map snd defs))) defs then Refused 3
      else if existsb (fun d => negb (in_sel s e (fst d)) && (l0 <=? snd d) && (snd d <=? ln)) defs then Refused 4
      else let ins := skip_blank 0 rows (insert_base defs s e l0) in
           if negb allow_move && negb (ins =? s) then Refused 5
           else Accepted (arith l0 dl ks) ins
  end.

(* the renumber() wrapper: rows of the first line with number >= beg and the last with number < end *)
Definition wrapper_rows (rows : list (option N)) (b e : N) : option (N * N) :=
  let defs := defs_from 0 rows in
  if existsb (fun d => Nat.ltb 1 (count_key (snd d) (map snd defs))) defs then None else
  let inr (d : N * N) := (b <=? snd d) && (snd d <? e) in
  let l0 := fold_left (fun acc d => if inr d && (fst d <? acc) then fst d else acc) defs 65536 in
  let ln := fold_left (fun acc d => if inr d && (acc <? fst d) then fst d else acc) defs 0 in
  if negb (existsb inr defs) || (ln <? l0) then None else Some (l0, ln).

Definition renumber (rows : list (option N)) (b e first step : N) (allow_move : bool) (maxn : N) : decision :=
  match wrapper_rows rows b e with
  | None => Refused 1
  | Some (s, t) => build rows s t first step allow_move maxn
  end.

(* the new numbers by row after an accepted request without move *)
Definition renumbered (rows : list (option N)) (m : list (N * N)) (s e : N) : list (option N) :=
  map (fun d => match d with
                | (row, Some n) => if in_sel s e row then (match lookup_map m n with Some v => Some v | None => Some n end) else Some n
                | (_, None) => None end)
      (combine (map N.of_nat (seq 0 (length rows))) rows).

(* ---- Part 2: replacements inside one line, applied from the right ---- *)
Definition edit := (nat * nat * list N)%type.     (* start column, end column, new text *)
Definition replace1 (line : list N) (e : edit) : list N := let '(c0, c1, t) := e in firstn c0 line ++ t ++ skipn c1 line.
Definition apply_right (line : list N) (es : list edit) : list N := fold_left replace1 (rev es) line.
(* what it should be: every range replaced by its text, everything else in place *)
Fixpoint subst_from (line : list N) (cur : nat) (es : list edit) : list N :=
  match es with
  | [] => skipn cur line
  | (c0, c1, t) :: r => firstn (c0 - cur) (skipn cur line) ++ t ++ subst_from line c1 r
  end.
Fixpoint edits_ok (cur len : nat) (es : list edit) : Prop :=
  match es with [] => True | (c0, c1, _) :: r => (cur <= c0 /\ c0 <= c1 /\ c1 <= len)%nat /\ edits_ok c1 len r end.
