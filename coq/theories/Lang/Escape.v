(* Lang/Escape.v -- MODEL of the escape codec shared by strings, REM and DATA:
   text -> bytes:  parse_escaped_ascii (src/lib.rs): left-to-right scan, a backslash followed by x and two hex digits
                   becomes that byte, any other ASCII character becomes its code (optionally capitalized / sign-flipped);
   bytes -> text:  applesoft::bytes_to_escaped_string_ex (src/lang/applesoft/mod.rs), with the default escapes [10,13]
                   and the three contexts used by Tokenizer::detokenize (str, tok_rem, tok_data);
                   integer::bytes_to_escaped_string_ex (src/lang/integer/mod.rs), default escapes [138,141],
                   plus the quote replacement done for strings in integer/tokenizer.rs.
   Characters and bytes are N.  No proofs here. *)
From A2 Require Import Base.Bytes.
Open Scope N_scope.

Definition is_hex (x : N) : bool :=
  ((48 <=? x) && (x <=? 57)) || ((65 <=? x) && (x <=? 70)) || ((97 <=? x) && (x <=? 102)).
Definition hexdig (d : N) : N := if d <? 10 then 48 + d else 87 + d.       (* lower case, as {:02x} *)
Definition hexval (c : N) : N := if c <=? 57 then c - 48 else if c <=? 70 then c - 55 else c - 87.
Definition esc_byte (b : N) : list N := [92; 120; hexdig (b / 16); hexdig (b mod 16)].
Definition starts_hex (t : list N) : bool :=
  match t with x :: h1 :: h2 :: _ => (x =? 120) && is_hex h1 && is_hex h2 | _ => false end.

(* ---- text -> bytes ---- *)
Definition upper (c : N) : N := if (97 <=? c) && (c <=? 122) then c - 32 else c.
Definition plain (inverted caps : bool) (c : N) : list N :=
  if c <? 128 then [(if caps then upper c else c) + (if inverted then 128 else 0)] else [].
Fixpoint unesc (inverted caps : bool) (skip : nat) (cs : list N) : list N :=
  match cs with
  | [] => []
  | c :: r =>
      match skip with
      | S k => unesc inverted caps k r
      | O => if (c =? 92) && starts_hex r
             then (match r with _ :: h1 :: h2 :: _ => 16 * hexval h1 + hexval h2 | _ => 0 end) :: unesc inverted caps 3 r
             else plain inverted caps c ++ unesc inverted caps 0 r
      end
  end.

(* ---- Applesoft bytes -> text; ctx 0 = str, 1 = tok_rem, 2 = tok_data; q counts quotes seen ---- *)
Definition as_stop (ctx q b : N) : bool :=
  match ctx with
  | 2 => (b =? 0) || (N.even q && (b =? 58))
  | 1 => (b =? 0)
  | _ => (b =? 34) || (b =? 0)
  end.
Definition as_piece (b : N) (r : list N) : list N :=
  if b =? 92 then (if starts_hex r then [92; 120; 53; 99] else [92])
  else if (b =? 10) || (b =? 13) || (126 <? b) then esc_byte b else [b].
(* returns the text and the unconsumed bytes (starting at the terminator) *)
Fixpoint as_escape (ctx q : N) (bs : list N) : list N * list N :=
  match bs with
  | [] => ([], [])
  | b :: r => if as_stop ctx q b then ([], bs)
              else let '(e, rest) := as_escape ctx (if b =? 34 then q + 1 else q) r in (as_piece b r ++ e, rest)
  end.

(* ---- Integer BASIC bytes -> text; ctx 0 = string (terminators 29, 01), 1 = REM (terminator 01) ---- *)
Definition int_stop (ctx b : N) : bool :=
  match ctx with 1 => (b =? 1) | _ => (b =? 41) || (b =? 1) end.
Definition starts_hex_neg (r : list N) : bool :=
  match r with x :: h1 :: h2 :: _ => (x =? 248) && (128 <=? h1) && is_hex (h1 - 128) && (128 <=? h2) && is_hex (h2 - 128) | _ => false end.
Definition int_piece (ctx b : N) (r : list N) : list N :=
  if (b =? 220) && (3 <=? lenN r) then (if starts_hex_neg r then [92; 120; 100; 99] else [92])
  else if (b =? 138) || (b =? 141) || (254 <? b) || (b <? 128) || ((225 <=? b) && (b <=? 250)) then esc_byte b
  else if (ctx =? 0) && (b =? 162) then esc_byte 162      (* the quote replacement in the string branch *)
  else [b - 128].
Fixpoint int_escape (ctx : N) (bs : list N) : list N * list N :=
  match bs with
  | [] => ([], [])
  | b :: r => if int_stop ctx b then ([], bs)
              else let '(e, rest) := int_escape ctx r in (int_piece ctx b r ++ e, rest)
  end.
