From A2 Require Import Base.Bytes Lang.Tokens.
From Coq Require Import ZArith ZifyBool ZifyNat ZifyN.
Open Scope N_scope.

Lemma ROk_inj {A} (a b : A) : ROk a = ROk b -> a = b.
Proof. intros H. injection H. auto. Qed.

Definition body_ok (b : list N) : Prop := bytes b /\ Forall (fun x => x <> 0) b.
Definition lines_ok (ls : list line) : Prop := Forall (fun l => fst l < 65536 /\ body_ok (snd l)) ls.

Lemma take_until0_app body rest : Forall (fun x => x <> 0) body -> take_until0 (body ++ 0 :: rest) = (body, rest).
Proof.
  induction 1 as [|x r Hx Hr IH]; cbn; [reflexivity|]. destruct (N.eqb_spec x 0); [contradiction|]. rewrite IH. reflexivity.
Qed.

Lemma un_le16_app2 v rest : v < 65536 -> un_le16 (le16 v ++ rest) = v.
Proof. intros H. rewrite <- (un_le16_le16 v H) at 2. reflexivity. Qed.
Lemma le16_split v : v < 65536 -> exists a b, le16 v = [a; b] /\ a + 256 * b = v /\ a < 256 /\ b < 256.
Proof.
  intros H. exists (v mod 256), ((v / 256) mod 256). split; [reflexivity|].
  assert (E : (v / 256) mod 256 = v / 256) by (apply N.mod_small, N.div_lt_upper_bound; lia).
  rewrite E. pose proof (N.div_mod' v 256). pose proof (N.mod_lt v 256). assert (v / 256 < 256) by (apply N.div_lt_upper_bound; lia). lia.
Qed.

(* Applesoft: the assembled program is walked back into exactly the same lines by the detokenizer's line walk, for every
   load address and every program that fits below 64K *)
Theorem scan_asm_as ls : forall addr b, 0 < addr -> lines_ok ls -> asm_as addr ls = ROk b ->
  forall fuel, (length ls < fuel)%nat -> scan_as fuel b = ROk ls.
Proof.
  induction ls as [|[num body] r IH]; intros addr b Ha Hok Hasm fuel Hf.
  - cbn in Hasm. inversion Hasm; subst. destruct fuel; [cbn in Hf; lia|]. reflexivity.
  - cbn [asm_as] in Hasm. inversion Hok as [|? ? [Hn [Hb Hz]] Hr]; subst. cbn [fst snd] in *.
    destruct (N.leb_spec 65536 (addr + lenN body + 5)) as [|Hlt]; [discriminate|].
    destruct (asm_as (addr + lenN body + 5) r) as [rest| | |] eqn:Er; cbn [obind] in Hasm; try discriminate.
    inversion Hasm; subst; clear Hasm.
    destruct fuel as [|k]; [cbn in Hf; lia|]. cbn [scan_as app].
    destruct (le16_split (addr + lenN body + 5) Hlt) as [l0 [l1 [El [Hsum [Hl0 Hl1]]]]]. unfold le16 in El. inversion El as [[E0 E1]].
    destruct (le16_split num Hn) as [n0 [n1 [En [Hnsum [Hn0 Hn1]]]]]. unfold le16 in En. inversion En as [[F0 F1]].
    rewrite E0, E1, F0, F1.
    assert (Hnz : andb (N.eqb l0 0) (N.eqb l1 0) = false).
    { destruct (N.eqb_spec l0 0), (N.eqb_spec l1 0); try reflexivity. subst. lia. }
    rewrite Hnz. rewrite (take_until0_app body rest Hz).
    rewrite (IH (addr + lenN body + 5) rest) by (try assumption; try lia; cbn [length] in Hf; lia).
    cbn [obind]. rewrite Hnsum. reflexivity.
Qed.

(* every link field holds the address of the following line, the last one points at the 00 00 end marker *)
Fixpoint line_addrs (addr : N) (ls : list line) : list N :=
  match ls with [] => [addr] | (_, body) :: r => addr :: line_addrs (addr + lenN body + 5) r end.

Theorem links_ok ls : forall base addr b pre, 0 < addr -> lines_ok ls -> asm_as addr ls = ROk b -> addr = base + lenN pre ->
  forall fuel, (length ls < fuel)%nat -> follow_links fuel base addr (pre ++ b) = ROk (line_addrs addr ls).
Proof.
  induction ls as [|[num body] r IH]; intros base addr b pre Ha Hok Hasm Hpre fuel Hf.
  - cbn in Hasm. inversion Hasm; subst. destruct fuel; [cbn in Hf; lia|]. cbn [follow_links line_addrs].
    replace (N.ltb (base + lenN pre) base) with false by (symmetry; apply N.ltb_ge; lia).
    replace (base + lenN pre - base) with (lenN pre) by lia.
    assert (D : dropN (lenN pre) (pre ++ [0; 0]) = [0; 0]).
    { unfold dropN, lenN. rewrite Nat2N.id. rewrite skipn_app, Nat.sub_diag, skipn_all. reflexivity. }
    rewrite D. replace (N.ltb (lenN (pre ++ [0; 0])) (lenN pre + 2)) with false by (symmetry; apply N.ltb_ge; unfold lenN; rewrite app_length; cbn; lia).
    reflexivity.
  - cbn [asm_as] in Hasm. inversion Hok as [|? ? [Hn [Hb Hz]] Hr]; subst. cbn [fst snd] in *.
    destruct (N.leb_spec 65536 (base + lenN pre + lenN body + 5)) as [|Hlt]; [discriminate|].
    destruct (asm_as (base + lenN pre + lenN body + 5) r) as [rest| | |] eqn:Er; cbn [obind] in Hasm; try discriminate.
    apply ROk_inj in Hasm. subst b.
    destruct fuel as [|k]; [cbn in Hf; lia|]. cbn [follow_links line_addrs].
    replace (N.ltb (base + lenN pre) base) with false by (symmetry; apply N.ltb_ge; lia).
    replace (base + lenN pre - base) with (lenN pre) by lia.
    set (next := base + lenN pre + lenN body + 5) in *.
    assert (D : dropN (lenN pre) (pre ++ le16 next ++ le16 num ++ body ++ [0] ++ rest) = le16 next ++ le16 num ++ body ++ [0] ++ rest).
    { unfold dropN, lenN. rewrite Nat2N.id. rewrite skipn_app, Nat.sub_diag, skipn_all. reflexivity. }
    rewrite D. rewrite (un_le16_app2 next _ Hlt).
    replace (N.ltb (lenN (pre ++ le16 next ++ le16 num ++ body ++ [0] ++ rest)) (lenN pre + 2)) with false
      by (symmetry; apply N.ltb_ge; unfold lenN, le16; rewrite !app_length; cbn [length]; lia).
    replace (N.eqb next 0) with false by (symmetry; apply N.eqb_neq; lia).
    replace (pre ++ le16 next ++ le16 num ++ body ++ [0] ++ rest) with ((pre ++ le16 next ++ le16 num ++ body ++ [0]) ++ rest)
      by (rewrite <- !app_assoc; reflexivity).
    rewrite (IH base next rest (pre ++ le16 next ++ le16 num ++ body ++ [0])); try assumption; try lia.
    + reflexivity.
    + subst next. unfold lenN, le16. rewrite !app_length. cbn [length]. lia.
    + cbn [length] in Hf. lia.
Qed.

(* Integer BASIC: every length byte is the exact length of its line, every line ends in 01, and the lines are recovered *)
Theorem scan_asm_int ls : forall b, lines_ok ls -> asm_int ls = ROk b -> forall fuel, (length ls < fuel)%nat -> scan_int fuel b = ROk ls.
Proof.
  induction ls as [|[num body] r IH]; intros b Hok Hasm fuel Hf.
  - cbn in Hasm. inversion Hasm; subst. destruct fuel; [cbn in Hf; lia | reflexivity].
  - cbn [asm_int] in Hasm. inversion Hok as [|? ? [Hn [Hb Hz]] Hr]; subst. cbn [fst snd] in *.
    destruct (N.ltb_spec 255 (lenN body + 4)) as [|Hlen]; [discriminate|].
    destruct (asm_int r) as [rest| | |] eqn:Er; cbn [obind] in Hasm; try discriminate.
    apply ROk_inj in Hasm. subst b.
    destruct fuel as [|k]; [cbn in Hf; lia|]. cbn [scan_int app].
    replace (N.ltb (lenN body + 4) 4) with false by (symmetry; apply N.ltb_ge; lia).
    replace (lenN body + 4 - 1) with (lenN body + 3) by lia.
    set (ln := le16 num ++ body ++ [1]).
    assert (Lln : lenN ln = lenN body + 3) by (subst ln; unfold lenN, le16; rewrite !app_length; cbn [length]; lia).
    replace (le16 num ++ body ++ 1 :: rest) with (ln ++ rest) by (subst ln; rewrite <- !app_assoc; reflexivity).
    replace (N.ltb (lenN (ln ++ rest)) (lenN body + 3)) with false by (symmetry; apply N.ltb_ge; unfold lenN in *; rewrite app_length; lia).
    assert (T : takeN (lenN body + 3) (ln ++ rest) = ln).
    { unfold takeN. rewrite <- Lln. unfold lenN. rewrite Nat2N.id, firstn_app, Nat.sub_diag, firstn_all. cbn [firstn]. apply app_nil_r. }
    assert (Dr : dropN (lenN body + 3) (ln ++ rest) = rest).
    { unfold dropN. rewrite <- Lln. unfold lenN. rewrite Nat2N.id, skipn_app, Nat.sub_diag, skipn_all. reflexivity. }
    rewrite T, Dr.
    assert (Hlast : dnth ln (N.to_nat (lenN body + 4 - 2)) = 1).
    { subst ln. unfold dnth. replace (N.to_nat (lenN body + 4 - 2)) with (length (le16 num ++ body))%nat by (unfold lenN, le16; rewrite app_length; cbn [length]; lia).
      rewrite app_assoc. rewrite app_nth2 by lia. rewrite Nat.sub_diag. reflexivity. }
    rewrite Hlast. cbn [N.eqb negb]. change (N.eqb 1 1) with true. cbn [negb].
    rewrite (IH rest Hr eq_refl k) by (cbn [length] in Hf; lia). cbn [obind].
    f_equal. f_equal. f_equal.
    + subst ln. apply un_le16_app2, Hn.
    + subst ln. unfold slice. replace (lenN body + 4 - 4) with (lenN body) by lia.
      assert (D2 : dropN 2 (le16 num ++ body ++ [1]) = body ++ [1]) by reflexivity. rewrite D2.
      unfold takeN, lenN. rewrite Nat2N.id, firstn_app, Nat.sub_diag, firstn_all. cbn [firstn]. apply app_nil_r.
Qed.
