(* Lang/MinifyProofs.v *)
From A2 Require Import Base.Bytes Gen.TokMaps Gen.Guards Lang.Minify.
Open Scope N_scope.

Lemma is_prefix_app k : forall l m, is_prefix k l = true -> is_prefix k (l ++ m) = true.
Proof.
  induction k as [|x r IH]; intros l m H; [reflexivity|].
  destruct l as [|y q]; [discriminate|]. cbn [is_prefix app] in *. apply andb_prop in H as [A B]. rewrite A, (IH _ _ B). reflexivity.
Qed.
Lemma is_prefix_short k : forall l m, (length k <= length l)%nat -> is_prefix k (l ++ m) = is_prefix k l.
Proof.
  induction k as [|x r IH]; intros l m H; [reflexivity|].
  destruct l as [|y q]; cbn [length] in H; [lia|]. cbn [is_prefix app]. rewrite IH by lia. reflexivity.
Qed.

(* if the guard computation sees no hazard and the name itself is clean, no keyword starts anywhere inside the name *)
Lemma no_keyword_at_head v f : v <> [] -> hidden_from v f = false -> clean v = true ->
  forall k, In k keywords -> k <> [] -> is_prefix k (v ++ f) = false.
Proof.
  intros Hv H C k Hk Hne. destruct v as [|c rest]; [contradiction|].
  cbn [hidden_from] in H. apply orb_false_elim in H as [H _].
  cbn [clean] in C. apply andb_prop in C as [C _]. apply negb_true_iff in C.
  destruct (Nat.ltb_spec (length (c :: rest)) (length k)) as [L|L].
  - destruct (is_prefix k ((c :: rest) ++ f)) eqn:P; [|reflexivity].
    assert (X : existsb (fun k => Nat.ltb (length (c :: rest)) (length k) && is_prefix k ((c :: rest) ++ f)) keywords = true).
    { apply existsb_exists. exists k. split; [exact Hk|]. rewrite P. destruct (Nat.ltb_spec (length (c :: rest)) (length k)); [reflexivity|lia]. }
    congruence.
  - rewrite is_prefix_short by exact L.
    destruct (is_prefix k (c :: rest)) eqn:P; [|reflexivity].
    assert (X : existsb (fun k => Nat.leb (length k) (length (c :: rest)) && is_prefix k (c :: rest)) keywords = true).
    { apply existsb_exists. exists k. split; [exact Hk|]. rewrite P. destruct (Nat.leb_spec (length k) (length (c :: rest))); [reflexivity|lia]. }
    congruence.
Qed.

Lemma find_none_keywords l : (forall k, In k keywords -> k <> [] -> is_prefix k l = false) ->
  find (fun k => negb (Nat.eqb (length k) 0) && is_prefix k l) keywords = None.
Proof.
  intros H. destruct (find _ keywords) as [k|] eqn:F; [|reflexivity].
  apply find_some in F as [Hk Hp]. apply andb_prop in Hp as [A B].
  assert (k <> []) by (intros ->; discriminate). rewrite (H k Hk) in B by assumption. discriminate.
Qed.

(* "Shortened variable names never create a reserved word": when the guard sees no hazard, the machine reads the name
   character by character and then reads what follows exactly as it would on its own - for every following text *)
Theorem unguarded_name_is_read_plainly : forall v f fuel,
  hidden_from v f = false -> clean v = true -> (length v + length f < fuel)%nat ->
  crunch fuel (v ++ f) = map Chr v ++ crunch (fuel - length v) f.
Proof.
  induction v as [|c rest IH]; intros f fuel H C Hf.
  - cbn [app map length]. rewrite Nat.sub_0_r. reflexivity.
  - destruct fuel as [|n]; [cbn [length] in Hf; lia|].
    cbn [app crunch].
    rewrite (find_none_keywords (c :: rest ++ f)) by (change (c :: rest ++ f) with ((c :: rest) ++ f); apply no_keyword_at_head; [discriminate | exact H | exact C]).
    cbn [map app length Nat.sub]. f_equal.
    cbn [hidden_from] in H. apply orb_false_elim in H as [_ H].
    cbn [clean] in C. apply andb_prop in C as [_ C].
    apply IH; [exact H | exact C | cbn [length] in Hf; lia].
Qed.

(* conversely a hazard the guard reports is a real one: some keyword starting inside the name reaches beyond it *)
Theorem reported_hazard_is_real : forall v f, hidden_from v f = true ->
  exists s k, (s < length v)%nat /\ In k keywords /\ (length v - s < length k)%nat /\ is_prefix k (skipn s v ++ f) = true.
Proof.
  induction v as [|c rest IH]; intros f H; [discriminate|].
  cbn [hidden_from] in H. apply orb_prop in H as [H|H].
  - apply existsb_exists in H as (k & Hk & Hp). apply andb_prop in Hp as [A B]. apply Nat.ltb_lt in A.
    exists O, k. cbn [skipn]. repeat split; auto; cbn [length] in *; lia.
  - destruct (IH f H) as (s & k & Hs & Hk & Hl & Hp). exists (S s), k. cbn [skipn length]. repeat split; auto; lia.
Qed.

(* the guard table is covered by the computed guard: every (name, follower) pair of the table is a hazard the computation
   reports, so nothing the table protected has been lost *)
Fixpoint leqb_n (a b : list N) : bool := match a, b with [], [] => true | x :: r, y :: q => (x =? y) && leqb_n r q | _, _ => false end.
Definition tok_text (kind : list N) : list N :=
  match find (fun e => leqb_n (fst e) kind) as_tok_map with
  | Some (_, b) => match find (fun e => fst e =? b) as_detok_map with Some (_, t) => map upc t | None => [] end
  | None => []
  end.
Theorem table_covered_by_computation :
  forallb (fun e => forallb (fun kind => forms_hidden_token (fst e) (tok_text kind)) (snd e)) var_guards = true.
Proof. vm_compute. reflexivity. Qed.

(* ---------- line reference map ---------- *)
Lemma advance_spec : forall fuel d all deleted all', advance fuel d all deleted = Some all' ->
  exists x r, all' = x :: r /\ d < x /\ memNl x deleted = false /\ next_kept d all deleted = Some x.
Proof.
  induction fuel as [|n IH]; intros d all deleted all' H; [discriminate|].
  destruct all as [|x r]; [discriminate|]. cbn [advance] in H. cbn [next_kept].
  destruct (N.leb_spec x d) as [L|L]; cbn [orb] in H.
  - destruct (N.ltb_spec d x); [lia|]. cbn [andb]. apply IH. exact H.
  - destruct (memNl x deleted) eqn:M.
    + destruct (N.ltb_spec d x); [|lia]. cbn [negb andb]. apply IH. exact H.
    + injection H as <-. exists x, r. destruct (N.ltb_spec d x); [|lia]. cbn [negb andb]. auto.
Qed.

(* every deleted line is mapped to a line that exists after the deletions, lies after it, and is the first such line
   from where the cursor stands *)
Theorem ref_map_targets_exist : forall ds all deleted m, ref_map ds all deleted = Some m ->
  Forall (fun p => fst p < snd p /\ In (snd p) all /\ memNl (snd p) deleted = false) m /\ map fst m = ds.
Proof.
  induction ds as [|d rest IH]; intros all deleted m H; cbn [ref_map] in H.
  - injection H as <-. split; constructor.
  - destruct (advance (S (length all)) d all deleted) as [all'|] eqn:A; [|discriminate].
    destruct (advance_spec _ _ _ _ _ A) as (x & r & -> & Hlt & Hm & Hn).
    destruct (ref_map rest (x :: r) deleted) as [m'|] eqn:R; [|discriminate]. injection H as <-.
    destruct (IH _ _ _ R) as [F E]. split; [|cbn [map fst]; rewrite E; reflexivity].
    constructor.
    + cbn [fst snd]. repeat split; auto.
      clear -Hn. revert Hn. induction all as [|y q IHq]; cbn [next_kept]; [discriminate|].
      destruct ((d <? y) && negb (memNl y deleted)); intros Hn; [injection Hn as ->; left; reflexivity | right; auto].
    + eapply Forall_impl; [|exact F]. intros [a b] (P & Q & S). cbn [fst snd] in *. repeat split; auto.
      (* lines remaining after the cursor are lines of the whole program *)
      clear -A Q. revert A. generalize (S (length all)). intros fuel. revert all.
      induction fuel as [|n IHn]; intros all A; [discriminate|].
      destruct all as [|y q]; [discriminate|]. cbn [advance] in A.
      destruct ((y <=? d) || memNl y deleted); [right; apply IHn; exact A | injection A as E1 E2; subst; exact Q].
Qed.

(* ---------- the replacement is the FIRST kept line after the deleted one, seen from the whole program ---------- *)

Lemma next_kept_skip d pre : forall l del, Forall (fun x => x <= d \/ memNl x del = true) pre ->
  next_kept d (pre ++ l) del = next_kept d l del.
Proof.
  induction pre as [|x r IH]; intros l del H; [reflexivity|].
  inversion H as [|? ? Hx Hr]; subst. cbn [app next_kept].
  destruct Hx as [Hx|Hx].
  - destruct (N.ltb_spec d x); [lia|]. cbn [andb]. apply IH. exact Hr.
  - rewrite Hx. rewrite andb_false_r. apply IH. exact Hr.
Qed.

Lemma advance_split : forall fuel d all del all', advance fuel d all del = Some all' ->
  exists pre, all = pre ++ all' /\ Forall (fun x => x <= d \/ memNl x del = true) pre.
Proof.
  induction fuel as [|n IH]; intros d all del all' H; [discriminate|].
  destruct all as [|x r]; [discriminate|]. cbn [advance] in H.
  destruct (N.leb_spec x d) as [L|L]; cbn [orb] in H.
  - destruct (IH _ _ _ _ H) as (pre & -> & F). exists (x :: pre). split; [reflexivity|]. constructor; [left; exact L | exact F].
  - destruct (memNl x del) eqn:M.
    + destruct (IH _ _ _ _ H) as (pre & -> & F). exists (x :: pre). split; [reflexivity|]. constructor; [right; exact M | exact F].
    + injection H as <-. exists []. split; [reflexivity | constructor].
Qed.

Fixpoint ascending (l : list N) : Prop := match l with [] => True | x :: r => Forall (fun y => x <= y) r /\ ascending r end.

(* with the deleted lines visited in ascending order, each is mapped to the FIRST line of the whole program that comes
   after it and is not deleted *)
Theorem ref_map_is_next_kept : forall ds all deleted m pre cur,
  all = pre ++ cur -> ascending ds ->
  Forall (fun x => (forall d, In d ds -> x <= d) \/ memNl x deleted = true) pre ->
  ref_map ds cur deleted = Some m ->
  Forall (fun p => next_kept (fst p) all deleted = Some (snd p)) m.
Proof.
  induction ds as [|d rest IH]; intros all deleted m pre cur Hall Hasc Hpre H; cbn [ref_map] in H.
  - injection H as <-. constructor.
  - destruct (advance (S (length cur)) d cur deleted) as [cur'|] eqn:A; [|discriminate].
    destruct (advance_spec _ _ _ _ _ A) as (x & r & -> & Hlt & Hm & Hn).
    destruct (advance_split _ _ _ _ _ A) as (pre2 & Hcur & Hpre2).
    destruct (ref_map rest (x :: r) deleted) as [m'|] eqn:R; [|discriminate]. injection H as <-.
    cbn [ascending] in Hasc. destruct Hasc as [Hle Hasc'].
    constructor.
    + cbn [fst snd]. rewrite Hall. rewrite next_kept_skip; [exact Hn|].
      eapply Forall_impl; [|exact Hpre]. intros y [Hy|Hy]; [left; apply Hy; left; reflexivity | right; exact Hy].
    + apply (IH all deleted m' (pre ++ pre2) (x :: r)).
      * rewrite Hall, Hcur, app_assoc. reflexivity.
      * exact Hasc'.
      * apply Forall_app. split.
        -- eapply Forall_impl; [|exact Hpre]. intros y [Hy|Hy]; [left; intros d' Hd'; apply Hy; right; exact Hd' | right; exact Hy].
        -- eapply Forall_impl; [|exact Hpre2]. intros y [Hy|Hy]; [left | right; exact Hy].
           intros d' Hd'. rewrite Forall_forall in Hle. specialize (Hle d' Hd'). lia.
      * exact R.
Qed.
