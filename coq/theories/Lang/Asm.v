(* Lang/Asm.v -- MODEL of the instruction level of the Merlin disassembler and spot assembler, over the opcode tables
   regenerated from handbook/opcodes.json and handbook/operations.rs (Gen/Opcodes.v).
     disassembler: src/lang/merlin/disassembly.rs  is_instruction, push_instruction, try_data_run, disassemble
     assembler:    src/lang/merlin/assembly.rs     push_instruction (operand width from value, suffix, prefix; mode lookup with
                   padding; relative conversion), the block-move branch of visit
     handbook:     setup_modifiers, create_dasm_map / use_proposed_op, get_address_mode, rel_to_abs / abs_to_rel
   The text between the two (hex formatting of operands, labels, column layout, tree-sitter parse) is NOT modelled: an
   instruction is passed as the record [instr] holding exactly what survives the text: mnemonic, suffix, prefix, operand
   syntax (reduced mode) and value.  No proofs here. *)
From A2 Require Import Base.Bytes Gen.Opcodes.
Open Scope N_scope.

Definition memNb (x : N) (l : list N) : bool := existsb (N.eqb x) l.
Definition nthN {A} (l : list A) (i : N) (d : A) : A := nth (N.to_nat i) l d.

(* processors: 0 = 6502, 1 = 65c02, 2 = 65802, 3 = 65c816; masks in op_modes: 1, 2, 4, 8 *)
Definition proc_bit (p : N) : N := match p with 0 => 1 | 1 => 2 | 2 => 4 | _ => 8 end.
Definition in_mask (p mask : N) : bool := negb (N.land mask (proc_bit p) =? 0).

(* ---- handbook ---- *)
Definition has_mode (mn md : N) : bool := existsb (fun e => let '(a, b, _, _) := e in (a =? mn) && (b =? md)) op_modes.
Definition code_of (mn md : N) : option N :=
  match find (fun e => let '(a, b, _, _) := e in (a =? mn) && (b =? md)) op_modes with Some (_, _, c, _) => Some c | None => None end.
Definition is_jmp_jsr (mn : N) : bool := (mn =? mn_jmp) || (mn =? mn_jsr).
Definition abs_suffixable (mn : N) : bool := negb (is_jmp_jsr mn) && has_mode mn md_zp && has_mode mn md_abs.
Definition absl_suffixable (mn : N) : bool := negb (is_jmp_jsr mn) && has_mode mn md_abs && has_mode mn md_absl.
Definition absl_prefixable (mn : N) : bool := is_jmp_jsr mn.
Definition m_sens (mn : N) : bool := memNb mn m_status.
Definition x_sens (mn : N) : bool := memNb mn x_status.

(* create_dasm_map: one entry per opcode; where jmp/jml or jsr/jsl share an opcode the long form wins whatever the
   iteration order; any other sharing would make the map depend on hash order and is reported as None here *)
Definition matches (code : N) (e : N * N * N * N) : bool := let '(_, _, c, _) := e in c =? code.
Definition same_entry (e f : N * N * N * N) : bool := let '(a, b, _, _) := e in let '(a', b', _, _) := f in (a =? a') && (b =? b').
(* written with [find] only: a stuck [filter] makes the kernel's conversion check exponential *)
Definition dasm_entry (code : N) : option (N * N * N) :=
  match find (matches code) op_modes with
  | None => None
  | Some e1 =>
      match find (fun e => matches code e && negb (same_entry e e1)) op_modes with
      | None => let '(mn, md, _, mask) := e1 in Some (mn, md, mask)
      | Some e2 =>
          match find (fun e => matches code e && negb (same_entry e e1) && negb (same_entry e e2)) op_modes with
          | Some _ => None
          | None =>
              let '(mn1, md1, _, mask1) := e1 in let '(mn2, md2, _, mask2) := e2 in
              if ((mn1 =? mn_jmp) && (mn2 =? mn_jml)) || ((mn1 =? mn_jsr) && (mn2 =? mn_jsl)) then Some (mn2, md2, mask2)
              else if ((mn2 =? mn_jmp) && (mn1 =? mn_jml)) || ((mn2 =? mn_jsr) && (mn1 =? mn_jsl)) then Some (mn1, md1, mask1)
              else None
          end
      end
  end.

Definition rel_to_abs (pc rel n : N) : option N :=
  let h := 128 * (if n =? 1 then 1 else 256) in
  let f := 256 * (if n =? 1 then 1 else 256) in
  if rel <? h then (let d := rel + pc + n + 1 in if 65535 <? d then None else Some d)
  else if rel <? f then (if rel + pc + n + 1 <? f then None else let d := rel + pc + n + 1 - f in if 65535 <? d then None else Some d)
  else None.
Definition abs_to_rel (pc addr n : N) : option N :=
  let h := 128 * (if n =? 1 then 1 else 256) in
  let f := 256 * (if n =? 1 then 1 else 256) in
  let base := pc + n + 1 in
  if base <=? addr then (if addr - base <? h then Some (addr - base) else None)
  else (if base - addr <=? h then Some (f - (base - addr)) else None).

(* ---- what survives the text ---- *)
(* suffix: 0 none, 1 colon, 2 L.   prefix: 0 none, 1 greater-than, 2 hash *)
Record instr := mkinstr { i_mn : N; i_suf : N; i_pre : N; i_rmode : N; i_val : N }.
Inductive ditem :=
| DInstr (i : instr) (n : N)          (* instruction with n operand bytes *)
| DImplied (mn : N)                    (* no operand *)
| DMov (mn : N) (first second : N)     (* block move, operands as printed: $first,$second *)
| DRelData (n : N).                    (* branch out of the address space: listed as HEX, n bytes in all *)

Fixpoint le_val (l : list N) : N := match l with [] => 0 | b :: r => b + 256 * le_val r end.

(* is_instruction + push_instruction.  [rest] are the bytes after the opcode, [avail] how many of them are inside the range. *)
Definition dasm_decode (ent : option (N * N * N)) (proc : N) (m8 x8 : bool) (addr code : N) (rest : list N) (avail : N) : option ditem :=
  match ent with
  | None => None
  | Some (mn, md, mask) =>
      if negb (in_mask proc mask) then None
      else if code =? 0 then None                       (* BRK is data unless configured otherwise *)
      else let nb := nthN mode_bytes md 0 in
      if nb =? 255 then
        (if 2 <=? avail then Some (DMov mn (nthN rest 1 0) (nthN rest 0 0)) else None)
      else if nb =? 0 then Some (DImplied mn)
      else
        let wide := (md =? md_imm) && ((m_sens mn && negb m8) || (x_sens mn && negb x8)) in
        let n := nb + (if wide then 1 else 0) in
        if negb (n <=? avail) then None
        else
          let v := le_val (takeN n rest) in
          if (md =? md_rel) || (md =? md_rell) then
            match rel_to_abs addr v n with
            | None => Some (DRelData (n + 1))
            | Some dest => Some (DInstr (mkinstr mn 0 0 (nthN mode_reduced md 0) dest) n)
            end
          else
            let suf := if (n =? 2) && (v <? 256) && abs_suffixable mn then 1
                       else if (n =? 3) && (v <? 65536) && absl_suffixable mn then 2 else 0 in
            let pre := if (n =? 3) && absl_prefixable mn then 1 else if md =? md_imm then 2 else 0 in
            Some (DInstr (mkinstr mn suf pre (nthN mode_reduced md 0) v) n)
  end.
Definition dasm_one (proc : N) (m8 x8 : bool) (addr code : N) (rest : list N) (avail : N) : option ditem :=
  dasm_decode (dasm_entry code) proc m8 x8 addr code rest avail.

(* ---- assembler ---- *)
(* get_address_mode: the op's mode for this operand syntax and byte count, else a relative mode for plain addresses *)
Definition get_address_mode (mn rmode cnt : N) : option N :=
  match find (fun e => let '(r, c, _) := e in (r =? rmode) && (c =? cnt)) parsing_map with
  | Some (_, _, md) => if has_mode mn md then Some md
                       else if rmode =? rd_addr then (if has_mode mn md_rel then Some md_rel else if has_mode mn md_rell then Some md_rell else None) else None
  | None => if rmode =? rd_addr then (if has_mode mn md_rel then Some md_rel else if has_mode mn md_rell then Some md_rell else None) else None
  end.
Definition find_mode (mn rmode cnt : N) : option (N * N) :=      (* (mode, padding) *)
  match get_address_mode mn rmode cnt with
  | Some md => Some (md, 0)
  | None => match get_address_mode mn rmode (cnt + 1) with
            | Some md => Some (md, 1)
            | None => match get_address_mode mn rmode (cnt + 2) with Some md => Some (md, 2) | None => None end
            end
  end.

(* the byte range of the value that is written, before the mode lookup.  [wc] = 1, 2 or 3: bytes the value needs *)
Definition asm_range (v8 : bool) (proc : N) (m8 x8 : bool) (i : instr) (wc : N) : N * N :=
  let e0 := wc in
  let e1 := if e0 =? 1 then (if v8 then (if negb (i_suf i =? 0) then 2 else 1)            (* Merlin 8: any suffix but D *)
                             else (if i_suf i =? 1 then 2 else 1))                          (* others: any suffix but L *)
            else e0 in
  let e2 := if (negb v8 || (proc =? 2)) && (i_suf i =? 2) then 3 else e1 in
  let is16 := (negb x8 && x_sens (i_mn i)) || (negb m8 && m_sens (i_mn i)) in
  let sh := if i_pre i =? 1 then 1 else 0 in              (* eval_imm_prefix: the prefix > shifts the byte range *)
  if i_rmode i =? rd_data then (if i_mn i =? mn_pea then (sh, 2 + sh) else (sh, 1 + sh))
  else if i_mn i =? mn_brl then (0, 2)
  else if (i_mn i =? mn_jml) && (i_rmode i =? rd_addr) then (0, 3)
  else if (i_mn i =? mn_jml) && (i_rmode i =? rd_iaddr) then (0, 2)
  else if i_mn i =? mn_jsl then (0, 3)
  else if i_pre i =? 2 then (if is16 then (0, 2) else (0, 1))
  else if i_pre i =? 1 then (0, 3)
  else (0, e2).

Definition width_class (v : N) : N := if 65535 <? v then 3 else if 255 <? v then 2 else 1.
Definition le4 (v : N) : list N := [v mod 256; (v / 256) mod 256; (v / 65536) mod 256; (v / 16777216) mod 256].

(* everything but the operand bytes: Some (opcode, mode, beg, end) or None = refused *)
Definition asm_shape (v8 : bool) (proc : N) (m8 x8 : bool) (i : instr) (wc : N) : option (N * N * N * N) :=
  let '(b, e) := asm_range v8 proc m8 x8 i wc in
  if ((proc =? 0) || (proc =? 1)) && (b + 2 <? e) then None
  else match find_mode (i_mn i) (i_rmode i) (e - b) with
       | None => None
       | Some (md, pad) => match code_of (i_mn i) md with
                           | None => None
                           | Some c => Some (c, md, b, e + pad)
                           end
       end.

Definition asm_instr (v8 : bool) (proc : N) (m8 x8 : bool) (pc : N) (i : instr) : outcome (list N) :=
  match asm_shape v8 proc m8 x8 i (width_class (i_val i)) with
  | None => RErr 1
  | Some (c, md, b, e) =>
      if (md =? md_rel) || (md =? md_rell) then
        let n := if md =? md_rel then 1 else 2 in
        let target := (i_val i) mod 65536 + (n - 1) * 65536 * ((i_val i / 65536) mod 256) in
        match abs_to_rel pc target n with
        | None => RErr 2
        | Some r => ROk (c :: takeN n (le4 r))
        end
      else ROk (c :: slice (le4 (i_val i)) b (e - b))
  end.

(* an instruction without operand: the first of the op's accum / impl / s modes *)
Definition asm_implied (mn : N) : outcome (list N) :=
  match find (fun e => let '(a, b, _, _) := e in (a =? mn) && ((b =? md_accum) || (b =? md_impl) || (b =? md_s))) op_modes with
  | Some (_, _, c, _) => ROk [c]
  | None => RErr 1
  end.

(* block move: opcode, then the two operands in reverse of the printed order *)
Definition asm_mov (mn first second : N) : outcome (list N) :=
  match code_of mn md_xyc with Some c => ROk [c; second; first] | None => RErr 1 end.

(* ---- data runs (try_data_run) ---- *)
Definition is_alphanum (c off : N) : bool :=
  ((64 + off <? c) && (c <=? 90 + off)) || ((96 + off <? c) && (c <=? 122 + off)) || ((48 + off <=? c) && (c <=? 57 + off)).
Definition probably_string (c off : N) : bool := is_alphanum c off || (c =? 32 + off) || (c =? 44 + off) || (c =? 46 + off).

Record trackers := mktr { t_pos : N * bool; t_neg : N * bool; t_uni : N * bool; t_p2 : N * bool; t_p4 : N * bool }.
Definition alive (t : trackers) : bool := snd (t_pos t) || snd (t_neg t) || snd (t_uni t) || snd (t_p2 t) || snd (t_p4 t).
Definition track (t : trackers) (k : N) (c : N) (prev : list N) : trackers :=      (* prev: earlier bytes, latest first *)
  let str (s : N * bool) off := if snd s then (if probably_string c off then (fst s + 1, true) else (fst s, false)) else s in
  let pat (s : N * bool) d := if snd s && (d - 1 <? k) && (c =? nthN prev (d - 1) 256) then (fst s + 1, true)
                              else if d - 1 <? k then (fst s, false) else s in
  mktr (str (t_pos t) 0) (str (t_neg t) 128) (pat (t_uni t) 1) (pat (t_p2 t) 2) (pat (t_p4 t) 4).
Fixpoint scan_run (bs : list N) (k : N) (prev : list N) (t : trackers) : trackers :=
  match bs with
  | [] => t
  | c :: r => if alive t then scan_run r (k + 1) (c :: prev) (track t k c prev) else t
  end.

(* kind: 1 DS, 2 pattern of 2, 3 pattern of 4, 4 positive string, 5 negative string, 0 nothing (a DFB follows);
   length of the run; 1 if a terminating byte (00, or a character of the other sign: DCI) is taken as well *)
Definition data_run_ex (bs : list N) : N * N * N :=
  let t := scan_run bs 0 [] (mktr (0, true) (0, true) (0, true) (0, true) (0, true)) in
  let uni := if 0 <? fst (t_uni t) then fst (t_uni t) + 1 else 0 in
  let p2 := if 0 <? fst (t_p2 t) then (fst (t_p2 t) + 2) - (fst (t_p2 t) + 2) mod 2 else 0 in
  let p4 := if 0 <? fst (t_p4 t) then (fst (t_p4 t) + 4) - (fst (t_p4 t) + 4) mod 4 else 0 in
  let pos := fst (t_pos t) in
  let neg := fst (t_neg t) in
  let extra (len off : N) := match nth_error bs (N.to_nat len) with
                             | Some la => if (la =? 0) || probably_string la off then 1 else 0
                             | None => 0 end in
  if (0 <? uni) && (p2 <=? uni) && (p4 <=? uni) && (pos <=? uni) && (neg <=? uni) then (1, uni, 0)
  else if (0 <? p2) && (p4 <=? p2) && (pos <=? p2) && (neg <=? p2) then (2, p2, 0)
  else if (pos <? p4) && (neg <? p4) then (3, p4, 0)
  else if neg <? pos then (4, pos, extra pos 128)
  else if 0 <? neg then (5, neg, extra neg 0)
  else (0, 0, 0).
Definition data_run (bs : list N) : N * N := let '(k, l, e) := data_run_ex bs in (k, l + e).

(* ---- the disassembly loop: sizes of the successive lines (LUP/HEX/--^ triples count once) ---- *)
Definition item_size (it : ditem) : N :=
  match it with DInstr _ n => n + 1 | DImplied _ => 1 | DMov _ _ _ => 3 | DRelData n => n end.
Fixpoint dasm_sizes (fuel : nat) (proc : N) (m8 x8 : bool) (addr : N) (bs : list N) : outcome (list N) :=
  match fuel with
  | O => RFuel
  | S k =>
      match bs with
      | [] => ROk []
      | code :: rest =>
          let sz := match dasm_one proc m8 x8 addr code rest (lenN rest) with
                    | Some it => item_size it
                    | None => let '(_, n) := data_run bs in if n =? 0 then 1 else n
                    end in
          if lenN bs <? sz then RPanic 1          (* would slice past the range *)
          else do r <- dasm_sizes k proc m8 x8 (addr + sz) (dropN sz bs); ROk (sz :: r)
      end
  end.
