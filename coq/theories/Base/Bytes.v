(* Base/Bytes.v -- bytes as N, range predicates, finite sweeps, indexing helpers.
   Model-support file: definitions and their basic lemmas (stdlib only). *)
From Coq Require Export NArith List Lia Bool Arith.
From Coq Require Import ZifyBool ZifyNat ZifyN.
Export ListNotations.
Open Scope N_scope.

Arguments N.add : simpl never.
Arguments N.sub : simpl never.
Arguments N.mul : simpl never.
Arguments N.div : simpl never.
Arguments N.modulo : simpl never.
Arguments N.land : simpl never.
Arguments N.lor : simpl never.
Arguments N.lxor : simpl never.
Arguments N.shiftl : simpl never.
Arguments N.shiftr : simpl never.
Arguments N.eqb : simpl never.
Arguments N.ltb : simpl never.
Arguments N.leb : simpl never.

Notation bytes d := (Forall (fun b : N => b < 256) d).

(* Result type that makes the implementation's panics and loop caps explicit *)
Inductive outcome (A : Type) : Type :=
| ROk (a : A)
| RErr (code : N)      (* an error *return* of the implementation *)
| RPanic (code : N)    (* index out of range / overflow / unwrap / explicit panic! *)
| RFuel.               (* a loop that the implementation does not bound *)
Arguments ROk {A} a.
Arguments RErr {A} code.
Arguments RPanic {A} code.
Arguments RFuel {A}.

Definition obind {A B} (x : outcome A) (f : A -> outcome B) : outcome B :=
  match x with ROk a => f a | RErr c => RErr c | RPanic c => RPanic c | RFuel => RFuel end.
Notation "'do' x <- e ; k" := (obind e (fun x => k)) (at level 200, x name, e at level 100, k at level 200).
Notation "'do' ' p <- e ; k" := (obind e (fun p => k)) (at level 200, p pattern, e at level 100, k at level 200).

(* ---- enumeration of small ranges and sweeps ---- *)
Definition below (n : nat) : list N := map N.of_nat (seq 0 n).

Lemma below_in n v : v < N.of_nat n -> In v (below n).
Proof.
  intros H. unfold below. apply in_map_iff. exists (N.to_nat v). split; [lia|].
  apply in_seq. lia.
Qed.

Lemma sweep1 (P : N -> bool) n : forallb P (below n) = true -> forall v, v < N.of_nat n -> P v = true.
Proof. intros H v Hv. rewrite forallb_forall in H. apply H, below_in, Hv. Qed.

Lemma sweep2 (P : N -> N -> bool) n m :
  forallb (fun a => forallb (P a) (below m)) (below n) = true ->
  forall a b, a < N.of_nat n -> b < N.of_nat m -> P a b = true.
Proof.
  intros H a b Ha Hb. rewrite forallb_forall in H. specialize (H a (below_in _ _ Ha)).
  rewrite forallb_forall in H. apply H, below_in, Hb.
Qed.

Lemma sweep3 (P : N -> N -> N -> bool) n m k :
  forallb (fun a => forallb (fun b => forallb (P a b) (below k)) (below m)) (below n) = true ->
  forall a b c, a < N.of_nat n -> b < N.of_nat m -> c < N.of_nat k -> P a b c = true.
Proof.
  intros H a b c Ha Hb Hc. rewrite forallb_forall in H. specialize (H a (below_in _ _ Ha)).
  rewrite forallb_forall in H. specialize (H b (below_in _ _ Hb)).
  rewrite forallb_forall in H. apply H, below_in, Hc.
Qed.

(* ---- boolean NoDup ---- *)
Fixpoint nodupb (l : list N) : bool :=
  match l with [] => true | x :: r => andb (negb (existsb (N.eqb x) r)) (nodupb r) end.
Lemma nodupb_NoDup l : nodupb l = true -> NoDup l.
Proof.
  induction l as [|x r IH]; cbn [nodupb]; intros H; [constructor|].
  apply andb_true_iff in H. destruct H as [H1 H2]. constructor; [|apply IH, H2].
  intros Hin. apply negb_true_iff in H1. assert (E : existsb (N.eqb x) r = true).
  { apply existsb_exists. exists x. split; [exact Hin | apply N.eqb_refl]. }
  congruence.
Qed.

(* ---- indexing with default 0 ---- *)
Definition dnth (d : list N) (i : nat) : N := nth i d 0.

Lemma dnth_map f d i : f 0 = 0 -> dnth (map f d) i = f (dnth d i).
Proof.
  intros Hf. unfold dnth. revert i. induction d as [|x d IH]; intros [|i]; cbn [map nth]; auto.
Qed.

Lemma dnth_bytes d i : bytes d -> dnth d i < 256.
Proof.
  intros H. unfold dnth. destruct (Nat.lt_ge_cases i (length d)) as [Hi|Hi].
  - rewrite Forall_forall in H. apply H, nth_In, Hi.
  - rewrite nth_overflow by exact Hi. lia.
Qed.

Lemma list_eq_dnth (a b : list N) :
  length a = length b -> (forall i, (i < length a)%nat -> dnth a i = dnth b i) -> a = b.
Proof.
  revert b. induction a as [|x a IH]; intros [|y b] Hl H; cbn in Hl; try discriminate; auto.
  f_equal.
  - apply (H 0%nat). cbn. lia.
  - apply IH; [lia|]. intros i Hi. apply (H (S i)). cbn. lia.
Qed.

Lemma map_seq_dnth d : map (dnth d) (seq 0 (length d)) = d.
Proof.
  apply list_eq_dnth.
  - rewrite map_length, seq_length. reflexivity.
  - intros i Hi. rewrite map_length, seq_length in Hi.
    unfold dnth at 1. rewrite (nth_indep _ 0 (dnth d 0)) by (rewrite map_length, seq_length; exact Hi).
    rewrite map_nth, seq_nth by exact Hi. reflexivity.
Qed.

(* ---- little endian packing ---- *)
Definition le16 (v : N) : list N := [v mod 256; (v / 256) mod 256].
Definition le32 (v : N) : list N := [v mod 256; (v / 256) mod 256; (v / 65536) mod 256; (v / 16777216) mod 256].
Definition un_le16 (l : list N) : N := dnth l 0 + 256 * dnth l 1.
Definition un_le32 (l : list N) : N := dnth l 0 + 256 * dnth l 1 + 65536 * dnth l 2 + 16777216 * dnth l 3.

Lemma un_le16_le16 v : v < 65536 -> un_le16 (le16 v) = v.
Proof.
  intros H. unfold un_le16, le16, dnth. cbn [nth].
  rewrite (N.mod_small (v / 256) 256) by (apply N.div_lt_upper_bound; lia).
  pose proof (N.div_mod' v 256). lia.
Qed.

(* take/drop on N counts *)
Definition takeN {A} (n : N) (l : list A) := firstn (N.to_nat n) l.
Definition dropN {A} (n : N) (l : list A) := skipn (N.to_nat n) l.
Definition lenN {A} (l : list A) : N := N.of_nat (length l).
Definition repeatN {A} (x : A) (n : N) : list A := repeat x (N.to_nat n).

(* replace the slice [off, off+len data) of l by data (only when it fits) *)
Definition splice (l : list N) (off : N) (data : list N) : list N :=
  takeN off l ++ data ++ dropN (off + lenN data) l.

Lemma splice_length l off data :
  off + lenN data <= lenN l -> length (splice l off data) = length l.
Proof.
  unfold splice, takeN, dropN, lenN. intros H.
  rewrite !app_length, firstn_length, skipn_length. lia.
Qed.

Definition slice (l : list N) (off len : N) : list N := takeN len (dropN off l).

Lemma slice_splice_same l off data :
  off + lenN data <= lenN l -> slice (splice l off data) off (lenN data) = data.
Proof.
  unfold slice, splice, takeN, dropN, lenN. intros H.
  rewrite skipn_app. rewrite firstn_length.
  replace (N.to_nat off - Nat.min (N.to_nat off) (length l))%nat with 0%nat by lia.
  rewrite skipn_all2 by (rewrite firstn_length; lia).
  cbn [app skipn]. rewrite firstn_app. rewrite Nat2N.id. rewrite firstn_all.
  replace (length data - length data)%nat with 0%nat by lia. cbn [firstn]. apply app_nil_r.
Qed.
