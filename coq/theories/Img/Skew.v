(* Img/Skew.v -- MODEL of the block -> physical-sector address maps of every container
   (src/img/dsk_do.rs, woz.rs get_ts_list, dsk_img.rs, imd.rs/td0.rs read_block, fs/mod.rs get_lsecs,
   bios/skew.rs cpm_blocking / fat_blocking / ts_from_prodos_block) over the GENERATED tables.
   A cell is (cyl, head, physical sector id, offset in sector, length).  No proofs here. *)
From A2 Require Import Base.Bytes Gen.Tables Gen.SkewTabs.
Open Scope N_scope.

Definition cell := (N * N * N * N * N)%type.

Definition tbl (t : list N) (i : N) : N := dnth t (N.to_nat i).
(* first index holding v (length of the table when absent) *)
Fixpoint index_of (t : list N) (v : N) : N :=
  match t with [] => 0 | x :: r => if N.eqb x v then 0 else 1 + index_of r v end.

Definition rangeN (a n : N) : list N := map (fun i => a + N.of_nat i) (seq 0 (N.to_nat n)).

(* ---- Apple 5.25in 16 sector ---- *)
(* DO image: data is stored by DOS logical sector; the sector API maps physical p to logical
   DOS_PSEC_TO_DOS_LSEC[p], so logical s lives at the physical sector whose table entry is s *)
Definition do_phys (lsec : N) : N := index_of dos_psec_to_dos_lsec lsec.
Definition do_cells_do (t s : N) : list cell := [(t, 0, do_phys s, 0, 256)].
Definition do_cells_po (b : N) : list cell :=
  let t := b / 8 in
  [(t, 0, do_phys (tbl prodos_sector1 (b mod 8)), 0, 256); (t, 0, do_phys (tbl prodos_sector2 (b mod 8)), 0, 256)].
Definition do_cells_cpm (b bsh off : N) : list cell :=
  map (fun k => let lsec := 1 + k mod 32 in
                (off + k / 32, 0, do_phys (tbl cpm_lsec_to_dos_lsec (lsec - 1)), tbl cpm_lsec_to_dos_offset (lsec - 1), 128))
      (rangeN (b * 2 ^ bsh) (2 ^ bsh)).

(* NIB / WOZ1 / WOZ2 image *)
Definition woz_cells_do (t s : N) : list cell := [(t, 0, tbl dos_lsec_to_dos_psec s, 0, 256)].
Definition woz_cells_po (b : N) : list cell :=
  let t := b / 8 in
  [(t, 0, tbl dos_lsec_to_dos_psec (tbl prodos_sector1 (b mod 8)), 0, 256);
   (t, 0, tbl dos_lsec_to_dos_psec (tbl prodos_sector2 (b mod 8)), 0, 256)].
Definition woz_cells_cpm (b bsh off : N) : list cell :=
  flat_map (fun k => let lsec := 1 + k mod 32 in
                     if N.eqb (lsec mod 2) 0 then [(off + k / 32, 0, tbl cpm_lsec_to_dos_psec (lsec - 1), 0, 256)] else [])
           (rangeN (b * 2 ^ bsh) (2 ^ bsh)).

(* split every cell into 128-byte records so that differently sized cells can be compared *)
Definition records (cs : list cell) : list cell :=
  flat_map (fun c => let '(cy, h, s, o, l) := c in map (fun i => (cy, h, s, o + 128 * i, 128)) (rangeN 0 (l / 128))) cs.

(* ---- Apple 13 sector: D13 image and nibble images agree by identity ---- *)
Definition d13_cells (t s : N) : list cell := [(t, 0, s, 0, 256)].

(* ---- Apple 3.5in: block -> (track, sector) through the zone tables ---- *)
Definition zone_of (bounds : list N) (b : N) : option N :=
  if N.ltb b (tbl bounds 1) then Some 0 else if N.ltb b (tbl bounds 2) then Some 1 else if N.ltb b (tbl bounds 3) then Some 2
  else if N.ltb b (tbl bounds 4) then Some 3 else if N.ltb b (tbl bounds 5) then Some 4 else None.
Definition po35_ts (sides : N) (b : N) : option (N * N) :=
  let bounds := if N.eqb sides 1 then zone_bounds_1 else zone_bounds_2 in
  match zone_of bounds b with
  | None => None
  | Some z => let rel := b - tbl bounds z in let spt := tbl zoned_secs_per_track z in
              Some ((16 * sides) * z + rel / spt, rel mod spt)
  end.
(* WOZ track index -> (cyl, head): 800K uses track = 2*cyl + head *)
Definition woz35_cells (sides b : N) : list cell :=
  match po35_ts sides b with
  | None => []
  | Some (trk, sec) => [(trk / sides, trk mod sides, sec, 0, 512)]
  end.

(* ---- IBM / FAT blocks: get_lsecs + fat_blocking ---- *)
Definition fat_cells (spt heads secsize s1 n : N) : list cell :=
  map (fun k => let trk := k / spt in
                (trk / heads, (if N.eqb heads 1 then 0 else trk mod heads), 1 + k mod spt, 0, secsize))
      (rangeN s1 n).
(* IMG flat offset of a sector *)
Definition img_offset (spt heads secsize cyl head sec : N) : N := ((cyl * heads + head) * spt + sec - 1) * secsize.

(* ---- CP/M blocks on IMD / TD0: get_lsecs(spt << shift), cpm_blocking, get_skew ---- *)
Definition cpm_cells (skew0 skew1 : list N) (spt shift heads : N) (b bsh off : N) : list cell :=
  let rpt := spt * 2 ^ shift in   (* 128-byte records per track *)
  flat_map (fun k => let lsec := 1 + k mod rpt in
                     if N.eqb (lsec mod 2 ^ shift) 0 then
                       let trk := off + k / rpt in
                       let head := if N.eqb heads 1 then 0 else trk mod heads in
                       let sk := if N.eqb head 0 then skew0 else skew1 in
                       [(trk / heads, head, tbl sk ((lsec - 1) / 2 ^ shift), 0, 128 * 2 ^ shift)]
                     else [])
           (rangeN (b * 2 ^ bsh) (2 ^ bsh)).

(* ---- abstract physical disk and writes through cells ---- *)
Definition pdisk := list (N * N * N * list N).   (* association list (cyl,head,sec) -> content, newest first *)
Definition key_eqb (a b : N * N * N) : bool :=
  let '(a1, a2, a3) := a in let '(b1, b2, b3) := b in andb (N.eqb a1 b1) (andb (N.eqb a2 b2) (N.eqb a3 b3)).
Fixpoint pd_get (pd : pdisk) (k : N * N * N) (size : N) : list N :=
  match pd with
  | [] => repeatN 0 size
  | (c, h, s, d) :: r => if key_eqb (c, h, s) k then d else pd_get r k size
  end.
(* write data into the cells in order; each cell consumes its length from the data *)
Fixpoint write_cells (pd : pdisk) (size : N) (cs : list cell) (data : list N) : pdisk :=
  match cs with
  | [] => pd
  | (c, h, s, o, l) :: r =>
      let old := pd_get pd (c, h, s) size in
      write_cells ((c, h, s, splice old o (takeN l data)) :: pd) size r (dropN l data)
  end.
Definition read_cells (pd : pdisk) (size : N) (cs : list cell) : list N :=
  flat_map (fun c => let '(cy, h, s, o, l) := c in slice (pd_get pd (cy, h, s) size) o l) cs.

(* look up the skew table get_skew(head) returns for a kind (identifier as character codes) *)
Fixpoint list_eqb (a b : list N) : bool :=
  match a, b with [], [] => true | x :: r, y :: q => andb (N.eqb x y) (list_eqb r q) | _, _ => false end.
Fixpoint skew_lookup (tab : list (list N * N * list N)) (ident : list N) (head : N) : option (list N) :=
  match tab with
  | [] => None
  | (k, h, t) :: r => if andb (list_eqb k ident) (orb (N.eqb h 255) (N.eqb h head)) then Some t else skew_lookup r ident head
  end.
Definition cpm_cells_kind (tab : list (list N * N * list N)) (ident : list N) (spt shift heads b bsh off : N) : option (list cell) :=
  match skew_lookup tab ident 0, skew_lookup tab ident 1 with
  | Some s0, Some s1 => Some (cpm_cells s0 s1 spt shift heads b bsh off)
  | _, _ => None
  end.
