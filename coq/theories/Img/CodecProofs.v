(* Img/CodecProofs.v -- proofs about Img/Codec.v *)
From A2 Require Import Base.Bytes Gen.Tables Img.Codec.
From Coq Require Import ZArith ZifyBool ZifyNat ZifyN.
Open Scope N_scope.

(* the table in woz.rs IS the reflected CRC-32 table (poly 0xEDB88320), all 256 entries *)
Lemma crc32_table_ok : crc32_tab = map crc32_entry (below 256).
Proof. vm_compute. reflexivity. Qed.

Lemma uniform_spec l : uniform l = true -> forall x, In x l -> x = dnth l 0.
Proof.
  destruct l as [|a r]; cbn; [tauto|]. intros H x [<-|Hx]; [reflexivity|].
  rewrite forallb_forall in H. symmetry. apply N.eqb_eq, H, Hx.
Qed.
Lemma uniform_repeat l : uniform l = true -> l = repeat (dnth l 0) (length l).
Proof.
  intros H. pose proof (uniform_spec l H) as Hs. generalize (dnth l 0) Hs. clear. intros v Hs.
  induction l as [|a r IH]; cbn; [reflexivity|]. f_equal; [apply Hs; left; reflexivity | apply IH; intros x Hx; apply Hs; right; exact Hx].
Qed.

Lemma concat_repeat_pair (v : N) n : concat (repeat [v; v] n) = repeat v (2 * n).
Proof. induction n as [|k IH]; cbn; [reflexivity|]. rewrite IH. replace (k + S (k + 0))%nat with (S (2 * k)) by lia. reflexivity. Qed.

Lemma td0_rep_single size h v k : 0 < size -> size = 2 * h -> h < 65536 ->
  td0_rep (S (S k)) size [] [h mod 256; h / 256; v; v] = ROk (repeat v (N.to_nat size)).
Proof.
  intros H0 H2 Hh. cbn [td0_rep].
  destruct (N.leb_spec size (lenN (@nil N))) as [Hle|_]; [unfold lenN in Hle; cbn in Hle; lia|].
  assert (Hc : h mod 256 + 256 * (h / 256) = h) by (pose proof (N.div_mod' h 256); lia).
  rewrite Hc, app_nil_l, concat_repeat_pair.
  destruct (N.leb_spec size (lenN (repeat v (2 * N.to_nat h)))) as [_|Hgt]; [|unfold lenN in Hgt; rewrite repeat_length in Hgt; lia].
  f_equal. f_equal. lia.
Qed.

(* TD0: every sector content of a legal size survives pack / unpack, uniform (compressed) or not *)
Theorem td0_unpack_pack size dat :
  In size [128; 256; 512; 1024; 2048; 4096; 8192] -> lenN dat = size -> bytes dat ->
  exists p, td0_pack size dat = ROk p /\ td0_unpack size p = ROk dat.
Proof.
  intros Hsz Hl Hb. unfold td0_pack. rewrite Hl, N.eqb_refl. cbn [negb].
  assert (Hs : 128 <= size <= 8192) by (cbn in Hsz; lia).
  assert (Heven : size = 2 * (size / 2)) by (cbn in Hsz; destruct Hsz as [<-|[<-|[<-|[<-|[<-|[<-|[<-|[]]]]]]]]; reflexivity).
  destruct (uniform dat) eqn:Eu.
  - eexists. split; [reflexivity|].
    rewrite (N.mod_small size 65536) by lia.
    set (h := size / 2) in *.
    assert (Hh : h < 65536) by (subst h; apply N.div_lt_upper_bound; lia).
    assert (Hh1 : (h / 256) mod 256 = h / 256) by (apply N.mod_small, N.div_lt_upper_bound; lia).
    unfold le16. rewrite Hh1. cbn [app]. unfold td0_unpack. cbn [length].
    rewrite (td0_rep_single size h (dnth dat 0) 3) by lia.
    unfold lenN. rewrite repeat_length, N2Nat.id, N.eqb_refl. f_equal.
    rewrite (uniform_repeat dat Eu) at 2. f_equal. unfold lenN in Hl. lia.
  - eexists. split; [reflexivity|].
    unfold le16. cbn [app]. unfold td0_unpack.
    replace (N.ltb (lenN dat) size) with false by (symmetry; apply N.ltb_ge; lia).
    assert (E : takeN size dat = dat) by (unfold takeN; rewrite <- Hl; unfold lenN; rewrite Nat2N.id; apply firstn_all).
    rewrite E, Hl, N.eqb_refl. reflexivity.
Qed.

(* IMD: expanding the compressed form of any in-memory track gives the track back, for every sector size
   and every mix of data / no-data sectors, uniform or not *)
Lemma takeN_app_exact (a b : list N) n : lenN a = n -> takeN n (a ++ b) = a.
Proof. intros H. unfold takeN. subst n. unfold lenN. rewrite Nat2N.id. rewrite firstn_app, Nat.sub_diag, firstn_all. cbn. apply app_nil_r. Qed.
Lemma dropN_app_exact (a b : list N) n : lenN a = n -> dropN n (a ++ b) = b.
Proof. intros H. unfold dropN. subst n. unfold lenN. rewrite Nat2N.id. rewrite skipn_app, Nat.sub_diag, skipn_all. reflexivity. Qed.

Theorem imd_expand_compress size secs :
  128 <= size -> Forall (imd_sec_ok size) secs ->
  exists c, imd_compress size (length secs) (imd_flat secs) = ROk c /\ imd_expand size (length secs) c = ROk (imd_flat secs).
Proof.
  intros Hsz. induction 1 as [|[code dat] r Hok Hr IH]; [exists []; split; reflexivity|].
  destruct IH as [cr [IH1 IH2]]. unfold imd_flat in *. cbn [length flat_map fst snd imd_compress app].
  destruct Hok as [[Hc Hd]|[Hc [Hl Hb]]]; cbn [fst snd] in Hc; try cbn [fst snd] in Hd; try cbn [fst snd] in Hl; try cbn [fst snd] in Hb.
  - subst. cbn [imd_sec_size app]. replace (1 - 1) with 0 by lia.
    replace (N.ltb (lenN (flat_map (fun s => fst s :: snd s) r)) 0) with false by (symmetry; apply N.ltb_ge; lia).
    unfold takeN, dropN. cbn [N.to_nat firstn skipn]. cbn [uniform andb]. replace (N.ltb 2 1) with false by reflexivity. cbn [andb].
    rewrite IH1. cbn [obind]. eexists. split; [reflexivity|].
    cbn [app imd_expand imd_sec_size]. replace (1 - 1) with 0 by lia.
    replace (N.ltb (lenN cr) 0) with false by (symmetry; apply N.ltb_ge; lia).
    replace (N.eqb 1 2) with false by reflexivity. unfold takeN, dropN. cbn [N.to_nat firstn skipn obind]. rewrite IH2. reflexivity.
  - assert (Hss : imd_sec_size size code = Some (1 + size)) by (destruct Hc as [-> | [-> | [-> | ->]]]; reflexivity).
    rewrite Hss. replace (1 + size - 1) with size by lia.
    replace (N.ltb (lenN (dat ++ flat_map (fun s => fst s :: snd s) r)) size) with false
      by (symmetry; apply N.ltb_ge; unfold lenN in *; rewrite app_length; lia).
    rewrite (takeN_app_exact dat _ size Hl), (dropN_app_exact dat _ size Hl). rewrite IH1. cbn [obind].
    replace (N.ltb 2 (1 + size)) with true by (symmetry; apply N.ltb_lt; lia). cbn [andb].
    destruct (uniform dat) eqn:Eu.
    + eexists. split; [reflexivity|].
      assert (Hcm : (code + 1) mod 256 = code + 1) by (apply N.mod_small; destruct Hc as [-> | [-> | [-> | ->]]]; lia).
      rewrite Hcm. cbn [app imd_expand].
      assert (Hs2 : imd_sec_size size (code + 1) = Some 2) by (destruct Hc as [-> | [-> | [-> | ->]]]; reflexivity).
      rewrite Hs2. replace (2 - 1) with 1 by lia.
      replace (N.ltb (lenN (dnth dat 0 :: cr)) 1) with false by (symmetry; apply N.ltb_ge; unfold lenN; cbn [length]; lia).
      unfold takeN, dropN. change (N.to_nat 1) with 1%nat. cbn [firstn skipn]. change (N.eqb 2 2) with true. cbv iota.
      replace (N.eqb (code + 1) 0) with false by (symmetry; apply N.eqb_neq; lia).
      cbn [obind dnth nth]. rewrite IH2. cbn [obind]. f_equal. cbn [app]. f_equal; [lia|]. f_equal.
      unfold repeatN. rewrite (uniform_repeat dat Eu) at 2. f_equal. unfold lenN in Hl. lia.
    + eexists. split; [reflexivity|]. cbn [app imd_expand]. rewrite Hss. replace (1 + size - 1) with size by lia.
      replace (N.ltb (lenN (dat ++ cr)) size) with false by (symmetry; apply N.ltb_ge; unfold lenN in *; rewrite app_length; lia).
      rewrite (takeN_app_exact dat _ size Hl), (dropN_app_exact dat _ size Hl).
      replace (N.eqb (1 + size) 2) with false by (symmetry; apply N.eqb_neq; lia). cbn [obind]. rewrite IH2. reflexivity.
Qed.

(* 2MG: the offsets and lengths written by to_bytes point exactly at the appended strings *)
Theorem dot2mg_offsets_ok hdr data comment creator :
  lenN hdr = 48 ->
  let b := dot2mg_bytes hdr data comment creator in
  let '(doff, coff, roff) := dot2mg_offsets (lenN data) (lenN comment) (lenN creator) in
  slice b doff (lenN data) = data
  /\ (comment <> [] -> slice b coff (lenN comment) = comment)
  /\ (creator <> [] -> slice b roff (lenN creator) = creator)
  /\ lenN b = 64 + lenN data + lenN comment + lenN creator.
Proof.
  intros Hh. unfold dot2mg_bytes, dot2mg_offsets.
  set (pre := takeN 24 hdr ++ le32 64 ++ le32 (lenN data) ++ le32 (if N.eqb (lenN comment) 0 then 0 else 64 + lenN data) ++ le32 (lenN comment)
              ++ le32 (if N.eqb (lenN creator) 0 then 0 else 64 + lenN data + lenN comment) ++ le32 (lenN creator) ++ repeatN 0 16).
  assert (Hpre : lenN pre = 64).
  { subst pre. unfold lenN, takeN, le32, repeatN in *. rewrite !app_length, firstn_length, repeat_length. cbn [length]. lia. }
  replace (takeN 24 hdr ++ le32 64 ++ le32 (lenN data) ++ le32 (if N.eqb (lenN comment) 0 then 0 else 64 + lenN data) ++ le32 (lenN comment)
      ++ le32 (if N.eqb (lenN creator) 0 then 0 else 64 + lenN data + lenN comment) ++ le32 (lenN creator) ++ repeatN 0 16 ++ data ++ comment ++ creator)
    with (pre ++ data ++ comment ++ creator) by (subst pre; rewrite <- !app_assoc; reflexivity).
  cbv zeta. split; [|split; [|split]].
  - unfold slice. rewrite (dropN_app_exact pre _ 64 Hpre). apply takeN_app_exact. reflexivity.
  - intros Hc. assert (E : N.eqb (lenN comment) 0 = false) by (apply N.eqb_neq; destruct comment; [congruence | unfold lenN; cbn; lia]).
    rewrite E. unfold slice. rewrite app_assoc. rewrite (dropN_app_exact (pre ++ data) _ (64 + lenN data)).
    + apply takeN_app_exact. reflexivity.
    + unfold lenN in *. rewrite app_length. lia.
  - intros Hc. assert (E : N.eqb (lenN creator) 0 = false) by (apply N.eqb_neq; destruct creator; [congruence | unfold lenN; cbn; lia]).
    rewrite E. unfold slice. rewrite !app_assoc. rewrite (dropN_app_exact ((pre ++ data) ++ comment) _ (64 + lenN data + lenN comment)).
    + unfold takeN, lenN. rewrite Nat2N.id. apply firstn_all.
    + unfold lenN in *. rewrite !app_length. lia.
  - unfold lenN in *. rewrite !app_length. lia.
Qed.
