(* Img/Track525.v -- MODEL of a formatted 5.25in GCR track as src/img/disk525.rs `format` lays it
   out and as `encode_sector` rewrites it; rendering to the packed track buffer that
   DiskImage::get_track_buf returns.  No proofs here. *)
From A2 Require Import Base.Bytes Gen.Tables Img.Nibble.
Open Scope N_scope.

Record fmt525 := {
  f_is13 : bool;
  f_adr_prolog : list N; f_adr_epilog : list N; f_adr_seed : N;
  f_dat_prolog : list N; f_dat_epilog : list N; f_dat_seed : N;
}.

Definition fmt16 : fmt525 := {|
  f_is13 := false;
  f_adr_prolog := adr_std16_prolog; f_adr_epilog := adr_std16_epilog; f_adr_seed := adr_std16_chk_seed;
  f_dat_prolog := dat_std16_prolog; f_dat_epilog := dat_std16_epilog; f_dat_seed := dat_std16_chk_seed |}.
Definition fmt13 : fmt525 := {|
  f_is13 := true;
  f_adr_prolog := adr_std13_prolog; f_adr_epilog := adr_std13_epilog; f_adr_seed := adr_std13_chk_seed;
  f_dat_prolog := dat_std13_prolog; f_dat_epilog := dat_std13_epilog; f_dat_seed := dat_std13_chk_seed |}.

Definition sectors_of (f : fmt525) : nat := if f_is13 f then N.to_nat fmt53_sectors else N.to_nat fmt62_sectors.

(* the address written in the idx-th address field of the track *)
Definition sec_addr (f : fmt525) (idx : nat) : N :=
  if f_is13 f then dnth dos32_physical idx else N.of_nat idx.

Definition addr_field (f : fmt525) (vol trk sec : N) : list N :=
  f_adr_prolog f ++ enc44 vol ++ enc44 trk ++ enc44 sec
    ++ enc44 (N.lxor (N.lxor (N.lxor (f_adr_seed f) vol) trk) sec) ++ f_adr_epilog f.

Definition sync_gap (sync : nat) (n : N) : list bool :=
  concat (repeat (sync_bits_of sync) (N.to_nat n)).

(* data area of one sector: [None] only occurs on 13-sector tracks before the first write *)
Definition data_area (f : fmt525) (sync : nat) (d : option (list N)) : list bool :=
  match d with
  | None => sync_gap sync gap_mid ++ bytes_bits (repeat 255 417)
  | Some dat =>
      sync_gap sync gap_mid ++ bytes_bits (f_dat_prolog f)
        ++ bytes_bits (if f_is13 f then encode53 (f_dat_seed f) dat else encode62 (f_dat_seed f) dat)
        ++ bytes_bits (f_dat_epilog f)
  end.

Definition sector_bits (f : fmt525) (sync : nat) (vol trk : N) (datas : N -> option (list N)) (idx : nat) : list bool :=
  let sec := sec_addr f idx in
  bytes_bits (addr_field f vol trk sec) ++ data_area f sync (datas sec) ++ sync_gap sync gap_close.

Definition track_bits (f : fmt525) (sync : nat) (vol trk : N) (datas : N -> option (list N)) : list bool :=
  sync_gap sync gap_lead ++ flat_map (sector_bits f sync vol trk datas) (seq 0 (sectors_of f)).

(* pack bits MSB first; a trailing partial byte keeps the fill value in its low bits *)
Fixpoint take_bits (n : nat) (acc : N) (l : list bool) : N * list bool :=
  match n with
  | O => (acc, l)
  | S n' => match l with
            | [] => (acc, [])
            | b :: r => take_bits n' (N.lor (N.land acc (N.lxor 255 (N.shiftl 1 (N.of_nat n')))) (if b then N.shiftl 1 (N.of_nat n') else 0)) r
            end
  end.

Fixpoint pack_bits (fuel : nat) (fill : N) (l : list bool) : list N :=
  match fuel with
  | O => []
  | S fu => match l with
            | [] => []
            | _ => let '(b, r) := take_bits 8 fill l in b :: pack_bits fu fill r
            end
  end.

Definition track_buf (f : fmt525) (sync : nat) (fill : N) (buf_len : N) (vol trk : N) (datas : N -> option (list N)) : list N :=
  let bits := track_bits f sync vol trk datas in
  let packed := pack_bits (S (length bits)) fill bits in
  packed ++ repeatN fill (buf_len - lenN packed).

Definition bit_count_525 (f : fmt525) (sync : N) : N :=
  let sectors := if f_is13 f then fmt53_sectors else fmt62_sectors in
  let nibs := if f_is13 f then fmt53_data_nibs else fmt62_data_nibs in
  gap_lead * sync + sectors * ((3 + 8 + 3) * 8 + gap_mid * sync + (3 + nibs + 3) * 8 + gap_close * sync).

(* initial content: 16-sector tracks are formatted with zeroed data fields, 13-sector with none *)
Definition init_datas (f : fmt525) : N -> option (list N) :=
  fun _ => if f_is13 f then None else Some (repeat 0 256).

Definition pad256 (d : list N) : list N := firstn 256 (d ++ repeat 0 256).

Definition upd_datas (datas : N -> option (list N)) (sec : N) (d : list N) : N -> option (list N) :=
  fun s => if N.eqb s sec then Some (pad256 d) else datas s.

(* sector read as the data model sees it: missing data field => zeros *)
Definition read_datas (datas : N -> option (list N)) (sec : N) : list N :=
  match datas sec with Some d => d | None => repeat 0 256 end.

(* one case of the correspondence stream: a list of (sector, data) writes on one track of a fresh image *)
Definition run_track (is13 : bool) (sync : nat) (fill : N) (buf_len : N) (vol trk : N) (writes : list (N * list N)) : list N :=
  let f := if is13 then fmt13 else fmt16 in
  let datas := fold_left (fun ds w => upd_datas ds (fst w) (snd w)) writes (init_datas f) in
  track_buf f sync fill buf_len vol trk datas.
