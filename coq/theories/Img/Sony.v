(* Img/Sony.v -- MODEL of the 3.5 inch (Sony GCR) sector data field: src/img/disk35.rs encode_sector_62 / decode_sector_62.
   524 bytes (12 tag bytes + 512 data bytes) are run through three rotating checksums, each byte is XORed with one of them,
   the results are split 6&2 into nibbles (three bytes -> four nibbles, the two high bits of each collected in the first),
   followed by the three checksums in the same form, and mapped through the disk byte table regenerated from disk35.rs.
   No proofs here. *)
From A2 Require Import Base.Bytes Gen.Tables Img.Nibble.
Open Scope N_scope.

Definition senc := tab_enc disk_bytes_62_35 63.
Definition sinv := tab_inv disk_bytes_62_35.

(* state: the three checksums as the loop carries them (chk1 and chk2 may hold a carry in bit 8) *)
Definition st3 := (N * N * N)%type.

(* first part of a round: rotate chk0, take d0 and d1.  Returns p0 p1 and the state (c0, c1 with carry, c2) *)
Definition round_a (s : st3) (d0 d1 : N) : N * N * st3 :=
  let '(c0, c1, c2) := s in
  let c0a := (N.land c0 255) * 2 in
  let c0b := if 0 <? N.land c0a 256 then c0a + 1 else c0a in
  let c2a := c2 + d0 in
  let c2b := if 0 <? N.land c0b 256 then c2a + 1 else c2a in
  let c0c := if 0 <? N.land c0b 256 then N.land c0b 255 else c0b in
  let p0 := N.land (N.lxor d0 c0c) 255 in
  let c1a := c1 + d1 in
  let c1b := if 255 <? c2b then c1a + 1 else c1a in
  let c2c := if 255 <? c2b then N.land c2b 255 else c2b in
  let p1 := N.land (N.lxor d1 c2c) 255 in
  (p0, p1, (c0c, c1b, c2c)).
(* second part: take d2 *)
Definition round_b (s : st3) (d2 : N) : N * st3 :=
  let '(c0, c1, c2) := s in
  let c0d := c0 + d2 in
  let c0e := if 255 <? c1 then c0d + 1 else c0d in
  let c1c := if 255 <? c1 then N.land c1 255 else c1 in
  let p2 := N.land (N.lxor d2 c1c) 255 in
  (p2, (c0e, c1c, c2)).
Definition mask3 (s : st3) : st3 := let '(c0, c1, c2) := s in (N.land c0 255, N.land c1 255, N.land c2 255).

(* bytes -> (p0,p1,p2) triples and the final checksums; the last triple has no third byte (p2 = 0) *)
Fixpoint enc_parts (s : st3) (dat : list N) : list (N * N * N) * st3 :=
  match dat with
  | d0 :: d1 :: rest =>
      let '(p0, p1, s1) := round_a s d0 d1 in
      match rest with
      | [] => ([(p0, p1, 0)], mask3 s1)
      | d2 :: rest' => let '(p2, s2) := round_b s1 d2 in
                       let '(ps, f) := enc_parts s2 rest' in ((p0, p1, p2) :: ps, f)
      end
  | _ => ([], mask3 s)
  end.

(* the decoder recovers each byte with the same checksum, before the carry bit is masked off (it casts to u8 instead) *)
Definition unround_a (s : st3) (p0 p1 : N) : N * N * st3 :=
  let '(c0, c1, c2) := s in
  let c0a := (N.land c0 255) * 2 in
  let c0b := if 0 <? N.land c0a 256 then c0a + 1 else c0a in
  let d0 := N.land (N.lxor p0 c0b) 255 in
  let c2a := c2 + d0 in
  let c2b := if 0 <? N.land c0b 256 then c2a + 1 else c2a in
  let c0c := if 0 <? N.land c0b 256 then N.land c0b 255 else c0b in
  let d1 := N.land (N.lxor p1 c2b) 255 in
  let c1a := c1 + d1 in
  let c1b := if 255 <? c2b then c1a + 1 else c1a in
  let c2c := if 255 <? c2b then N.land c2b 255 else c2b in
  (d0, d1, (c0c, c1b, c2c)).
Definition unround_b (s : st3) (p2 : N) : N * st3 :=
  let '(c0, c1, c2) := s in
  let d2 := N.land (N.lxor p2 c1) 255 in
  let c0d := c0 + d2 in
  let c0e := if 255 <? c1 then c0d + 1 else c0d in
  let c1c := if 255 <? c1 then N.land c1 255 else c1 in
  (d2, (c0e, c1c, c2)).
Fixpoint dec_parts (s : st3) (ps : list (N * N * N)) : list N * st3 :=
  match ps with
  | [] => ([], mask3 s)
  | (p0, p1, p2) :: r =>
      let '(d0, d1, s1) := unround_a s p0 p1 in
      match r with
      | [] => ([d0; d1], mask3 s1)
      | _ => let '(d2, s2) := unround_b s1 p2 in
             let '(ds, f) := dec_parts s2 r in (d0 :: d1 :: d2 :: ds, f)
      end
  end.

(* 6&2: three bytes -> four 6 bit values *)
Definition twos_of (p0 p1 p2 : N) : N :=
  N.lor (N.lor (N.shiftr (N.land p0 192) 2) (N.shiftr (N.land p1 192) 4)) (N.shiftr (N.land p2 192) 6).
Fixpoint nibs_of (ps : list (N * N * N)) : list N :=
  match ps with
  | [] => []
  | [(p0, p1, p2)] => [twos_of p0 p1 p2; N.land p0 63; N.land p1 63]
  | (p0, p1, p2) :: r => twos_of p0 p1 p2 :: N.land p0 63 :: N.land p1 63 :: N.land p2 63 :: nibs_of r
  end.
Definition chk_nibs (f : st3) : list N :=
  let '(c0, c1, c2) := f in
  [N.lor (N.lor (N.shiftr (N.land c0 192) 6) (N.shiftr (N.land c1 192) 4)) (N.shiftr (N.land c2 192) 2); N.land c2 63; N.land c1 63; N.land c0 63].
Definition sony_encode (dat : list N) : list N :=
  let '(ps, f) := enc_parts (0, 0, 0) dat in map senc (nibs_of ps ++ chk_nibs f).

(* decoding: n triples with four nibbles and a last one with three, then four checksum nibbles *)
Definition part_of (n twos : N) (sh : N) : N := N.lor n (N.land ((N.shiftl twos sh) mod 256) 192).
Fixpoint parts_of (full : nat) (vs : list N) : list (N * N * N) * list N :=
  match full with
  | O => match vs with
         | t :: n0 :: n1 :: rest => ([(part_of n0 t 2, part_of n1 t 4, part_of 0 t 6)], rest)
         | _ => ([], vs)
         end
  | S k => match vs with
           | t :: n0 :: n1 :: n2 :: rest => let '(ps, r) := parts_of k rest in ((part_of n0 t 2, part_of n1 t 4, part_of n2 t 6) :: ps, r)
           | _ => ([], vs)
           end
  end.
(* RErr 1 invalid disk byte, RErr 2 checksum *)
Definition sony_decode (full : nat) (nibs : list N) : outcome (list N) :=
  if existsb (fun b => N.eqb (sinv b) 255) nibs then RErr 1
  else
    let vs := map sinv nibs in
    let '(ps, rest) := parts_of full vs in
    let '(ds, f) := dec_parts (0, 0, 0) ps in
    match rest with
    | [t; n2; n1; n0] =>
        let '(c0, c1, c2) := f in
        if (c0 =? part_of n0 t 6) && (c1 =? part_of n1 t 4) && (c2 =? part_of n2 t 2) then ROk ds else RErr 2
    | _ => RErr 2
    end.
