(* Img/Nibble.v -- MODEL of the 5.25in nibble codecs of src/img/disk525.rs
   (encode_44/decode_44, encode_sector_62/decode_sector_62, encode_sector_53/decode_sector_53)
   over the GENERATED tables.  No proofs here. *)
From A2 Require Import Base.Bytes Gen.Tables.
Open Scope N_scope.

Definition ERR_INVALID_BYTE : N := 1.
Definition ERR_BAD_CHECKSUM : N := 2.

(* ---- 4&4 ---- *)
Definition enc44 (v : N) : list N := [N.lor (N.shiftr v 1) 170; N.lor v 170].
Definition dec44 (a b : N) : N := N.land (N.lor ((N.shiftl a 1) mod 256) 1) b.

(* ---- table codecs: enc masks the value as encode_62/encode_53 do; the inverse table is built
   exactly as invert_62/invert_53 build it (255 = INVALID, later entries win) ---- *)
Definition tab_enc (tab : list N) (mask : N) (v : N) : N := dnth tab (N.to_nat (N.land v mask)).
Definition tab_inv (tab : list N) (b : N) : N :=
  fold_left (fun acc i => if N.eqb (dnth tab (N.to_nat i)) b then i else acc) (below (length tab)) invalid_nib_byte_525.

Definition enc62 := tab_enc disk_bytes_62_525 63.
Definition inv62 := tab_inv disk_bytes_62_525.
Definition enc53 := tab_enc disk_bytes_53_525 31.
Definition inv53 := tab_inv disk_bytes_53_525.

(* ---- XOR checksum chain ---- *)
Fixpoint chain (s : N) (xs : list N) : list N :=
  match xs with
  | [] => [s]
  | x :: r => N.lxor x s :: chain x r
  end.

(* running decode: returns the running checksum after each nibble and the final checksum *)
Fixpoint unchain (inv : N -> N) (s : N) (es : list N) : option (list N) :=
  match es with
  | [] => Some []
  | e :: r =>
      let v := inv e in
      if N.eqb v invalid_nib_byte_525 then None
      else let c := N.lxor s v in
           match unchain inv c r with Some l => Some (c :: l) | None => None end
  end.

(* ---- 6&2 ---- *)
Definition swap2 (v : N) : N := N.lor (N.shiftl (N.land v 1) 1) (N.shiftr (N.land v 2) 1).
Definition pack3 (a b c : N) : N := N.lor a (N.lor (N.shiftl b 2) (N.shiftl c 4)).
Definition fld (c : N) (k : nat) : N := N.land (N.shiftr c (2 * N.of_nat k)) 3.

Definition two_at (d : list N) (j : nat) : N :=
  pack3 (swap2 (N.land (dnth d (85 - j)) 3)) (swap2 (N.land (dnth d (171 - j)) 3)) (swap2 (N.land (dnth d (257 - j)) 3)).
Definition top62 (d : list N) (i : nat) : N := N.shiftr (dnth d i) 2.

(* values in stream order: twos[85..0] then top[0..255] *)
Definition vals62 (d : list N) : list N :=
  map (fun i => two_at d (85 - i)) (seq 0 86) ++ map (top62 d) (seq 0 256).

Definition encode62 (seed : N) (d : list N) : list N := map enc62 (chain seed (vals62 d)).

Definition byte62 (vals : list N) (i : nat) : N :=
  N.lor ((N.shiftl (dnth vals (86 + i)) 2) mod 256)
        (swap2 (fld (dnth vals (Nat.modulo i 86)) (Nat.div i 86))).

Definition decode62 (seed verify : N) (nibs : list N) : outcome (list N) :=
  match unchain inv62 seed nibs with
  | None => RErr ERR_INVALID_BYTE
  | Some vals =>
      if andb (negb (N.eqb verify 0)) (negb (N.eqb (dnth vals 342) 0)) then RErr ERR_BAD_CHECKSUM
      else ROk (map (byte62 vals) (seq 0 256))
  end.

(* ---- 5&3 ---- *)
Definition bit (v : N) (k : N) : N := N.land (N.shiftr v k) 1.

(* threes[m] for m < 153: j = m mod 51 , k = m / 51 , source group i = 50 - j *)
Definition three_at (d : list N) (m : nat) : N :=
  if Nat.eqb m 153 then N.land (dnth d 255) 7
  else let j := Nat.modulo m 51 in let k := Nat.div m 51 in let i := (50 - j)%nat in
       N.lor (N.shiftl (N.land (dnth d (5 * i + k)) 7) 2)
             (N.lor (N.shiftl (bit (dnth d (5 * i + 3)) (2 - N.of_nat k)) 1)
                    (bit (dnth d (5 * i + 4)) (2 - N.of_nat k))).
Definition top53 (d : list N) (m : nat) : N :=
  if Nat.eqb m 255 then N.shiftr (dnth d 255) 3
  else let j := Nat.modulo m 51 in let k := Nat.div m 51 in N.shiftr (dnth d (5 * (50 - j) + k)) 3.

Definition vals53 (d : list N) : list N :=
  map (fun i => three_at d (153 - i)) (seq 0 154) ++ map (top53 d) (seq 0 256).

Definition encode53 (seed : N) (d : list N) : list N := map enc53 (chain seed (vals53 d)).

(* vals: running values; threes[i] = vals[153 - i] ; base[i] = vals[154+i] << 3 *)
Definition byte53 (vals : list N) (n : nat) : N :=
  let threes i := dnth vals (153 - i) in
  let base i := (N.shiftl (dnth vals (154 + i)) 3) mod 256 in
  if Nat.eqb n 255 then N.lor (base 255%nat) (N.land (threes 153%nat) 7)
  else
    let i := (50 - Nat.div n 5)%nat in
    let k := Nat.modulo n 5 in
    let t1 := threes i in let t2 := threes (51 + i)%nat in let t3 := threes (102 + i)%nat in
    match k with
    | 0%nat => N.lor (base i) (N.land (N.shiftr t1 2) 7)
    | 1%nat => N.lor (base (51 + i)%nat) (N.land (N.shiftr t2 2) 7)
    | 2%nat => N.lor (base (102 + i)%nat) (N.land (N.shiftr t3 2) 7)
    | 3%nat => N.lor (base (153 + i)%nat)
                 (N.land (N.lor (N.shiftl (N.land t1 2) 1) (N.lor (N.land t2 2) (N.shiftr (N.land t3 2) 1))) 7)
    | _ => N.lor (base (204 + i)%nat)
                 (N.land (N.lor (N.shiftl (N.land t1 1) 2) (N.lor (N.shiftl (N.land t2 1) 1) (N.land t3 1))) 7)
    end.

Definition decode53 (seed verify : N) (nibs : list N) : outcome (list N) :=
  match unchain inv53 seed nibs with
  | None => RErr ERR_INVALID_BYTE
  | Some vals =>
      if andb (negb (N.eqb verify 0)) (negb (N.eqb (dnth vals 410) 0)) then RErr ERR_BAD_CHECKSUM
      else ROk (map (byte53 vals) (seq 0 256))
  end.

(* ---- bit level helpers shared with the track model ---- *)
Definition byte_bits (b : N) : list bool := map (fun k => N.testbit b (N.of_nat (7 - k))) (seq 0 8).
Definition bytes_bits (l : list N) : list bool := flat_map byte_bits l.
(* an n-bit sync byte: the first n bits of FF 00 *)
Definition sync_bits_of (n : nat) : list bool := firstn n (bytes_bits [255; 0]).
