From A2 Require Import Base.Bytes Gen.Tables Img.Nibble Img.NibbleProofs.
From A2 Require Import Img.Sony.
Open Scope N_scope.

(* ---------- masking and XOR ---------- *)
Lemma land255 x : N.land x 255 = x mod 256.
Proof. change 255 with (N.ones 8). rewrite N.land_ones. reflexivity. Qed.
Lemma land255_small x : x < 256 -> N.land x 255 = x.
Proof. intros H. rewrite land255. apply N.mod_small. exact H. Qed.
Lemma mask_if x : (if 255 <? x then N.land x 255 else x) = N.land x 255.
Proof. destruct (N.ltb_spec 255 x) as [|H]; [reflexivity|]. symmetry. apply land255_small. lia. Qed.
Lemma land_lxor_distr_l a b c : N.land (N.lxor a b) c = N.lxor (N.land a c) (N.land b c).
Proof. apply N.bits_inj. intros n. rewrite N.land_spec, !N.lxor_spec, !N.land_spec. destruct (N.testbit a n), (N.testbit b n), (N.testbit c n); reflexivity. Qed.
Lemma xor_back d c : d < 256 -> N.land (N.lxor (N.land (N.lxor d (N.land c 255)) 255) c) 255 = d.
Proof.
  intros Hd. rewrite !land_lxor_distr_l.
  rewrite <- !N.land_assoc. change (N.land 255 255) with 255.
  rewrite N.lxor_assoc, N.lxor_nilpotent, N.lxor_0_r. apply land255_small. exact Hd.
Qed.

(* chk0 is rotated left through bit 8: everything about it depends on its low byte only (finite sweep) *)
Definition rot0 (c0 : N) : N := let c0a := (N.land c0 255) * 2 in if 0 <? N.land c0a 256 then c0a + 1 else c0a.
Definition clr0 (c0b : N) : N := if 0 <? N.land c0b 256 then N.land c0b 255 else c0b.
Lemma rot0_low c0 : rot0 c0 = rot0 (N.land c0 255).
Proof. unfold rot0. rewrite <- N.land_assoc. reflexivity. Qed.
Lemma rot0_back cm d : cm < 256 -> d < 256 ->
  N.land (N.lxor (N.land (N.lxor d (clr0 (rot0 cm))) 255) (rot0 cm)) 255 = d /\ clr0 (rot0 cm) < 256.
Proof.
  intros Hc Hd.
  pose (P := fun cm d : N => (N.land (N.lxor (N.land (N.lxor d (clr0 (rot0 cm))) 255) (rot0 cm)) 255 =? d) && (clr0 (rot0 cm) <? 256)).
  assert (G : P cm d = true) by (apply (sweep2 P 256 256); [vm_compute; reflexivity | exact Hc | exact Hd]).
  unfold P in G. apply andb_prop in G as [A B]. apply N.eqb_eq in A. apply N.ltb_lt in B. split; assumption.
Qed.

(* ---------- one round ---------- *)
Lemma round_a_back s d0 d1 : d0 < 256 -> d1 < 256 ->
  let '(p0, p1, s1) := round_a s d0 d1 in unround_a s p0 p1 = (d0, d1, s1).
Proof.
  intros H0 H1. destruct s as [[c0 c1] c2]. unfold round_a, unround_a.
  fold (rot0 c0). fold (clr0 (rot0 c0)).
  rewrite (rot0_low c0).
  assert (Hm : N.land c0 255 < 256) by (rewrite land255; apply N.mod_upper_bound; lia).
  destruct (rot0_back (N.land c0 255) d0 Hm H0) as [E0 _].
  set (r := rot0 (N.land c0 255)) in *.
  rewrite E0.
  rewrite !mask_if.
  set (c2b := if 0 <? N.land r 256 then c2 + d0 + 1 else c2 + d0).
  rewrite (xor_back d1 c2b H1). reflexivity.
Qed.
Lemma round_b_back s d2 : d2 < 256 -> let '(p2, s2) := round_b s d2 in unround_b s p2 = (d2, s2).
Proof.
  intros H2. destruct s as [[c0 c1] c2]. unfold round_b, unround_b. rewrite !mask_if. rewrite (xor_back d2 c1 H2). reflexivity.
Qed.

(* ---------- the whole checksum transform ---------- *)
Theorem parts_roundtrip : forall n dat s, (length dat = 3 * n + 2)%nat -> bytes dat ->
  let '(ps, f) := enc_parts s dat in dec_parts s ps = (dat, f) /\ length ps = S n.
Proof.
  induction n as [|n IH]; intros dat s Hl Hb.
  - destruct dat as [|d0 [|d1 [|d2 r]]]; cbn [length] in Hl; try lia.
    inversion Hb as [|? ? B0 Hb1]; subst. inversion Hb1 as [|? ? B1 _]; subst.
    cbn [enc_parts]. pose proof (round_a_back s d0 d1 B0 B1) as R.
    destruct (round_a s d0 d1) as [[p0 p1] s1]. cbn [dec_parts]. rewrite R. split; reflexivity.
  - destruct dat as [|d0 [|d1 [|d2 r]]]; cbn [length] in Hl; try lia.
    inversion Hb as [|? ? B0 Hb1]; subst. inversion Hb1 as [|? ? B1 Hb2]; subst. inversion Hb2 as [|? ? B2 Hb3]; subst.
    cbn [enc_parts]. pose proof (round_a_back s d0 d1 B0 B1) as R.
    destruct (round_a s d0 d1) as [[p0 p1] s1].
    pose proof (round_b_back s1 d2 B2) as R2. destruct (round_b s1 d2) as [p2 s2].
    specialize (IH r s2 ltac:(lia) Hb3). destruct (enc_parts s2 r) as [ps f]. destruct IH as [IH Hlen].
    cbn [dec_parts]. rewrite R. destruct ps as [|q qs]; [cbn in Hlen; lia|].
    rewrite R2, IH. split; [reflexivity | cbn [length] in *; lia].
Qed.

(* ---------- shape of the transformed parts ---------- *)
Definition part_lt (p : N * N * N) : Prop := let '(a, b, c) := p in a < 256 /\ b < 256 /\ c < 256.
Fixpoint parts_ok (ps : list (N * N * N)) : Prop :=
  match ps with
  | [] => False
  | [(a, b, c)] => a < 256 /\ b < 256 /\ c = 0
  | p :: r => part_lt p /\ parts_ok r
  end.
Lemma land255_lt x : N.land x 255 < 256.
Proof. rewrite land255. apply N.mod_upper_bound. lia. Qed.
Lemma round_a_lt s d0 d1 : let '(p0, p1, _) := round_a s d0 d1 in p0 < 256 /\ p1 < 256.
Proof. destruct s as [[c0 c1] c2]. unfold round_a. split; apply land255_lt. Qed.
Lemma round_b_lt s d2 : fst (round_b s d2) < 256.
Proof. destruct s as [[c0 c1] c2]. unfold round_b. cbn [fst]. apply land255_lt. Qed.
Lemma mask3_lt s : let '(a, b, c) := mask3 s in a < 256 /\ b < 256 /\ c < 256.
Proof. destruct s as [[c0 c1] c2]. unfold mask3. repeat split; apply land255_lt. Qed.
Lemma enc_parts_length : forall n dat s, (length dat = 3 * n + 2)%nat -> length (fst (enc_parts s dat)) = S n.
Proof.
  induction n as [|n IH]; intros dat s Hl.
  - destruct dat as [|d0 [|d1 [|d2 r]]]; cbn [length] in Hl; try lia.
    cbn [enc_parts]. destruct (round_a s d0 d1) as [[p0 p1] s1]. reflexivity.
  - destruct dat as [|d0 [|d1 [|d2 r]]]; cbn [length] in Hl; try lia.
    cbn [enc_parts]. destruct (round_a s d0 d1) as [[p0 p1] s1]. destruct (round_b s1 d2) as [p2 s2].
    specialize (IH r s2 ltac:(lia)). destruct (enc_parts s2 r) as [ps f]. cbn [fst length] in *. lia.
Qed.
Lemma enc_parts_ok : forall n dat s, (length dat = 3 * n + 2)%nat -> parts_ok (fst (enc_parts s dat)).
Proof.
  induction n as [|n IH]; intros dat s Hl.
  - destruct dat as [|d0 [|d1 [|d2 r]]]; cbn [length] in Hl; try lia.
    cbn [enc_parts]. pose proof (round_a_lt s d0 d1) as R. destruct (round_a s d0 d1) as [[p0 p1] s1].
    cbn [fst parts_ok]. destruct R as [A B]. repeat split; assumption.
  - destruct dat as [|d0 [|d1 [|d2 r]]]; cbn [length] in Hl; try lia.
    cbn [enc_parts]. pose proof (round_a_lt s d0 d1) as R. destruct (round_a s d0 d1) as [[p0 p1] s1].
    pose proof (round_b_lt s1 d2) as R2. destruct (round_b s1 d2) as [p2 s2]. cbn [fst] in R2.
    pose proof (enc_parts_length n r s2 ltac:(lia)) as L.
    specialize (IH r s2 ltac:(lia)).
    destruct (enc_parts s2 r) as [ps f]. cbn [fst] in *.
    destruct ps as [|q qs]; [cbn in L; lia|].
    change (part_lt (p0, p1, p2) /\ parts_ok (q :: qs)). split; [|exact IH].
    destruct R as [A B]. repeat split; assumption.
Qed.
Lemma enc_parts_final_lt dat : forall s, let '(a, b, c) := snd (enc_parts s dat) in a < 256 /\ b < 256 /\ c < 256.
Proof.
  induction dat as [dat IH] using (well_founded_induction (Wf_nat.well_founded_ltof _ (@length N))). intros s.
  destruct dat as [|d0 [|d1 [|d2 r]]]; cbn [enc_parts snd]; try apply mask3_lt.
  - destruct (round_a s d0 d1) as [[p0 p1] s1]. cbn [snd]. apply mask3_lt.
  - destruct (round_a s d0 d1) as [[p0 p1] s1]. destruct (round_b s1 d2) as [p2 s2].
    specialize (IH r ltac:(unfold Wf_nat.ltof; cbn [length]; lia) s2). destruct (enc_parts s2 r) as [ps f]. exact IH.
Qed.

(* ---------- 6&2 packing ---------- *)
Definition tw (a b c : N) : N := N.lor (N.lor (a * 16) (b * 4)) c.
Lemma hi_a p : p < 256 -> N.shiftr (N.land p 192) 2 = (p / 64) * 16 /\ N.shiftr (N.land p 192) 4 = (p / 64) * 4 /\ N.shiftr (N.land p 192) 6 = p / 64 /\ p / 64 < 4 /\ N.land p 63 < 64.
Proof.
  intros H.
  pose (P := fun p : N => (N.shiftr (N.land p 192) 2 =? (p / 64) * 16) && (N.shiftr (N.land p 192) 4 =? (p / 64) * 4) && (N.shiftr (N.land p 192) 6 =? p / 64) && (p / 64 <? 4) && (N.land p 63 <? 64)).
  assert (G : P p = true) by (apply (sweep1 P 256); [vm_compute; reflexivity | exact H]).
  unfold P in G. repeat (apply andb_prop in G; destruct G as [G ?]).
  repeat split; try (apply N.eqb_eq; assumption); apply N.ltb_lt; assumption.
Qed.
Lemma twos_tw p0 p1 p2 : p0 < 256 -> p1 < 256 -> p2 < 256 -> twos_of p0 p1 p2 = tw (p0 / 64) (p1 / 64) (p2 / 64).
Proof.
  intros H0 H1 H2. unfold twos_of, tw.
  destruct (hi_a p0 H0) as [-> _]. destruct (hi_a p1 H1) as [_ [-> _]]. destruct (hi_a p2 H2) as [_ [_ [-> _]]]. reflexivity.
Qed.
Lemma tw_lt a b c : a < 4 -> b < 4 -> c < 4 -> tw a b c < 64.
Proof.
  intros Ha Hb Hc. apply N.ltb_lt.
  apply (sweep3 (fun a b c => tw a b c <? 64) 4 4 4); [vm_compute; reflexivity | assumption..].
Qed.
Lemma part0_back p b c : p < 256 -> b < 4 -> c < 4 -> part_of (N.land p 63) (tw (p / 64) b c) 2 = p.
Proof.
  intros Hp Hb Hc. apply N.eqb_eq.
  apply (sweep3 (fun p b c => part_of (N.land p 63) (tw (p / 64) b c) 2 =? p) 256 4 4); [vm_compute; reflexivity | assumption..].
Qed.
Lemma part1_back p a c : p < 256 -> a < 4 -> c < 4 -> part_of (N.land p 63) (tw a (p / 64) c) 4 = p.
Proof.
  intros Hp Ha Hc. apply N.eqb_eq.
  apply (sweep3 (fun p a c => part_of (N.land p 63) (tw a (p / 64) c) 4 =? p) 256 4 4); [vm_compute; reflexivity | assumption..].
Qed.
Lemma part2_back p a b : p < 256 -> a < 4 -> b < 4 -> part_of (N.land p 63) (tw a b (p / 64)) 6 = p.
Proof.
  intros Hp Ha Hb. apply N.eqb_eq.
  apply (sweep3 (fun p a b => part_of (N.land p 63) (tw a b (p / 64)) 6 =? p) 256 4 4); [vm_compute; reflexivity | assumption..].
Qed.
Lemma part2_zero a b : a < 4 -> b < 4 -> part_of 0 (tw a b 0) 6 = 0.
Proof.
  intros Ha Hb. apply N.eqb_eq.
  apply (sweep2 (fun a b => part_of 0 (tw a b 0) 6 =? 0) 4 4); [vm_compute; reflexivity | assumption..].
Qed.
Lemma div64 p : p < 256 -> p / 64 < 4.
Proof. intros H. apply N.div_lt_upper_bound; lia. Qed.

Lemma parts_of_nibs : forall ps rest, parts_ok ps -> parts_of (pred (length ps)) (nibs_of ps ++ rest) = (ps, rest).
Proof.
  induction ps as [|[[p0 p1] p2] r IH]; intros rest Hok; [destruct Hok|].
  destruct r as [|q qs].
  - cbn [parts_ok] in Hok. destruct Hok as [H0 [H1 ->]].
    cbn [length pred nibs_of app parts_of]. rewrite (twos_tw p0 p1 0 H0 H1 ltac:(lia)).
    change (0 / 64) with 0.
    rewrite (part0_back p0 (p1 / 64) 0 H0 (div64 p1 H1) ltac:(lia)).
    rewrite (part1_back p1 (p0 / 64) 0 H1 (div64 p0 H0) ltac:(lia)).
    rewrite (part2_zero (p0 / 64) (p1 / 64) (div64 p0 H0) (div64 p1 H1)). reflexivity.
  - change (parts_ok ((p0, p1, p2) :: q :: qs)) with (part_lt (p0, p1, p2) /\ parts_ok (q :: qs)) in Hok.
    destruct Hok as [[H0 [H1 H2]] Hr].
    change (nibs_of ((p0, p1, p2) :: q :: qs)) with (twos_of p0 p1 p2 :: N.land p0 63 :: N.land p1 63 :: N.land p2 63 :: nibs_of (q :: qs)).
    cbn [length pred app]. change (parts_of (S (length qs))) with (parts_of (S (pred (length (q :: qs))))).
    cbn [parts_of]. rewrite (IH rest Hr).
    rewrite (twos_tw p0 p1 p2 H0 H1 H2).
    rewrite (part0_back p0 _ _ H0 (div64 p1 H1) (div64 p2 H2)).
    rewrite (part1_back p1 _ _ H1 (div64 p0 H0) (div64 p2 H2)).
    rewrite (part2_back p2 _ _ H2 (div64 p0 H0) (div64 p1 H1)). reflexivity.
Qed.
Lemma nibs_lt64 : forall ps, parts_ok ps -> Forall (fun v => v < 64) (nibs_of ps).
Proof.
  induction ps as [|[[p0 p1] p2] r IH]; intros Hok; [destruct Hok|].
  destruct r as [|q qs].
  - cbn [parts_ok] in Hok. destruct Hok as [H0 [H1 ->]]. cbn [nibs_of].
    repeat constructor; try apply (hi_a _ H0); try apply (hi_a _ H1).
    rewrite (twos_tw p0 p1 0 H0 H1 ltac:(lia)). apply tw_lt; [apply div64; assumption..|vm_compute; reflexivity].
  - change (parts_ok ((p0, p1, p2) :: q :: qs)) with (part_lt (p0, p1, p2) /\ parts_ok (q :: qs)) in Hok.
    destruct Hok as [[H0 [H1 H2]] Hr].
    change (nibs_of ((p0, p1, p2) :: q :: qs)) with (twos_of p0 p1 p2 :: N.land p0 63 :: N.land p1 63 :: N.land p2 63 :: nibs_of (q :: qs)).
    repeat constructor; try apply (hi_a _ H0); try apply (hi_a _ H1); try apply (hi_a _ H2); [|apply IH, Hr].
    rewrite (twos_tw p0 p1 p2 H0 H1 H2). apply tw_lt; apply div64; assumption.
Qed.

(* ---------- the disk byte table ---------- *)
Lemma stab_back v : v < 64 -> sinv (senc v) = v.
Proof.
  intros H. apply N.eqb_eq. apply (sweep1 (fun v => sinv (senc v) =? v) 64); [vm_compute; reflexivity | exact H].
Qed.
Lemma senc_ok v : disk_byte_ok (senc v) = true.
Proof.
  unfold senc, tab_enc.
  assert (H : N.land v 63 < 64).
  { change 63 with (N.ones 6). rewrite N.land_ones. apply N.mod_lt. discriminate. }
  revert H. generalize (N.land v 63). intros w Hw.
  apply (sweep1 (fun w => disk_byte_ok (dnth disk_bytes_62_35 (N.to_nat w))) 64); [vm_compute; reflexivity | exact Hw].
Qed.
Lemma map_stab_back vs : Forall (fun v => v < 64) vs -> map sinv (map senc vs) = vs.
Proof. induction 1 as [|v r Hv _ IH]; cbn [map]; [reflexivity|]. rewrite stab_back by exact Hv. rewrite IH. reflexivity. Qed.
Lemma no_invalid vs : Forall (fun v => v < 64) vs -> existsb (fun b => N.eqb (sinv b) 255) (map senc vs) = false.
Proof.
  induction 1 as [|v r Hv _ IH]; cbn [map existsb]; [reflexivity|]. rewrite stab_back by exact Hv. rewrite IH.
  destruct (N.eqb_spec v 255); [lia|reflexivity].
Qed.

(* ---------- checksum nibbles ---------- *)
Lemma chk_nibs_tw c0 c1 c2 : c0 < 256 -> c1 < 256 -> c2 < 256 ->
  chk_nibs (c0, c1, c2) = [tw (c2 / 64) (c1 / 64) (c0 / 64); N.land c2 63; N.land c1 63; N.land c0 63].
Proof.
  intros H0 H1 H2. unfold chk_nibs, tw.
  destruct (hi_a c0 H0) as [_ [_ [-> _]]]. destruct (hi_a c1 H1) as [_ [-> _]]. destruct (hi_a c2 H2) as [-> _].
  f_equal. rewrite <- N.lor_assoc, N.lor_comm. rewrite (N.lor_comm (c1 / 64 * 4)). reflexivity.
Qed.

(* ---------- the sector data field ---------- *)
Theorem sony_roundtrip n dat : (length dat = 3 * n + 2)%nat -> bytes dat -> sony_decode n (sony_encode dat) = ROk dat.
Proof.
  intros Hl Hb. unfold sony_encode, sony_decode.
  pose proof (parts_roundtrip n dat (0, 0, 0) Hl Hb) as R.
  pose proof (enc_parts_ok n dat (0, 0, 0) Hl) as Hok.
  pose proof (enc_parts_final_lt dat (0, 0, 0)) as Hf.
  destruct (enc_parts (0, 0, 0) dat) as [ps [[c0 c1] c2]]. cbn [fst snd] in *. destruct R as [R Hlen]. destruct Hf as [F0 [F1 F2]].
  assert (Hv : Forall (fun v => v < 64) (nibs_of ps ++ chk_nibs (c0, c1, c2))).
  { apply Forall_app. split; [apply nibs_lt64, Hok|].
    rewrite (chk_nibs_tw c0 c1 c2 F0 F1 F2).
    repeat constructor; try apply (hi_a _ F0); try apply (hi_a _ F1); try apply (hi_a _ F2).
    apply tw_lt; apply div64; assumption. }
  rewrite (no_invalid _ Hv), (map_stab_back _ Hv).
  replace n with (pred (length ps)) by (rewrite Hlen; reflexivity).
  rewrite (parts_of_nibs ps _ Hok). rewrite R.
  rewrite (chk_nibs_tw c0 c1 c2 F0 F1 F2).
  rewrite (part2_back c0 _ _ F0 (div64 c2 F2) (div64 c1 F1)).
  rewrite (part1_back c1 _ _ F1 (div64 c2 F2) (div64 c0 F0)).
  rewrite (part0_back c2 _ _ F2 (div64 c1 F1) (div64 c0 F0)).
  rewrite !N.eqb_refl. reflexivity.
Qed.
Lemma sony_encode_length n dat : (length dat = 3 * n + 2)%nat -> length (sony_encode dat) = (4 * n + 7)%nat.
Proof.
  intros Hl. unfold sony_encode. pose proof (enc_parts_length n dat (0, 0, 0) Hl) as L.
  destruct (enc_parts (0, 0, 0) dat) as [ps [[c0 c1] c2]]. cbn [fst] in L.
  rewrite map_length, app_length. cbn [chk_nibs length].
  assert (G : forall ps, ps <> [] -> length (nibs_of ps) = (4 * length ps - 1)%nat).
  { clear. induction ps as [|[[a b] c] r IH]; intros H; [congruence|]. destruct r as [|q qs]; [reflexivity|].
    change (nibs_of ((a, b, c) :: q :: qs)) with (twos_of a b c :: N.land a 63 :: N.land b 63 :: N.land c 63 :: nibs_of (q :: qs)).
    cbn [length]. rewrite IH by discriminate. cbn [length]. lia. }
  rewrite G by (intros ->; discriminate). lia.
Qed.
Lemma sony_encode_ok dat : forallb disk_byte_ok (sony_encode dat) = true.
Proof.
  unfold sony_encode. destruct (enc_parts (0, 0, 0) dat) as [ps f]. apply forallb_forall. intros x Hx.
  apply in_map_iff in Hx. destruct Hx as [v [<- _]]. apply senc_ok.
Qed.
