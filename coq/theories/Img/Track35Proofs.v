From A2 Require Import Base.Bytes Gen.Tables Img.Nibble Img.NibbleProofs Img.Track525.
From A2 Require Import Img.Sony Img.SonyProofs Img.Track35.
Open Scope N_scope.

(* rewriting one key of a flat_map over a duplicate-free list changes exactly that key's segment *)
Lemma flat_map_ext_notin {A B} (f g : A -> list B) x l : ~ In x l -> (forall y, In y l -> y <> x -> g y = f y) -> flat_map g l = flat_map f l.
Proof.
  intros Hn Hfg. induction l as [|y r IH]; [reflexivity|]. cbn [flat_map].
  rewrite Hfg; [|left; reflexivity|intros ->; apply Hn; left; reflexivity].
  rewrite IH; [reflexivity|intros Hi; apply Hn; right; exact Hi|intros z Hz; apply Hfg; right; exact Hz].
Qed.
Lemma flat_map_upd {A B} (f g : A -> list B) x l : NoDup l -> In x l -> (forall y, In y l -> y <> x -> g y = f y) ->
  exists l1 l2, l = l1 ++ x :: l2 /\ flat_map f l = flat_map f l1 ++ f x ++ flat_map f l2 /\ flat_map g l = flat_map f l1 ++ g x ++ flat_map f l2.
Proof.
  intros Hnd Hin Hfg. destruct (in_split x l Hin) as [l1 [l2 ->]]. exists l1, l2.
  apply NoDup_remove_2 in Hnd.
  split; [reflexivity|]. rewrite !flat_map_app. cbn [flat_map]. split; [reflexivity|].
  rewrite (flat_map_ext_notin f g x l1), (flat_map_ext_notin f g x l2); [reflexivity| | | |].
  - intros Hi; apply Hnd, in_or_app; right; exact Hi.
  - intros y Hy; apply Hfg, in_or_app; right; right; exact Hy.
  - intros Hi; apply Hnd, in_or_app; left; exact Hi.
  - intros y Hy; apply Hfg, in_or_app; left; exact Hy.
Qed.

(* ---------- 3.5 inch ---------- *)
Definition secs_of_zone (z : nat) : list N := firstn (N.to_nat (dnth zoned_secs_per_track z)) (nth z d35_physical []).
Lemma zone_secs_nodup z : (z < 5)%nat -> NoDup (secs_of_zone z).
Proof.
  intros Hz. apply nodupb_NoDup.
  destruct z as [|[|[|[|[|z]]]]]; try (vm_compute; reflexivity). lia.
Qed.
Lemma zone_secs_are z s : (z < 5)%nat -> In s (secs_of_zone z) <-> s < dnth zoned_secs_per_track z.
Proof.
  intros Hz. split.
  - intros Hi.
    assert (F : forallb (fun s => s <? dnth zoned_secs_per_track z) (secs_of_zone z) = true)
      by (destruct z as [|[|[|[|[|z]]]]]; try (vm_compute; reflexivity); lia).
    rewrite forallb_forall in F. apply N.ltb_lt, F, Hi.
  - intros Hs.
    pose (P := fun s : N => existsb (N.eqb s) (secs_of_zone z)).
    assert (G : P s = true).
    { apply (sweep1 P (N.to_nat (dnth zoned_secs_per_track z))); [|lia].
      destruct z as [|[|[|[|[|z]]]]]; try (vm_compute; reflexivity); lia. }
    unfold P in G. apply existsb_exists in G. destruct G as [y [Hy E]]. apply N.eqb_eq in E. subst y. exact Hy.
Qed.

Lemma firstn_repeat {A} (x : A) k n : firstn k (repeat x n) = repeat x (Nat.min k n).
Proof. revert n; induction k as [|k IH]; intros [|n]; cbn [firstn repeat Nat.min]; try reflexivity. rewrite IH. reflexivity. Qed.
Lemma sony_len_tagged d : length (tagged d) = 524%nat.
Proof. unfold tagged. rewrite firstn_length, !app_length, !repeat_length. change (N.to_nat d35_sector_size) with 524%nat. lia. Qed.
Lemma Forall_firstn' {A} (P : A -> Prop) n l : Forall P l -> Forall P (firstn n l).
Proof. intros H. rewrite <- (firstn_skipn n l) in H. apply Forall_app in H. exact (proj1 H). Qed.
Lemma bytes_tagged d : bytes d -> bytes (tagged d).
Proof.
  intros H. unfold tagged. apply Forall_firstn'. apply Forall_app. split; [apply Forall_app; split; [|exact H]|]; apply Forall_forall; intros x Hx; apply repeat_spec in Hx; subst x; lia.
Qed.

(* writing sector [sec] of a track replaces the 703 data nibbles of that sector's data field and nothing else *)
Theorem track35_write_local sides track datas sec d :
  (zone_of sides track < 5)%nat -> sec < dnth zoned_secs_per_track (zone_of sides track) ->
  exists pre post,
    track_bits35 sides track datas = pre ++ bytes_bits (sony_encode (datas sec)) ++ post /\
    track_bits35 sides track (upd_datas35 datas sec d) = pre ++ bytes_bits (sony_encode (tagged d)) ++ post.
Proof.
  intros Hz Hs. unfold track_bits35.
  change (track_secs35 sides track) with (secs_of_zone (zone_of sides track)).
  destruct (flat_map_upd (sector_bits35 sides track datas) (sector_bits35 sides track (upd_datas35 datas sec d)) sec
              (secs_of_zone (zone_of sides track)) (zone_secs_nodup _ Hz) (proj2 (zone_secs_are _ sec Hz) Hs)) as [l1 [l2 [_ [E1 E2]]]].
  { intros y _ Hy. unfold sector_bits35, upd_datas35. destruct (N.eqb_spec y sec); [contradiction|reflexivity]. }
  rewrite E1, E2. unfold sector_bits35, data_field35, upd_datas35. rewrite N.eqb_refl.
  exists (sync_gap 10 d35_sync_track_header ++ flat_map (sector_bits35 sides track datas) l1 ++ bytes_bits (addr_field35 sides track sec)
            ++ sync_gap 10 d35_sync_gap ++ bytes_bits d35_dat_prolog ++ bytes_bits [senc sec]).
  exists (bytes_bits d35_dat_epilog ++ sync_gap 10 d35_sync_close ++ flat_map (sector_bits35 sides track datas) l2).
  split; repeat rewrite <- app_assoc; reflexivity.
Qed.
(* a sector number that is not on the track leaves the model track alone *)
Lemma track35_absent sides track datas sec d :
  (zone_of sides track < 5)%nat -> dnth zoned_secs_per_track (zone_of sides track) <= sec ->
  track_bits35 sides track (upd_datas35 datas sec d) = track_bits35 sides track datas.
Proof.
  intros Hz Hs. unfold track_bits35. f_equal. change (track_secs35 sides track) with (secs_of_zone (zone_of sides track)).
  apply (flat_map_ext_notin _ _ sec).
  - intros Hi. apply (zone_secs_are _ _ Hz) in Hi. lia.
  - intros y _ Hy. unfold sector_bits35, upd_datas35. destruct (N.eqb_spec y sec); [contradiction|reflexivity].
Qed.
(* and what is read back from that field is what was written *)
Theorem track35_field_decodes d : bytes d -> sony_decode 174 (sony_encode (tagged d)) = ROk (tagged d) /\ skipn 12 (tagged d) = firstn 512 (d ++ repeat 0 512).
Proof.
  intros Hd. split.
  - apply sony_roundtrip; [rewrite sony_len_tagged; reflexivity | apply bytes_tagged, Hd].
  - unfold tagged. change (N.to_nat d35_sector_size) with 524%nat.
    rewrite skipn_firstn_comm. rewrite <- app_assoc. rewrite skipn_app. rewrite repeat_length.
    rewrite skipn_all2 by (rewrite repeat_length; lia). cbn [Nat.sub skipn app].
    rewrite !firstn_app, !firstn_repeat. f_equal. f_equal. lia.
Qed.

(* ---------- 5.25 inch: the same locality for both sector formats ---------- *)
Definition unique_pos (f : fmt525) (sec : N) : bool :=
  let l := seq 0 (sectors_of f) in
  existsb (fun i => (sec_addr f i =? sec) && forallb (fun j => Nat.eqb j i || negb (sec_addr f j =? sec)) l) l.
Lemma unique_pos_spec f sec : unique_pos f sec = true ->
  exists i, In i (seq 0 (sectors_of f)) /\ sec_addr f i = sec /\ forall j, In j (seq 0 (sectors_of f)) -> j <> i -> sec_addr f j <> sec.
Proof.
  unfold unique_pos. intros H. apply existsb_exists in H. destruct H as [i [Hi H]]. apply andb_prop in H. destruct H as [E U].
  exists i. split; [exact Hi|]. split; [apply N.eqb_eq, E|]. intros j Hj Hne Heq.
  rewrite forallb_forall in U. specialize (U j Hj). apply orb_prop in U. destruct U as [U|U].
  - apply Nat.eqb_eq in U. contradiction.
  - rewrite Heq, N.eqb_refl in U. discriminate.
Qed.
Lemma std_sector_once f sec : f = fmt13 \/ f = fmt16 -> sec < N.of_nat (sectors_of f) -> unique_pos f sec = true.
Proof.
  intros [-> | ->] Hs.
  - apply (sweep1 (unique_pos fmt13) (sectors_of fmt13)); [vm_compute; reflexivity | exact Hs].
  - apply (sweep1 (unique_pos fmt16) (sectors_of fmt16)); [vm_compute; reflexivity | exact Hs].
Qed.
Theorem track525_write_local f sync vol trk datas sec d :
  f = fmt13 \/ f = fmt16 -> sec < N.of_nat (sectors_of f) ->
  exists pre post,
    track_bits f sync vol trk datas = pre ++ data_area f sync (datas sec) ++ post /\
    track_bits f sync vol trk (upd_datas datas sec d) = pre ++ data_area f sync (Some (pad256 d)) ++ post.
Proof.
  intros Hf Hs. destruct (unique_pos_spec f sec (std_sector_once f sec Hf Hs)) as [i [Hi [Ei Hu]]].
  unfold track_bits.
  destruct (flat_map_upd (sector_bits f sync vol trk datas) (sector_bits f sync vol trk (upd_datas datas sec d)) i
              (seq 0 (sectors_of f)) (seq_NoDup _ _) Hi) as [l1 [l2 [El [E1 E2]]]].
  { intros j Hin Hj. unfold sector_bits, upd_datas. destruct (N.eqb_spec (sec_addr f j) sec) as [E|E]; [|reflexivity].
    exfalso. exact (Hu j Hin Hj E). }
  rewrite E1, E2. unfold sector_bits, upd_datas. rewrite Ei, N.eqb_refl.
  exists (sync_gap sync gap_lead ++ flat_map (sector_bits f sync vol trk datas) l1 ++ bytes_bits (addr_field f vol trk sec)).
  exists (sync_gap sync gap_close ++ flat_map (sector_bits f sync vol trk datas) l2).
  split; repeat rewrite <- app_assoc; reflexivity.
Qed.

(* ---------- the formatted track uses exactly the bit count recorded for its zone ---------- *)
Lemma byte_bits_length b : length (byte_bits b) = 8%nat.
Proof. unfold byte_bits. rewrite map_length, seq_length. reflexivity. Qed.
Lemma bytes_bits_length l : length (bytes_bits l) = (8 * length l)%nat.
Proof. unfold bytes_bits. induction l as [|b r IH]; [reflexivity|]. cbn [flat_map length]. rewrite app_length, byte_bits_length, IH. lia. Qed.
Lemma sync_gap10_length n : length (sync_gap 10 n) = (10 * N.to_nat n)%nat.
Proof.
  unfold sync_gap. generalize (N.to_nat n) as k. induction k as [|k IH]; [reflexivity|].
  cbn [repeat concat]. rewrite app_length, IH. change (length (sync_bits_of 10)) with 10%nat. lia.
Qed.
Lemma sector_bits35_length sides track datas sec : length (datas sec) = 524%nat ->
  length (sector_bits35 sides track datas sec) = (8 * 10 + 10 * 6 + 8 * 709 + 10 * 36)%nat.
Proof.
  intros Hl. unfold sector_bits35, data_field35, addr_field35.
  repeat rewrite app_length. repeat rewrite bytes_bits_length. repeat rewrite sync_gap10_length.
  repeat rewrite app_length. rewrite (sony_encode_length 174 (datas sec)) by (rewrite Hl; reflexivity).
  cbn [map length]. change (length d35_adr_prolog) with 3%nat. change (length d35_adr_epilog) with 2%nat.
  change (length d35_dat_prolog) with 3%nat. change (length d35_dat_epilog) with 2%nat.
  change (N.to_nat d35_sync_gap) with 6%nat. change (N.to_nat d35_sync_close) with 36%nat. lia.
Qed.
Lemma flat_map_const_length {A B} (f : A -> list B) k l : (forall x, In x l -> length (f x) = k) -> length (flat_map f l) = (k * length l)%nat.
Proof.
  induction l as [|x r IH]; intros H; cbn [flat_map length]; [lia|].
  rewrite app_length, H by (left; reflexivity). rewrite IH by (intros y Hy; apply H; right; exact Hy). lia.
Qed.
Theorem track35_bit_count sides track datas : (zone_of sides track < 5)%nat -> (forall s, length (datas s) = 524%nat) ->
  lenN (track_bits35 sides track datas) = dnth d35_track_bits (zone_of sides track).
Proof.
  intros Hz Hd. unfold track_bits35, lenN. rewrite app_length, sync_gap10_length.
  rewrite (flat_map_const_length _ (8 * 10 + 10 * 6 + 8 * 709 + 10 * 36)) by (intros x _; apply sector_bits35_length, Hd).
  change (track_secs35 sides track) with (secs_of_zone (zone_of sides track)).
  destruct (zone_of sides track) as [|[|[|[|[|z]]]]]; try lia; vm_compute; reflexivity.
Qed.
Lemma upd_datas35_length datas sec d : (forall s, length (datas s) = 524%nat) -> forall s, length (upd_datas35 datas sec d s) = 524%nat.
Proof. intros H s. unfold upd_datas35. destruct (N.eqb s sec); [apply sony_len_tagged | apply H]. Qed.
Lemma stab_ok : forallb disk_byte_ok disk_bytes_62_35 = true /\ length disk_bytes_62_35 = 64%nat /\ NoDup disk_bytes_62_35.
Proof. split; [vm_compute; reflexivity|]. split; [reflexivity|]. apply nodupb_NoDup. vm_compute. reflexivity. Qed.
