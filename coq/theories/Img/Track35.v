(* Img/Track35.v -- MODEL of a formatted 3.5 inch GCR track as src/img/disk35.rs `create_track` lays it out and as
   `encode_sector` rewrites it, rendered to the packed buffer DiskImage::get_track_buf returns for WOZ2 400K/800K images.
   No proofs here. *)
From A2 Require Import Base.Bytes Gen.Tables Img.Nibble Img.Track525.
From A2 Require Import Img.Sony.
Open Scope N_scope.

(* get_phys_interleave: position of first+1 in the zone 0 table *)
Fixpoint index_of (x : N) (l : list N) (i : N) : N :=
  match l with [] => 0 | y :: r => if N.eqb y x then i else index_of x r (i + 1) end.
Definition interleave35 : N := let t := nth 0 d35_physical [] in index_of (dnth t 0 + 1) t 0.

Definition cyl_of (sides track : N) : N := if sides =? 1 then track else track / 2.
Definition zone_of (sides track : N) : nat := N.to_nat (cyl_of sides track / 16).
Definition side_of (sides track : N) : N :=
  (if sides =? 1 then 0 else 32 * (track mod 2)) + (if 64 <=? cyl_of sides track then 1 else 0).
Definition format_of (sides : N) : N := (if sides =? 1 then 0 else 32) + interleave35.

Definition addr_field35 (sides track sec : N) : list N :=
  let cyl := cyl_of sides track in
  let side := side_of sides track in
  let fmt := format_of sides in
  d35_adr_prolog ++ map senc [cyl mod 64; sec; side; fmt; N.lxor (N.lxor (N.lxor cyl sec) side) fmt] ++ d35_adr_epilog.

Definition data_field35 (sec : N) (dat : list N) : list bool :=
  sync_gap 10 d35_sync_gap ++ bytes_bits d35_dat_prolog ++ bytes_bits [senc sec] ++ bytes_bits (sony_encode dat) ++ bytes_bits d35_dat_epilog.

Definition sector_bits35 (sides track : N) (datas : N -> list N) (sec : N) : list bool :=
  bytes_bits (addr_field35 sides track sec) ++ data_field35 sec (datas sec) ++ sync_gap 10 d35_sync_close.

Definition track_secs35 (sides track : N) : list N :=
  firstn (N.to_nat (dnth zoned_secs_per_track (zone_of sides track))) (nth (zone_of sides track) d35_physical []).

Definition track_bits35 (sides track : N) (datas : N -> list N) : list bool :=
  sync_gap 10 d35_sync_track_header ++ flat_map (sector_bits35 sides track datas) (track_secs35 sides track).

Definition buf_len35 (sides track : N) : N :=
  let bytes := dnth d35_track_bits (zone_of sides track) / 8 in bytes + (512 - bytes mod 512) + 512.

Definition track_buf35 (sides track : N) (datas : N -> list N) : list N :=
  let bits := track_bits35 sides track datas in
  let packed := pack_bits (S (length bits)) 0 bits in
  packed ++ repeatN 0 (buf_len35 sides track - lenN packed).

(* woz::write_sector: 12 zero tag bytes, then the data padded / truncated to the sector size *)
Definition tagged (d : list N) : list N := firstn (N.to_nat d35_sector_size) ((repeat 0 12 ++ d) ++ repeat 0 (N.to_nat d35_sector_size)).
Definition init_datas35 : N -> list N := fun _ => repeat 0 (N.to_nat d35_sector_size).
Definition upd_datas35 (datas : N -> list N) (sec : N) (d : list N) : N -> list N :=
  fun s => if N.eqb s sec then tagged d else datas s.

Definition run_track35 (sides track : N) (writes : list (N * list N)) : list N :=
  track_buf35 sides track (fold_left (fun ds w => upd_datas35 ds (fst w) (snd w)) writes init_datas35).
