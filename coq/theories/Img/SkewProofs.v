(* Img/SkewProofs.v -- proofs about the address maps of Img/Skew.v over the GENERATED tables *)
From A2 Require Import Base.Bytes Gen.Tables Gen.SkewTabs Img.Skew.
Open Scope N_scope.

Definition cell_eqb (a b : cell) : bool :=
  let '(a1, a2, a3, a4, a5) := a in let '(b1, b2, b3, b4, b5) := b in
  andb (N.eqb a1 b1) (andb (N.eqb a2 b2) (andb (N.eqb a3 b3) (andb (N.eqb a4 b4) (N.eqb a5 b5)))).
Fixpoint cells_eqb (a b : list cell) : bool :=
  match a, b with
  | [], [] => true
  | x :: r, y :: q => andb (cell_eqb x y) (cells_eqb r q)
  | _, _ => false
  end.
Lemma cell_eqb_eq a b : cell_eqb a b = true -> a = b.
Proof.
  destruct a as [[[[a1 a2] a3] a4] a5], b as [[[[b1 b2] b3] b4] b5]. cbn.
  rewrite !andb_true_iff, !N.eqb_eq. intros [-> [-> [-> [-> ->]]]]. reflexivity.
Qed.
Lemma cells_eqb_eq a : forall b, cells_eqb a b = true -> a = b.
Proof.
  induction a as [|x r IH]; intros [|y q]; cbn; try discriminate; auto.
  rewrite andb_true_iff. intros [H1 H2]. f_equal; [apply cell_eqb_eq, H1 | apply IH, H2].
Qed.

(* T1: the two DOS 3.3 sector-order tables are mutually inverse permutations of 0..15 *)
Lemma lsec_psec_inverse s : s < 16 ->
  tbl dos_psec_to_dos_lsec (tbl dos_lsec_to_dos_psec s) = s /\ tbl dos_lsec_to_dos_psec (tbl dos_psec_to_dos_lsec s) = s
  /\ tbl dos_lsec_to_dos_psec s < 16 /\ tbl dos_psec_to_dos_lsec s < 16.
Proof.
  intros Hs.
  assert (H : andb (N.eqb (tbl dos_psec_to_dos_lsec (tbl dos_lsec_to_dos_psec s)) s)
               (andb (N.eqb (tbl dos_lsec_to_dos_psec (tbl dos_psec_to_dos_lsec s)) s)
               (andb (N.ltb (tbl dos_lsec_to_dos_psec s) 16) (N.ltb (tbl dos_psec_to_dos_lsec s) 16))) = true).
  { apply (sweep1 (fun s => andb (N.eqb (tbl dos_psec_to_dos_lsec (tbl dos_lsec_to_dos_psec s)) s)
               (andb (N.eqb (tbl dos_lsec_to_dos_psec (tbl dos_psec_to_dos_lsec s)) s)
               (andb (N.ltb (tbl dos_lsec_to_dos_psec s) 16) (N.ltb (tbl dos_psec_to_dos_lsec s) 16)))) 16); [vm_compute; reflexivity | exact Hs]. }
  rewrite !andb_true_iff, !N.eqb_eq, !N.ltb_lt in H. tauto.
Qed.

(* T4: a DOS-ordered block is the same physical sector in the DO image and in the nibble images *)
Lemma do_block_agree t s : s < 16 -> do_cells_do t s = woz_cells_do t s.
Proof.
  intros Hs. unfold do_cells_do, woz_cells_do. repeat f_equal. apply N.eqb_eq.
  apply (sweep1 (fun s => N.eqb (do_phys s) (tbl dos_lsec_to_dos_psec s)) 16); [vm_compute; reflexivity | exact Hs].
Qed.

(* T2: a ProDOS block is the same pair of physical sectors, in the same order *)
Lemma po_block_agree b : do_cells_po b = woz_cells_po b.
Proof.
  unfold do_cells_po, woz_cells_po.
  assert (Hm : b mod 8 < 8) by (apply N.mod_lt; discriminate).
  revert Hm. generalize (b mod 8). intros m Hm.
  assert (H : andb (N.eqb (do_phys (tbl prodos_sector1 m)) (tbl dos_lsec_to_dos_psec (tbl prodos_sector1 m)))
                   (N.eqb (do_phys (tbl prodos_sector2 m)) (tbl dos_lsec_to_dos_psec (tbl prodos_sector2 m))) = true).
  { apply (sweep1 (fun m => andb (N.eqb (do_phys (tbl prodos_sector1 m)) (tbl dos_lsec_to_dos_psec (tbl prodos_sector1 m)))
                   (N.eqb (do_phys (tbl prodos_sector2 m)) (tbl dos_lsec_to_dos_psec (tbl prodos_sector2 m)))) 8); [vm_compute; reflexivity | exact Hm]. }
  rewrite andb_true_iff, !N.eqb_eq in H. destruct H as [-> ->]. reflexivity.
Qed.

(* T5: the 280 ProDOS blocks tile the 560 (track, logical sector) pairs exactly once *)
Definition po_halves (b : N) : list (N * N) := [(b / 8, tbl prodos_sector1 (b mod 8)); (b / 8, tbl prodos_sector2 (b mod 8))].
Definition pair_code (p : N * N) : N := fst p * 16 + snd p.
Lemma prodos_ts_bijection :
  NoDup (map pair_code (flat_map po_halves (below 280))) /\ length (flat_map po_halves (below 280)) = 560%nat
  /\ forallb (fun p => andb (N.ltb (fst p) 35) (N.ltb (snd p) 16)) (flat_map po_halves (below 280)) = true.
Proof.
  split; [|split; vm_compute; reflexivity].
  apply nodupb_NoDup. vm_compute. reflexivity.
Qed.

(* T3: an Apple CP/M block (1K, 3 reserved tracks, 128 blocks) covers the same 128-byte records in the same order *)
Lemma cpm_block_agree b : b < 128 -> records (do_cells_cpm b 3 3) = records (woz_cells_cpm b 3 3).
Proof.
  intros Hb. apply cells_eqb_eq.
  apply (sweep1 (fun b => cells_eqb (records (do_cells_cpm b 3 3)) (records (woz_cells_cpm b 3 3))) 128); [vm_compute; reflexivity | exact Hb].
Qed.

(* T6: the 3.5in zone maps are injective and in range: every block lands on its own (cyl, head, sector) *)
Definition cell_code35 (c : cell) : N := let '(cy, h, s, _, _) := c in (cy * 2 + h) * 16 + s.
Lemma zone35_injective_400 :
  NoDup (map cell_code35 (flat_map (woz35_cells 1) (below 800))) /\ length (flat_map (woz35_cells 1) (below 800)) = 800%nat
  /\ forallb (fun c => let '(cy, h, s, _, _) := c in andb (N.ltb cy 80) (andb (N.eqb h 0) (N.ltb s (tbl zoned_secs_per_track (cy / 16)))))
       (flat_map (woz35_cells 1) (below 800)) = true
  /\ woz35_cells 1 800 = [].
Proof.
  split; [|split; [|split]; vm_compute; reflexivity].
  apply nodupb_NoDup. vm_compute. reflexivity.
Qed.
Lemma zone35_injective_800 :
  NoDup (map cell_code35 (flat_map (woz35_cells 2) (below 1600))) /\ length (flat_map (woz35_cells 2) (below 1600)) = 1600%nat
  /\ forallb (fun c => let '(cy, h, s, _, _) := c in andb (N.ltb cy 80) (andb (N.ltb h 2) (N.ltb s (tbl zoned_secs_per_track (cy / 16)))))
       (flat_map (woz35_cells 2) (below 1600)) = true
  /\ woz35_cells 2 1600 = [].
Proof.
  split; [|split; [|split]; vm_compute; reflexivity].
  apply nodupb_NoDup. vm_compute. reflexivity.
Qed.

(* T7: imd.rs and td0.rs carry the same skew tables, and every table is a permutation of a contiguous id range *)
Definition is_perm_range (t : list N) : bool :=
  match t with
  | [] => false
  | x :: _ => let lo := fold_left N.min t x in
              andb (nodupb t) (forallb (fun v => andb (N.leb lo v) (N.ltb v (lo + lenN t))) t)
  end.
Definition triple_eqb (a b : list N * N * list N) : bool :=
  let '(a1, a2, a3) := a in let '(b1, b2, b3) := b in
  andb (if list_eq_dec N.eq_dec a1 b1 then true else false) (andb (N.eqb a2 b2) (if list_eq_dec N.eq_dec a3 b3 then true else false)).
Lemma skew_tables_agree :
  imd_skew_table = td0_skew_table /\ forallb (fun e => is_perm_range (snd e)) imd_skew_table = true.
Proof. split; vm_compute; reflexivity. Qed.

(* T8: the CP/M tables used on DOS-ordered and nibble images are consistent pairwise (both records of a pair
   live in one 256-byte sector at offsets 0 and 128) *)
Lemma cpm_tables_pairwise k : k < 16 ->
  tbl cpm_lsec_to_dos_lsec (2 * k) = tbl cpm_lsec_to_dos_lsec (2 * k + 1)
  /\ tbl cpm_lsec_to_dos_offset (2 * k) = 0 /\ tbl cpm_lsec_to_dos_offset (2 * k + 1) = 128
  /\ tbl dos_lsec_to_dos_psec (tbl cpm_lsec_to_dos_lsec (2 * k)) = tbl cpm_lsec_to_dos_psec (2 * k + 1).
Proof.
  intros Hk.
  assert (H : andb (N.eqb (tbl cpm_lsec_to_dos_lsec (2 * k)) (tbl cpm_lsec_to_dos_lsec (2 * k + 1)))
             (andb (N.eqb (tbl cpm_lsec_to_dos_offset (2 * k)) 0) (andb (N.eqb (tbl cpm_lsec_to_dos_offset (2 * k + 1)) 128)
             (N.eqb (tbl dos_lsec_to_dos_psec (tbl cpm_lsec_to_dos_lsec (2 * k))) (tbl cpm_lsec_to_dos_psec (2 * k + 1))))) = true).
  { apply (sweep1 (fun k => andb (N.eqb (tbl cpm_lsec_to_dos_lsec (2 * k)) (tbl cpm_lsec_to_dos_lsec (2 * k + 1)))
             (andb (N.eqb (tbl cpm_lsec_to_dos_offset (2 * k)) 0) (andb (N.eqb (tbl cpm_lsec_to_dos_offset (2 * k + 1)) 128)
             (N.eqb (tbl dos_lsec_to_dos_psec (tbl cpm_lsec_to_dos_lsec (2 * k))) (tbl cpm_lsec_to_dos_psec (2 * k + 1)))))) 16); [vm_compute; reflexivity | exact Hk]. }
  rewrite !andb_true_iff, !N.eqb_eq in H. tauto.
Qed.

(* the 13-sector physical order table is a permutation of 0..12 *)
Lemma dos32_physical_perm : is_perm_range dos32_physical = true /\ length dos32_physical = 13%nat.
Proof. split; vm_compute; reflexivity. Qed.

(* ---- writes through equal cells give equal physical disks (the semantic half of container independence) ---- *)
Lemma write_equal_cells pd size cs1 cs2 data : cs1 = cs2 -> write_cells pd size cs1 data = write_cells pd size cs2 data.
Proof. intros ->. reflexivity. Qed.

