(* Img/NibbleProofs.v -- proofs about Img/Nibble.v (over the GENERATED tables). *)
From A2 Require Import Base.Bytes Gen.Tables Img.Nibble.
From Coq Require Import ZArith ZifyBool ZifyNat ZifyN.
Open Scope N_scope.

(* ---------- list indexing helpers ---------- *)
Lemma dnth_mapseq_l {f : nat -> N} n l i : (i < n)%nat -> dnth (map f (seq 0 n) ++ l) i = f i.
Proof.
  intros H. unfold dnth. rewrite app_nth1 by (rewrite map_length, seq_length; exact H).
  rewrite (nth_indep _ 0 (f 0%nat)) by (rewrite map_length, seq_length; exact H).
  rewrite map_nth, seq_nth by exact H. reflexivity.
Qed.

Lemma dnth_mapseq_r {f : nat -> N} n l i : dnth (map f (seq 0 n) ++ l) (n + i) = dnth l i.
Proof.
  unfold dnth. rewrite app_nth2 by (rewrite map_length, seq_length; lia).
  rewrite map_length, seq_length. f_equal. lia.
Qed.

Lemma map_seq_ext (f g : nat -> N) n : (forall i, (i < n)%nat -> f i = g i) -> map f (seq 0 n) = map g (seq 0 n).
Proof. intros H. apply map_ext_in. intros i Hi. apply in_seq in Hi. apply H. lia. Qed.

(* ---------- 4&4 ---------- *)
Theorem dec44_enc44 v : v < 256 -> dec44 (N.lor (N.shiftr v 1) 170) (N.lor v 170) = v.
Proof.
  intros Hv. apply N.eqb_eq.
  apply (sweep1 (fun v => N.eqb (dec44 (N.lor (N.shiftr v 1) 170) (N.lor v 170)) v) 256); [vm_compute; reflexivity | exact Hv].
Qed.

Lemma enc44_msb v : v < 256 -> Forall (fun b => 128 <= b /\ b < 256) (enc44 v).
Proof.
  intros Hv.
  assert (H : forallb (fun b => andb (N.leb 128 b) (N.ltb b 256)) (enc44 v) = true).
  { apply (sweep1 (fun v => forallb (fun b => andb (N.leb 128 b) (N.ltb b 256)) (enc44 v)) 256); [vm_compute; reflexivity| exact Hv]. }
  rewrite forallb_forall in H. apply Forall_forall. intros b Hb. specialize (H b Hb). lia.
Qed.

(* ---------- generic XOR chain ---------- *)
Section Chain.
  Variables (enc inv : N -> N) (M : N).
  Hypothesis Hrt : forall v, v < M -> inv (enc v) = v.
  Hypothesis HM : M <= 255.
  Hypothesis Hxor : forall a b, a < M -> b < M -> N.lxor a b < M.

  Lemma unchain_chain xs : forall s, s < M -> Forall (fun x => x < M) xs ->
    unchain inv s (map enc (chain s xs)) = Some (xs ++ [0]).
  Proof.
    induction xs as [|x r IH]; intros s Hs Hxs.
    - cbn [chain map unchain app]. rewrite Hrt by exact Hs.
      destruct (N.eqb_spec s invalid_nib_byte_525) as [E|_].
      + unfold invalid_nib_byte_525 in E. lia.
      + rewrite N.lxor_nilpotent. reflexivity.
    - inversion Hxs as [|? ? Hx Hr]; subst.
      cbn [chain map unchain app]. rewrite Hrt by (apply Hxor; assumption).
      destruct (N.eqb_spec (N.lxor x s) invalid_nib_byte_525) as [E|_].
      + specialize (Hxor x s Hx Hs). unfold invalid_nib_byte_525 in E. lia.
      + replace (N.lxor s (N.lxor x s)) with x.
        * rewrite IH by assumption. reflexivity.
        * rewrite (N.lxor_comm x s), <- N.lxor_assoc, N.lxor_nilpotent, N.lxor_0_l. reflexivity.
  Qed.

  Lemma chain_length s xs : length (chain s xs) = S (length xs).
  Proof. revert s. induction xs as [|x r IH]; intros s; cbn [chain length]; [reflexivity | rewrite IH; reflexivity]. Qed.
End Chain.

(* ---------- facts on the generated tables ---------- *)
Lemma tab62_rt v : v < 64 -> inv62 (enc62 v) = v.
Proof.
  intros Hv. apply N.eqb_eq.
  apply (sweep1 (fun v => N.eqb (inv62 (enc62 v)) v) 64); [vm_compute; reflexivity | exact Hv].
Qed.

Lemma tab53_rt v : v < 32 -> inv53 (enc53 v) = v.
Proof.
  intros Hv. apply N.eqb_eq.
  apply (sweep1 (fun v => N.eqb (inv53 (enc53 v)) v) 32); [vm_compute; reflexivity | exact Hv].
Qed.

(* every disk byte has its MSB set, is a byte, and is none of the reserved marks D5 / AA *)
Definition disk_byte_ok (b : N) : bool :=
  andb (N.leb 128 b) (andb (N.ltb b 256) (andb (negb (N.eqb b 213)) (negb (N.eqb b 170)))).
Lemma tab62_ok : forallb disk_byte_ok disk_bytes_62_525 = true /\ length disk_bytes_62_525 = 64%nat /\ NoDup disk_bytes_62_525.
Proof.
  split; [vm_compute; reflexivity|]. split; [vm_compute; reflexivity|].
  apply nodupb_NoDup. vm_compute. reflexivity.
Qed.
Lemma tab53_ok : forallb disk_byte_ok disk_bytes_53_525 = true /\ length disk_bytes_53_525 = 32%nat /\ NoDup disk_bytes_53_525.
Proof.
  split; [vm_compute; reflexivity|]. split; [vm_compute; reflexivity|].
  apply nodupb_NoDup. vm_compute. reflexivity.
Qed.

Lemma lxor_lt64 a b : a < 64 -> b < 64 -> N.lxor a b < 64.
Proof.
  intros Ha Hb. apply N.ltb_lt.
  apply (sweep2 (fun a b => N.ltb (N.lxor a b) 64) 64 64); [vm_compute; reflexivity | exact Ha | exact Hb].
Qed.
Lemma lxor_lt32 a b : a < 32 -> b < 32 -> N.lxor a b < 32.
Proof.
  intros Ha Hb. apply N.ltb_lt.
  apply (sweep2 (fun a b => N.ltb (N.lxor a b) 32) 32 32); [vm_compute; reflexivity | exact Ha | exact Hb].
Qed.

(* ---------- 6&2 ---------- *)
Lemma swap2_lt4 v : v < 256 -> swap2 (N.land v 3) < 4.
Proof.
  intros Hv. apply N.ltb_lt.
  apply (sweep1 (fun v => N.ltb (swap2 (N.land v 3)) 4) 256); [vm_compute; reflexivity | exact Hv].
Qed.

Lemma pack3_lt64 a b c : a < 4 -> b < 4 -> c < 4 -> pack3 a b c < 64.
Proof.
  intros Ha Hb Hc. apply N.ltb_lt.
  apply (sweep3 (fun a b c => N.ltb (pack3 a b c) 64) 4 4 4); [vm_compute; reflexivity | exact Ha | exact Hb | exact Hc].
Qed.

Lemma pack3_fld a b c : a < 4 -> b < 4 -> c < 4 ->
  fld (pack3 a b c) 0 = a /\ fld (pack3 a b c) 1 = b /\ fld (pack3 a b c) 2 = c.
Proof.
  intros Ha Hb Hc.
  assert (H : andb (N.eqb (fld (pack3 a b c) 0) a) (andb (N.eqb (fld (pack3 a b c) 1) b) (N.eqb (fld (pack3 a b c) 2) c)) = true).
  { apply (sweep3 (fun a b c => andb (N.eqb (fld (pack3 a b c) 0) a) (andb (N.eqb (fld (pack3 a b c) 1) b) (N.eqb (fld (pack3 a b c) 2) c))) 4 4 4);
      [vm_compute; reflexivity | exact Ha | exact Hb | exact Hc]. }
  lia.
Qed.

Lemma merge62 v : v < 256 -> N.lor ((N.shiftl (N.shiftr v 2) 2) mod 256) (swap2 (swap2 (N.land v 3))) = v.
Proof.
  intros Hv. apply N.eqb_eq.
  apply (sweep1 (fun v => N.eqb (N.lor ((N.shiftl (N.shiftr v 2) 2) mod 256) (swap2 (swap2 (N.land v 3)))) v) 256);
    [vm_compute; reflexivity | exact Hv].
Qed.

Lemma top62_lt64 v : v < 256 -> N.shiftr v 2 < 64.
Proof.
  intros Hv. apply N.ltb_lt.
  apply (sweep1 (fun v => N.ltb (N.shiftr v 2) 64) 256); [vm_compute; reflexivity | exact Hv].
Qed.

Lemma two_at_lt64 d j : bytes d -> two_at d j < 64.
Proof. intros Hd. unfold two_at. apply pack3_lt64; apply swap2_lt4, dnth_bytes, Hd. Qed.

Lemma vals62_lt64 d : bytes d -> Forall (fun x => x < 64) (vals62 d).
Proof.
  intros Hd. unfold vals62. apply Forall_app. split; apply Forall_forall; intros x Hx;
    apply in_map_iff in Hx; destruct Hx as [i [<- _]].
  - apply two_at_lt64, Hd.
  - apply top62_lt64, dnth_bytes, Hd.
Qed.

Lemma vals62_length d : length (vals62 d) = 342%nat.
Proof. unfold vals62. rewrite app_length, !map_length, !seq_length. reflexivity. Qed.

Lemma byte62_vals d i : bytes d -> (i < 256)%nat -> byte62 (vals62 d ++ [0]) i = dnth d i.
Proof.
  intros Hd Hi. unfold byte62, vals62. rewrite <- !app_assoc.
  rewrite (dnth_mapseq_r 86). rewrite (dnth_mapseq_l 256) by exact Hi.
  assert (Hj : (Nat.modulo i 86 < 86)%nat) by (apply Nat.mod_upper_bound; lia).
  rewrite (dnth_mapseq_l 86) by exact Hj.
  set (j := Nat.modulo i 86) in *. set (k := Nat.div i 86).
  assert (Hik : i = (86 * k + j)%nat) by (apply Nat.div_mod; lia).
  assert (Hk : (k < 3)%nat) by (subst k; apply Nat.div_lt_upper_bound; lia).
  unfold two_at.
  replace (85 - (85 - j))%nat with j by lia.
  replace (171 - (85 - j))%nat with (86 + j)%nat by lia.
  replace (257 - (85 - j))%nat with (172 + j)%nat by lia.
  pose proof (pack3_fld _ _ _ (swap2_lt4 _ (dnth_bytes d j Hd)) (swap2_lt4 _ (dnth_bytes d (86 + j) Hd))
                (swap2_lt4 _ (dnth_bytes d (172 + j) Hd))) as [F0 [F1 F2]].
  unfold top62.
  destruct k as [|[|[|k]]]; [| | | lia].
  - rewrite F0. replace i with j by lia. apply merge62, dnth_bytes, Hd.
  - rewrite F1. replace i with (86 + j)%nat by lia. apply merge62, dnth_bytes, Hd.
  - rewrite F2. replace i with (172 + j)%nat by lia. apply merge62, dnth_bytes, Hd.
Qed.

Theorem decode62_encode62 seed verify d :
  seed < 64 -> bytes d -> length d = 256%nat -> decode62 seed verify (encode62 seed d) = ROk d.
Proof.
  intros Hs Hd Hl. unfold decode62, encode62.
  rewrite (unchain_chain enc62 inv62 64 tab62_rt ltac:(lia) lxor_lt64 (vals62 d) seed Hs (vals62_lt64 d Hd)).
  assert (E : dnth (vals62 d ++ [0]) 342 = 0).
  { unfold dnth. rewrite app_nth2 by (rewrite vals62_length; lia). rewrite vals62_length. reflexivity. }
  rewrite E. rewrite N.eqb_refl. rewrite andb_false_r.
  f_equal. transitivity (map (dnth d) (seq 0 256)).
  - apply map_seq_ext. intros i Hi. apply byte62_vals; assumption.
  - rewrite <- Hl. apply map_seq_dnth.
Qed.

Lemma encode62_length seed d : length (encode62 seed d) = 343%nat.
Proof. unfold encode62. rewrite map_length, chain_length, vals62_length. reflexivity. Qed.

(* every nibble of an encoded sector is a valid disk byte (MSB set, not D5/AA) *)
Lemma enc62_ok v : disk_byte_ok (enc62 v) = true.
Proof.
  unfold enc62, tab_enc.
  assert (H : N.land v 63 < 64).
  { change 63 with (N.ones 6). rewrite N.land_ones. apply N.mod_lt. discriminate. }
  revert H. generalize (N.land v 63). intros w Hw.
  apply (sweep1 (fun w => disk_byte_ok (dnth disk_bytes_62_525 (N.to_nat w))) 64); [vm_compute; reflexivity | exact Hw].
Qed.

Lemma encode62_ok seed d : forallb disk_byte_ok (encode62 seed d) = true.
Proof. unfold encode62. apply forallb_forall. intros x Hx. apply in_map_iff in Hx. destruct Hx as [v [<- _]]. apply enc62_ok. Qed.

(* ---------- 5&3 ---------- *)
Lemma three_at_lt32 d m : bytes d -> three_at d m < 32.
Proof.
  intros Hd. unfold three_at. destruct (Nat.eqb m 153).
  - pose proof (dnth_bytes d 255 Hd) as H. revert H. generalize (dnth d 255). intros v Hv. apply N.ltb_lt.
    apply (sweep1 (fun v => N.ltb (N.land v 7) 32) 256); [vm_compute; reflexivity | exact Hv].
  - set (k := Nat.div m 51).
    pose proof (dnth_bytes d (5 * (50 - Nat.modulo m 51) + k) Hd) as Ha.
    pose proof (dnth_bytes d (5 * (50 - Nat.modulo m 51) + 3) Hd) as Hb.
    pose proof (dnth_bytes d (5 * (50 - Nat.modulo m 51) + 4) Hd) as Hc.
    revert Ha Hb Hc. generalize (dnth d (5 * (50 - Nat.modulo m 51) + k)) (dnth d (5 * (50 - Nat.modulo m 51) + 3)) (dnth d (5 * (50 - Nat.modulo m 51) + 4)).
    intros a b c Ha Hb Hc. unfold bit. generalize (2 - N.of_nat k). intros s.
    assert (Hx : forall v, N.land (N.shiftr v s) 1 < 2).
    { intros v. change 1 with (N.ones 1). rewrite N.land_ones. apply N.mod_lt. discriminate. }
    pose proof (Hx b) as Hb1. pose proof (Hx c) as Hc1. revert Hb1 Hc1.
    generalize (N.land (N.shiftr b s) 1) (N.land (N.shiftr c s) 1). intros x y Hx1 Hy1.
    assert (Ha7 : N.land a 7 < 8).
    { change 7 with (N.ones 3). rewrite N.land_ones. apply N.mod_lt. discriminate. }
    revert Ha7. generalize (N.land a 7). intros z Hz. apply N.ltb_lt.
    apply (sweep3 (fun z x y => N.ltb (N.lor (N.shiftl z 2) (N.lor (N.shiftl x 1) y)) 32) 8 2 2);
      [vm_compute; reflexivity | exact Hz | exact Hx1 | exact Hy1].
Qed.

Lemma top53_lt32 d m : bytes d -> top53 d m < 32.
Proof.
  intros Hd. unfold top53.
  assert (H : forall v, v < 256 -> N.shiftr v 3 < 32).
  { intros v Hv. apply N.ltb_lt. apply (sweep1 (fun v => N.ltb (N.shiftr v 3) 32) 256); [vm_compute; reflexivity | exact Hv]. }
  destruct (Nat.eqb m 255); apply H, dnth_bytes, Hd.
Qed.

Lemma vals53_lt32 d : bytes d -> Forall (fun x => x < 32) (vals53 d).
Proof.
  intros Hd. unfold vals53. apply Forall_app. split; apply Forall_forall; intros x Hx;
    apply in_map_iff in Hx; destruct Hx as [i [<- _]].
  - apply three_at_lt32, Hd.
  - apply top53_lt32, Hd.
Qed.

Lemma vals53_length d : length (vals53 d) = 410%nat.
Proof. unfold vals53. rewrite app_length, !map_length, !seq_length. reflexivity. Qed.

Ltac Zify.zify_post_hook ::= Z.div_mod_to_equations.

Definition g3 (z p q : N) : N := N.lor (N.shiftl z 2) (N.lor (N.shiftl p 1) q).

Lemma g3_parts z p q : z < 8 -> p < 2 -> q < 2 ->
  N.land (N.shiftr (g3 z p q) 2) 7 = z /\ N.land (g3 z p q) 2 = N.shiftl p 1 /\ N.land (g3 z p q) 1 = q.
Proof.
  intros Hz Hp Hq.
  assert (H : andb (N.eqb (N.land (N.shiftr (g3 z p q) 2) 7) z)
                (andb (N.eqb (N.land (g3 z p q) 2) (N.shiftl p 1)) (N.eqb (N.land (g3 z p q) 1) q)) = true).
  { apply (sweep3 (fun z p q => andb (N.eqb (N.land (N.shiftr (g3 z p q) 2) 7) z)
                (andb (N.eqb (N.land (g3 z p q) 2) (N.shiftl p 1)) (N.eqb (N.land (g3 z p q) 1) q))) 8 2 2);
      [vm_compute; reflexivity | exact Hz | exact Hp | exact Hq]. }
  lia.
Qed.

Lemma land7_lt8 v : N.land v 7 < 8.
Proof. change 7 with (N.ones 3). rewrite N.land_ones. apply N.mod_lt. discriminate. Qed.
Lemma bit_lt2 v s : bit v s < 2.
Proof. unfold bit. change 1 with (N.ones 1). rewrite N.land_ones. apply N.mod_lt. discriminate. Qed.

Lemma merge53 v : v < 256 -> N.lor ((N.shiftl (N.shiftr v 3) 3) mod 256) (N.land v 7) = v.
Proof.
  intros Hv. apply N.eqb_eq.
  apply (sweep1 (fun v => N.eqb (N.lor ((N.shiftl (N.shiftr v 3) 3) mod 256) (N.land v 7)) v) 256); [vm_compute; reflexivity | exact Hv].
Qed.
Lemma merge53_last v : v < 256 -> N.lor ((N.shiftl (N.shiftr v 3) 3) mod 256) (N.land (N.land v 7) 7) = v.
Proof.
  intros Hv. apply N.eqb_eq.
  apply (sweep1 (fun v => N.eqb (N.lor ((N.shiftl (N.shiftr v 3) 3) mod 256) (N.land (N.land v 7) 7)) v) 256); [vm_compute; reflexivity | exact Hv].
Qed.
Lemma merge53_e e : e < 256 ->
  N.lor ((N.shiftl (N.shiftr e 3) 3) mod 256)
        (N.land (N.lor (N.shiftl (N.shiftl (bit e 2) 1) 1) (N.lor (N.shiftl (bit e 1) 1) (N.shiftr (N.shiftl (bit e 0) 1) 1))) 7) = e.
Proof.
  intros Hv. apply N.eqb_eq.
  apply (sweep1 (fun e => N.eqb (N.lor ((N.shiftl (N.shiftr e 3) 3) mod 256)
        (N.land (N.lor (N.shiftl (N.shiftl (bit e 2) 1) 1) (N.lor (N.shiftl (bit e 1) 1) (N.shiftr (N.shiftl (bit e 0) 1) 1))) 7)) e) 256);
    [vm_compute; reflexivity | exact Hv].
Qed.
Lemma merge53_f f : f < 256 ->
  N.lor ((N.shiftl (N.shiftr f 3) 3) mod 256)
        (N.land (N.lor (N.shiftl (bit f 2) 2) (N.lor (N.shiftl (bit f 1) 1) (bit f 0))) 7) = f.
Proof.
  intros Hv. apply N.eqb_eq.
  apply (sweep1 (fun f => N.eqb (N.lor ((N.shiftl (N.shiftr f 3) 3) mod 256)
        (N.land (N.lor (N.shiftl (bit f 2) 2) (N.lor (N.shiftl (bit f 1) 1) (bit f 0))) 7)) f) 256);
    [vm_compute; reflexivity | exact Hv].
Qed.

(* three_at / top53 at the indices the decoder uses, in terms of the source group g *)
Lemma three_at_grp d g kk : (g < 51)%nat -> (kk < 3)%nat ->
  three_at d (51 * kk + (50 - g)) =
  g3 (N.land (dnth d (5 * g + kk)) 7) (bit (dnth d (5 * g + 3)) (2 - N.of_nat kk)) (bit (dnth d (5 * g + 4)) (2 - N.of_nat kk)).
Proof.
  intros Hg Hk. unfold three_at.
  replace (Nat.eqb (51 * kk + (50 - g)) 153) with false by (symmetry; apply Nat.eqb_neq; lia).
  replace (Nat.modulo (51 * kk + (50 - g)) 51) with (50 - g)%nat by lia.
  replace (Nat.div (51 * kk + (50 - g)) 51) with kk by lia.
  replace (50 - (50 - g))%nat with g by lia. reflexivity.
Qed.

Lemma top53_grp d g kk : (g < 51)%nat -> (kk < 5)%nat ->
  top53 d (51 * kk + (50 - g)) = N.shiftr (dnth d (5 * g + kk)) 3.
Proof.
  intros Hg Hk. unfold top53.
  replace (Nat.eqb (51 * kk + (50 - g)) 255) with false by (symmetry; apply Nat.eqb_neq; lia).
  replace (Nat.modulo (51 * kk + (50 - g)) 51) with (50 - g)%nat by lia.
  replace (Nat.div (51 * kk + (50 - g)) 51) with kk by lia.
  replace (50 - (50 - g))%nat with g by lia. reflexivity.
Qed.

Lemma vals53_three d i : (i <= 153)%nat -> dnth (vals53 d ++ [0]) (153 - i) = three_at d i.
Proof.
  intros Hi. unfold vals53. rewrite <- app_assoc. rewrite (dnth_mapseq_l 154) by lia.
  f_equal. lia.
Qed.
Lemma vals53_top d i : (i < 256)%nat -> dnth (vals53 d ++ [0]) (154 + i) = top53 d i.
Proof.
  intros Hi. unfold vals53. rewrite <- app_assoc. rewrite (dnth_mapseq_r 154). apply (dnth_mapseq_l 256). exact Hi.
Qed.

Lemma byte53_vals d n : bytes d -> (n < 256)%nat -> byte53 (vals53 d ++ [0]) n = dnth d n.
Proof.
  intros Hd Hn. unfold byte53.
  destruct (Nat.eqb_spec n 255) as [->|Hne].
  - rewrite (vals53_top d 255) by lia. rewrite (vals53_three d 153) by lia.
    unfold top53, three_at. cbn [Nat.eqb]. apply merge53_last, dnth_bytes, Hd.
  - set (g := Nat.div n 5). set (k := Nat.modulo n 5).
    assert (Hg : (g < 51)%nat) by (subst g; lia).
    assert (Hk : (k < 5)%nat) by (subst k; lia).
    assert (Hnk : n = (5 * g + k)%nat) by (subst g k; lia).
    rewrite !vals53_three by lia. rewrite !vals53_top by lia.
    replace (50 - g)%nat with (51 * 0 + (50 - g))%nat by lia.
    replace (51 + (51 * 0 + (50 - g)))%nat with (51 * 1 + (50 - g))%nat by lia.
    replace (102 + (51 * 0 + (50 - g)))%nat with (51 * 2 + (50 - g))%nat by lia.
    replace (153 + (51 * 0 + (50 - g)))%nat with (51 * 3 + (50 - g))%nat by lia.
    replace (204 + (51 * 0 + (50 - g)))%nat with (51 * 4 + (50 - g))%nat by lia.
    rewrite !three_at_grp by lia. rewrite !top53_grp by lia.
    change (2 - N.of_nat 0) with 2. change (2 - N.of_nat 1) with 1. change (2 - N.of_nat 2) with 0.
    pose proof (dnth_bytes d (5 * g + 0) Hd) as B0. pose proof (dnth_bytes d (5 * g + 1) Hd) as B1.
    pose proof (dnth_bytes d (5 * g + 2) Hd) as B2. pose proof (dnth_bytes d (5 * g + 3) Hd) as B3.
    pose proof (dnth_bytes d (5 * g + 4) Hd) as B4.
    set (a := dnth d (5 * g + 0)) in *. set (b := dnth d (5 * g + 1)) in *. set (c := dnth d (5 * g + 2)) in *.
    set (e := dnth d (5 * g + 3)) in *. set (f := dnth d (5 * g + 4)) in *.
    destruct (g3_parts (N.land a 7) (bit e 2) (bit f 2) (land7_lt8 a) (bit_lt2 e 2) (bit_lt2 f 2)) as [A1 [A2 A3]].
    destruct (g3_parts (N.land b 7) (bit e 1) (bit f 1) (land7_lt8 b) (bit_lt2 e 1) (bit_lt2 f 1)) as [A4 [A5 A6]].
    destruct (g3_parts (N.land c 7) (bit e 0) (bit f 0) (land7_lt8 c) (bit_lt2 e 0) (bit_lt2 f 0)) as [A7 [A8 A9]].
    destruct k as [|[|[|[|k]]]].
    + rewrite A1. rewrite Hnk. apply merge53, B0.
    + rewrite A4. rewrite Hnk. apply merge53, B1.
    + rewrite A7. rewrite Hnk. apply merge53, B2.
    + rewrite A2, A5, A8. rewrite Hnk. apply merge53_e, B3.
    + assert (k = 0)%nat by lia. subst k. rewrite A3, A6, A9. rewrite Hnk. apply merge53_f, B4.
Qed.

Theorem decode53_encode53 seed verify d :
  seed < 32 -> bytes d -> length d = 256%nat -> decode53 seed verify (encode53 seed d) = ROk d.
Proof.
  intros Hs Hd Hl. unfold decode53, encode53.
  rewrite (unchain_chain enc53 inv53 32 tab53_rt ltac:(lia) lxor_lt32 (vals53 d) seed Hs (vals53_lt32 d Hd)).
  assert (E : dnth (vals53 d ++ [0]) 410 = 0).
  { unfold dnth. rewrite app_nth2 by (rewrite vals53_length; lia). rewrite vals53_length. reflexivity. }
  rewrite E. rewrite N.eqb_refl. rewrite andb_false_r.
  f_equal. transitivity (map (dnth d) (seq 0 256)).
  - apply map_seq_ext. intros i Hi. apply byte53_vals; assumption.
  - rewrite <- Hl. apply map_seq_dnth.
Qed.

Lemma encode53_length seed d : length (encode53 seed d) = 411%nat.
Proof. unfold encode53. rewrite map_length, chain_length, vals53_length. reflexivity. Qed.

Lemma enc53_ok v : disk_byte_ok (enc53 v) = true.
Proof.
  unfold enc53, tab_enc.
  assert (H : N.land v 31 < 32).
  { change 31 with (N.ones 5). rewrite N.land_ones. apply N.mod_lt. discriminate. }
  revert H. generalize (N.land v 31). intros w Hw.
  apply (sweep1 (fun w => disk_byte_ok (dnth disk_bytes_53_525 (N.to_nat w))) 32); [vm_compute; reflexivity | exact Hw].
Qed.

Lemma encode53_ok seed d : forallb disk_byte_ok (encode53 seed d) = true.
Proof. unfold encode53. apply forallb_forall. intros x Hx. apply in_map_iff in Hx. destruct Hx as [v [<- _]]. apply enc53_ok. Qed.
