(* Img/Codec.v -- MODEL of the image-level codecs: CRC32 (woz.rs, table GENERATED), CRC16 (td0.rs),
   TD0 sector pack/unpack (td0.rs Sector::pack / unpack), IMD track compress/expand (imd.rs),
   2MG header offsets (dot2mg.rs to_bytes).  Panics and loop bounds are explicit.  No proofs here. *)
From A2 Require Import Base.Bytes Gen.Tables.
Open Scope N_scope.

(* ---- CRC32 as woz.rs computes it, over the generated table ---- *)
Definition crc32_step (crc b : N) : N :=
  N.lxor (dnth crc32_tab (N.to_nat (N.land (N.lxor crc b) 255))) (N.shiftr crc 8).
Definition crc32 (seed : N) (buf : list N) : N :=
  N.lxor (fold_left crc32_step buf (N.lxor seed 4294967295)) 4294967295.
(* the reflected polynomial definition of one table entry *)
Fixpoint crc32_bits (n : nat) (c : N) : N :=
  match n with O => c | S k => crc32_bits k (if N.odd c then N.lxor (N.shiftr c 1) 3988292384 else N.shiftr c 1) end.
Definition crc32_entry (i : N) : N := crc32_bits 8 i.

(* ---- CRC16 of td0.rs (bitwise, polynomial 0xA097, u16 arithmetic) ---- *)
Fixpoint crc16_bits (n : nat) (c : N) : N :=
  match n with O => c | S k => crc16_bits k (N.lxor ((N.shiftl c 1) mod 65536) (if N.eqb (N.land c 32768) 0 then 0 else 41111)) end.
Definition crc16_step (crc b : N) : N := crc16_bits 8 (N.lxor crc (N.shiftl b 8)).
Definition crc16 (seed : N) (buf : list N) : N := fold_left crc16_step buf seed.

(* ---- uniformity test shared by TD0 and IMD ---- *)
Definition uniform (l : list N) : bool := match l with [] => true | x :: r => forallb (N.eqb x) r end.

(* ---- TD0 sector data: pack / unpack ---- *)
Definition td0_pack (size : N) (dat : list N) : outcome (list N) :=
  if negb (N.eqb (lenN dat) size) then RErr 1
  else if uniform dat then ROk (le16 5 ++ [1] ++ le16 ((size mod 65536) / 2) ++ [dnth dat 0; dnth dat 0])
  else ROk (le16 ((size mod 65536 + 1) mod 65536) ++ [0] ++ dat).

(* repeated-pattern entries: (count16, b0, b1) until the sector is full *)
Fixpoint td0_rep (fuel : nat) (size : N) (acc : list N) (d : list N) : outcome (list N) :=
  match fuel with
  | O => RFuel
  | S k => if N.leb size (lenN acc) then ROk acc
           else match d with
                | c0 :: c1 :: b0 :: b1 :: r => td0_rep k size (acc ++ concat (repeat [b0; b1] (N.to_nat (c0 + 256 * c1)))) r
                | _ => RErr 2
                end
  end.
(* run-length entries: (0, n, n bytes) literal | (k, rep, 2k bytes) repeated *)
Fixpoint td0_rle (fuel : nat) (size : N) (acc : list N) (d : list N) : outcome (list N) :=
  match fuel with
  | O => RFuel
  | S k => if N.leb size (lenN acc) then ROk acc
           else match d with
                | 0 :: n :: r => if N.ltb (lenN r) n then RErr 2 else td0_rle k size (acc ++ takeN n r) (dropN n r)
                | c :: rep :: r => if N.ltb (lenN r) (2 * c) then RErr 2
                                   else td0_rle k size (acc ++ concat (repeat (takeN (2 * c) r) (N.to_nat rep))) (dropN (2 * c) r)
                | _ => RErr 2
                end
  end.
Definition td0_unpack (size : N) (data : list N) : outcome (list N) :=
  match data with
  | _ :: _ :: enc :: r =>
      let res := match enc with
                 | 0 => if N.ltb (lenN r) size then RErr 2 else ROk (takeN size r)
                 | 1 => td0_rep (S (length r)) size [] r
                 | 2 => td0_rle (S (length r)) size [] r
                 | _ => RErr 3
                 end in
      match res with
      | ROk ans => if N.eqb (lenN ans) size then ROk ans else RErr 1
      | e => e
      end
  | _ => RErr 2
  end.

(* ---- IMD track buffer: one code byte per sector, followed by data (odd codes) or one fill byte (even codes) ---- *)
Definition imd_sec_size (size code : N) : option N :=
  match code with
  | 0 => Some 1
  | 1 | 3 | 5 | 7 => Some (1 + size)
  | 2 | 4 | 6 | 8 => Some 2
  | _ => None            (* get_sec_buf_size panics *)
  end.
Fixpoint imd_compress (size : N) (n : nat) (buf : list N) : outcome (list N) :=
  match n with
  | O => ROk []
  | S k => match buf with
           | [] => RPanic 1
           | c :: rest =>
               match imd_sec_size size c with
               | None => RPanic 2
               | Some sz =>
                   if N.ltb (lenN rest) (sz - 1) then RPanic 3
                   else let body := takeN (sz - 1) rest in
                        let out := if andb (N.ltb 2 sz) (uniform body) then [(c + 1) mod 256; dnth body 0] else c :: body in
                        do r <- imd_compress size k (dropN (sz - 1) rest); ROk (out ++ r)
               end
           end
  end.
Fixpoint imd_expand (size : N) (n : nat) (buf : list N) : outcome (list N) :=
  match n with
  | O => ROk []
  | S k => match buf with
           | [] => RPanic 1
           | c :: rest =>
               match imd_sec_size size c with
               | None => RPanic 2
               | Some sz =>
                   if N.ltb (lenN rest) (sz - 1) then RPanic 3
                   else let body := takeN (sz - 1) rest in
                        let out := if N.eqb sz 2 then (if N.eqb c 0 then RPanic 4 else ROk ((c - 1) :: repeatN (dnth body 0) size)) else ROk (c :: body) in
                        do o <- out; do r <- imd_expand size k (dropN (sz - 1) rest); ROk (o ++ r)
               end
           end
  end.
(* an expanded track as a2kit holds it in memory: a list of (code, data) with odd codes carrying [size] bytes *)
Definition imd_flat (secs : list (N * list N)) : list N := flat_map (fun s => fst s :: snd s) secs.
Definition imd_sec_ok (size : N) (s : N * list N) : Prop :=
  (fst s = 0 /\ snd s = []) \/ ((fst s = 1 \/ fst s = 3 \/ fst s = 5 \/ fst s = 7) /\ lenN (snd s) = size /\ bytes (snd s)).

(* ---- 2MG: the three offsets / lengths that to_bytes recomputes ---- *)
Definition dot2mg_offsets (data_len comment_len creator_len : N) : N * N * N :=
  (64, (if N.eqb comment_len 0 then 0 else 64 + data_len), (if N.eqb creator_len 0 then 0 else 64 + data_len + comment_len)).
Definition dot2mg_bytes (hdr48 : list N) (data comment creator : list N) : list N :=
  (* bytes 0..23 of the header are kept, then data_offset, data_len, comment_offset, comment_len, creator_offset, creator_len, 16 pad *)
  let '(doff, coff, roff) := dot2mg_offsets (lenN data) (lenN comment) (lenN creator) in
  takeN 24 hdr48 ++ le32 doff ++ le32 (lenN data) ++ le32 coff ++ le32 (lenN comment) ++ le32 roff ++ le32 (lenN creator) ++ repeatN 0 16
  ++ data ++ comment ++ creator.
