(* Props/C12.v -- "Malformed input yields an error, never a crash or hang".  Statements only.
   The models are panic- and fuel-explicit transcriptions (Sys/Parsers.v, Img/Codec.v, Pack/Fimg.v); a theorem here
   says the transcription can neither panic nor run out of fuel on ANY byte string.  They speak about the code
   only through the malformed-input correspondence (outcome class of model = outcome class of implementation)
   and the implementation-side search, which covers every other consumer (file systems, JSON, detokenizers...). *)
From A2 Require Import Base.Bytes Img.Codec Sys.Parsers Sys.ParsersProofs Pack.Fimg.
Open Scope N_scope.

(* WOZ: the chunk walk terminates without panic on every byte string (each step moves at least 8 bytes forward) *)
Theorem c12_woz_walk_total : forall buf, exists cs, woz_walk (S (length buf)) 12 buf = ROk cs.
Proof. exact woz_walk_total. Qed.
Print Assumptions c12_woz_walk_total.

(* TD0: unpacking arbitrary sector data returns data or an error, never panics, and the loops are bounded by the data *)
Theorem c12_td0_unpack_total : forall size data, td0_unpack size data <> RFuel /\ forall c, td0_unpack size data <> RPanic c.
Proof. exact td0_unpack_total. Qed.
Print Assumptions c12_td0_unpack_total.

(* IMD: the track record parser (with the range checks added by the fix: commits) is total *)
Theorem c12_imd_parse_track_total : forall b, (forall c, imd_parse_track b <> RPanic c) /\ imd_parse_track b <> RFuel.
Proof. exact imd_parse_track_total. Qed.
Print Assumptions c12_imd_parse_track_total.

(* DOS 3.x binary / token headers: unpacking arbitrary bytes is total *)
Theorem c12_dos_unpack_total : forall f,
  (forall c, dos_unpack_bin f <> RPanic c) /\ dos_unpack_bin f <> RFuel /\ (forall c, dos_unpack_tok f <> RPanic c) /\ dos_unpack_tok f <> RFuel.
Proof.
  intros f. unfold dos_unpack_bin, dos_unpack_tok.
  destruct (N.ltb (lenN f) 4), (N.ltb (lenN f) 2);
    try destruct (N.ltb (lenN f) (4 + un_le16 (dropN 2 f))); try destruct (N.ltb (lenN f) (2 + un_le16 f));
    repeat split; try discriminate; intros; discriminate.
Qed.
Print Assumptions c12_dos_unpack_total.
