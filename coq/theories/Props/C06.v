(* Props/C06.v -- "A saved image reloads to the same volume".  Statements only.
   What a2kit holds in memory per container and what it writes are related by the codecs below; the file-system
   layer reads only allocation units, so equal units give equal volumes (Fs/Spec.v has no hidden state: its
   observations are functions of [files] and [used], and the implementation-side reload oracle checks that
   the real in-memory buffers -- VTOC, bitmap, FAT, track bit pointers -- are flushed by to_bytes).
   The theorems: every compressed / encoded on-disk form decodes to the in-memory content. *)
From A2 Require Import Base.Bytes Gen.Tables Img.Nibble Img.NibbleProofs Img.Codec Img.CodecProofs Fs.Spec Fs.SpecProofs.
Open Scope N_scope.

(* IMD run compression and TD0 sector packing lose nothing *)
Theorem c06_imd_tracks : forall size secs, 128 <= size -> Forall (imd_sec_ok size) secs ->
  exists c, imd_compress size (length secs) (imd_flat secs) = ROk c /\ imd_expand size (length secs) c = ROk (imd_flat secs).
Proof. exact imd_expand_compress. Qed.
Print Assumptions c06_imd_tracks.

Theorem c06_td0_sectors : forall size dat, In size [128; 256; 512; 1024; 2048; 4096; 8192] -> lenN dat = size -> bytes dat ->
  exists p, td0_pack size dat = ROk p /\ td0_unpack size p = ROk dat.
Proof. exact td0_unpack_pack. Qed.
Print Assumptions c06_td0_sectors.

(* WOZ / NIB nibble streams: the sector bytes are recovered from the stored nibbles *)
Theorem c06_nibble_streams : forall d, bytes d -> length d = 256%nat ->
  decode62 dat_std16_chk_seed dat_std16_verify_chk (encode62 dat_std16_chk_seed d) = ROk d
  /\ decode53 dat_std13_chk_seed dat_std13_verify_chk (encode53 dat_std13_chk_seed d) = ROk d.
Proof.
  intros d Hd Hl. split; [apply decode62_encode62 | apply decode53_encode53]; try assumption; vm_compute; reflexivity.
Qed.
Print Assumptions c06_nibble_streams.

(* the volume a user sees is determined by the directory and the allocation map alone: two states with the
   same files and the same used set answer every lookup and report the same free space *)
Theorem c06_observations_determined : forall pr s1 s2, files s1 = files s2 -> (forall b, In b (used s1) <-> In b (used s2)) ->
  (forall q, vlookup s1 q = vlookup s2 q) /\ reported_free pr s1 = reported_free pr s2.
Proof.
  intros pr s1 s2 Hf Hu. split.
  - intros q. unfold vlookup. rewrite Hf. reflexivity.
  - unfold reported_free. apply free_count_ext. exact Hu.
Qed.
Print Assumptions c06_observations_determined.
