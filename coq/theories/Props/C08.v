(* Props/C08.v -- property C08 "Sector and block storage is exact and non-interfering".
   Statements only; every proof is `exact <lemma>`; the lemmas live in Img/*Proofs.v. *)
From A2 Require Import Base.Bytes Gen.Tables Img.Nibble Img.NibbleProofs.
Open Scope N_scope.

(* 4-and-4: every byte value survives encode/decode, and both disk bytes have the MSB set *)
Theorem c08_dec44_enc44 : forall v, v < 256 -> dec44 (N.lor (N.shiftr v 1) 170) (N.lor v 170) = v.
Proof. exact dec44_enc44. Qed.
Print Assumptions c08_dec44_enc44.

(* the GENERATED nibble tables are injective, have the right size, every entry has its MSB set
   and none equals the reserved marks D5 / AA; the inverse tables built as invert_62/invert_53
   build them invert them *)
Theorem c08_table62 :
  (forallb disk_byte_ok disk_bytes_62_525 = true /\ length disk_bytes_62_525 = 64%nat /\ NoDup disk_bytes_62_525)
  /\ forall v, v < 64 -> inv62 (enc62 v) = v.
Proof. exact (conj tab62_ok tab62_rt). Qed.
Print Assumptions c08_table62.

Theorem c08_table53 :
  (forallb disk_byte_ok disk_bytes_53_525 = true /\ length disk_bytes_53_525 = 32%nat /\ NoDup disk_bytes_53_525)
  /\ forall v, v < 32 -> inv53 (enc53 v) = v.
Proof. exact (conj tab53_ok tab53_rt). Qed.
Print Assumptions c08_table53.

(* 6-and-2: for EVERY 256-byte sector content the 343 nibbles (checksum included) decode to it,
   with checksum verification on, for the checksum seed of the generated format *)
Theorem c08_decode62_encode62 : forall d, bytes d -> length d = 256%nat ->
  decode62 dat_std16_chk_seed dat_std16_verify_chk (encode62 dat_std16_chk_seed d) = ROk d
  /\ length (encode62 dat_std16_chk_seed d) = N.to_nat fmt62_data_nibs
  /\ forallb disk_byte_ok (encode62 dat_std16_chk_seed d) = true.
Proof.
  intros d Hd Hl. split; [|split].
  - apply decode62_encode62; [vm_compute; reflexivity | exact Hd | exact Hl].
  - rewrite encode62_length. vm_compute. reflexivity.
  - apply encode62_ok.
Qed.
Print Assumptions c08_decode62_encode62.

(* 5-and-3: the same for the 411-nibble encoding of 13-sector disks *)
Theorem c08_decode53_encode53 : forall d, bytes d -> length d = 256%nat ->
  decode53 dat_std13_chk_seed dat_std13_verify_chk (encode53 dat_std13_chk_seed d) = ROk d
  /\ length (encode53 dat_std13_chk_seed d) = N.to_nat fmt53_data_nibs
  /\ forallb disk_byte_ok (encode53 dat_std13_chk_seed d) = true.
Proof.
  intros d Hd Hl. split; [|split].
  - apply decode53_encode53; [vm_compute; reflexivity | exact Hd | exact Hl].
  - rewrite encode53_length. vm_compute. reflexivity.
  - apply encode53_ok.
Qed.
Print Assumptions c08_decode53_encode53.

(* non-vacuity: a concrete non-trivial sector meets the hypotheses *)
Example c08_nonvacuous : bytes (map N.of_nat (seq 0 256)) /\ length (map N.of_nat (seq 0 256)) = 256%nat.
Proof.
  split; [|reflexivity]. apply Forall_forall. intros x Hx. apply in_map_iff in Hx.
  destruct Hx as [i [<- Hi]]. apply in_seq in Hi. lia.
Qed.
