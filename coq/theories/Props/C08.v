(* Props/C08.v -- property C08 "Sector and block storage is exact and non-interfering".
   Statements only; every proof is `exact <lemma>`; the lemmas live in Img/*Proofs.v. *)
From A2 Require Import Base.Bytes Gen.Tables Img.Nibble Img.NibbleProofs.
Open Scope N_scope.

(* 4-and-4: every byte value survives encode/decode, and both disk bytes have the MSB set *)
Theorem c08_dec44_enc44 : forall v, v < 256 -> dec44 (N.lor (N.shiftr v 1) 170) (N.lor v 170) = v.
Proof. exact dec44_enc44. Qed.
Print Assumptions c08_dec44_enc44.

(* the GENERATED nibble tables are injective, have the right size, every entry has its MSB set
   and none equals the reserved marks D5 / AA; the inverse tables built as invert_62/invert_53
   build them invert them *)
Theorem c08_table62 :
  (forallb disk_byte_ok disk_bytes_62_525 = true /\ length disk_bytes_62_525 = 64%nat /\ NoDup disk_bytes_62_525)
  /\ forall v, v < 64 -> inv62 (enc62 v) = v.
Proof. exact (conj tab62_ok tab62_rt). Qed.
Print Assumptions c08_table62.

Theorem c08_table53 :
  (forallb disk_byte_ok disk_bytes_53_525 = true /\ length disk_bytes_53_525 = 32%nat /\ NoDup disk_bytes_53_525)
  /\ forall v, v < 32 -> inv53 (enc53 v) = v.
Proof. exact (conj tab53_ok tab53_rt). Qed.
Print Assumptions c08_table53.

(* 6-and-2: for EVERY 256-byte sector content the 343 nibbles (checksum included) decode to it,
   with checksum verification on, for the checksum seed of the generated format *)
Theorem c08_decode62_encode62 : forall d, bytes d -> length d = 256%nat ->
  decode62 dat_std16_chk_seed dat_std16_verify_chk (encode62 dat_std16_chk_seed d) = ROk d
  /\ length (encode62 dat_std16_chk_seed d) = N.to_nat fmt62_data_nibs
  /\ forallb disk_byte_ok (encode62 dat_std16_chk_seed d) = true.
Proof.
  intros d Hd Hl. split; [|split].
  - apply decode62_encode62; [vm_compute; reflexivity | exact Hd | exact Hl].
  - rewrite encode62_length. vm_compute. reflexivity.
  - apply encode62_ok.
Qed.
Print Assumptions c08_decode62_encode62.

(* 5-and-3: the same for the 411-nibble encoding of 13-sector disks *)
Theorem c08_decode53_encode53 : forall d, bytes d -> length d = 256%nat ->
  decode53 dat_std13_chk_seed dat_std13_verify_chk (encode53 dat_std13_chk_seed d) = ROk d
  /\ length (encode53 dat_std13_chk_seed d) = N.to_nat fmt53_data_nibs
  /\ forallb disk_byte_ok (encode53 dat_std13_chk_seed d) = true.
Proof.
  intros d Hd Hl. split; [|split].
  - apply decode53_encode53; [vm_compute; reflexivity | exact Hd | exact Hl].
  - rewrite encode53_length. vm_compute. reflexivity.
  - apply encode53_ok.
Qed.
Print Assumptions c08_decode53_encode53.

(* non-vacuity: a concrete non-trivial sector meets the hypotheses *)
Example c08_nonvacuous : bytes (map N.of_nat (seq 0 256)) /\ length (map N.of_nat (seq 0 256)) = 256%nat.
Proof.
  split; [|reflexivity]. apply Forall_forall. intros x Hx. apply in_map_iff in Hx.
  destruct Hx as [i [<- Hi]]. apply in_seq in Hi. lia.
Qed.

(* ---------- 3.5 inch (Sony GCR) ---------- *)
From A2 Require Import Img.Track525 Img.Sony Img.SonyProofs Img.Track35 Img.Track35Proofs.

(* the GENERATED 3.5 inch disk byte table has the same properties, and its inverse table inverts it *)
Theorem c08_table62_35 :
  (forallb disk_byte_ok disk_bytes_62_35 = true /\ length disk_bytes_62_35 = 64%nat /\ NoDup disk_bytes_62_35)
  /\ forall v, v < 64 -> sinv (senc v) = v.
Proof. exact (conj stab_ok stab_back). Qed.
Print Assumptions c08_table62_35.

(* for EVERY 524-byte sector content (12 tag bytes + 512 data bytes) the 699 data nibbles and 4 checksum nibbles produced by the
   three rotating checksums decode to it, the checksum comparison included; sizes are the generated constants of disk35.rs *)
Theorem c08_sony_roundtrip : forall d, bytes d -> length d = N.to_nat d35_sector_size ->
  sony_decode (N.to_nat d35_chunk62 - 1) (sony_encode d) = ROk d
  /\ length (sony_encode d) = N.to_nat (d35_data_nibs + d35_chk_nibs)
  /\ forallb disk_byte_ok (sony_encode d) = true.
Proof.
  intros d Hd Hl. split; [|split].
  - apply sony_roundtrip; [rewrite Hl; reflexivity | exact Hd].
  - rewrite (sony_encode_length 174) by (rewrite Hl; reflexivity). reflexivity.
  - apply sony_encode_ok.
Qed.
Print Assumptions c08_sony_roundtrip.

(* the checksum transform alone, for any state of the three checksums and any length of the form 3n+2 *)
Theorem c08_sony_parts : forall n d s, (length d = 3 * n + 2)%nat -> bytes d ->
  let '(ps, f) := enc_parts s d in dec_parts s ps = (d, f) /\ length ps = S n.
Proof. exact parts_roundtrip. Qed.
Print Assumptions c08_sony_parts.

(* non-interference on a 3.5 inch track: writing a sector that exists on the track replaces the 703 nibbles of its own data field
   and no other bit of the track; the field then decodes to 12 zero tag bytes followed by the data padded / cut to 512 bytes;
   a sector number that is not on the track changes nothing; the track always has the bit count recorded for its zone *)
Theorem c08_track35_write_local : forall sides track datas sec d,
  (zone_of sides track < 5)%nat -> sec < dnth zoned_secs_per_track (zone_of sides track) ->
  exists pre post,
    track_bits35 sides track datas = pre ++ bytes_bits (sony_encode (datas sec)) ++ post /\
    track_bits35 sides track (upd_datas35 datas sec d) = pre ++ bytes_bits (sony_encode (tagged d)) ++ post.
Proof. exact track35_write_local. Qed.
Print Assumptions c08_track35_write_local.

Theorem c08_track35_field_decodes : forall d, bytes d ->
  sony_decode 174 (sony_encode (tagged d)) = ROk (tagged d) /\ skipn 12 (tagged d) = firstn 512 (d ++ repeat 0 512).
Proof. exact track35_field_decodes. Qed.
Print Assumptions c08_track35_field_decodes.

Theorem c08_track35_absent : forall sides track datas sec d,
  (zone_of sides track < 5)%nat -> dnth zoned_secs_per_track (zone_of sides track) <= sec ->
  track_bits35 sides track (upd_datas35 datas sec d) = track_bits35 sides track datas.
Proof. exact track35_absent. Qed.
Print Assumptions c08_track35_absent.

Theorem c08_track35_bit_count : forall sides track datas, (zone_of sides track < 5)%nat -> (forall s, length (datas s) = 524%nat) ->
  lenN (track_bits35 sides track datas) = dnth d35_track_bits (zone_of sides track).
Proof. exact track35_bit_count. Qed.
Print Assumptions c08_track35_bit_count.

(* the same non-interference for both 5.25 inch formats: a write replaces the data area of the one position that carries the
   sector number and nothing else (every sector number below the sector count occurs at exactly one position) *)
Theorem c08_track525_write_local : forall f sync vol trk datas sec d,
  f = fmt13 \/ f = fmt16 -> sec < N.of_nat (sectors_of f) ->
  exists pre post,
    track_bits f sync vol trk datas = pre ++ data_area f sync (datas sec) ++ post /\
    track_bits f sync vol trk (upd_datas datas sec d) = pre ++ data_area f sync (Some (pad256 d)) ++ post.
Proof. exact track525_write_local. Qed.
Print Assumptions c08_track525_write_local.

Example c08_sony_nonvacuous :
  bytes (map (fun i => N.of_nat i mod 256) (seq 0 524)) /\ length (map (fun i => N.of_nat i mod 256) (seq 0 524)) = N.to_nat d35_sector_size
  /\ (zone_of 2 100 < 5)%nat /\ 7 < dnth zoned_secs_per_track (zone_of 2 100).
Proof.
  split; [|split; [reflexivity|split; vm_compute; [lia|reflexivity]]]. apply Forall_forall. intros x Hx. apply in_map_iff in Hx.
  destruct Hx as [i [<- _]]. apply N.mod_upper_bound. lia.
Qed.
