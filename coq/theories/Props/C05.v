(* Props/C05.v -- "Directory listings agree with the operation history".  Statements only. *)
From A2 Require Import Base.Bytes Fs.Spec Fs.SpecProofs.
Open Scope N_scope.

(* the listing changes exactly as the history says: put adds the path, delete removes it, rename moves it,
   every other path is untouched (c02_frame), and a refused operation changes nothing observable *)
Theorem c05_listing_steps : forall pr s,
  (forall p idx, snd (step pr s (Put p idx)) = Accepted ->
     vlookup (fst (step pr s (Put p idx))) p = Some (false, norm_idx (if p_force0 pr then 0 :: idx else idx), false) /\ vlookup s p = None)
  /\ (forall p, snd (step pr s (Delete p)) = Accepted -> vlookup (fst (step pr s (Delete p))) p = None)
  /\ (forall p n, snd (step pr s (Rename p n)) = Accepted -> vlookup (fst (step pr s (Rename p n))) (parent p ++ [n]) = vlookup s p)
  /\ (forall o, snd (step pr s o) = Refused -> forall q, vlookup (fst (step pr s o)) q = vlookup s q).
Proof.
  intros pr s. split; [exact (put_get pr s)|]. split; [exact (delete_gone pr s)|]. split; [exact (rename_moves pr s)|].
  exact (refused_unchanged pr s).
Qed.
Print Assumptions c05_listing_steps.

(* a renamed directory takes everything below it along, unchanged: what was listed at p/t is listed at the new name/t *)
Theorem c05_rename_directory : forall pr s p n f, lookup (files s) p = Some f -> f_isdir f = true -> snd (step pr s (Rename p n)) = Accepted ->
  forall t, vlookup (fst (step pr s (Rename p n))) ((parent p ++ [n]) ++ t) = vlookup s (p ++ t).
Proof. exact rename_moves_tree. Qed.
Print Assumptions c05_rename_directory.

(* storing to an existing name or renaming onto an existing name is refused *)
Theorem c05_dup_refused : forall pr s,
  (forall p idx, lookup (files s) p <> None -> snd (step pr s (Put p idx)) = Refused)
  /\ (forall p n, lookup (files s) (parent p ++ [n]) <> None -> snd (step pr s (Rename p n)) = Refused).
Proof. intros pr s. split; [exact (dup_refused pr s) | exact (rename_onto_refused pr s)]. Qed.
Print Assumptions c05_dup_refused.

(* so names within a directory are always unique, in every reachable state *)
Theorem c05_names_unique : forall pr sys ops s, uniq (files s) -> WF pr sys s -> uniq (files (run pr s ops)).
Proof. intros pr sys ops s Hu W. exact (proj2 (WF_history pr sys ops s Hu W)). Qed.
Print Assumptions c05_names_unique.
