(* Props/C01.v -- "Stored file data is read back exactly".  Statements only.
   Model: Fs/Spec.v (one state machine, parameterised by the file system); the chunk-index map, directory
   flag and lock flag are what get/catalog expose; payload bytes are opaque to the file-system logic and are
   checked on the implementation side (chunk ids are unique payloads). *)
From A2 Require Import Base.Bytes Fs.Spec Fs.SpecProofs.
Open Scope N_scope.

(* for every file system (parameter record), state, path and chunk-index set: an accepted put is returned by
   a later lookup with every chunk at the same index (holes preserved; [p_force0] is ProDOS materialising
   chunk 0, a recorded known finding) and nothing was there before *)
Theorem c01_put_get : forall pr s p idx,
  snd (step pr s (Put p idx)) = Accepted ->
  vlookup (fst (step pr s (Put p idx))) p = Some (false, norm_idx (if p_force0 pr then 0 :: idx else idx), false)
  /\ vlookup s p = None.
Proof. exact put_get. Qed.
Print Assumptions c01_put_get.

(* ... for as long as it is not deleted: under EVERY later history (any length, accepted or refused steps)
   that does not target the path *)
Theorem c01_get_stable : forall pr ops s p, Forall (untouched p) ops -> vlookup (run pr s ops) p = vlookup s p.
Proof. exact get_stable. Qed.
Print Assumptions c01_get_stable.

(* non-vacuity: on a 280-unit first-free volume a sparse put is accepted and read back *)
Definition demo_pr : params := mkparams 280 0 false 2 true false 51 true 12 13 true 0.
Example c01_nonvacuous :
  snd (step demo_pr (mkst [] [0;1;2;3;4;5;6]) (Put [[72;73]] [0;5;300])) = Accepted
  /\ vlookup (fst (step demo_pr (mkst [] [0;1;2;3;4;5;6]) (Put [[72;73]] [0;5;300]))) [[72;73]] = Some (false, [0;5;300], false).
Proof. split; vm_compute; reflexivity. Qed.

(* ---------- the concrete ProDOS file structure (seedling / sapling / tree, Fs/ProdosTree.v, tied to write_file / read_file by the
   prodos-structure correspondence stream) ---------- *)
From A2 Require Import Fs.ProdosTree Fs.ProdosTreeProofs.

(* for EVERY non-empty chunk set below the 32768-block limit - dense or with holes anywhere, the first chunk included - and every free
   list without repetitions that is long enough, walking the structure from the key pointer finds exactly the chunks that were stored,
   each at its own index and in the data block it was written to: holes stay holes in all three storage forms *)
Theorem c01_prodos_structure : forall cs free, cs <> [] -> cs_end cs <= 32768 -> NoDup free -> ~ In 0 free ->
  (length (events cs) <= length free)%nat ->
  forall c b, In (c, b) (pd_read (pd_layout cs free)) <-> In c cs /\ b = block_of (EData c) (events cs) free.
Proof. exact pd_read_correct. Qed.
Print Assumptions c01_prodos_structure.

Example c01_prodos_structure_nonvacuous : let cs := [0; 255; 256; 600; 1300] in let free := map N.of_nat (seq 7 40) in
  cs <> [] /\ cs_end cs <= 32768 /\ (length (events cs) <= length free)%nat /\ l_storage (pd_layout cs free) = 3 /\ l_blocks (pd_layout cs free) = 10.
Proof. exact pd_example. Qed.

(* ---------- the CP/M directory entries of one file (Fs/CpmExtents.v, tied to src/fs/cpm by the cpm-extents correspondence
   stream) ---------- *)
From A2 Require Import Fs.CpmExtents Fs.CpmExtentsProofs.

(* for EVERY disk parameter block whose pointers per entry split evenly into 16K logical extents, every non-empty set of stored chunks
   (holes anywhere: windows without data get no entry) and every block assignment that gives stored chunks a non-zero block: reading the
   entries back in order finds every stored chunk, in ascending order, at its own index with its own block, and nothing else *)
Theorem c01_cpm_read : forall p cs free eof, wf p -> (forall c, c_present cs c = true -> c_block_of cs free c <> 0) -> cs <> [] ->
  cpm_read p (cpm_entries p cs free eof)
  = Some (map (fun c => (c, c_block_of cs free c))
              (filter (c_present cs) (flat_map (slots_of p) (map N.of_nat (seq 0 (N.to_nat ((c_end cs + c_spx p - 1) / c_spx p))))))).
Proof. exact cpm_read_correct. Qed.
Print Assumptions c01_cpm_read.

Theorem c01_cpm_members : forall p cs free eof, wf p -> (forall c, c_present cs c = true -> c_block_of cs free c <> 0) -> cs <> [] ->
  exists l, cpm_read p (cpm_entries p cs free eof) = Some l /\
  forall c b, In (c, b) l <-> (c_present cs c = true /\ b = c_block_of cs free c).
Proof. exact cpm_read_members. Qed.
Print Assumptions c01_cpm_members.

(* and the length read back from the last entry (extent number, record count, byte count) is the length that was written: rounded up
   to a 128-byte record on CP/M 2, exact on CP/M 3, for every length that ends in the last stored block *)
Theorem c01_cpm_eof : forall p cs free eof, wf p -> cs <> [] -> (c_end cs - 1) * c_bs p < eof -> eof <= c_end cs * c_bs p ->
  cpm_eof (cpm_entries p cs free eof) = if c_v3 p then eof else (eof + 127) / 128 * 128.
Proof. exact cpm_eof_correct. Qed.
Print Assumptions c01_cpm_eof.

(* the hypothesis on the parameter block holds for every disk parameter block defined in src/bios/dpb.rs (list regenerated by the
   translator on every run), so both statements hold for every CP/M disk kind of a2kit, CP/M 2 and 3 *)
From A2 Require Import Gen.Dpbs Fs.CpmDpbs.
Theorem c01_cpm_every_dpb : forall d v3 cs free eof, In d dpbs -> cs <> [] ->
  ((forall c, c_present cs c = true -> c_block_of cs free c <> 0) ->
   exists l, cpm_read (cpm_of d v3) (cpm_entries (cpm_of d v3) cs free eof) = Some l /\
   forall c b, In (c, b) l <-> (c_present cs c = true /\ b = c_block_of cs free c))
  /\ ((c_end cs - 1) * c_bs (cpm_of d v3) < eof -> eof <= c_end cs * c_bs (cpm_of d v3) ->
      cpm_eof (cpm_entries (cpm_of d v3) cs free eof) = if v3 then eof else (eof + 127) / 128 * 128).
Proof.
  intros d v3 cs free eof Hd Hne. split.
  - intros Hnz. exact (cpm_read_every_dpb d v3 cs free eof Hd Hnz Hne).
  - exact (cpm_eof_every_dpb d v3 cs free eof Hd Hne).
Qed.
Print Assumptions c01_cpm_every_dpb.

Example c01_cpm_nonvacuous :
  let p := {| c_exm := 1; c_bs := 2048; c_spx := 16; c_v3 := false |} in
  wf p /\ cpm_eof (cpm_entries p [0; 1; 17] [5; 6; 7] 35000) = 35072
  /\ cpm_read p (cpm_entries p [0; 1; 17] [5; 6; 7] 35000) = Some [(0, 5); (1, 6); (17, 7)]
  /\ length (cpm_entries p [0; 1; 17] [5; 6; 7] 35000) = 2%nat.
Proof. exact cpm_example. Qed.
