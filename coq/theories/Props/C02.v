(* Props/C02.v -- "Operations on one file never disturb another".  Statements only. *)
From A2 Require Import Base.Bytes Fs.Spec Fs.SpecProofs.
Open Scope N_scope.

(* whatever operation is applied to one path -- accepted or refused, including a put that makes its directory
   grow -- every other path keeps its chunk map, kind and protection; an accepted rename changes exactly the
   old and the new name, and when it is a directory that is renamed, the paths below the old and the new name *)
Theorem c02_frame : forall pr s o q,
  path_eqb (target o) q = false ->
  (forall p n, o = Rename p n -> path_eqb (parent p ++ [n]) q = false) ->
  (forall p n f, o = Rename p n -> lookup (files s) p = Some f -> f_isdir f = true ->
     is_prefix p q = false /\ is_prefix (parent p ++ [n]) q = false) ->
  vlookup (fst (step pr s o)) q = vlookup s q.
Proof. exact frame. Qed.
Print Assumptions c02_frame.

(* a write never lands in units owned by another file: the units handed out by either allocation policy are
   free (not marked used, hence owned by nobody in a well-formed state), in range and pairwise distinct *)
Theorem c02_pick_sound : forall pr u n bs, pick pr u n = Some bs ->
  NoDup bs /\ (forall b, In b bs -> p_lo pr <= b < p_total pr /\ ~ In b u) /\ lenN bs = n.
Proof. exact pick_sound. Qed.
Print Assumptions c02_pick_sound.

(* and ownership stays pairwise disjoint under every history (the block-level half; see C03) *)
Theorem c02_owned_disjoint : forall pr sys ops s, uniq (files s) -> WF pr sys s -> NoDup (owned_all (run pr s ops)).
Proof. intros pr sys ops s Hu W. exact (wf_nodup _ _ _ (proj1 (WF_history pr sys ops s Hu W))). Qed.
Print Assumptions c02_owned_disjoint.
