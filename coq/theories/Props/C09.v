(* Props/C09.v -- "Image encode/decode is stable and self-identifying".  Statements only.
   Models: Img/Codec.v.  WOZ/IMD/TD0/2MG whole-file parse-print is tied by the implementation-side codec oracle
   (to_bytes -> from_bytes -> to_bytes, independent CRC recomputation); the pieces below are proved. *)
From A2 Require Import Base.Bytes Gen.Tables Img.Codec Img.CodecProofs Sys.Parsers Sys.ParsersProofs.
Open Scope N_scope.

(* the WOZ CRC table regenerated from woz.rs is the reflected CRC-32 table, entry by entry *)
Theorem c09_crc32_table : crc32_tab = map crc32_entry (below 256).
Proof. exact crc32_table_ok. Qed.
Print Assumptions c09_crc32_table.

(* TD0 sector data: every content of every legal sector size survives pack/unpack (uniform sectors are stored
   as one repeated pattern, others raw) *)
Theorem c09_td0_unpack_pack : forall size dat,
  In size [128; 256; 512; 1024; 2048; 4096; 8192] -> lenN dat = size -> bytes dat ->
  exists p, td0_pack size dat = ROk p /\ td0_unpack size p = ROk dat.
Proof. exact td0_unpack_pack. Qed.
Print Assumptions c09_td0_unpack_pack.

(* IMD run compression: expanding the compressed track buffer gives back the in-memory track, for any number
   of sectors, any sector size >= 128, any mix of data / no-data sectors *)
Theorem c09_imd_expand_compress : forall size secs,
  128 <= size -> Forall (imd_sec_ok size) secs ->
  exists c, imd_compress size (length secs) (imd_flat secs) = ROk c /\ imd_expand size (length secs) c = ROk (imd_flat secs).
Proof. exact imd_expand_compress. Qed.
Print Assumptions c09_imd_expand_compress.

(* 2MG: data_offset / comment_offset / creator_offset and the lengths written by to_bytes address exactly the
   data and the appended strings *)
Theorem c09_dot2mg_offsets : forall hdr data comment creator,
  lenN hdr = 48 ->
  let b := dot2mg_bytes hdr data comment creator in
  let '(doff, coff, roff) := dot2mg_offsets (lenN data) (lenN comment) (lenN creator) in
  slice b doff (lenN data) = data
  /\ (comment <> [] -> slice b coff (lenN comment) = comment)
  /\ (creator <> [] -> slice b roff (lenN creator) = creator)
  /\ lenN b = 64 + lenN data + lenN comment + lenN creator.
Proof. exact dot2mg_offsets_ok. Qed.
Print Assumptions c09_dot2mg_offsets.

(* WOZ container: the chunk walk of from_bytes finds exactly the chunks that to_bytes lays out (id, size, data one after
   the other behind the 12 byte header), each at its offset with its length, for every list of chunks *)
Theorem c09_woz_chunks_read_back : forall cs pre,
  cs <> [] -> lenN pre <> 0 ->
  Forall (fun c => known_id (fst c) = true /\ fst c < 4294967296 /\ lenN (snd c) < 4294967296) cs ->
  forall fuel, (length cs < fuel)%nat ->
  woz_walk fuel (lenN pre) (pre ++ woz_body cs) = ROk (expect (lenN pre) cs).
Proof. exact woz_walk_print. Qed.
Print Assumptions c09_woz_chunks_read_back.
