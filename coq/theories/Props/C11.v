(* Props/C11.v -- "A failed or read-only command never changes the image file".  Statements only.
   Gen/Cli.v is regenerated on every run from src/main.rs, src/lib.rs and src/commands/*.rs: every call that writes an
   image or output file, with its syntactic position, and the read-only handlers.  Moving a write above a `?`, or adding a
   write to a read-only handler, breaks [c11_all_sites_tail] / [c11_readonly_no_write].  The real binary is exercised on
   failing and read-only invocations with a hash of the image before and after. *)
From A2 Require Import Base.Bytes Gen.Cli Sys.Cli Sys.CliProofs.
Open Scope N_scope.

(* semantic lemma: for EVERY handler path in which nothing fallible follows the write, and EVERY choice of the failing step,
   a non-zero exit means no write was completed *)
Theorem c11_write_last_sound : forall p, write_is_last p = true -> forall fa, fst (run_path p fa 0) = false -> snd (run_path p fa 0) = 0%nat.
Proof. exact write_last_sound. Qed.
Print Assumptions c11_write_last_sound.

(* every image-writing call site of the current sources is in tail position, hence (for any number of fallible steps
   before it) its handler path satisfies the discipline *)
Theorem c11_all_sites_tail : forallb (fun s => site_ok (snd s)) write_sites = true
  /\ forall s n, In s write_sites -> write_is_last (site_path (snd s) n) = true.
Proof.
  assert (H : forallb (fun s => site_ok (snd s)) write_sites = true) by (vm_compute; reflexivity).
  split; [exact H|]. intros s n Hs. apply site_path_last. rewrite forallb_forall in H. apply H, Hs.
Qed.
Print Assumptions c11_all_sites_tail.

(* catalog, tree, glob, stat, geometry, get, mget contain no file-writing call at all *)
Theorem c11_readonly_no_write : forallb (fun h => N.eqb (snd h) 0) readonly_handlers = true /\ length readonly_handlers = 7%nat.
Proof. split; vm_compute; reflexivity. Qed.
Print Assumptions c11_readonly_no_write.
