(* Props/C10.v -- "Every accepted mkdsk configuration yields a valid empty volume".  Statements only.
   The decision model (Sys/Mkdsk.v) runs over tables regenerated from cli.rs, img/mod.rs, img/names.rs,
   commands/mkdsk.rs, img/dot2mg.rs, bios/dpb.rs, bios/bpb.rs.  The theorem quantifies over the whole finite cross
   product of the CLI's value lists (7 x 23 x 10 x 4 tuples).  That accepted tuples really produce a file that is
   recognised again, empty, with a sane free count and accepting a first file -- and that every other tuple is refused
   by an error return without writing a file -- is checked by running the real binary on EVERY tuple. *)
From A2 Require Import Base.Bytes Gen.Mkdsk Img.Skew Sys.Mkdsk.
Open Scope N_scope.

Theorem c10_accepted_have_params :
  forall t, In t all_tuples -> let '(os, k, ty, w) := t in decide os k ty w = true -> params_exist os k = true.
Proof.
  assert (H : forallb (fun t => let '(os, k, ty, w) := t in implb (decide os k ty w) (params_exist os k)) all_tuples = true) by (vm_compute; reflexivity).
  rewrite forallb_forall in H. intros t Ht. specialize (H t Ht). destruct t as [[[os k] ty] w]. intros Hd. rewrite Hd in H. exact H.
Qed.
Print Assumptions c10_accepted_have_params.

(* the product is the full one, and the accepted set is not empty (non-vacuity) *)
Theorem c10_product_size : length all_tuples = (length cli_os_names * length cli_disk_kinds * length cli_img_types * 4)%nat
  /\ existsb (fun t => let '(os, k, ty, w) := t in decide os k ty w) all_tuples = true.
Proof. split; vm_compute; reflexivity. Qed.
Print Assumptions c10_product_size.
