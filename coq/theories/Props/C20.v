(* Props/C20.v -- "Output is a deterministic function of input".  Statements only.
   Hash-container iteration is the one source of run-to-run variation inside a2kit (no addresses or times are printed, apart
   from fields that by design record the clock).  Gen/HashSites.v is regenerated from the sources on every run; a new
   iteration site that is not classified breaks [c20_all_sites_classified].  The real binary is run repeatedly in fresh
   processes (fresh hash seeds, fixed clock) and every output is compared byte for byte. *)
From A2 Require Import Base.Bytes Fs.Spec Gen.HashSites Sys.HashOrder Sys.HashOrderProofs.
From Coq Require Import Sorting.Permutation.
Open Scope N_scope.

Theorem c20_order_free_sorted : forall l l' f, Permutation l l' -> render_sorted l f = render_sorted l' f.
Proof. exact order_free_sorted_perm. Qed.
Print Assumptions c20_order_free_sorted.

Theorem c20_order_free_inserts : forall l l', NoDup (map fst l) -> Permutation l l' -> forall k, built l k = built l' k.
Proof. exact order_free_inserts. Qed.
Print Assumptions c20_order_free_inserts.

Theorem c20_all_sites_classified : forallb (fun s => match class_of s with Some 0 | None => false | Some _ => true end) hash_sites = true.
Proof. exact all_sites_classified. Qed.
Print Assumptions c20_all_sites_classified.

(* the one hash-map walk whose body writes into shared state (Records::update_fimg, classified "order-free by disjoint writes" among the
   sites): the packed file image is the same for every order in which the records are taken (model Pack/Records.v, tied to the code
   by the recpack stream of C13 and by the repeated-process oracle) *)
From A2 Require Import Pack.Records Pack.RecordsProofs.
Theorem c20_records_any_order : forall L rl force0 rs rs', 0 < L -> Permutation rs rs' -> NoDup (map fst rs) ->
  (forall r d, In (r, d) rs -> lenN d <= rl) -> rec_pack L rl force0 rs = rec_pack L rl force0 rs'.
Proof. exact rec_pack_order. Qed.
Print Assumptions c20_records_any_order.
