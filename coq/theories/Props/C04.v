(* Props/C04.v -- "Free space is conserved and usable".  Statements only. *)
From A2 Require Import Base.Bytes Fs.Spec Fs.SpecProofs.
Open Scope N_scope.

(* nothing leaks: in every reachable state the reported free count is the number of in-range units that are
   neither system units nor reachable from the directory *)
Theorem c04_free_exact : forall pr sys ops s, uniq (files s) -> WF pr sys s ->
  reported_free pr (run pr s ops) = free_count pr (sys ++ owned_all (run pr s ops)).
Proof. intros pr sys ops s Hu W. apply free_exact. exact (proj1 (WF_history pr sys ops s Hu W)). Qed.
Print Assumptions c04_free_exact.

(* storing a file and then deleting it restores the allocation map (and so the free count) exactly *)
Theorem c04_put_delete_restores : forall pr s p idx,
  snd (step pr s (Put p idx)) = Accepted ->
  ensure_slot pr s (parent p) (entries_of pr (norm_idx (if p_force0 pr then 0 :: idx else idx))) = Some s ->
  let s1 := fst (step pr s (Put p idx)) in
  snd (step pr s1 (Delete p)) = Accepted /\ used (fst (step pr s1 (Delete p))) = used s
  /\ files (fst (step pr s1 (Delete p))) = remove_path (files s) p
  /\ reported_free pr (fst (step pr s1 (Delete p))) = reported_free pr s.
Proof. exact put_delete_restores. Qed.
Print Assumptions c04_put_delete_restores.

(* a file whose requirement, counting index overhead, fits the reported free space and for which a directory
   slot exists is accepted (lowest-free-first file systems: DOS 3.x, ProDOS, CP/M, FAT) *)
Theorem c04_accept : forall pr s p idx,
  p_contig pr = false -> p <> [] -> idx <> [] -> dir_exists s (parent p) = true -> lookup (files s) p = None ->
  (p_holes pr = true \/ dense (norm_idx (if p_force0 pr then 0 :: idx else idx)) = true) ->
  forall s1, ensure_slot pr s (parent p) (entries_of pr (norm_idx (if p_force0 pr then 0 :: idx else idx))) = Some s1 ->
  lenN (norm_idx (if p_force0 pr then 0 :: idx else idx)) + meta_units pr (norm_idx (if p_force0 pr then 0 :: idx else idx)) <= reported_free pr s1 ->
  snd (step pr s (Put p idx)) = Accepted.
Proof. exact accept_first_fit. Qed.
Print Assumptions c04_accept.

(* first-fit contiguous policy (Pascal): accepted as soon as SOME free run of the needed length exists, wherever it lies *)
Theorem c04_accept_contiguous : forall pr s p idx,
  p_contig pr = true -> p <> [] -> idx <> [] -> dir_exists s (parent p) = true -> lookup (files s) p = None ->
  (p_holes pr = true \/ dense (norm_idx (if p_force0 pr then 0 :: idx else idx)) = true) ->
  forall s1, ensure_slot pr s (parent p) (entries_of pr (norm_idx (if p_force0 pr then 0 :: idx else idx))) = Some s1 ->
  (exists b, In b (all_units pr) /\
     run_from pr (used s1) b (N.to_nat (lenN (norm_idx (if p_force0 pr then 0 :: idx else idx)) + meta_units pr (norm_idx (if p_force0 pr then 0 :: idx else idx)))) = true) ->
  snd (step pr s (Put p idx)) = Accepted.
Proof. exact accept_contiguous. Qed.
Print Assumptions c04_accept_contiguous.
