(* Props/C15.v -- "Disassembly reassembles to the identical bytes".  Statements only.
   Proved, over the opcode tables regenerated from opcodes.json / operations.rs on every run, for ALL operand values,
   origins, processors, register widths and assembler variants that go together: every instruction the disassembler
   lists is assembled back to exactly its bytes (so for valid instructions reassembly succeeds and never differs);
   relative branches convert both ways; the lines of a disassembly tile the input exactly (every byte once).
   Not modelled: the text between the two tools (hex formatting, labels, columns, the tree-sitter parse) and the contents
   of the data pseudo-ops; they are covered by the correspondence streams and the implementation-side oracle. *)
From A2 Require Import Base.Bytes Gen.Opcodes Lang.Asm Lang.AsmProofs.
Open Scope N_scope.

Theorem c15_opcode_map_is_a_function : forall code, code < 256 -> dasm_entry code <> None.
Proof. exact dasm_map_total. Qed.
Print Assumptions c15_opcode_map_is_a_function.

Theorem c15_instruction_roundtrip : forall proc m8 x8 v8 addr code rest avail i n,
  code < 256 -> settings_ok proc m8 x8 v8 = true -> bytes rest -> avail <= lenN rest ->
  dasm_one proc m8 x8 addr code rest avail = Some (DInstr i n) ->
  asm_instr v8 proc m8 x8 addr i = ROk (code :: takeN n rest).
Proof. exact instr_roundtrip. Qed.
Print Assumptions c15_instruction_roundtrip.

Theorem c15_implied_roundtrip : forall proc m8 x8 v8 addr code rest avail mn,
  code < 256 -> settings_ok proc m8 x8 v8 = true ->
  dasm_one proc m8 x8 addr code rest avail = Some (DImplied mn) -> asm_implied mn = ROk [code].
Proof. exact implied_roundtrip. Qed.
Print Assumptions c15_implied_roundtrip.

Theorem c15_block_move_roundtrip : forall proc m8 x8 v8 addr code rest avail mn a b,
  code < 256 -> settings_ok proc m8 x8 v8 = true -> (2 <= length rest)%nat ->
  dasm_one proc m8 x8 addr code rest avail = Some (DMov mn a b) -> asm_mov mn a b = ROk (code :: firstn 2 rest).
Proof. exact mov_roundtrip. Qed.
Print Assumptions c15_block_move_roundtrip.

Theorem c15_relative_roundtrip : forall pc rel n d, (n = 1 \/ n = 2) -> rel < (if n =? 1 then 256 else 65536) ->
  rel_to_abs pc rel n = Some d -> abs_to_rel pc d n = Some rel /\ d < 65536.
Proof. exact rel_roundtrip. Qed.
Print Assumptions c15_relative_roundtrip.

Theorem c15_every_byte_once : forall fuel proc m8 x8 addr bs, (length bs < fuel)%nat ->
  exists sizes, dasm_sizes fuel proc m8 x8 addr bs = ROk sizes /\ sumN sizes = lenN bs /\ Forall (fun s => 0 < s) sizes.
Proof. exact dasm_accounts. Qed.
Print Assumptions c15_every_byte_once.

(* a DS line stands for exactly the bytes it replaces: more than one copy of the first byte, nothing else *)
Theorem c15_ds_line_is_its_bytes : forall bs n e, data_run_ex bs = (1, n, e) ->
  e = 0 /\ Forall (fun b => b = hd 0 bs) (takeN n bs) /\ 1 < n.
Proof. exact ds_run_is_uniform. Qed.
Print Assumptions c15_ds_line_is_its_bytes.

(* non-vacuity: LDA $011234 on the 65816 (a bank-crossing long address) and a backward branch *)
Example c15_example_long :
  exists i, dasm_one 3 true true 768 175 [52; 18; 1] 3 = Some (DInstr i 3) /\ asm_instr false 3 true true 768 i = ROk [175; 52; 18; 1].
Proof. eexists. split; vm_compute; reflexivity. Qed.
Example c15_example_branch :
  exists i, dasm_one 0 true true 768 208 [254] 1 = Some (DInstr i 1) /\ asm_instr true 0 true true 768 i = ROk [208; 254].
Proof. eexists. split; vm_compute; reflexivity. Qed.
