(* Props/C16.v -- "Renumbering preserves program structure".  Statements only.
   Proved for every program (as rows), selection and parameter tuple: an accepted request maps the selected numbers in
   ascending order to first, first+step, ..., within the upper bound; no new number collides with or falls between lines
   that keep theirs; without permission to move the block stays where it is; replacements applied bottom-up from the
   right equal the simultaneous substitution of every range with everything else in place, whatever the new lengths.
   Not modelled: where the line-number nodes are (tree-sitter walk) - covered by the oracle, which computes the expected
   text from the generator's own knowledge of every definition and reference. *)
From A2 Require Import Base.Bytes Lang.Renumber Lang.RenumberProofs.
Open Scope N_scope.

Theorem c16_mapping_is_arithmetic : forall rows s e l0 dl mv maxn m ins, build rows s e l0 dl mv maxn = Accepted m ins ->
  let ks := keys_of (map snd (filter (fun d => in_sel s e (fst d)) (defs_from 0 rows))) in
  map fst m = ks /\ (forall k d, (k < length ks)%nat -> nth k (map snd m) d = l0 + N.of_nat k * dl) /\
  ks <> [] /\ 1 <= dl /\ l0 + dl * (lenN ks - 1) <= maxn.
Proof. exact build_mapping. Qed.
Print Assumptions c16_mapping_is_arithmetic.

Theorem c16_no_collision_no_interleave : forall rows s e l0 dl mv maxn m ins, build rows s e l0 dl mv maxn = Accepted m ins ->
  forall row p, In (row, p) (defs_from 0 rows) -> in_sel s e row = false ->
  let ks := keys_of (map snd (filter (fun d => in_sel s e (fst d)) (defs_from 0 rows))) in
  p < l0 \/ l0 + dl * (lenN ks - 1) < p.
Proof. exact build_no_collision. Qed.
Print Assumptions c16_no_collision_no_interleave.

Theorem c16_no_move_without_permission : forall rows s e l0 dl maxn m ins, build rows s e l0 dl false maxn = Accepted m ins -> ins = s.
Proof. exact build_no_move. Qed.
Print Assumptions c16_no_move_without_permission.

(* nothing interleaves: when the numbers ascend and a request is accepted in place, every line in front of the block is
   numbered below the first new number and every line behind it above the last one *)
Theorem c16_in_place_keeps_order : forall rows s e l0 dl maxn m ins,
  build rows s e l0 dl false maxn = Accepted m ins ->
  (forall r1 p1 r2 p2, In (r1, p1) (defs_from 0 rows) -> In (r2, p2) (defs_from 0 rows) -> r1 < r2 -> p1 < p2) ->
  let ln := l0 + dl * (lenN (keys_of (map snd (filter (fun d => in_sel s e (fst d)) (defs_from 0 rows)))) - 1) in
  (exists r p, In (r, p) (defs_from 0 rows) /\ in_sel s e r = true) /\
  (forall r p, In (r, p) (defs_from 0 rows) -> r < s -> p < l0) /\
  (forall r p, In (r, p) (defs_from 0 rows) -> e < r -> ln < p).
Proof. exact build_in_place_keeps_order. Qed.
Print Assumptions c16_in_place_keeps_order.

Theorem c16_edits_apply_as_substitution : forall line es, edits_ok 0 (length line) es -> apply_right line es = subst_from line 0 es.
Proof. exact apply_right_spec. Qed.
Print Assumptions c16_edits_apply_as_substitution.

(* non-vacuity: 10,20,30 with 20..30 renumbered to 100,110; and a replacement that lengthens the line *)
Example c16_example :
  build [Some 10; Some 20; None; Some 30] 1 3 100 10 false 63999 = Accepted [(20, 100); (30, 110)] 1
  /\ apply_right [49; 48; 32; 71; 32; 50; 48] [(0%nat, 2%nat, [49; 48; 48; 48]); (5%nat, 7%nat, [55])] = [49; 48; 48; 48; 32; 71; 32; 55].
Proof. split; vm_compute; reflexivity. Qed.
