(* Props/C13.v -- "File packing encodings are exact inverse pairs".  Statements only.
   Proved here: the chunking layer every packer goes through (desequence/sequence) and the DOS 3.x binary and
   token headers, with the guards the 16-bit fields impose (the length guard was missing in the code and was added by a fix: commit).  The other packers (ProDOS, Pascal text pages, CP/M, FAT, records,
   JSON) are covered by the implementation-side round-trip oracle over boundary lengths and every byte value. *)
From A2 Require Import Base.Bytes Pack.Fimg Pack.FimgProofs.
Open Scope N_scope.

Theorem c13_sequence_desequence : forall n d, (0 < n)%nat -> sequence (desequence n d) = d.
Proof. exact sequence_desequence. Qed.
Print Assumptions c13_sequence_desequence.

Theorem c13_desequence_chunk_sizes : forall n d, (0 < n)%nat -> Forall (fun c => (0 < length c <= n)%nat) (desequence n d).
Proof. exact desequence_chunk_sizes. Qed.
Print Assumptions c13_desequence_chunk_sizes.

Theorem c13_dos_bin_roundtrip : forall dat addr, lenN dat < 65536 -> addr < 65536 ->
  exists f, dos_pack_bin dat addr = ROk f /\ dos_unpack_bin f = ROk (addr, dat).
Proof. exact dos_bin_roundtrip. Qed.
Print Assumptions c13_dos_bin_roundtrip.

(* when the input cannot be represented (address or length beyond 16 bits) packing fails with an error *)
Theorem c13_dos_bin_refused : forall dat addr, 65536 <= addr \/ 65536 <= lenN dat -> dos_pack_bin dat addr = RErr 1.
Proof. exact dos_bin_addr_refused. Qed.
Print Assumptions c13_dos_bin_refused.

Theorem c13_dos_tok_roundtrip : forall tok, lenN tok < 65536 -> exists f, dos_pack_tok tok = ROk f /\ dos_unpack_tok f = ROk tok.
Proof. exact dos_tok_roundtrip. Qed.
Print Assumptions c13_dos_tok_roundtrip.

Theorem c13_dos_tok_refused : forall tok, 65536 <= lenN tok -> dos_pack_tok tok = RErr 1.
Proof. exact dos_tok_len_refused. Qed.
Print Assumptions c13_dos_tok_refused.

(* ProDOS binary files: data, length and load address come back; an address beyond 16 bits is refused, not truncated *)
Theorem c13_prodos_bin_roundtrip : forall dat addr, addr < 65536 ->
  exists f, prodos_pack_bin dat addr = ROk f /\ prodos_unpack_bin f = (addr, dat).
Proof. exact prodos_bin_roundtrip. Qed.
Print Assumptions c13_prodos_bin_roundtrip.

Theorem c13_prodos_bin_refused : forall dat addr, 65536 <= addr -> prodos_pack_bin dat addr = RErr 1.
Proof. exact prodos_bin_addr_refused. Qed.
Print Assumptions c13_prodos_bin_refused.

(* ---------- Pascal text (src/fs/pascal/types.rs TextConverter) ---------- *)
From A2 Require Import Pack.PascalText Pack.PascalTextProofs.

(* text made of printable-ASCII lines each ending in a newline, once accepted by the encoder (indentation codes, CR line ends, 1024-byte
   pages padded with NUL after their last CR), decodes to exactly the text, and the encoding is a whole number of pages.  The encoder
   refuses (None) only when a page holds no line end, i.e. a line longer than a page. *)
Theorem c13_pascal_text : forall t e, Forall dom t -> last t 0 = 10 -> pas_encode t = Some e ->
  pas_decode e = t /\ (length e mod 1024 = 0)%nat.
Proof. exact pas_roundtrip. Qed.
Print Assumptions c13_pascal_text.

(* pagination alone: it only inserts NUL bytes after a line end, whatever the page and count *)
Theorem c13_pascal_paginate : forall ts page cnt ans' page', Forall tok_ok ts -> paginate (flat ts) page cnt = Some (ans', page') ->
  exists ts', ans' = flat ts' /\ Forall tok_ok ts' /\ tsdec ts' = tsdec ts.
Proof. exact paginate_tokens. Qed.
Print Assumptions c13_pascal_paginate.

Example c13_pascal_nonvacuous : let t := [72; 105; 10; 32; 32; 120; 10; 10] in
  Forall dom t /\ last t 0 = 10 /\ exists e, pas_encode t = Some e.
Proof. exact pas_example. Qed.

(* ---------- the flat text converters: DOS 3.x (high bit set, 0x8D line ends), ProDOS (CR), CP/M and FAT (CR LF) ---------- *)
From A2 Require Import Pack.Text Pack.TextProofs.

(* with the terminator each packer uses, every text of printable-ASCII lines ending in newlines is accepted and decodes to itself *)
Theorem c13_flat_text : forall f t, Forall tdom t -> last t 0 = 10 ->
  exists e, text_encode f (std_term f) t = Some e /\ text_decode f e = t.
Proof. exact text_roundtrip. Qed.
Print Assumptions c13_flat_text.

(* a byte from 128 up anywhere in the text makes the converter refuse, whatever the terminator: it never succeeds with altered data *)
Theorem c13_flat_text_refuses : forall f term a c b, 128 <= c -> text_encode f term (a ++ c :: b) = None.
Proof. exact text_refuses_non_ascii. Qed.
Print Assumptions c13_flat_text_refuses.

(* ---------- random-access text records (Pack/Records.v, tied to Records::update_fimg / FileImage::pack_rec by the recpack stream) ---------- *)
From A2 Require Import Pack.Records Pack.RecordsProofs.

(* for every chunk size, every record length, every set of records with distinct numbers whose bytes fit the record length - neighbours
   that share a chunk, records longer than a chunk, records far apart - what the packed image holds at byte i of record r is byte i
   of that record's text, and zero behind it: no record is disturbed by another, wherever the chunk boundaries fall *)
Theorem c13_records_read_back : forall L rl force0 rs, 0 < L -> NoDup (map fst rs) -> (forall r d, In (r, d) rs -> lenN d <= rl) ->
  forall r d i, In (r, d) rs -> i < rl -> stored_at L (rec_pack L rl force0 rs) (r * rl + i) = dnth d (N.to_nat i).
Proof. exact rec_pack_reads. Qed.
Print Assumptions c13_records_read_back.

(* and the image holds nothing else: at every offset of the file, the stored byte is the written byte (zero where none was written) *)
Theorem c13_records_nothing_else : forall L rl force0 rs, 0 < L ->
  forall off, stored_at L (rec_pack L rl force0 rs) off = byte_at (writes rl rs) off.
Proof. exact stored_is_written. Qed.
Print Assumptions c13_records_nothing_else.

(* the order in which the records are taken (the implementation walks a hash map) does not matter to the packed image *)
Theorem c13_records_any_order : forall L rl force0 rs rs', 0 < L -> Permutation.Permutation rs rs' -> NoDup (map fst rs) ->
  (forall r d, In (r, d) rs -> lenN d <= rl) -> rec_pack L rl force0 rs = rec_pack L rl force0 rs'.
Proof. exact rec_pack_order. Qed.
Print Assumptions c13_records_any_order.

Example c13_records_nonvacuous :
  let img := rec_pack 256 300 true [(0, [72; 73; 13]); (1, [65; 13]); (3, [90])] in
  map fst (r_chunks img) = [0; 1; 3] /\ r_eof img = 901 /\ stored_at 256 img 300 = 65 /\ stored_at 256 img 302 = 0 /\ stored_at 256 img 900 = 90.
Proof. exact rec_pack_example. Qed.
