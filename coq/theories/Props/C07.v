(* Props/C07.v -- property C07 "Volume content does not depend on the container format".
   Statements only; the address maps are in Img/Skew.v, over tables regenerated from bios/skew.rs,
   img/disk35.rs, img/imd.rs and img/td0.rs on every run. *)
From A2 Require Import Base.Bytes Gen.Tables Gen.SkewTabs Img.Skew Img.SkewProofs.
Open Scope N_scope.

(* sector-order (skew) conversions agree: the DOS 3.3 tables are mutually inverse permutations *)
Theorem c07_lsec_psec_inverse : forall s, s < 16 ->
  tbl dos_psec_to_dos_lsec (tbl dos_lsec_to_dos_psec s) = s /\ tbl dos_lsec_to_dos_psec (tbl dos_psec_to_dos_lsec s) = s
  /\ tbl dos_lsec_to_dos_psec s < 16 /\ tbl dos_psec_to_dos_lsec s < 16.
Proof. exact lsec_psec_inverse. Qed.
Print Assumptions c07_lsec_psec_inverse.

(* every DOS-ordered block, ProDOS block and Apple CP/M block occupies the same physical sectors (same
   order, same offsets) in a DO image as in a NIB/WOZ image *)
Theorem c07_phys_agree_525 :
  (forall t s, s < 16 -> do_cells_do t s = woz_cells_do t s)
  /\ (forall b, do_cells_po b = woz_cells_po b)
  /\ (forall b, b < 128 -> records (do_cells_cpm b 3 3) = records (woz_cells_cpm b 3 3)).
Proof. exact (conj do_block_agree (conj po_block_agree cpm_block_agree)). Qed.
Print Assumptions c07_phys_agree_525.

(* the ProDOS block map tiles the 5.25in disk: 280 blocks <-> 560 distinct in-range (track, sector) halves *)
Theorem c07_prodos_ts_bijection :
  NoDup (map pair_code (flat_map po_halves (below 280))) /\ length (flat_map po_halves (below 280)) = 560%nat
  /\ forallb (fun p => andb (N.ltb (fst p) 35) (N.ltb (snd p) 16)) (flat_map po_halves (below 280)) = true.
Proof. exact prodos_ts_bijection. Qed.
Print Assumptions c07_prodos_ts_bijection.

(* 3.5in: every ProDOS block of a 400K / 800K disk lands on its own in-range (cyl, head, sector); the first
   invalid block is refused *)
Theorem c07_zone35_injective :
  (NoDup (map cell_code35 (flat_map (woz35_cells 1) (below 800))) /\ length (flat_map (woz35_cells 1) (below 800)) = 800%nat
   /\ forallb (fun c => let '(cy, h, s, _, _) := c in andb (N.ltb cy 80) (andb (N.eqb h 0) (N.ltb s (tbl zoned_secs_per_track (cy / 16)))))
        (flat_map (woz35_cells 1) (below 800)) = true
   /\ woz35_cells 1 800 = [])
  /\ (NoDup (map cell_code35 (flat_map (woz35_cells 2) (below 1600))) /\ length (flat_map (woz35_cells 2) (below 1600)) = 1600%nat
   /\ forallb (fun c => let '(cy, h, s, _, _) := c in andb (N.ltb cy 80) (andb (N.ltb h 2) (N.ltb s (tbl zoned_secs_per_track (cy / 16)))))
        (flat_map (woz35_cells 2) (below 1600)) = true
   /\ woz35_cells 2 1600 = []).
Proof. exact (conj zone35_injective_400 zone35_injective_800). Qed.
Print Assumptions c07_zone35_injective.

(* IMD and TD0 carry identical CP/M skew tables and every table is a permutation of a contiguous id range;
   the 13-sector physical order is a permutation of 0..12; CP/M record pairs share one 256-byte sector *)
Theorem c07_skew_tables :
  (imd_skew_table = td0_skew_table /\ forallb (fun e => is_perm_range (snd e)) imd_skew_table = true)
  /\ (is_perm_range dos32_physical = true /\ length dos32_physical = 13%nat)
  /\ (forall k, k < 16 ->
        tbl cpm_lsec_to_dos_lsec (2 * k) = tbl cpm_lsec_to_dos_lsec (2 * k + 1)
        /\ tbl cpm_lsec_to_dos_offset (2 * k) = 0 /\ tbl cpm_lsec_to_dos_offset (2 * k + 1) = 128
        /\ tbl dos_lsec_to_dos_psec (tbl cpm_lsec_to_dos_lsec (2 * k)) = tbl cpm_lsec_to_dos_psec (2 * k + 1)).
Proof. exact (conj skew_tables_agree (conj dos32_physical_perm cpm_tables_pairwise)). Qed.
Print Assumptions c07_skew_tables.

(* equal cells => the same write produces the same physical disk, whichever container computed the cells *)
Theorem c07_write_equal_cells : forall pd size cs1 cs2 data, cs1 = cs2 -> write_cells pd size cs1 data = write_cells pd size cs2 data.
Proof. exact write_equal_cells. Qed.
Print Assumptions c07_write_equal_cells.
