(* Props/C14.v -- "Tokenized programs are faithful and re-readable".  Statements only.
   Proved here, for all inputs: the container structure (links / lengths / end marker), the escape codec that strings,
   REM and DATA share (detokenize-side escaping is inverted by tokenize-side parsing for every payload, in every
   context), the Merlin byte encoding, and that the generated token tables are each other's inverse.
   The composition with the tree-sitter grammars (which statement becomes which token) is not modelled: it is covered
   by the implementation-side round-trip oracle over generated programs (partial, see DESIGN). *)
From A2 Require Import Base.Bytes Lang.Tokens Lang.TokensProofs Lang.Escape Lang.EscapeProofs Lang.Merlin Gen.TokMaps Lang.TokMapsProofs.
Open Scope N_scope.

(* --- structure --- *)
Theorem c14_applesoft_lines_recovered : forall ls addr b, 0 < addr -> lines_ok ls -> asm_as addr ls = ROk b ->
  forall fuel, (length ls < fuel)%nat -> scan_as fuel b = ROk ls.
Proof. exact scan_asm_as. Qed.
Print Assumptions c14_applesoft_lines_recovered.

Theorem c14_applesoft_links : forall ls base addr b pre, 0 < addr -> lines_ok ls -> asm_as addr ls = ROk b -> addr = base + lenN pre ->
  forall fuel, (length ls < fuel)%nat -> follow_links fuel base addr (pre ++ b) = ROk (line_addrs addr ls).
Proof. exact links_ok. Qed.
Print Assumptions c14_applesoft_links.

Theorem c14_integer_lines_recovered : forall ls b, lines_ok ls -> asm_int ls = ROk b ->
  forall fuel, (length ls < fuel)%nat -> scan_int fuel b = ROk ls.
Proof. exact scan_asm_int. Qed.
Print Assumptions c14_integer_lines_recovered.

(* --- escape codec --- *)
Theorem c14_applesoft_escape_roundtrip : forall ctx bs q e rest t,
  bytes bs -> as_escape ctx q bs = (e, rest) -> t_ok t ->
  exists payload, bs = payload ++ rest /\ unesc false false 0 (e ++ t) = payload ++ unesc false false 0 t.
Proof. exact as_escape_roundtrip. Qed.
Print Assumptions c14_applesoft_escape_roundtrip.

Theorem c14_applesoft_escape_stops : forall ctx bs q e rest, as_escape ctx q bs = (e, rest) ->
  rest = [] \/ exists b w q', rest = b :: w /\ as_stop ctx q' b = true.
Proof. exact as_escape_stops. Qed.
Print Assumptions c14_applesoft_escape_stops.

Theorem c14_integer_escape_roundtrip : forall ctx bs e rest t,
  bytes bs -> int_escape ctx bs = (e, rest) -> t_ok t ->
  exists payload, bs = payload ++ rest /\ unesc true true 0 (e ++ t) = payload ++ unesc true true 0 t.
Proof. exact int_escape_roundtrip. Qed.
Print Assumptions c14_integer_escape_roundtrip.

(* non-vacuity: a payload with a literal hex escape, a control byte and a high byte, closed by a quote *)
Example c14_escape_example :
  as_escape 0 1 [65; 92; 120; 52; 49; 13; 200; 34; 58] = ([65; 92; 120; 53; 99; 120; 52; 49; 92; 120; 48; 100; 92; 120; 99; 56], [34; 58])
  /\ unesc false false 0 ([65; 92; 120; 53; 99; 120; 52; 49; 92; 120; 48; 100; 92; 120; 99; 56] ++ [34]) = [65; 92; 120; 52; 49; 13; 200; 34].
Proof. split; vm_compute; reflexivity. Qed.

(* --- Merlin byte encoding --- *)
Theorem c14_merlin_line_roundtrip : forall l rest, forallb m_char_ok l = true ->
  m_dec_line (m_enc_line l ++ rest) = ROk (map m_view l, rest).
Proof. exact merlin_line_roundtrip. Qed.
Print Assumptions c14_merlin_line_roundtrip.

(* the column formatter of the detokenizer keeps every column a separate blank-delimited word, in order, for every
   choice of column widths and every column length (no two columns fuse, none splits) *)
Theorem c14_merlin_format_keeps_columns : forall widths cols, Forall (fun c => ~ In 32 c) cols ->
  words (fmt_line widths cols) = filter nonnil cols.
Proof. exact merlin_format_keeps_columns. Qed.
Print Assumptions c14_merlin_format_keeps_columns.

Theorem c14_merlin_format_label_column : forall widths r, r <> [] -> exists t, fmt_line widths ([] :: r) = 32 :: t.
Proof. exact merlin_format_label_column. Qed.
Print Assumptions c14_merlin_format_label_column.

(* the line ends with its last column exactly as it is (blanks of its own included): nothing of it is trimmed and no padding follows *)
Theorem c14_merlin_format_keeps_last_column : forall widths cols c, exists t, fmt_line widths (cols ++ [c]) = t ++ c.
Proof. intros widths cols c. exact (merlin_format_keeps_last_column widths cols 0 c). Qed.
Print Assumptions c14_merlin_format_keeps_last_column.

(* --- token tables (generated from the source on every run) --- *)
Theorem c14_applesoft_tables_inverse :
  NoDup (map snd as_tok_map) /\ NoDup (map fst as_detok_map) /\ NoDup (map fst as_tok_map) /\ NoDup (map snd as_detok_map)
  /\ (forall t, In t (map snd as_tok_map) <-> In t (map fst as_detok_map))
  /\ (forall t, In t (map fst as_detok_map) <-> 128 <= t <= 234).
Proof. exact (conj as_tok_bytes_distinct (conj as_detok_bytes_distinct (conj as_tok_names_distinct (conj as_detok_texts_distinct (conj as_tables_same_bytes as_token_range))))). Qed.
Print Assumptions c14_applesoft_tables_inverse.

Theorem c14_integer_tables_inverse :
  NoDup (map snd int_tok_map) /\ NoDup (map fst int_detok_map) /\ NoDup (map fst int_tok_map)
  /\ (forall t, In t (map snd int_tok_map) <-> In t (map fst int_detok_map))
  /\ (forall t, In t (map fst int_detok_map) -> 1 < t < 128).
Proof. exact (conj int_tok_bytes_distinct (conj int_detok_bytes_distinct (conj int_tok_names_distinct (conj int_tables_same_bytes int_token_range)))). Qed.
Print Assumptions c14_integer_tables_inverse.

Theorem c14_escape_constants_tie :
  (forall b, ((b =? 10) || (b =? 13)) = memN b as_default_escapes) /\ (forall b, ((b =? 138) || (b =? 141)) = memN b int_default_escapes)
  /\ esc_byte int_literal_backslash = [92; 120; 100; 99] /\ int_escapes_lowercase = 1 /\ int_string_quote_replaced = 1.
Proof. exact (conj as_escapes_tie (conj int_escapes_tie int_constants_tie)). Qed.
Print Assumptions c14_escape_constants_tie.
