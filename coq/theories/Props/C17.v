(* Props/C17.v -- "Minification keeps the program valid and referentially intact".  Statements only.
   Proved, over the keyword list and guard table regenerated from token_maps.rs / minify_guards.rs on every run:
   when the computed guard sees no hazard, the machine reads the shortened name character by character and then reads
   what follows exactly as on its own, for EVERY following text (no reserved word is created); a reported hazard is a
   real one; the old guard table is covered by the computation; every deleted line is mapped to a line that still
   exists, lies after it and is the first kept line from the cursor on.
   Not modelled: which nodes are variables / references / REM-only lines (tree-sitter walk), line combining; covered by
   the oracle, which compares the canonical statement sequence of input and output and where every reference points. *)
From A2 Require Import Base.Bytes Gen.TokMaps Gen.Guards Lang.Minify Lang.MinifyProofs.
Open Scope N_scope.

Theorem c17_no_reserved_word_created : forall v f fuel,
  hidden_from v f = false -> clean v = true -> (length v + length f < fuel)%nat ->
  crunch fuel (v ++ f) = map Chr v ++ crunch (fuel - length v) f.
Proof. exact unguarded_name_is_read_plainly. Qed.
Print Assumptions c17_no_reserved_word_created.

Theorem c17_reported_hazard_is_real : forall v f, hidden_from v f = true ->
  exists s k, (s < length v)%nat /\ In k keywords /\ (length v - s < length k)%nat /\ is_prefix k (skipn s v ++ f) = true.
Proof. exact reported_hazard_is_real. Qed.
Print Assumptions c17_reported_hazard_is_real.

Theorem c17_guard_table_covered :
  forallb (fun e => forallb (fun kind => forms_hidden_token (fst e) (tok_text kind)) (snd e)) var_guards = true.
Proof. exact table_covered_by_computation. Qed.
Print Assumptions c17_guard_table_covered.

Theorem c17_computed_guard_in_source : computed_guard_present = 1.
Proof. reflexivity. Qed.
Print Assumptions c17_computed_guard_in_source.

Theorem c17_deleted_lines_retargeted_to_existing_lines : forall ds all deleted m, ref_map ds all deleted = Some m ->
  Forall (fun p => fst p < snd p /\ In (snd p) all /\ memNl (snd p) deleted = false) m /\ map fst m = ds.
Proof. exact ref_map_targets_exist. Qed.
Print Assumptions c17_deleted_lines_retargeted_to_existing_lines.

(* seen from the whole program: each deleted line is mapped to the FIRST line after it that is not deleted *)
Theorem c17_replacement_is_first_kept_line : forall ds all deleted m pre cur,
  all = pre ++ cur -> ascending ds ->
  Forall (fun x => (forall d, In d ds -> x <= d) \/ memNl x deleted = true) pre ->
  ref_map ds cur deleted = Some m ->
  Forall (fun p => next_kept (fst p) all deleted = Some (snd p)) m.
Proof. exact ref_map_is_next_kept. Qed.
Print Assumptions c17_replacement_is_first_kept_line.

(* non-vacuity: LO followed by GOTO is a hazard (LOG), LO followed by =5 is not and is read plainly *)
Example c17_example :
  forms_hidden_token [76; 79] [71; 79; 84; 79; 49; 48] = true /\ forms_hidden_token [76; 79] [61; 53] = false
  /\ crunch 10 ([76; 79] ++ [61; 53]) = [Chr 76; Chr 79; Tok [61]; Chr 53]
  /\ ref_map [20; 40] [10; 20; 30; 40; 50] [20; 40] = Some [(20, 30); (40, 50)].
Proof. repeat split; vm_compute; reflexivity. Qed.
