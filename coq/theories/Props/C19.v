(* Props/C19.v -- "Protection flags are honoured and reversible".  Statements only. *)
From A2 Require Import Base.Bytes Fs.Spec Fs.SpecProofs.
Open Scope N_scope.

(* a locked / read-only file cannot be deleted, renamed or overwritten *)
Theorem c19_locked_blocks : forall pr s p f, lookup (files s) p = Some f -> f_locked f = true ->
  (snd (step pr s (Delete p)) = Refused) /\ (forall n, snd (step pr s (Rename p n)) = Refused) /\ (forall idx, snd (step pr s (Put p idx)) = Refused).
Proof. exact locked_blocks. Qed.
Print Assumptions c19_locked_blocks.

(* locking then unlocking restores the entry; reading is unaffected by the lock (the chunk map is unchanged) *)
Theorem c19_lock_unlock : forall pr s p f, p_lock pr = true -> lookup (files s) p = Some f -> f_locked f = false ->
  vlookup (fst (step pr (fst (step pr s (Lock p))) (Unlock p))) p = vlookup s p
  /\ vlookup (fst (step pr s (Lock p))) p = Some (f_isdir f, f_chunks f, true).
Proof. exact lock_unlock. Qed.
Print Assumptions c19_lock_unlock.

(* changing protection alters nothing but that file's own entry (instance of the frame theorem), and owns no unit more or less *)
Theorem c19_lock_frame : forall pr s p q, path_eqb p q = false ->
  vlookup (fst (step pr s (Lock p))) q = vlookup s q /\ vlookup (fst (step pr s (Unlock p))) q = vlookup s q.
Proof.
  intros pr s p q H. split; apply frame; try exact H; try (intros ? ? E; discriminate E); intros ? ? ? E; discriminate E.
Qed.
Print Assumptions c19_lock_frame.
