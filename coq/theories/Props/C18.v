(* Props/C18.v -- "Language servers report on the latest text under any schedule".  Statements only.
   Proved for EVERY schedule (any interleaving of client notifications, thread completions in any order, thread deaths
   and main-loop passes): the diagnostics published are a subsequence of what was sent, in the order sent; when no
   thread dies nothing is lost, so once the queue has drained everything sent has been published and the last publish
   for a document is for its last version; and the hazard is real: after a thread has died holding the analyzer lock
   nothing is ever published again.
   Not modelled: what an analysis computes (that the last publish equals analysing the final text alone, and that no
   document content kills a thread) and the transport; covered by the oracle on the real server binaries with the
   guarded delay hooks forcing out-of-order completion. The shape of the three main loops is tied by the translator. *)
From A2 Require Import Base.Bytes Sys.Server Sys.ServerProofs Gen.ServerSites.
Open Scope N_scope.

Theorem c18_published_in_order_sent : forall es, subseq (published (run es)) (launched (run es)).
Proof. exact published_in_launch_order. Qed.
Print Assumptions c18_published_in_order_sent.

Theorem c18_nothing_lost_without_panic : forall es, no_panic es ->
  launched (run es) = published (run es) ++ map key (queue (run es)).
Proof. exact nothing_lost_without_panic. Qed.
Print Assumptions c18_nothing_lost_without_panic.

Theorem c18_drained_queue_means_latest_published : forall es, no_panic es -> queue (run es) = [] -> published (run es) = launched (run es).
Proof. exact drained_means_all_published. Qed.
Print Assumptions c18_drained_queue_means_latest_published.

Theorem c18_poisoned_lock_silences_the_server : forall es s, poisoned s = true -> no_ok_running s ->
  published (fold_left step es s) = published s.
Proof. exact poisoned_lock_silences_the_server. Qed.
Print Assumptions c18_poisoned_lock_silences_the_server.

(* the three main loops have the modelled shape (facts read off the sources by the translator on every run) *)
Theorem c18_main_loops_have_the_modelled_shape :
  forallb (fun srv => let '(_, front_only, fifo_push, one_lock) := srv in (front_only =? 1) && (fifo_push =? 1) && (one_lock =? 1)) server_sites = true
  /\ length server_sites = 3%nat.
Proof. split; vm_compute; reflexivity. Qed.
Print Assumptions c18_main_loops_have_the_modelled_shape.

(* non-vacuity: two changes whose analyses finish in the opposite order are still published in the order sent *)
Example c18_example :
  published (run [Launch 1 1; Launch 1 2; Finish 1 false; Harvest; Finish 0 false; Harvest; Harvest]) = [(1, 1); (1, 2)]
  /\ published (run [Launch 1 1; Finish 0 true; Harvest; Launch 1 2; Finish 0 false; Harvest]) = [].
Proof. split; vm_compute; reflexivity. Qed.
