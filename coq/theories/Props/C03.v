(* Props/C03.v -- "Volume structures stay sound under every history".  Statements only.
   WF: no unit is owned twice (by two files, or a file and a directory), no owned unit is a system unit, every
   owned unit lies inside the volume and is marked in use, and every unit marked in use is a system unit or
   owned.  Chains are represented by their unit lists, so "terminates without cycles" is NoDup.  Header
   counters are derived from the directory in this model; their on-disk copies are checked by the
   independent readers on the implementation side. *)
From A2 Require Import Base.Bytes Fs.Spec Fs.SpecProofs.
Open Scope N_scope.

Theorem c03_wf_init : forall pr sys, WF pr sys (mkst [] sys).
Proof. exact WF_init. Qed.
Print Assumptions c03_wf_init.

Theorem c03_wf_step : forall pr sys s o, uniq (files s) -> WF pr sys s -> WF pr sys (fst (step pr s o)).
Proof. exact WF_step. Qed.
Print Assumptions c03_wf_step.

(* every reachable state, histories of any length, every step accepted or refused *)
Theorem c03_wf_history : forall pr sys ops s, uniq (files s) -> WF pr sys s ->
  WF pr sys (run pr s ops) /\ uniq (files (run pr s ops)).
Proof. exact WF_history. Qed.
Print Assumptions c03_wf_history.

(* ---------- the concrete ProDOS file structure: one owner per block ---------- *)
From A2 Require Import Fs.ProdosTree Fs.ProdosTreeProofs.

(* the data blocks, the index blocks and the master block of a file are pairwise different, come from the free list and are never
   block 0 - whatever the hole pattern (the index block can in particular never be one of its own entries) *)
Theorem c03_prodos_blocks_distinct : forall cs free, NoDup free -> (length (events cs) <= length free)%nat ->
  forall e1 e2, In e1 (events cs) -> In e2 (events cs) -> block_of e1 (events cs) free = block_of e2 (events cs) free -> e1 = e2.
Proof. intros cs free Hn Hl. exact (pd_blocks_distinct cs free Hn Hl). Qed.
Print Assumptions c03_prodos_blocks_distinct.

Theorem c03_prodos_blocks_from_free : forall cs free, ~ In 0 free -> (length (events cs) <= length free)%nat ->
  forall e, In e (events cs) -> In (block_of e (events cs) free) free /\ block_of e (events cs) free <> 0.
Proof. intros cs free Hz Hl. exact (pd_blocks_from_free cs free Hz Hl). Qed.
Print Assumptions c03_prodos_blocks_from_free.
