(* Props/C03.v -- "Volume structures stay sound under every history".  Statements only.
   WF: no unit is owned twice (by two files, or a file and a directory), no owned unit is a system unit, every
   owned unit lies inside the volume and is marked in use, and every unit marked in use is a system unit or
   owned.  Chains are represented by their unit lists, so "terminates without cycles" is NoDup.  Header
   counters are derived from the directory in this model; their on-disk copies are checked by the
   independent readers on the implementation side. *)
From A2 Require Import Base.Bytes Fs.Spec Fs.SpecProofs.
Open Scope N_scope.

Theorem c03_wf_init : forall pr sys, WF pr sys (mkst [] sys).
Proof. exact WF_init. Qed.
Print Assumptions c03_wf_init.

Theorem c03_wf_step : forall pr sys s o, uniq (files s) -> WF pr sys s -> WF pr sys (fst (step pr s o)).
Proof. exact WF_step. Qed.
Print Assumptions c03_wf_step.

(* every reachable state, histories of any length, every step accepted or refused *)
Theorem c03_wf_history : forall pr sys ops s, uniq (files s) -> WF pr sys s ->
  WF pr sys (run pr s ops) /\ uniq (files (run pr s ops)).
Proof. exact WF_history. Qed.
Print Assumptions c03_wf_history.
