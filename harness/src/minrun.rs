//! C17: minifier oracle.  Both the input and the minified program are tokenized with a2kit's tokenizer and reduced to a
//! canonical statement sequence by an independent scanner over the token bytes; the two sequences must be equal, and
//! every line reference must point at the same place in the sequence.
use crate::util::*;
use a2kit::lang;
use std::collections::BTreeMap;

const REM: u8 = 0xb2; const DATA: u8 = 0x83; const GOTO: u8 = 0xab; const GOSUB: u8 = 0xb0; const THEN: u8 = 0xc4;
const LIST: u8 = 0xbc; const DEL: u8 = 0x85; const RUN: u8 = 0xac; const FN: u8 = 0xc2;

#[derive(Clone,PartialEq,Debug)]
enum Item { Tok(u8), Name(String), Num(String), Str(Vec<u8>), Data(Vec<u8>), Ch(u8), Ref(usize) }

fn canon2(name: &[u8]) -> String {
    let mut s = String::new();
    let (body,suffix) = match name.last() { Some(b'$') | Some(b'%') => (&name[..name.len()-1],Some(*name.last().unwrap())), _ => (name,None) };
    for c in body.iter().take(2) { s.push(*c as char); }
    if let Some(x) = suffix { s.push(x as char); }
    s
}

/// statements of one line body (token bytes without link, number and terminator)
fn statements(body: &[u8]) -> Vec<Vec<Item>> {
    let mut out: Vec<Vec<Item>> = Vec::new();
    let mut cur: Vec<Item> = Vec::new();
    let mut i = 0;
    let mut expect_ref = false;     // after GOTO / GOSUB / THEN / LIST / DEL / RUN: numbers are line references
    while i < body.len() {
        let b = body[i];
        if b==b'"' {
            let mut j = i+1;
            while j < body.len() && body[j]!=b'"' { j += 1; }
            cur.push(Item::Str(body[i+1..j].to_vec()));
            i = if j < body.len() { j+1 } else { j };
            expect_ref = false;
        } else if b==REM {
            break;      // comment: dropped
        } else if b==DATA {
            let mut j = i+1; let mut q = 0;
            while j < body.len() && !(body[j]==b':' && q%2==0) { if body[j]==b'"' { q += 1; } j += 1; }
            cur.push(Item::Data(body[i+1..j].to_vec()));
            i = j;
            expect_ref = false;
        } else if b==b':' {
            if cur.len()>0 { out.push(cur); }
            cur = Vec::new();
            i += 1;
            expect_ref = false;
        } else if b==b';' {
            cur.push(Item::Ch(b';'));     // kept until the guard parentheses are judged: `A%;(XY)` is not a subscript
            i += 1;
        } else if b==b' ' {
            i += 1;
        } else if b>=128 {
            cur.push(Item::Tok(b));
            expect_ref = [GOTO,GOSUB,THEN,LIST,DEL,RUN].contains(&b);
            i += 1;
        } else if b.is_ascii_alphabetic() {
            let mut j = i;
            while j < body.len() && (body[j].is_ascii_alphanumeric()) { j += 1; }
            if j < body.len() && (body[j]==b'$' || body[j]==b'%') { j += 1; }
            cur.push(Item::Name(canon2(&body[i..j])));
            i = j;
            expect_ref = false;
        } else if b.is_ascii_digit() || b==b'.' {
            let mut j = i;
            while j < body.len() && (body[j].is_ascii_digit() || body[j]==b'.') { j += 1; }
            let txt = String::from_utf8_lossy(&body[i..j]).to_string();
            if expect_ref && !txt.contains('.') { cur.push(Item::Ref(txt.parse::<usize>().unwrap_or(usize::MAX))); }
            else { cur.push(Item::Num(txt)); }
            i = j;
        } else {
            if b!=b',' { expect_ref = false; }
            cur.push(Item::Ch(b));
            i += 1;
        }
    }
    if cur.len()>0 { out.push(cur); }
    // guard parentheses around a lone variable (not a subscript, not a function argument) carry no meaning
    for st in out.iter_mut() {
        let mut k = 0;
        while k+2 < st.len() {
            let lone = st[k]==Item::Ch(b'(') && matches!(st[k+1],Item::Name(_)) && st[k+2]==Item::Ch(b')');
            let callee = k>0 && match &st[k-1] { Item::Name(_) => true, Item::Tok(t) => *t>=0xd2 || *t==FN || *t==0xc0 || *t==0xc3 || *t==0xd7, _ => false };   // after `)` a parenthesised name is a juxtaposed PRINT item, never a subscript
            if lone && !callee { st.remove(k+2); st.remove(k); k = k.saturating_sub(1); } else { k += 1; }
        }
        // the PRINT separator itself carries no meaning for the comparison (the minifier drops it where it can)
        st.retain(|x| *x != Item::Ch(b';'));
    }
    out
}

struct Prog { stmts: Vec<Vec<Item>>, first_stmt: BTreeMap<usize,usize>, order: Vec<usize> }

fn analyze(tok: &[u8]) -> Prog {
    let mut p = Prog { stmts: Vec::new(), first_stmt: BTreeMap::new(), order: Vec::new() };
    let mut i = 0;
    while i+3 < tok.len() && !(tok[i]==0 && tok[i+1]==0) {
        let num = tok[i+2] as usize + 256*tok[i+3] as usize;
        i += 4;
        let mut j = i;
        while j < tok.len() && tok[j]!=0 { j += 1; }
        p.first_stmt.entry(num).or_insert(p.stmts.len());
        p.order.push(num);
        p.stmts.append(&mut statements(&tok[i..j]));
        i = j+1;
    }
    p
}

fn show(st: &Vec<Item>) -> String {
    st.iter().map(|x| match x { Item::Tok(t) => format!("<{:02x}>",t), Item::Name(n) => n.clone(), Item::Num(n) => n.clone(), Item::Str(s) => format!("\"{}\"",String::from_utf8_lossy(s)),
        Item::Data(d) => format!("DATA[{}]",String::from_utf8_lossy(d)), Item::Ch(c) => (*c as char).to_string(), Item::Ref(r) => format!("->{}",r) }).collect::<Vec<String>>().join(" ")
}

/// minichk id level hextext
pub fn minichk(toks: &[&str]) -> String {
    let level = num(toks[2]) as usize;
    let src = String::from_utf8_lossy(&unhex(toks[3])).to_string();
    if lang::verify_str(tree_sitter_applesoft::language(),&src).is_err() { return "ok rejected".to_string(); }
    let mut t = lang::applesoft::tokenizer::Tokenizer::new();
    let t_in = match t.tokenize(&src,2049) { Ok(v) => v, Err(_) => return "ok rejected-by-tokenizer".to_string() };
    let mut m = lang::applesoft::minifier::Minifier::new();
    m.set_level(level);
    let out = match m.minify(&src) { Ok(s) => s, Err(e) => return format!("FAIL minify returned an error for a valid program: {}",e) };
    let brief = |s: &str| s.replace('\n'," | ").chars().take(300).collect::<String>();
    if lang::verify_str(tree_sitter_applesoft::language(),&out).is_err() { return format!("FAIL the minified program is not valid: {}",brief(&out)); }
    let mut t2 = lang::applesoft::tokenizer::Tokenizer::new();
    let t_out = match t2.tokenize(&out,2049) { Ok(v) => v, Err(e) => return format!("FAIL the minified program does not tokenize: {} : {}",e,brief(&out)) };
    if out.len() > src.len() + 1 { return format!("FAIL the minified program is longer than the input ({} > {})",out.len(),src.len()); }
    let a = analyze(&t_in);
    let b = analyze(&t_out);
    // line numbers: ascending stays ascending, and nothing new appears
    for n in &b.order { if !a.first_stmt.contains_key(n) { return format!("FAIL line {} of the output is not a line of the input",n); } }
    // a valid program lists its lines in strictly ascending order (when the input did)
    let ascending = |o: &Vec<usize>| o.windows(2).all(|w| w[0] < w[1]);
    if ascending(&a.order) && !ascending(&b.order) {
        let k = b.order.windows(2).position(|w| w[0] >= w[1]).unwrap_or(0);
        return format!("FAIL the minified program is not valid: line {} is followed by line {} :: {}",b.order[k],b.order[k+1],brief(&out));
    }
    if a.stmts.len()!=b.stmts.len() {
        let k = a.stmts.iter().zip(b.stmts.iter()).position(|(x,y)| !same(x,y)).unwrap_or(a.stmts.len().min(b.stmts.len()));
        return format!("FAIL statement count {} -> {}; first difference at statement {}: `{}` vs `{}` :: {}",a.stmts.len(),b.stmts.len(),k,
            a.stmts.get(k).map(show).unwrap_or_default(),b.stmts.get(k).map(show).unwrap_or_default(),brief(&out));
    }
    for k in 0..a.stmts.len() {
        if !same(&a.stmts[k],&b.stmts[k]) {
            return format!("FAIL statement {} changed meaning: `{}` became `{}` :: {}",k,show(&a.stmts[k]),show(&b.stmts[k]),brief(&out));
        }
        // references
        for (x,y) in a.stmts[k].iter().zip(b.stmts[k].iter()) {
            if let (Item::Ref(r1),Item::Ref(r2)) = (x,y) {
                match a.first_stmt.get(r1) {
                    Some(pos) => {
                        match b.first_stmt.get(r2) {
                            Some(pos2) if pos2==pos => {},
                            Some(pos2) => return format!("FAIL reference to line {} (statement {}) now points to line {} (statement {}) :: {}",r1,pos,r2,pos2,brief(&out)),
                            None => return format!("FAIL reference to existing line {} became a reference to {} which is not a line of the output :: {}",r1,r2,brief(&out))
                        }
                    },
                    None => if r1!=r2 { return format!("FAIL reference to the missing line {} was changed to {}",r1,r2); }
                }
            }
        }
    }
    format!("ok level={} bytes {}->{} lines {}->{}",level,src.len(),out.len(),a.order.len(),b.order.len())
}

fn same(x: &Vec<Item>,y: &Vec<Item>) -> bool {
    if x.len()!=y.len() { return false; }
    for (a,b) in x.iter().zip(y.iter()) {
        match (a,b) { (Item::Ref(_),Item::Ref(_)) => {}, _ => if a!=b { return false; } }
    }
    true
}

/// minify id level hextext : the minified text itself
pub fn minify(toks: &[&str]) -> String {
    let level = num(toks[2]) as usize;
    let src = String::from_utf8_lossy(&unhex(toks[3])).to_string();
    if lang::verify_str(tree_sitter_applesoft::language(),&src).is_err() { return "rejected".to_string(); }
    let mut m = lang::applesoft::minifier::Minifier::new();
    m.set_level(level);
    match m.minify(&src) { Ok(s) => format!("ok {}.",tohex(s.as_bytes())), Err(e) => format!("err {}",e) }
}
