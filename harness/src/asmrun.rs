//! C15: disassemble -> (analyze) -> spot assemble on the real library, plus an independent expansion of LUP blocks
use crate::util::*;
use a2kit::lang;
use a2kit::lang::merlin;
use a2kit::lang::server::Analysis;

fn proc_of(s: &str) -> merlin::ProcessorType {
    match s { "6502" => merlin::ProcessorType::_6502, "65c02" => merlin::ProcessorType::_65c02, "65802" => merlin::ProcessorType::_65802, _ => merlin::ProcessorType::_65c816 }
}

/// the declaration of the processor as a user would write it: XC lines come first, then ORG, then MX
pub fn header(proc: &str, variant: &str, mx: &str, org: usize) -> String {
    let mut h = String::new();
    let xc = match (proc,variant) { ("6502",_) => 0, ("65c02","m8") => 1, ("65c02",_) => 0, (_,"m8") => 2, _ => 0 };
    for _ in 0..xc { h += " XC\n"; }
    h += &format!(" ORG ${:04X}\n",org);
    if (proc=="65802" || proc=="65816") && variant!="m8" { h += &format!(" MX %{}\n",mx); }   // MX is not a Merlin 8 pseudo-op
    h
}

fn assemble(src: &str, variant: &str, literals: bool) -> Result<Vec<u8>,String> {
    let mut config = merlin::settings::Settings::new();
    config.version = match variant { "m8" => merlin::MerlinVersion::Merlin8, "m16" => merlin::MerlinVersion::Merlin16, "m16+" => merlin::MerlinVersion::Merlin16Plus, _ => merlin::MerlinVersion::Merlin32 };
    let mut analyzer = merlin::diagnostics::Analyzer::new();
    analyzer.set_config(config.clone());
    let doc = lang::Document::from_string(src.to_string(),0);
    if let Err(e) = analyzer.analyze(&doc) { return Err(format!("analyze:{}",e)); }
    let symbols = analyzer.get_symbols();
    let [err,_w,_i] = analyzer.err_warn_info_counts();
    if err>0 {
        let d = analyzer.get_diags(&doc);
        let first = d.iter().find(|x| x.severity==Some(lsp_types::DiagnosticSeverity::ERROR)).map(|x| format!("line {}: {}",x.range.start.line,x.message)).unwrap_or_default();
        return Err(format!("diagnostics:{}",first));
    }
    let mut asm = merlin::assembly::Assembler::new();
    asm.set_config(config);
    if literals {
        let dsyms = merlin::assembly::Assembler::dasm_symbols(std::sync::Arc::new(symbols));
        asm.use_shared_symbols(std::sync::Arc::new(dsyms));
    } else {
        asm.use_shared_symbols(std::sync::Arc::new(symbols));
    }
    match asm.spot_assemble(src.to_string(),0,src.len() as isize,None) { Ok(v) => Ok(v), Err(e) => Err(format!("asm:{}",e)) }
}

/// replace each `LUP n / body / --^` block by n copies of the body (what the pseudo-op means)
fn expand_lup(src: &str) -> String {
    let mut out = String::new();
    let lines: Vec<&str> = src.lines().collect();
    let mut i = 0;
    while i < lines.len() {
        let toks: Vec<&str> = lines[i].split_whitespace().collect();
        let k = toks.iter().position(|t| t.eq_ignore_ascii_case("LUP"));
        if let Some(k) = k {
            if k+1 < toks.len() && (k==0 || (k==1 && !lines[i].starts_with(' '))) {
                if let Ok(n) = toks[k+1].parse::<usize>() {
                    let label = if k==1 { toks[0] } else { "" };
                    let mut j = i+1; let mut body = Vec::new();
                    while j < lines.len() && !lines[j].contains("--^") { body.push(lines[j]); j += 1; }
                    for rep in 0..n {
                        for (bi,b) in body.iter().enumerate() {
                            if rep==0 && bi==0 && label.len()>0 { out += label; }
                            out += b; out += "\n";
                        }
                    }
                    i = j+1;
                    continue;
                }
            }
        }
        out += lines[i]; out += "\n";
        i += 1;
    }
    out
}

/// dasmrt id proc mx org variant literals valid hexbytes
pub fn dasmrt(toks: &[&str]) -> String {
    let proc = toks[2]; let mx = toks[3]; let org = num(toks[4]) as usize; let variant = toks[5];
    let literals = toks[6]=="1"; let valid = toks[7]=="1"; let bytes = unhex(toks[8]);
    let mut img = vec![0u8;org];
    img.extend_from_slice(&bytes);
    let mut dasm = merlin::disassembly::Disassembler::new();
    dasm.set_mx(mx.as_bytes()[0]==b'1',mx.as_bytes()[1]==b'1');
    let text = match dasm.disassemble(&img,merlin::disassembly::DasmRange::Range([org,img.len()]),proc_of(proc),"some") {
        Ok(t) => t, Err(e) => return format!("FAIL disassemble returned an error: {}",e)
    };
    let head = header(proc,variant,mx,org);
    let src = [head.clone(),text.clone()].concat();
    let show = |t: &str| t.lines().take(6).map(|l| l.split_whitespace().collect::<Vec<&str>>().join(" ")).collect::<Vec<String>>().join(" | ");
    let first = assemble(&src,variant,literals);
    match &first {
        Ok(b) if *b==bytes => return format!("ok same lines={}",text.lines().count()),
        Ok(b) => {
            let k = b.iter().zip(bytes.iter()).position(|(x,y)| x!=y).unwrap_or(b.len().min(bytes.len()));
            return format!("FAIL different bytes: assembled {} bytes from {} input bytes, first difference at offset {} ({}) source: {}",b.len(),bytes.len(),k,tohex(&b[k.min(b.len())..(k+4).min(b.len())]),show(&text));
        },
        Err(_) => {}
    }
    let e1 = first.err().unwrap();
    // the assembler refused: account for every byte through the LUP-expanded text
    let has_lup = text.lines().any(|l| l.split_whitespace().any(|t| t.eq_ignore_ascii_case("LUP")));
    if has_lup {
        let src2 = [head,expand_lup(&text)].concat();
        match assemble(&src2,variant,literals) {
            Ok(b) if b==bytes => return format!("ok refused-lup ({}) expanded-same",e1.chars().take(40).collect::<String>()),
            Ok(b) => {
                let k = b.iter().zip(bytes.iter()).position(|(x,y)| x!=y).unwrap_or(b.len().min(bytes.len()));
                return format!("FAIL different bytes after LUP expansion: {} vs {} bytes, first difference at offset {} source: {}",b.len(),bytes.len(),k,show(&text));
            },
            Err(e2) => {
                if valid { return format!("FAIL valid instructions refused: {} source: {}",e2,show(&text)); }
                return format!("ok refused ({}) unaccounted",e2.chars().take(60).collect::<String>());
            }
        }
    }
    if valid { return format!("FAIL valid instructions refused: {} source: {}",e1,show(&text)); }
    format!("ok refused ({}) unaccounted",e1.chars().take(60).collect::<String>())
}

/// dasmtext id proc mx org hexbytes : the disassembly itself (for debugging and for the model comparison)
pub fn dasmtext(toks: &[&str]) -> String {
    let proc = toks[2]; let mx = toks[3]; let org = num(toks[4]) as usize; let bytes = unhex(toks[5]);
    let mut img = vec![0u8;org];
    img.extend_from_slice(&bytes);
    let mut dasm = merlin::disassembly::Disassembler::new();
    dasm.set_mx(mx.as_bytes()[0]==b'1',mx.as_bytes()[1]==b'1');
    match dasm.disassemble(&img,merlin::disassembly::DasmRange::Range([org,img.len()]),proc_of(proc),"none") {
        Ok(t) => t.lines().map(|l| l.split_whitespace().collect::<Vec<&str>>().join(" ")).collect::<Vec<String>>().join("|"),
        Err(e) => format!("error {}",e)
    }
}

/// asmline id variant proc mx pc hextext : one source line assembled at the given address with the processor declared
pub fn asmline(toks: &[&str]) -> String {
    let variant = toks[2]; let proc = toks[3]; let mx = toks[4]; let pc = num(toks[5]) as usize;
    let line = String::from_utf8_lossy(&unhex(toks[6])).to_string();
    let src = [header(proc,variant,mx,pc),line,"\n".to_string()].concat();
    match assemble(&src,variant,false) { Ok(b) => format!("ok:{}",tohex(&b)), Err(e) => format!("err {}",e.chars().take(60).collect::<String>()) }
}
