//! C09 streams: crc32/crc16 functions, IMD track record as serialised, and the implementation-side codec oracle
//! (to_bytes -> from_bytes -> to_bytes; geometry, sectors, metadata, independent integrity fields).
use std::panic::{catch_unwind,AssertUnwindSafe};
use a2kit::img::DiskImage;
use crate::geom::*;
use crate::util::*;

fn crc32_indep(buf: &[u8]) -> u32 {
    let mut crc: u32 = 0xffffffff;
    for b in buf { crc ^= *b as u32; for _ in 0..8 { crc = if crc & 1 == 1 { (crc >> 1) ^ 0xEDB88320 } else { crc >> 1 }; } }
    !crc
}

fn ext_of(label: &str) -> &'static str {
    match label.split(':').next().unwrap() {
        "do" => "do", "po" => "po", "d13" => "d13", "nib" => "nib", "woz1" | "woz2" => "woz", "img" => "img", "imd" => "imd", "td0" => "td0", _ => "2mg"
    }
}

pub fn dispatch(toks: &[&str]) -> String {
    match toks[0] {
        "crc32" => format!("{}",a2kit::img::woz::crc32(0,&unhex(toks[2]))),
        "crc16" => format!("{}",a2kit::img::td0::crc16(num(toks[2]) as u16,&unhex(toks[3]))),
        "imdtrk" => {
            // imdtrk id kind secsize nsec payloads... : write the payloads to cylinder 0 head 0 in track-buffer order, serialise,
            // and return the track-0 data records exactly as they appear in the file
            let kind = toks[2];
            let mut img = make_image(&format!("imd:{}",kind));
            let g = geom(kind);
            let nsec = num(toks[4]);
            for i in 0..nsec {
                let dat = unhex(toks[5+i]);
                if let Err(e) = img.write_sector(0,0,g.id_base+i,&dat) { return format!("write-err:{}",e); }
            }
            let bytes = img.to_bytes();
            let term = match bytes.iter().position(|b| *b==0x1a) { Some(p) => p, None => return "no-terminator".to_string() };
            let t = &bytes[term+1..];
            let n = t[3] as usize;
            let mut ptr = 5 + n + (if t[2]&0x80>0 {n} else {0}) + (if t[2]&0x40>0 {n} else {0});
            let size = 128usize << t[4];
            let start = ptr;
            for _ in 0..n { ptr += match t[ptr] { 0 => 1, 1|3|5|7 => 1+size, _ => 2 }; }
            format!("ok:{}",tohex(&t[start..ptr]))
        },
        "codec" => codec_oracle(toks),
        "metasweep" => meta_sweep(toks),
        _ => "unsupported".to_string()
    }
}

/// codec id label seed nwrites
fn codec_oracle(toks: &[&str]) -> String {
    let label = toks[2];
    let seed: u64 = toks[3].parse().unwrap();
    let nw: usize = toks[4].parse().unwrap();
    let kname = label.split(':').nth(1).unwrap_or("5.25in");
    let g = geom(kname);
    let mut rng = Rng(seed);
    let mut img = make_image(label);
    let has_sec = !label.starts_with("po") && !label.starts_with("2mg-po");
    let secs = g.sectors();
    let nblk = g.capacity()/512;
    for _ in 0..nw {
        if has_sec {
            let [c,h,s,size] = secs[rng.below(secs.len())];
            let d = rng.bytes(size);
            if let Err(e) = img.write_sector(c,h,s,&d) { return format!("FAIL write_sector refused: {}",e); }
        } else {
            let b = rng.below(nblk);
            if let Err(e) = img.write_block(a2kit::fs::Block::PO(b),&rng.bytes(512)) { return format!("FAIL write_block refused: {}",e); }
        }
    }
    // metadata written through the metadata interface is what is read back
    let typ = img.what_am_i().to_string();
    let meta0 = match json::parse(&img.get_metadata(None)) { Ok(m) => m, Err(e) => return format!("FAIL metadata is not JSON: {}",e) };
    let mut edits: Vec<(Vec<String>,String)> = Vec::new();
    let free_text = ["comment","notes","creator_info","title","subtitle","publisher","developer","copyright","language","side_name","contributor","creator"];
    fn walk(node: &json::JsonValue,path: &mut Vec<String>,out: &mut Vec<Vec<String>>) {
        for (k,v) in node.entries() { path.push(k.to_string()); if v.is_object() { walk(v,path,out); } else { out.push(path.clone()); } path.pop(); }
    }
    let mut leaves = Vec::new();
    walk(&meta0,&mut Vec::new(),&mut leaves);
    // the META chunk of a WOZ image starts out empty: its records appear only once they are written
    if typ=="woz1" || typ=="woz2" {
        for k in ["title","subtitle","publisher","developer","copyright","notes","side_name","contributor"] {
            let leaf = vec![typ.clone(),"meta".to_string(),k.to_string()];
            if !leaves.contains(&leaf) { leaves.push(leaf); }
        }
    }
    for leaf in &leaves {
        let last = leaf.last().unwrap().as_str();
        let key = if last=="_raw" && leaf.len()>1 { leaf[leaf.len()-2].as_str() } else { last };
        if free_text.contains(&key) && last!="_pretty" {
            let val = match rng.below(8) { 0 => format!("two\nlines {}",rng.below(1000)), 1 => format!("ctl\u{1a}z {}",rng.below(1000)),
                2 => format!("dos\r\nline\r\nbreaks {}",rng.below(1000)), 3 => format!("three\nshort\nlines\n{}",rng.below(1000)),
                4 => "X".repeat([1usize,31,32,33,63,64,65,255,256,257,500][rng.below(11)]), _ => format!("VERIF {}",rng.below(1000)) };
            match img.put_metadata(leaf,&json::JsonValue::String(val.clone())) {
                Ok(()) => edits.push((leaf.clone(),val)),
                Err(_) => {}
            }
        }
    }
    let check_meta = |img: &Box<dyn DiskImage>,when: &str| -> Result<(),String> {
        let m = json::parse(&img.get_metadata(None)).map_err(|e| format!("metadata not JSON {}: {}",when,e))?;
        for (path,val) in &edits {
            let mut node = &m;
            for k in path { node = &node[k.as_str()]; }
            let got = node.as_str().unwrap_or("<not a string>");
            // a format may store line breaks in its own way (TD0 keeps one NUL per break): CR LF and LF are the same break
            if got.trim_end().replace("\r\n","\n")!=val.replace("\r\n","\n").as_str() { return Err(format!("metadata {:?} written as {:?} reads back as {:?} {}",path,val,got,when)); }
        }
        Ok(())
    };
    if let Err(e) = check_meta(&img,"before saving") { return format!("FAIL {}",e); }
    let b1 = img.to_bytes();
    // integrity fields, recomputed independently
    if typ=="woz1" || typ=="woz2" {
        let stored = u32::from_le_bytes([b1[8],b1[9],b1[10],b1[11]]);
        if stored!=crc32_indep(&b1[12..]) { return format!("FAIL WOZ CRC32 field {:08x} != CRC32 of the rest {:08x}",stored,crc32_indep(&b1[12..])); }
    }
    if typ=="2mg" {
        let le = |o: usize| u32::from_le_bytes([b1[o],b1[o+1],b1[o+2],b1[o+3]]) as usize;
        let (doff,dlen,coff,clen,roff,rlen) = (le(0x18),le(0x1c),le(0x20),le(0x24),le(0x28),le(0x2c));
        if doff!=64 || doff+dlen>b1.len() || (clen>0 && coff!=doff+dlen) || (rlen>0 && roff!=doff+dlen+clen) || doff+dlen+clen+rlen!=b1.len() {
            return format!("FAIL 2MG offsets inconsistent: data {}+{} comment {}+{} creator {}+{} file {}",doff,dlen,coff,clen,roff,rlen,b1.len());
        }
    }
    let mut img2 = match a2kit::create_img_from_bytestream(&b1,Some(ext_of(label))) { Ok(i) => i, Err(e) => return format!("FAIL serialised image does not load again: {}",e) };
    if img2.what_am_i()!=img.what_am_i() { return format!("FAIL reloaded as {} instead of {}",img2.what_am_i(),img.what_am_i()); }
    if img2.byte_capacity()!=img.byte_capacity() { return format!("FAIL capacity {} became {}",img.byte_capacity(),img2.byte_capacity()); }
    // a raw IMG records no geometry: two kinds of equal size (320K: 80x1x8 and 40x2x8) cannot be told apart, that is not a defect
    let raw_img = matches!(img.what_am_i(),a2kit::img::DiskImageType::IMG);
    if !raw_img && (img2.track_count()!=img.track_count() || img2.num_heads()!=img.num_heads()) { return "FAIL geometry changed on reload".to_string(); }
    let records_kind = !matches!(img.what_am_i(),a2kit::img::DiskImageType::DO|a2kit::img::DiskImageType::PO|a2kit::img::DiskImageType::D13|a2kit::img::DiskImageType::DOT2MG|a2kit::img::DiskImageType::IMG);
    // IMD/TD0 record cylinders/heads/sectors/size but not the physical form factor (3 inch vs 5.25 inch)
    let strip = |k: String| -> String { match k.find(" inch ") { Some(i) => k[i+6..].to_string(), None => k } };
    if records_kind && strip(img2.kind().to_string())!=strip(img.kind().to_string()) { return format!("FAIL disk kind {} became {}",img.kind(),img2.kind()); }
    let same_geom = img2.track_count()==img.track_count() && img2.num_heads()==img.num_heads();
    if has_sec && same_geom {
        for [c,h,s,_] in &secs {
            let a = img.read_sector(*c,*h,*s).map_err(|e| e.to_string());
            let b = img2.read_sector(*c,*h,*s).map_err(|e| e.to_string());
            if a!=b { return format!("FAIL sector {},{},{} differs after reload",c,h,s); }
        }
    } else if !has_sec {
        for b in 0..nblk {
            let x = img.read_block(a2kit::fs::Block::PO(b)).map_err(|e| e.to_string());
            let y = img2.read_block(a2kit::fs::Block::PO(b)).map_err(|e| e.to_string());
            if x!=y { return format!("FAIL block {} differs after reload",b); }
        }
    }
    if let Err(e) = check_meta(&img2,"after reload") { return format!("FAIL {}",e); }
    let b2 = img2.to_bytes();
    if b2!=b1 {
        let pos = b1.iter().zip(b2.iter()).position(|(x,y)| x!=y).unwrap_or(b1.len().min(b2.len()));
        return format!("FAIL second serialisation differs from the first (lengths {} / {}, first difference at {})",b1.len(),b2.len(),pos);
    }
    // every kind of free-text value in turn (one line, LF and CR LF breaks, a control character, lengths around the field sizes):
    // written, read back, serialised, parsed again, read back
    let values: Vec<String> = vec!["VERIF 1".to_string(),"two\nlines".to_string(),"dos\r\nline\r\nbreaks".to_string(),"three\nshort\nlines\nhere".to_string(),
        "ctl\u{1a}z".to_string(),"ends with a blank ".to_string(),"   ".to_string(),"ends with a carriage return\r".to_string()," leading and trailing\t".to_string(),"X".repeat(31),"X".repeat(32),"X".repeat(33),"X".repeat(255),"X".repeat(256),"X".repeat(500)];
    let mut swept = 0;
    for val in &values {
        let mut img3 = match a2kit::create_img_from_bytestream(&b1,Some(ext_of(label))) { Ok(i) => i, Err(e) => return format!("FAIL serialised image does not load again: {}",e) };
        let mut put: Vec<Vec<String>> = Vec::new();
        for leaf in &leaves {
            let last = leaf.last().unwrap().as_str();
            let key = if last=="_raw" && leaf.len()>1 { leaf[leaf.len()-2].as_str() } else { last };
            if free_text.contains(&key) && last!="_pretty" {
                if img3.put_metadata(leaf,&json::JsonValue::String(val.clone())).is_ok() { put.push(leaf.clone()); }
            }
        }
        if put.is_empty() { continue; }
        let look = |img: &Box<dyn DiskImage>,when: &str| -> Result<Vec<String>,String> {
            let m = json::parse(&img.get_metadata(None)).map_err(|e| format!("metadata not JSON {}: {}",when,e))?;
            let mut seen = Vec::new();
            for path in &put {
                let mut node = &m;
                for k in path { node = &node[k.as_str()]; }
                let got = node.as_str().unwrap_or("<not a string>");
                if got.trim_end().replace("\r\n","\n")!=val.replace("\r\n","\n").trim_end() { return Err(format!("metadata {:?} written as {:?} reads back as {:?} {}",path,val,got,when)); }
                seen.push(got.replace("\r\n","\n"));
            }
            Ok(seen)
        };
        let before = match look(&img3,"before saving") { Ok(v) => v, Err(e) => return format!("FAIL {}",e) };
        let b3 = img3.to_bytes();
        let mut img4 = match a2kit::create_img_from_bytestream(&b3,Some(ext_of(label))) { Ok(i) => i, Err(e) => return format!("FAIL image with metadata {:?} = {:?} does not load again after serialising: {}",put[0],val,e) };
        let after = match look(&img4,"after reload") { Ok(v) => v, Err(e) => return format!("FAIL {}",e) };
        // a fixed-size field may drop the blanks it pads with; whatever the image shows before saving it must show again after loading,
        // and a field that kept trailing blanks before saving has to keep them
        for i in 0..put.len() {
            if before[i]!=after[i] { return format!("FAIL metadata {:?} written as {:?} reads {:?} before saving and {:?} after reload",put[i],val,before[i],after[i]); }
        }
        let b4 = img4.to_bytes();
        if b4!=b3 { return format!("FAIL with metadata {:?} = {:?} the second serialisation differs from the first (lengths {} / {})",put[0],val,b3.len(),b4.len()); }
        swept += put.len();
    }
    format!("ok type={} bytes={} edits={} swept={}",typ,b1.len(),edits.len(),swept)
}


/// metasweep id label : every leaf of the metadata tree is given other values of its own form (another hex string of the same
/// length, boundary numbers, long and short text); whatever put_metadata accepts must survive: the image serialises, the bytes load
/// again as the same type and geometry, and the value reads back (line-end forms aside)
fn meta_sweep(toks: &[&str]) -> String {
    let label = toks[2];
    let img0 = make_image(label);
    let mut base = img0;
    let b0 = base.to_bytes();
    let meta0 = match json::parse(&base.get_metadata(None)) { Ok(m) => m, Err(e) => return format!("FAIL metadata is not JSON: {}",e) };
    fn walk(node: &json::JsonValue,path: &mut Vec<String>,out: &mut Vec<(Vec<String>,String)>) {
        for (k,v) in node.entries() { path.push(k.to_string()); if v.is_object() { walk(v,path,out); } else if let Some(s) = v.as_str() { out.push((path.clone(),s.to_string())); } path.pop(); }
    }
    let mut leaves = Vec::new();
    walk(&meta0,&mut Vec::new(),&mut leaves);
    // INFO fields of WOZ2 that an image without flux data does not show: what the interface lets through must be shown afterwards
    if label.starts_with("woz2") {
        for k in ["flux_block","largest_flux_track"] {
            let leaf = vec!["woz2".to_string(),"info".to_string(),k.to_string()];
            if !leaves.iter().any(|(p,_)| *p==leaf) { leaves.push((leaf,"0000".to_string())); }
        }
    }
    let mut bad: Vec<String> = Vec::new();
    let mut accepted = 0; let mut tried = 0;
    for (path,cur) in &leaves {
        if path.last().map(|s| s=="_pretty").unwrap_or(false) { continue; }
        let is_hex = cur.len()>0 && cur.len()%2==0 && cur.chars().all(|c| c.is_ascii_hexdigit());
        let mut vals: Vec<String> = Vec::new();
        if is_hex {
            let n = cur.len();
            vals.push("00".repeat(n/2)); vals.push("ff".repeat(n/2)); vals.push(format!("01{}","00".repeat(n/2-1))); vals.push(format!("{}80","00".repeat(n/2-1)));
            vals.push(format!("{}01","00".repeat(n/2-1))); vals.push("02".repeat(n/2));
        } else {
            vals.push("".to_string()); vals.push("X".to_string()); vals.push("X".repeat(65535)); vals.push("X".repeat(65536)); vals.push("two\nlines".to_string());
        }
        for v in vals {
            if &v==cur { continue; }
            tried += 1;
            let mut img = match a2kit::create_img_from_bytestream(&b0,Some(ext_of(label))) { Ok(i) => i, Err(e) => return format!("FAIL fresh image does not load: {}",e) };
            if img.put_metadata(path,&json::JsonValue::String(v.clone())).is_err() { continue; }
            accepted += 1;
            let show = |v: &String| if v.len()>24 { format!("{}... ({} chars)",&v[..12],v.len()) } else { v.clone() };
            // metadata written through the interface is what is read back: a field that is not shown afterwards must not have changed
            // the image either (read-only fields are skipped with a warning, which is fine)
            if let Ok(m) = json::parse(&img.get_metadata(None)) {
                let mut node = &m; for k in path { node = &node[k.as_str()]; }
                if node.is_null() {
                    if img.to_bytes()!=b0 && bad.len()<4 { bad.push(format!("{} = {:?}: accepted and written into the image, but the metadata of the image does not show the field",path.join("/"),show(&v))); }
                    continue;
                }
            }
            let r = catch_unwind(AssertUnwindSafe(|| -> Result<(),String> {
                let b = img.to_bytes();
                let img2 = a2kit::create_img_from_bytestream(&b,Some(ext_of(label))).map_err(|e| format!("does not load again ({})",e))?;
                if img2.what_am_i()!=img.what_am_i() { return Err(format!("loads as {}",img2.what_am_i())); }
                if img2.track_count()!=img.track_count() || img2.num_heads()!=img.num_heads() || img2.byte_capacity()!=img.byte_capacity() { return Err("geometry differs between the edited image and its reload".to_string()); }
                let m = json::parse(&img2.get_metadata(None)).map_err(|e| format!("metadata not JSON after reload: {}",e))?;
                let mut node = &m; for k in path { node = &node[k.as_str()]; }
                let got = node.as_str().unwrap_or("<not a string>");
                // fields that serialising recomputes (lengths, offsets, type codes) come back with their true value: only free text has to
                // read back as written (that is the business of the codec oracle); here the image must stay loadable and keep its shape
                let _ = got;
                Ok(())
            }));
            match r {
                Ok(Ok(())) => {},
                Ok(Err(e)) => if bad.len()<4 { bad.push(format!("{} = {:?}: {}",path.join("/"),show(&v),e)); },
                Err(_) => if bad.len()<4 { bad.push(format!("{} = {:?}: panic",path.join("/"),show(&v))); }
            }
        }
    }
    if bad.is_empty() { format!("ok tried={} accepted={}",tried,accepted) } else { format!("FAIL accepted metadata does not survive: {}",bad.join(" ;; ")) }
}
