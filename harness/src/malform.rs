//! C12: arbitrary / corrupted bytes as disk image, file image JSON, records JSON, metadata, tokenized program:
//! every consumer must return (a result or an error) in bounded time -- no panic, no hang.
use std::panic::{catch_unwind,AssertUnwindSafe};
use std::sync::mpsc;
use std::time::Duration;
use crate::geom::*;
use crate::fsrun::{mkfs,payload};

fn build_image(fs: &str,label: &str,rng: &mut Rng) -> Vec<u8> {
    let mut d = mkfs(fs,label).expect("mkfs");
    let ext = if fs.starts_with("cpm") || fs=="fat" {".T"} else {""};
    let n = 1 + rng.below(4);
    for i in 0..n {
        let name = format!("F{}{}",i,ext);
        if let Ok(mut f) = d.new_fimg(None,false,&name) {
            let nch = [1usize,2,5,30][rng.below(4)];
            let unit = f.chunk_len;
            for c in 0..nch { f.chunks.insert(c,payload(i+1,c,unit)); }
            f.set_eof(nch*unit-3);
            if fs=="prodos" { f.access = vec![0xE3]; }
            let _ = d.put(&f);
        }
    }
    if fs=="prodos" || fs=="fat" { let _ = d.create("SUB"); }
    // a deleted file leaves a stale directory entry behind the live ones
    if n>1 { let _ = d.delete(&format!("F{}{}",n-1,ext)); }
    d.get_img().to_bytes()
}

fn ext_of(label: &str) -> &'static str {
    match label.split(':').next().unwrap() {
        "do" => "do", "po" => "po", "d13" => "d13", "nib" => "nib", "woz1" | "woz2" => "woz", "img" => "img", "imd" => "imd", "td0" => "td0", _ => "2mg"
    }
}

/// single-field corruptions, truncations, extensions, splices
fn mutate(b: &mut Vec<u8>,rng: &mut Rng) -> String {
    if b.is_empty() { b.push(0); }
    let n = b.len();
    match rng.below(9) {
        0 => { let cut = [0usize,1,2,4,8,12,16,29,30,31,64,100,255,256,512,513][rng.below(16)].min(n); b.truncate(cut); format!("truncate:{}",cut) },
        1 => { let cut = rng.below(n); b.truncate(cut); format!("truncate:{}",cut) },
        2 => { let pos = if rng.below(2)==0 { rng.below(n.min(600)) } else { rng.below(n) }; let v = [0u8,1,0x7f,0x80,0xfe,0xff][rng.below(6)]; b[pos] = v; format!("byte:{}={}",pos,v) },
        3 => { let pos = rng.below(n.min(4096)); let v = rng.below(256) as u8; b[pos] = v; format!("byte:{}={}",pos,v) },
        4 => { let pos = rng.below(n.saturating_sub(1).max(1)); let v = [0u16,1,0xffff,0xfffe,0x8000,0x7fff][rng.below(6)]; b[pos] = (v&0xff) as u8; if pos+1<n { b[pos+1] = (v>>8) as u8; } format!("u16:{}={}",pos,v) },
        5 => { let extra = [1usize,7,256,513][rng.below(4)]; for _ in 0..extra { b.push(rng.below(256) as u8); } format!("extend:{}",extra) },
        6 => { let pos = rng.below(n); let len = (1+rng.below(64)).min(n-pos); for i in 0..len { b[pos+i] = rng.below(256) as u8; } format!("splice:{}+{}",pos,len) },
        7 => { let pos = rng.below(n); let len = (1+rng.below(600)).min(n-pos); let v = [0u8,0xff][rng.below(2)]; for i in 0..len { b[pos+i] = v; } format!("fill:{}+{}={}",pos,len,v) },
        _ => { // a few corruptions at once, biased to the first kilobytes (headers, directories)
               let k = 2+rng.below(4); for _ in 0..k { let pos = rng.below(n.min(8192)); b[pos] = rng.below(256) as u8; } format!("multi:{}",k) }
    }
}

/// the same IMD image with a cylinder map and/or a head map added to every track record that lacks it
fn imd_with_maps(b: &[u8],cyl_map: bool,head_map: bool) -> Option<Vec<u8>> {
    let mut p = b.iter().position(|x| *x==0x1a)? + 1;
    let mut out = b[..p].to_vec();
    while p < b.len() {
        if p+5 > b.len() { return None; }
        let (mode,cyl,head,nsec,code) = (b[p],b[p+1],b[p+2],b[p+3] as usize,b[p+4]);
        if code>6 { return None; }
        let size = 128usize << code;
        p += 5;
        let has_c = head & 0x80 != 0; let has_h = head & 0x40 != 0;
        let mut flags = head;
        if cyl_map { flags |= 0x80; }
        if head_map { flags |= 0x40; }
        out.extend_from_slice(&[mode,cyl,flags,nsec as u8,code]);
        if p+nsec > b.len() { return None; }
        out.extend_from_slice(&b[p..p+nsec]); p += nsec;
        if has_c { if p+nsec > b.len() { return None; } out.extend_from_slice(&b[p..p+nsec]); p += nsec; } else if cyl_map { out.extend(std::iter::repeat(cyl).take(nsec)); }
        if has_h { if p+nsec > b.len() { return None; } out.extend_from_slice(&b[p..p+nsec]); p += nsec; } else if head_map { out.extend(std::iter::repeat(head & 1).take(nsec)); }
        for _ in 0..nsec {
            if p >= b.len() { return None; }
            let typ = b[p];
            let len = match typ { 0 => 0, 1 | 3 | 5 | 7 => size, 2 | 4 | 6 | 8 => 1, _ => return None };
            if p+1+len > b.len() { return None; }
            out.extend_from_slice(&b[p..p+1+len]); p += 1+len;
        }
    }
    Some(out)
}

/// the IMD header and the first `k` track records
fn imd_first_tracks(b: &[u8],k: usize) -> Option<Vec<u8>> {
    let mut p = b.iter().position(|x| *x==0x1a)? + 1;
    for _ in 0..k {
        if p+5 > b.len() { return None; }
        let (head,nsec,code) = (b[p+2],b[p+3] as usize,b[p+4]);
        if code>6 { return None; }
        let size = 128usize << code;
        p += 5 + nsec + (if head & 0x80 != 0 {nsec} else {0}) + (if head & 0x40 != 0 {nsec} else {0});
        for _ in 0..nsec {
            if p >= b.len() { return None; }
            p += 1 + match b[p] { 0 => 0, 1 | 3 | 5 | 7 => size, _ => 1 };
        }
    }
    if p > b.len() { return None; }
    Some(b[..p].to_vec())
}

/// the same IMD image with the given sector records of one track replaced by records of type 0 (no data)
fn imd_unavailable(b: &[u8],track: usize,which: &[usize]) -> Option<Vec<u8>> {
    let mut p = b.iter().position(|x| *x==0x1a)? + 1;
    let mut out = b[..p].to_vec();
    let mut t = 0;
    while p < b.len() {
        if p+5 > b.len() { return None; }
        let (head,nsec,code) = (b[p+2],b[p+3] as usize,b[p+4]);
        if code>6 { return None; }
        let size = 128usize << code;
        let maps = 5 + nsec + (if head & 0x80 != 0 {nsec} else {0}) + (if head & 0x40 != 0 {nsec} else {0});
        if p+maps > b.len() { return None; }
        out.extend_from_slice(&b[p..p+maps]); p += maps;
        for s in 0..nsec {
            if p >= b.len() { return None; }
            let len = match b[p] { 0 => 0, 1 | 3 | 5 | 7 => size, 2 | 4 | 6 | 8 => 1, _ => return None };
            if p+1+len > b.len() { return None; }
            if t==track && which.contains(&s) { out.push(0); } else { out.extend_from_slice(&b[p..p+1+len]); }
            p += 1+len;
        }
        t += 1;
    }
    Some(out)
}

fn consume_image(bytes: &Vec<u8>,hint: Option<&str>) -> String {
    match a2kit::create_fs_from_bytestream(bytes,hint) {
        Ok(mut d) => {
            let _ = d.stat();
            let _ = d.catalog_to_vec("/");
            let _ = d.catalog_to_vec("*.*");
            let _ = d.catalog_to_vec("*");
            let _ = d.tree(true,None);
            let paths = d.glob("*",false).unwrap_or(Vec::new());
            let mut n = 0;
            for p in paths.iter().take(12) { if d.get(p).is_ok() { n += 1; } }
            // and the sectors of the first tracks, read directly (from the image loaded on its own: taking it out of the file system
            // object would flush that object's buffers, which is a write)
            if let Ok(mut img) = a2kit::create_img_from_bytestream(bytes,hint) {
                for c in 0..3 { for h in 0..2 { for sec in 0..28 { let _ = img.read_sector(c,h,sec); } } }
            }
            format!("mounted files={}",n)
        },
        Err(_) => {
            match a2kit::create_img_from_bytestream(bytes,hint) {
                Ok(mut img) => { let _ = img.get_metadata(None); let _ = img.read_sector(0,0,1); let _ = img.export_geometry(None); "image-only".to_string() },
                Err(_) => "rejected".to_string()
            }
        }
    }
}

pub fn with_watchdog<F: FnOnce() -> String + Send + 'static>(f: F) -> String {
    let secs = std::env::var("A2V_WATCHDOG").ok().and_then(|v| v.parse::<u64>().ok()).unwrap_or(8);
    with_watchdog_secs(secs,f)
}

pub fn with_watchdog_secs<F: FnOnce() -> String + Send + 'static>(secs: u64,f: F) -> String {
    let (tx,rx) = mpsc::channel();
    std::thread::spawn(move || {
        let r = catch_unwind(AssertUnwindSafe(f));
        let _ = tx.send(match r {
            Ok(s) => format!("ok {}",s),
            Err(e) => { let msg = if let Some(s) = e.downcast_ref::<String>() { s.clone() } else if let Some(s) = e.downcast_ref::<&str>() { s.to_string() } else { "?".to_string() };
                        format!("FAIL panic: {}",msg.replace('\n'," ")) }
        });
    });
    match rx.recv_timeout(Duration::from_secs(secs)) {
        Ok(s) => s,
        Err(_) => format!("FAIL hang: no result within {} s",secs)
    }
}

pub fn pieces(toks: &[&str]) -> String {
    match toks[0] {
        "dasmsweep" => {
            // dasmsweep id proc(0..3) mx(0..3) org : every opcode, followed by 0..3 operand bytes (truncated instructions at the end of
            // the buffer), after a short valid prefix; the disassembler must return, never panic
            let proc = crate::util::num(toks[2]); let mx = crate::util::num(toks[3]); let org = crate::util::num(toks[4]);
            let mut bad: Vec<String> = Vec::new();
            let mut n = 0;
            for op in 0..256usize {
                for extra in 0..4usize {
                    for (pi,prefix) in [vec![],vec![0xeau8],vec![0xc2,0x30],vec![0xa9,0x00,0x60]].iter().enumerate() {
                        for fill in [0x00u8,0x34,0xff] {
                            let mut b = prefix.clone(); b.push(op as u8); for _ in 0..extra { b.push(fill); }
                            n += 1;
                            let r = catch_unwind(AssertUnwindSafe(|| {
                                let mut d = a2kit::lang::merlin::disassembly::Disassembler::new();
                                let p = match proc { 0 => a2kit::lang::merlin::ProcessorType::_6502, 1 => a2kit::lang::merlin::ProcessorType::_65c02, 2 => a2kit::lang::merlin::ProcessorType::_65802, _ => a2kit::lang::merlin::ProcessorType::_65c816 };
                                d.set_mx(mx&2!=0,mx&1!=0);
                                let mut img = vec![0;org]; img.extend_from_slice(&b);
                                let len = img.len();
                                let _ = d.disassemble(&img,a2kit::lang::merlin::disassembly::DasmRange::Range([org,len]),p,"some");
                            }));
                            if r.is_err() && bad.len()<3 { bad.push(format!("op {:02x} +{} operand bytes, prefix {}, fill {:02x}",op,extra,pi,fill)); }
                        }
                    }
                }
            }
            // ranges that reach beyond the image, and the `last bload` ranges on images that end before the pointers they read
            for len in [0usize,1,256,0xaa60,0xaa73,0xaa74,0xbeb9,0xbec9,0xbeca,0xc000] {
                for which in 0..3 {
                    n += 1;
                    let r = catch_unwind(AssertUnwindSafe(|| {
                        let mut d = a2kit::lang::merlin::disassembly::Disassembler::new();
                        let img = vec![0xffu8;len];
                        let range = match which { 0 => a2kit::lang::merlin::disassembly::DasmRange::LastBloadDos33, 1 => a2kit::lang::merlin::disassembly::DasmRange::LastBloadProDos,
                                                  _ => a2kit::lang::merlin::disassembly::DasmRange::Range([len/2,len+7]) };
                        let _ = d.disassemble(&img,range,a2kit::lang::merlin::ProcessorType::_6502,"some");
                    }));
                    if r.is_err() && bad.len()<3 { bad.push(format!("image of {} bytes, range kind {}",len,which)); }
                }
            }
            if bad.is_empty() { format!("ok inputs={}",n) } else { format!("FAIL panic: disassembler panicked on truncated input: {}",bad.join("; ")) }
        },
        "wozchunk" => {
            let buf = crate::util::unhex(toks[3]);
            let (next,id,c) = a2kit::img::woz::get_next_chunk(crate::util::num(toks[2]),&buf);
            format!("{} {} {}",next,id,match c { Some(v) => v.len().to_string(), None => "none".to_string() })
        },
        "imdparse" => {
            let mut bytes = b"IMD 1.19: 01/01/2020 00:00:00".to_vec();
            bytes.push(b'x'); bytes.push(0x1a);
            bytes.extend_from_slice(&crate::util::unhex(toks[2]));
            match <a2kit::img::imd::Imd as a2kit::img::DiskImage>::from_bytes(&bytes) { Ok(_) => "ok".to_string(), Err(_) => "err".to_string() }
        },
        "dosunbin" => {
            let mut f = a2kit::fs::dos3x::new_fimg(256,"X").unwrap();
            f.desequence(&crate::util::unhex(toks[2]));
            match f.unpack_bin() { Ok(v) => format!("ok:{}",crate::util::tohex(&v)), Err(_) => "err".to_string() }
        },
        _ => "unsupported".to_string()
    }
}

/// malform id kind seed [fs label]
pub fn run(toks: &[&str]) -> String {
    let kind = toks[2].to_string();
    let seed: u64 = toks[3].parse().unwrap();
    let mut rng = Rng(seed);
    match kind.as_str() {
        "image" => {
            let fs = toks[4].to_string(); let label = toks[5].to_string();
            let mut bytes = build_image(&fs,&label,&mut rng);
            let what = mutate(&mut bytes,&mut rng);
            let hint = if rng.below(3)==0 { None } else { Some(ext_of(&label)) };
            let r = with_watchdog(move || consume_image(&bytes,hint));
            format!("{} [{}]",r,what)
        },
        "fields" => {
            // malform id fields seed fs label base span : every byte of [base,base+span) of a valid raw image set to each boundary value
            // in turn (single-field corruption of boot sectors, volume headers, directories); every variant must mount-or-refuse
            let fs = toks[4].to_string(); let label = toks[5].to_string();
            let base = crate::util::num(toks[6]); let span = crate::util::num(toks[7]);
            let bytes = build_image(&fs,&label,&mut rng);
            let hint = ext_of(&label);
            with_watchdog_secs(120,move || {
                let mut bad: Vec<String> = Vec::new();
                let mut n = 0; let mut mounted = 0;
                // one byte at a time, then the two and four bytes that start there as one little-endian number
                let mut variants: Vec<(usize,Vec<u8>)> = Vec::new();
                for pos in base..(base+span).min(bytes.len()) {
                    for v in [0u8,1,2,0x10,0x20,0x2a,0x3f,0x7f,0x80,0xc3,0xe5,0xf0,0xff] { variants.push((pos,vec![v])); }
                    for v in [0u16,1,0x00ff,0x0100,0x7fff,0xffff] { variants.push((pos,v.to_le_bytes().to_vec())); }
                    for v in [0u32,1,8,1279,0x0000ffff,0x7fffffff,0xffffffff] { variants.push((pos,v.to_le_bytes().to_vec())); }
                }
                for (pos,val) in variants {
                    {
                        if pos+val.len()>bytes.len() || bytes[pos..pos+val.len()]==val[..] { continue; }
                        let v = val[0];
                        let mut b = bytes.clone(); b[pos..pos+val.len()].copy_from_slice(&val);
                        n += 1;
                        match catch_unwind(AssertUnwindSafe(|| consume_image(&b,Some(hint)))) {
                            Ok(r) => { if r.starts_with("mounted") { mounted += 1; } },
                            Err(e) => { if bad.len()<3 {
                                let msg = if let Some(s) = e.downcast_ref::<String>() { s.clone() } else if let Some(s) = e.downcast_ref::<&str>() { s.to_string() } else { "?".to_string() };
                                bad.push(format!("byte {} = {} ({} bytes wide): {}",pos,v,val.len(),msg.replace('\n'," "))); } }
                        }
                    }
                }
                if bad.is_empty() { format!("swept variants={} mounted={}",n,mounted) } else { format!("PANICKED {}",bad.join("; ")) }
            }).replacen("ok PANICKED","FAIL panic:",1)
        },
        "imdmaps" => {
            // malform id imdmaps seed fs label : the optional cylinder and head maps of IMD track records (a2kit itself writes none or one);
            // the rewritten image must still mount, and every truncation of it must mount or be refused
            let fs = toks[4].to_string(); let label = toks[5].to_string();
            let bytes = build_image(&fs,&label,&mut rng);
            with_watchdog_secs(240,move || {
                let mut bad: Vec<String> = Vec::new();
                let mut n = 0;
                for (cm,hm) in [(true,true),(true,false),(false,true)] {
                    let v = match imd_with_maps(&bytes,cm,hm) { Some(v) => v, None => return "FAIL the IMD image written by a2kit could not be walked".to_string() };
                    let whole = catch_unwind(AssertUnwindSafe(|| consume_image(&v,Some("imd")))).unwrap_or("panicked".to_string());
                    if !whole.starts_with("mounted") { return format!("FAIL with cylinder map {} and head map {} on every track the image no longer mounts: {}",cm,hm,whole); }
                    // every length up to the end of the third track, then a sample
                    let mut cuts: Vec<usize> = (0..v.len().min(6000)).collect();
                    for _ in 0..300 { cuts.push(rng.below(v.len())); }
                    for cut in cuts {
                        n += 1;
                        let t = v[..cut].to_vec();
                        if let Err(e) = catch_unwind(AssertUnwindSafe(|| consume_image(&t,Some("imd")))) { if bad.len()<3 {
                            let msg = if let Some(s) = e.downcast_ref::<String>() { s.clone() } else if let Some(s) = e.downcast_ref::<&str>() { s.to_string() } else { "?".to_string() };
                            bad.push(format!("maps cyl={} head={} truncated at {}: {}",cm,hm,cut,msg.replace('\n'," "))); } }
                    }
                }
                // the track table itself: only the first tracks, an empty track record in front of the first, no sectors on a user track
                let mut tables: Vec<(String,Vec<u8>)> = Vec::new();
                for k in [1usize,2,3,5] { if let Some(v) = imd_first_tracks(&bytes,k) { tables.push((format!("first {} tracks only",k),v)); } }
                if let Some(hdr) = bytes.iter().position(|x| *x==0x1a) {
                    for rec in [[5u8,0,0,0,0],[5,0,0,0,2],[3,0,0,0,3]] {
                        let mut v = bytes[..hdr+1].to_vec(); v.extend_from_slice(&rec); v.extend_from_slice(&bytes[hdr+1..]);
                        tables.push((format!("empty track record {:?} in front",rec),v));
                    }
                    // sector count and size code of the first track at their limits
                    for (o,val) in [(3usize,0u8),(3,1),(3,32),(3,255),(4,0),(4,3),(4,6),(4,7)] {
                        let mut v = bytes.clone(); if hdr+1+o < v.len() { v[hdr+1+o] = val; tables.push((format!("first track byte {} = {}",o,val),v)); }
                    }
                }
                // sector records of type 0 ("data unavailable", what ImageDisk writes for unreadable sectors): legal, never written by a2kit
                for (trk,which) in [(1usize,vec![1usize,2]),(0,vec![0]),(2,vec![0,1,2,3,4,5,6,7])] {
                    if let Some(v) = imd_unavailable(&bytes,trk,&which) { tables.push((format!("sectors {:?} of track {} unavailable",which,trk),v)); }
                }
                for (what,v) in tables {
                    n += 1;
                    if let Err(e) = catch_unwind(AssertUnwindSafe(|| consume_image(&v,Some("imd")))) { if bad.len()<3 {
                        let msg = if let Some(s) = e.downcast_ref::<String>() { s.clone() } else if let Some(s) = e.downcast_ref::<&str>() { s.to_string() } else { "?".to_string() };
                        bad.push(format!("{}: {}",what,msg.replace('\n'," "))); } }
                }
                if bad.is_empty() { format!("swept variants={}",n) } else { format!("PANICKED {}",bad.join("; ")) }
            }).replacen("ok PANICKED","FAIL panic:",1)
        },
        "jsonfields" => {
            // malform id jsonfields seed fs : a valid file image in JSON with one field at a time set to values of another shape (empty,
            // short, long, huge numbers, far chunk keys); every reader must return
            let fs = toks[4].to_string();
            with_watchdog_secs(60,move || {
                let mut f = match fs.as_str() {
                    "dos3x" => a2kit::fs::dos3x::new_fimg(256,"TEST"), "prodos" => a2kit::fs::prodos::new_fimg(512,false,"TEST"),
                    "pascal" => a2kit::fs::pascal::new_fimg(512,false,"TEST"), "cpm" => a2kit::fs::cpm::new_fimg(1024,false,"TEST.TXT"),
                    _ => a2kit::fs::fat::new_fimg(512,false,"TEST.TXT") }.expect("fimg");
                f.desequence(&payload(3,0,700));
                let base = match json::parse(&f.to_json(None)) { Ok(j) => j, Err(_) => return "FAIL own JSON does not parse".to_string() };
                let mut bad: Vec<String> = Vec::new();
                let mut n = 0;
                let keys: Vec<String> = base.entries().map(|(k,_)| k.to_string()).collect();
                for k in keys {
                    if k=="chunks" { continue; }
                    for v in [json::JsonValue::String("".to_string()),json::JsonValue::String("00".to_string()),json::JsonValue::String("ff".repeat(9)),json::JsonValue::String("zz".to_string()),
                              json::JsonValue::Number(0.into()),json::JsonValue::Number(1.into()),json::JsonValue::Number(4096.into()),json::JsonValue::Null] {
                        let mut j = base.clone(); j[k.as_str()] = v.clone();
                        n += 1;
                        let s = j.dump();
                        let r = catch_unwind(AssertUnwindSafe(|| {
                            if let Ok(g) = a2kit::fs::FileImage::from_json(&s) {
                                let _ = g.unpack_raw(true); let _ = g.unpack_txt(); let _ = g.unpack_bin(); let _ = g.unpack_tok(); let _ = g.get_load_address(); let _ = g.unpack(); let _ = g.unpack_rec(Some(64));
                            }
                        }));
                        if let Err(e) = r { if bad.len()<3 {
                            let msg = if let Some(s) = e.downcast_ref::<String>() { s.clone() } else if let Some(s) = e.downcast_ref::<&str>() { s.to_string() } else { "?".to_string() };
                            bad.push(format!("{} = {}: {}",k,v.dump(),msg.replace('\n'," "))); } }
                    }
                }
                if bad.is_empty() { format!("swept variants={}",n) } else { format!("PANICKED {}",bad.join("; ")) }
            }).replacen("ok PANICKED","FAIL panic:",1)
        },
        "unpack" => {
            // malform id unpack seed fs : file images of every file system filled with crafted and random bytes (control codes, counts,
            // lengths and addresses at their limits); every unpacker must return a result or an error
            let fs = toks[4].to_string();
            with_watchdog_secs(60,move || {
                let mut bad: Vec<String> = Vec::new();
                let mut n = 0;
                for rep in 0..400 {
                    let mut f = match fs.as_str() {
                        "dos3x" => a2kit::fs::dos3x::new_fimg(256,"TEST"), "prodos" => a2kit::fs::prodos::new_fimg(512,false,"TEST"),
                        "pascal" => a2kit::fs::pascal::new_fimg(512,false,"TEST"), "cpm" => a2kit::fs::cpm::new_fimg(1024,false,"TEST.TXT"),
                        _ => a2kit::fs::fat::new_fimg(512,false,"TEST.TXT") }.expect("fimg");
                    let len = [0usize,1,2,3,4,5,255,256,257,1023,1024,1025,2048,3000][rng.below(14)];
                    let mut d: Vec<u8> = match rng.below(5) {
                        0 => (0..len).map(|_| rng.below(256) as u8).collect(),
                        1 => (0..len).map(|_| [0x10u8,0x05,0x0d,0x00,0x1f,0x20,0xff,0x41,0x1a,0x8d][rng.below(10)]).collect(),
                        2 => vec![0x10;len], 3 => vec![0xff;len],
                        _ => { let mut v: Vec<u8> = (0..len).map(|_| 0x20 + rng.below(0x5f) as u8).collect(); if len>0 { let k = rng.below(len); v[k] = 0x10; } v }
                    };
                    if len>=4 && rng.below(2)==0 { let v = [0u16,1,0xffff,0xfffe,len as u16,(len as u16).wrapping_sub(4)][rng.below(6)]; d[2] = (v&255) as u8; d[3] = (v>>8) as u8; }
                    f.desequence(&d);
                    if rng.below(3)==0 { let e = [0usize,1,len/2,len+1,len+5000,0xffffff][rng.below(6)]; f.set_eof(e); }
                    if rng.below(4)==0 && f.chunks.len()>1 { let k = *f.chunks.keys().next().unwrap(); f.chunks.remove(&k); }
                    n += 1;
                    let r = catch_unwind(AssertUnwindSafe(|| {
                        let _ = f.unpack_raw(true); let _ = f.unpack_raw(false); let _ = f.unpack_txt(); let _ = f.unpack_bin(); let _ = f.unpack_tok(); let _ = f.get_load_address();
                        let _ = f.unpack_rec(Some(64)); let _ = f.unpack_rec(None);
                    }));
                    if let Err(e) = r { if bad.len()<3 {
                        let msg = if let Some(s) = e.downcast_ref::<String>() { s.clone() } else if let Some(s) = e.downcast_ref::<&str>() { s.to_string() } else { "?".to_string() };
                        bad.push(format!("rep {} ({} bytes, first {:02x?}): {}",rep,d.len(),&d[..d.len().min(6)],msg.replace('\n'," "))); } }
                }
                if bad.is_empty() { format!("swept variants={}",n) } else { format!("PANICKED {}",bad.join("; ")) }
            }).replacen("ok PANICKED","FAIL panic:",1)
        },
        "tokfields" => {
            // malform id tokfields seed lang : a representative tokenized program; every byte set to each boundary value, every prefix
            // (truncation), and the RAM-image entry points with every pointer value class; the detokenizer must return each time
            let lang = toks[4].to_string();
            with_watchdog_secs(120,move || {
                let src_a = "10 REM HELLO\n20 PRINT \"A:B\";X$(1):DATA 1,\"Q\",Z: GOTO 10\n30 IF A>=1.5E3 THEN 20\n40 CALL -936:HLIN 1,2AT3\n";
                let src_i = "10 REM HELLO\n20 PRINT \"A:B\";X$(1): GOTO 10\n30 IF A>=15 THEN 20\n40 CALL -936: DIM A$(20)\n";
                let src_m = "* COMMENT\nSTART LDA #$00 ; C\n ASC \"HI\",8D\n STA $C000,X\n";
                let base: Vec<u8> = match lang.as_str() {
                    "applesoft" => a2kit::lang::applesoft::tokenizer::Tokenizer::new().tokenize(src_a,0x801).expect("tokenize"),
                    "integer" => a2kit::lang::integer::tokenizer::Tokenizer::new().tokenize(src_i.to_string()).expect("tokenize"),
                    _ => a2kit::lang::merlin::tokenizer::Tokenizer::new().tokenize(src_m.to_string()).expect("tokenize")
                };
                let run = |b: &Vec<u8>| -> bool {
                    catch_unwind(AssertUnwindSafe(|| {
                        match lang.as_str() {
                            "applesoft" => { let _ = a2kit::lang::applesoft::tokenizer::Tokenizer::new().detokenize(b); },
                            "integer" => { let _ = a2kit::lang::integer::tokenizer::Tokenizer::new().detokenize(b); },
                            _ => { let _ = a2kit::lang::merlin::tokenizer::Tokenizer::new().detokenize(b); }
                        }
                    })).is_ok()
                };
                let mut bad: Vec<String> = Vec::new();
                let mut n = 0;
                for pos in 0..base.len() {
                    for v in [0u8,1,2,0x20,0x22,0x7f,0x80,0xb2,0xff] {
                        let mut b = base.clone(); b[pos] = v; n += 1;
                        if !run(&b) && bad.len()<3 { bad.push(format!("byte {} = {}",pos,v)); }
                    }
                    let b = base[0..pos].to_vec(); n += 1;
                    if !run(&b) && bad.len()<3 { bad.push(format!("truncated to {}",pos)); }
                }
                // RAM images: program pointers at and beyond the ends
                if lang!="merlin" {
                    for lo in [0usize,1,0x801,0x7fff,0x8000,0xbfff,0xc000,0xfffe,0xffff] {
                        for hi in [0usize,1,0x801,0x7fff,0x8000,0xbfff,0xc000,0xffff] {
                            for len in [0usize,0x7fff,0x8000,0xc000,0x10000] {
                                let mut ram = vec![0u8;len];
                                if len>204 {
                                    ram[103] = (lo&255) as u8; ram[104] = (lo>>8) as u8; ram[202] = (lo&255) as u8; ram[203] = (lo>>8) as u8;
                                    ram[76] = (hi&255) as u8; ram[77] = (hi>>8) as u8;
                                    if lo+base.len() <= len { ram[lo..lo+base.len()].copy_from_slice(&base); }
                                }
                                n += 1;
                                let ok = catch_unwind(AssertUnwindSafe(|| {
                                    if lang=="applesoft" { let _ = a2kit::lang::applesoft::tokenizer::Tokenizer::new().detokenize_from_ram(&ram); }
                                    else { let _ = a2kit::lang::integer::tokenizer::Tokenizer::new().detokenize_from_ram(&ram); }
                                })).is_ok();
                                if !ok && bad.len()<3 { bad.push(format!("ram image of {} bytes, program at {}, himem {}",len,lo,hi)); }
                            }
                        }
                    }
                }
                if bad.is_empty() { format!("swept variants={}",n) } else { format!("PANICKED {}",bad.join("; ")) }
            }).replacen("ok PANICKED","FAIL panic:",1)
        },
        "random" => {
            let n = [0usize,1,11,12,13,29,64,100,143360,116480,232960,6656*35][rng.below(10)];
            let bytes: Vec<u8> = match rng.below(3) { 0 => vec![0;n], 1 => vec![0xff;n], _ => (0..n).map(|_| rng.below(256) as u8).collect() };
            let exts = ["do","po","d13","nib","woz","2mg","img","imd","td0","dsk"];
            let hint = exts[rng.below(exts.len())];
            let r = with_watchdog(move || consume_image(&bytes,Some(hint)));
            format!("{} [random {} bytes as {}]",r,n,hint)
        },
        "tokens" => {
            // a valid token stream, corrupted; or arbitrary bytes
            let lang = toks[4].to_string();
            let mut b: Vec<u8> = Vec::new();
            if rng.below(4)>0 {
                let mut addr = 0x801usize; let mut num = 10usize;
                for _ in 0..1+rng.below(5) {
                    let bl = 1 + rng.below(40);
                    let body: Vec<u8> = (0..bl).map(|_| match rng.below(6) { 0 => 0x22, 1 => 0xb2, 2 => 0x83, 3 => 0x28, _ => 0x20 + rng.below(0xd0) as u8 }).collect();
                    if lang=="applesoft" { addr += 4+bl+1; b.extend_from_slice(&[(addr&0xff) as u8,(addr>>8) as u8,(num&0xff) as u8,(num>>8) as u8]); b.extend_from_slice(&body); b.push(0); }
                    else if lang=="integer" { b.push((bl+4) as u8); b.extend_from_slice(&[(num&0xff) as u8,(num>>8) as u8]); b.extend_from_slice(&body); b.push(1); }
                    else { b.extend_from_slice(&body); b.push(0x8d); }
                    num += 10;
                }
                if lang=="applesoft" { b.extend_from_slice(&[0,0]); }
                if rng.below(3)>0 { mutate(&mut b,&mut rng); }
            } else { let n = rng.below(300); b = (0..n).map(|_| rng.below(256) as u8).collect(); }
            let desc = format!("{} token bytes {}",lang,b.len());
            let r = with_watchdog(move || {
                match lang.as_str() {
                    "applesoft" => { let t = a2kit::lang::applesoft::tokenizer::Tokenizer::new(); format!("{:?}",t.detokenize(&b).is_ok()) },
                    "integer" => { let t = a2kit::lang::integer::tokenizer::Tokenizer::new(); format!("{:?}",t.detokenize(&b).is_ok()) },
                    "merlin" => { let t = a2kit::lang::merlin::tokenizer::Tokenizer::new(); format!("{:?}",t.detokenize(&b).is_ok()) },
                    _ => {
                        let mut d = a2kit::lang::merlin::disassembly::Disassembler::new();
                        let p = match b.len()%4 { 0 => a2kit::lang::merlin::ProcessorType::_6502, 1 => a2kit::lang::merlin::ProcessorType::_65c02, 2 => a2kit::lang::merlin::ProcessorType::_65802, _ => a2kit::lang::merlin::ProcessorType::_65c816 };
                        d.set_mx(b.len()%2==0,b.len()%3==0);
                        let org = [0usize,0x300,0xff00,0xfffe][b.len()%4];
                        let mut img = vec![0;org]; img.extend_from_slice(&b);
                        if img.len()==org { return "empty".to_string(); }
                        let n = img.len();
                        format!("{:?}",d.disassemble(&img,a2kit::lang::merlin::disassembly::DasmRange::Range([org,n]),p,"some").is_ok())
                    }
                }
            });
            format!("{} [{}]",r,desc)
        },
        "json" => {
            // file image / records JSON, corrupted at the text level
            let which = rng.below(2);
            let mut f = a2kit::fs::prodos::new_fimg(512,false,"X").unwrap();
            f.chunks.insert(0,payload(1,0,40)); f.chunks.insert(3,payload(1,3,512)); f.set_eof(2000);
            let mut recs = a2kit::fs::Records::new(64); recs.add_record(0,"A\nB"); recs.add_record(5,"C");
            let mut s = if which==0 { f.to_json(None) } else { recs.to_json(None) };
            let edits = ["\"chunks\"","\"eof\"","\"fimg_version\"","\"file_system\"","\"chunk_len\"","\"fs_type\"","\"records\"","\"record_length\"","\"fimg_type\"","2.","\"0\"","512",":",","];
            match rng.below(6) {
                0 => { let e = edits[rng.below(edits.len())]; s = s.replacen(e,["\"zz\"","1","null","[]","\"\"","-1","\"2\"","99999999999999999999"][rng.below(8)],1); },
                1 => { let cut = rng.below(s.len()); s.truncate(cut); },
                2 => { s = s.replace("2.",""); },
                3 => { let pos = rng.below(s.len()); if s.is_char_boundary(pos) { s.insert(pos,['{','}','"','x','\\','9'][rng.below(6)]); } },
                4 => { s = s.replacen("\"3\"","\"99999999999999999999999\"",1).replacen("\"5\"","\"-4\"",1); },
                _ => { s = ["{}","[]","null","{\"fimg_version\":\"2\"}","{\"fimg_version\":\"a.b.c\",\"file_system\":\"prodos\"}","{\"fimg_version\":\"2.0.0\",\"file_system\":\"nosuch\",\"chunk_len\":512,\"eof\":\"00\",\"fs_type\":\"00\",\"aux\":\"00\",\"access\":\"00\",\"accessed\":\"\",\"created\":\"\",\"modified\":\"\",\"version\":\"\",\"min_version\":\"\",\"full_path\":\"x\",\"chunks\":{}}"][rng.below(6)].to_string(); }
            }
            let desc = format!("json {} chars",s.len());
            let r = with_watchdog(move || {
                if which==0 {
                    match a2kit::fs::FileImage::from_json(&s) { Ok(f) => { let _ = f.unpack_raw(true); let _ = f.unpack_txt(); let _ = f.unpack_bin(); let _ = f.unpack_tok(); let _ = f.get_load_address(); "parsed".to_string() }, Err(_) => "rejected".to_string() }
                } else {
                    match a2kit::fs::Records::from_json(&s) { Ok(r) => { let mut f = a2kit::fs::dos3x::new_fimg(256,"X").unwrap(); let _ = f.pack_rec(&r); "parsed".to_string() }, Err(_) => "rejected".to_string() }
                }
            });
            format!("{} [{}]",r,desc)
        },
        "meta" => {
            // metadata key paths and values thrown at every image type
            let label = toks[4].to_string();
            let r = with_watchdog(move || {
                let mut rng = Rng(seed);
                let mut img = make_image(&label);
                let typ = img.what_am_i().to_string();
                let keys = ["","info","meta","header","comment","notes","creator_info","flags","_raw","_pretty","tmap","trks","x"];
                let depth = rng.below(5);
                let mut path: Vec<String> = Vec::new();
                if rng.below(4)>0 { path.push(typ.clone()); }
                for _ in 0..depth { path.push(keys[rng.below(keys.len())].to_string()); }
                let val = match rng.below(5) { 0 => json::JsonValue::Null, 1 => json::JsonValue::String("zz".to_string()), 2 => json::JsonValue::String("00".to_string()),
                    3 => json::JsonValue::Number(5.into()), _ => json::JsonValue::String("0123456789abcdef0123456789abcdef".to_string()) };
                format!("{:?} {:?}",path,img.put_metadata(&path,&val).is_ok())
            });
            format!("{} [meta]",r)
        },
        _ => "unsupported".to_string()
    }
}
