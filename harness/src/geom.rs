//! Independent statement of the disk geometries (from the format documents, not from a2kit's
//! TrackLayout constants) and image construction by label `<type>:<kind>`.
use a2kit::img::{self,DiskImage,DiskKind};
use std::str::FromStr;

#[derive(Clone,Copy,Debug)]
pub struct Zone { pub cyls: usize, pub heads: usize, pub spt: usize, pub secsize: usize }
#[derive(Clone,Debug)]
pub struct Geom { pub zones: Vec<Zone>, pub id_base: usize, pub heads: usize, pub id_base_h1: usize }

impl Geom {
    pub fn cyls(&self) -> usize { self.zones.iter().map(|z| z.cyls).sum() }
    pub fn zone_of(&self,cyl: usize) -> Option<Zone> {
        let mut c = 0;
        for z in &self.zones { if cyl < c+z.cyls { return Some(*z); } c += z.cyls; }
        None
    }
    /// all valid (cyl,head,sec,size)
    pub fn sectors(&self) -> Vec<[usize;4]> {
        let mut ans = Vec::new();
        let mut c0 = 0;
        for z in &self.zones {
            for c in c0..c0+z.cyls { for h in 0..z.heads { for s in 0..z.spt { ans.push([c,h,s+(if h==0 {self.id_base} else {self.id_base_h1}),z.secsize]); } } }
            c0 += z.cyls;
        }
        ans
    }
    pub fn capacity(&self) -> usize { self.zones.iter().map(|z| z.cyls*z.heads*z.spt*z.secsize).sum() }
}

fn uni(cyls: usize,heads: usize,spt: usize,secsize: usize,id_base: usize) -> Geom {
    Geom { zones: vec![Zone{cyls,heads,spt,secsize}], id_base, heads, id_base_h1: id_base }
}

/// kind names as accepted by `mkdsk -k`, plus `5.25in-13` for the 13 sector Apple disk
pub fn geom(kind: &str) -> Geom {
    match kind {
        "hdmax" => uni(65535,1,1,512,0),
        "5.25in" => uni(35,1,16,256,0),
        "5.25in-13" => uni(35,1,13,256,0),
        "3.5in-ss" => Geom { zones: [12,11,10,9,8].iter().map(|s| Zone{cyls:16,heads:1,spt:*s,secsize:512}).collect(), id_base: 0, heads: 1, id_base_h1: 0 },
        "3.5in-ds" | "3.5in" => Geom { zones: [12,11,10,9,8].iter().map(|s| Zone{cyls:16,heads:2,spt:*s,secsize:512}).collect(), id_base: 0, heads: 2, id_base_h1: 0 },
        "8in" => uni(77,1,26,128,1),
        "8in-trs80" => Geom { zones: vec![Zone{cyls:1,heads:1,spt:26,secsize:128},Zone{cyls:76,heads:1,spt:16,secsize:512}], id_base: 1, heads: 1, id_base_h1: 1 },
        "8in-nabu" => Geom { zones: vec![Zone{cyls:1,heads:2,spt:26,secsize:128},Zone{cyls:76,heads:2,spt:26,secsize:256}], id_base: 1, heads: 2, id_base_h1: 1 },
        "5.25in-ibm-ssdd8" => uni(40,1,8,512,1),
        "5.25in-ibm-ssdd9" => uni(40,1,9,512,1),
        "5.25in-ibm-dsdd8" => uni(40,2,8,512,1),
        "5.25in-ibm-dsdd9" => uni(40,2,9,512,1),
        "5.25in-ibm-ssqd" => uni(80,1,8,512,1),
        "5.25in-ibm-dsqd" => uni(80,2,8,512,1),
        "5.25in-ibm-dshd" => uni(80,2,15,512,1),
        "5.25in-osb-sd" => uni(40,1,10,256,1),
        "5.25in-osb-dd" => uni(40,1,5,1024,1),
        "5.25in-kayii" => uni(40,1,10,512,0),
        "5.25in-kay4" => { let mut g = uni(40,2,10,512,0); g.id_base_h1 = 10; g },
        "3.5in-ibm-720" => uni(80,2,9,512,1),
        "3.5in-ibm-1440" => uni(80,2,18,512,1),
        "3.5in-ibm-2880" => uni(80,2,36,512,1),
        "3in-amstrad" => uni(40,1,9,512,1),
        _ => panic!("harness: unknown kind {}",kind)
    }
}

pub fn kind_of(kind: &str) -> DiskKind {
    match kind {
        "5.25in-13" => img::names::A2_DOS32_KIND,
        k => DiskKind::from_str(k).expect("kind")
    }
}

/// create a fresh image from a label `<type>:<kind>`; types: do po d13 nib woz1 woz2 2mg-do 2mg-po 2mg-nib img imd td0
pub fn make_image(label: &str) -> Box<dyn DiskImage> {
    let mut it = label.split(':');
    let typ = it.next().unwrap();
    let kname = it.next().unwrap_or("5.25in");
    let kind = kind_of(kname);
    let g = geom(kname);
    match typ {
        "do" => Box::new(img::dsk_do::DO::create(35,16)),
        "po" => Box::new(img::dsk_po::PO::create((g.capacity()/512) as u16)),
        "d13" => Box::new(img::dsk_d13::D13::create(35)),
        "nib" => Box::new(img::nib::Nib::create(254,kind)),
        "woz1" => Box::new(img::woz1::Woz1::create(254,kind)),
        "woz2" => Box::new(img::woz2::Woz2::create(254,kind)),
        "2mg-do" => img::dot2mg::Dot2mg::create(254,kind,Some(&"do".to_string())).expect("2mg"),
        "2mg-po" => img::dot2mg::Dot2mg::create(254,kind,Some(&"po".to_string())).expect("2mg"),
        "2mg-nib" => img::dot2mg::Dot2mg::create(254,kind,Some(&"nib".to_string())).expect("2mg"),
        "img" => Box::new(img::dsk_img::Img::create(kind)),
        "imd" => Box::new(img::imd::Imd::create(kind)),
        "td0" => Box::new(img::td0::Td0::create(kind)),
        _ => panic!("harness: unknown image type {}",typ)
    }
}

pub struct Rng(pub u64);
impl Rng {
    pub fn next(&mut self) -> u64 {
        self.0 = self.0.wrapping_add(0x9E3779B97F4A7C15);
        let mut z = self.0;
        z = (z ^ (z >> 30)).wrapping_mul(0xBF58476D1CE4E5B9);
        z = (z ^ (z >> 27)).wrapping_mul(0x94D049BB133111EB);
        z ^ (z >> 31)
    }
    pub fn below(&mut self,n: usize) -> usize { if n==0 {0} else {(self.next() % n as u64) as usize} }
    pub fn bytes(&mut self,n: usize) -> Vec<u8> {
        match self.below(10) {
            8 => { // every 128-byte record uniform, the records different from each other
                let a = self.below(256) as u8; (0..n).map(|i| a.wrapping_add((i/128) as u8)).collect() },
            9 => { // halves: zeros then ones, split on a record boundary
                (0..n).map(|i| if i < (n/256)*128 {0} else {0xff}).collect() },
            0 => vec![0;n], 1 => vec![0xff;n],
            2 => (0..n).map(|i| if i%2==0 {0xd5} else {0xaa}).collect(),
            3 => { let b = self.below(256) as u8; vec![b;n] },
            4 => { // uniform except within the last few bytes / the first byte / one byte in the middle
                let b = self.below(256) as u8; let mut v = vec![b;n];
                if n>0 { let k = match self.below(3) { 0 => n-1-self.below(n.min(7)), 1 => 0, _ => self.below(n) }; v[k] = b.wrapping_add(1+self.below(254) as u8); }
                v },
            5 => { // two-byte pattern
                let a = self.below(256) as u8; let b = self.below(256) as u8; (0..n).map(|i| if i%2==0 {a} else {b}).collect() },
            _ => (0..n).map(|_| self.below(256) as u8).collect()
        }
    }
}
