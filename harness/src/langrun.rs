//! language streams: tokenizer round trips (C14), renumber (C16), minify (C17), disassembly/assembly (C15)
use crate::util::*;
use a2kit::lang;

fn as_text(hexs: &str) -> String { String::from_utf8_lossy(&unhex(hexs)).to_string() }

/// strip the blanks that listing inserts at the head of REM and DATA payloads (Applesoft token bytes)
fn norm_applesoft(tok: &[u8]) -> Vec<u8> {
    let mut out = Vec::new();
    let mut i = 0;
    // walk lines: link(2) num(2) body 0
    while i+1 < tok.len() && !(tok[i]==0 && tok[i+1]==0) {
        out.extend_from_slice(&tok[i..(i+4).min(tok.len())]);
        i += 4;
        let mut in_str = false;
        while i < tok.len() && tok[i]!=0 {
            let b = tok[i];
            out.push(b);
            i += 1;
            if b==0x22 { in_str = !in_str; }
            if !in_str && (b==0xb2 || b==0x83) { while i<tok.len() && tok[i]==0x20 { i += 1; } }
        }
        out.push(0);
        i += 1;
    }
    out.extend_from_slice(&[0,0]);
    out
}
/// links are addresses and depend on the line lengths; compare bodies and numbers only after normalisation
fn lines_applesoft(tok: &[u8]) -> Vec<(u16,Vec<u8>)> {
    let mut out = Vec::new();
    let mut i = 0;
    while i+3 < tok.len() && !(tok[i]==0 && tok[i+1]==0) {
        let num = u16::from_le_bytes([tok[i+2],tok[i+3]]);
        i += 4;
        let mut body = Vec::new();
        while i < tok.len() && tok[i]!=0 { body.push(tok[i]); i += 1; }
        i += 1;
        out.push((num,body));
    }
    out
}

pub fn dispatch(toks: &[&str]) -> String {
    match toks[0] {
        "tokrt" => tokrt(toks),
        "analyze" => {
            // analyze id lang hextext : the analyzer the language server runs, on one document, under a watchdog
            let lang_name = toks[2].to_string();
            let src = as_text(if toks[3]=="-" { "" } else { toks[3] });
            crate::malform::with_watchdog(move || {
                use a2kit::lang::server::Analysis;
                let doc = lang::Document::from_string(src,0);
                match lang_name.as_str() {
                    "applesoft" => { let mut a = lang::applesoft::diagnostics::Analyzer::new(); match a.analyze(&doc) { Ok(()) => format!("diags={}",a.get_diags(&doc).len()), Err(e) => format!("err {}",e) } },
                    "integerbasic" => { let mut a = lang::integer::diagnostics::Analyzer::new(); match a.analyze(&doc) { Ok(()) => format!("diags={}",a.get_diags(&doc).len()), Err(e) => format!("err {}",e) } },
                    _ => { let mut a = lang::merlin::diagnostics::Analyzer::new(); match a.analyze(&doc) { Ok(()) => format!("diags={}",a.get_diags(&doc).len()), Err(e) => format!("err {}",e) } }
                }
            })
        },
        "applyright" => {
            // applyright id linehex c0 c1 texthex ... : lang::apply_edits on a one-line document (edits given in any order)
            let line = as_text(if toks[2]=="-" { "" } else { toks[2] });
            let mut edits = Vec::new();
            let mut k = 3;
            while k+2 < toks.len() {
                let (c0,c1) = (num(toks[k]) as u32,num(toks[k+1]) as u32);
                let t = as_text(if toks[k+2]=="-" { "" } else { toks[k+2] });
                edits.push(lsp_types::TextEdit::new(lsp_types::Range::new(lsp_types::Position::new(0,c0),lsp_types::Position::new(0,c1)),t));
                k += 3;
            }
            match lang::apply_edits(&line,&edits,0) { Ok(s) => format!("{}.",tohex(s.as_bytes())), Err(_) => "err".to_string() }
        },
        "renum" => {
            // renum id lang beg end first step reorder hextext
            let src = as_text(toks[8]);
            let (beg,end,first,step) = (num(toks[3]) as usize,num(toks[4]) as usize,num(toks[5]) as usize,num(toks[6]) as usize);
            let flags = if toks[7]=="1" { 1 } else { 0 };
            match toks[2] {
                "applesoft" => {
                    if lang::verify_str(tree_sitter_applesoft::language(),&src).is_err() { return "rejected".to_string(); }
                    let mut r = lang::applesoft::renumber::Renumberer::new();
                    r.set_flags(flags);
                    match r.renumber(&src,beg,end,first,step) { Ok(s) => format!("ok {}.",tohex(s.as_bytes())), Err(_) => "refused".to_string() }
                },
                _ => {
                    if lang::verify_str(tree_sitter_integerbasic::language(),&src).is_err() { return "rejected".to_string(); }
                    let mut r = lang::integer::renumber::Renumberer::new();
                    r.set_flags(flags);
                    match r.renumber(&src,beg,end,first,step) { Ok(s) => format!("ok {}.",tohex(s.as_bytes())), Err(_) => "refused".to_string() }
                }
            }
        },
        "escas" => {
            // escas id ctx hex : escape with the applesoft detokenizer's settings, then parse the text back
            let b = unhex(toks[3]);
            let (term,ctx): (&[u8],&str) = match toks[2] { "0" => (&[34,0],"str"), "1" => (&[0],"tok_rem"), _ => (&[58,0],"tok_data") };
            let (e,idx) = lang::applesoft::bytes_to_escaped_string_ex(&b,0,&[10,13],term,ctx);
            let back = a2kit::parse_escaped_ascii(&e,false,false);
            format!("{}. {} {}.",tohex(e.as_bytes()),idx,tohex(&back))
        },
        "escint" => {
            let b = unhex(toks[3]);
            let term: &[u8] = match toks[2] { "0" => &[0x29,0x01], _ => &[0x01] };
            let (mut e,idx) = lang::integer::bytes_to_escaped_string_ex(&b,0,&[138,141],term);
            if toks[2]=="0" { e = e.replace("\"","\\xa2"); }  // as the string branch of integer detokenize does
            let back = a2kit::parse_escaped_ascii(&e,true,true);
            format!("{}. {} {}.",tohex(e.as_bytes()),idx,tohex(&back))
        },
        "unesc" => {
            let txt = as_text(toks[4]);
            format!("{}.",tohex(&a2kit::parse_escaped_ascii(&txt,toks[2]=="1",toks[3]=="1")))
        },
        "mfmt" => {
            // mfmt id w1 w2 w3 col|col|... (hex, may be empty)
            let cols: Vec<String> = toks[5].split('|').map(|h| as_text(if h=="-" { "" } else { h })).collect();
            let line = cols.join("\u{0100}");
            let out = lang::merlin::formatter::format_tokens(&line,&lang::merlin::formatter::ColumnStyle::Variable,[num(toks[2]) as usize,num(toks[3]) as usize,num(toks[4]) as usize]);
            format!("{}.",tohex(out.as_bytes()))
        },
        "menc" => {
            // a root level comment line goes through the byte encoding unchanged: `*` + text
            let txt = as_text(toks[2]);
            let mut t = lang::merlin::tokenizer::Tokenizer::new();
            match t.tokenize(txt.clone()) { Ok(v) => format!("{}.",tohex(&v)), Err(_) => "rejected".to_string() }
        },
        "mdec" => {
            let b = unhex(toks[2]);
            let mut t = lang::merlin::tokenizer::Tokenizer::new();
            t.set_style(lang::merlin::formatter::ColumnStyle::Pasteable);
            match t.detokenize(&b) { Ok(s) => format!("{}.",tohex(s.as_bytes())), Err(_) => "err.".to_string() }
        },
        _ => "unsupported".to_string()
    }
}

/// the first line of a listing that is not accepted on its own (else the head of the listing)
fn rejected_part(d: &str,language: tree_sitter::Language) -> String {
    for l in d.lines() {
        if l.trim().len()>0 && lang::verify_str(language.clone(),&format!("{}\n",l)).is_err() { return l.chars().take(200).collect::<String>(); }
    }
    d.replace('\n',"|").chars().take(200).collect::<String>()
}

/// tokrt id lang addr hextext
fn tokrt(toks: &[&str]) -> String {
    let r = tokrt_inner(toks);
    if r.starts_with("FAIL") {
        let src = as_text(toks[4]);
        let mut tags = Vec::new();
        if src.lines().filter(|l| l.trim().len()>0).count() > 5000 { tags.push("over-5000-lines"); }
        if toks[2]=="applesoft" {
            let mut t = lang::applesoft::tokenizer::Tokenizer::new();
            if let Ok(t1) = t.tokenize(&src,num(toks[3]) as u16) {
                if lines_applesoft(&t1).iter().any(|l| l.1.len()>255) { tags.push("line-over-255-token-bytes"); }
            }
        }
        if toks[2]=="integer" {
            // grammar quirk of the tree-sitter-integerbasic crate: `IF` followed by a one-digit number is not accepted (IF 2 THEN ..), though
            // the same number written 02 is, and the listing of the latter is the former
            let b = r.as_bytes();
            for i in 0..b.len().saturating_sub(4) {
                if &b[i..i+3]==b"IF " && b[i+3].is_ascii_digit() && (i+4>=b.len() || !b[i+4].is_ascii_digit()) { tags.push("if-one-digit-number"); break; }
            }
            // grammar quirk of the tree-sitter-integerbasic crate: THEN REM... with a trailing blank parses REM... as a variable
            if src.lines().any(|l| { let u = l.to_uppercase().replace(" ",""); l.ends_with(' ') && u.contains("THENREM") }) { tags.push("then-rem-trailing-blank"); }
        }
        if tags.len()>0 { return format!("{} [tags: {}]",r,tags.join(",")); }
    }
    r
}
fn tokrt_inner(toks: &[&str]) -> String {
    let which = toks[2]; let addr = num(toks[3]) as u16; let src = as_text(toks[4]);
    match which {
        "applesoft" => {
            if lang::verify_str(tree_sitter_applesoft::language(),&src).is_err() { return "ok rejected".to_string(); }
            let mut t = lang::applesoft::tokenizer::Tokenizer::new();
            let t1 = match t.tokenize(&src,addr) { Ok(v) => v, Err(_) => return "ok rejected-by-tokenizer".to_string() };
            // structure: line numbers in order of appearance, links = address of the following line, end marker
            let want_nums: Vec<u16> = src.lines().filter(|l| l.trim_start().len()>0).map(|l| l.trim_start().chars().take_while(|c| c.is_ascii_digit() || *c==' ').filter(|c| *c!=' ').collect::<String>().parse::<u16>().unwrap_or(0)).collect();
            let ls = lines_applesoft(&t1);
            let nums: Vec<u16> = ls.iter().map(|x| x.0).collect();
            if nums!=want_nums { return format!("FAIL structure: line numbers {:?} but the source has {:?}",&nums[..nums.len().min(8)],&want_nums[..want_nums.len().min(8)]); }
            let mut a = addr as usize; let mut i = 0;
            for (n,body) in &ls {
                let link = u16::from_le_bytes([t1[i],t1[i+1]]) as usize;
                let next = a + body.len() + 5;
                if link!=next { return format!("FAIL structure: link of line {} is {} but the following line starts at {}",n,link,next); }
                a = next; i += body.len() + 5;
            }
            if t1.len()!=i+2 || t1[i]!=0 || t1[i+1]!=0 { return "FAIL structure: end marker 00 00 missing or misplaced".to_string(); }
            let d = match t.detokenize(&t1) { Ok(s) => s, Err(e) => return format!("FAIL detokenize of own output failed: {}",e) };
            if lang::verify_str(tree_sitter_applesoft::language(),&d).is_err() { return format!("FAIL the detokenized source is not accepted again: {}",rejected_part(&d,tree_sitter_applesoft::language())); }
            let mut t2z = lang::applesoft::tokenizer::Tokenizer::new();
            let t2 = match t2z.tokenize(&d,addr) {
                Ok(v) => v,
                // the blanks the listing puts at the head of REM and DATA payloads (a permitted difference) make the relisted program a few
                // bytes longer: right below the top of memory it may no longer fit at this load address although it is the same program
                Err(e) => match lang::applesoft::tokenizer::Tokenizer::new().tokenize(&d,2049) {
                    Ok(v) if addr as usize + t1.len() + 64 > 65535 => v,
                    _ => return format!("FAIL re-tokenizing the detokenized source failed: {}",e)
                }
            };
            let (l1,l2) = (lines_applesoft(&norm_applesoft(&t1)),lines_applesoft(&norm_applesoft(&t2)));
            if l1!=l2 {
                let k = l1.iter().zip(l2.iter()).position(|(x,y)| x!=y).unwrap_or(l1.len().min(l2.len()));
                return format!("FAIL round trip: line index {} tokenizes differently after detokenize (source line `{}`)",k,src.lines().nth(k).unwrap_or("").chars().take(120).collect::<String>());
            }
            format!("ok lines={} {}",ls.len(),tohex(&t1))
        },
        "integer" => {
            if lang::verify_str(tree_sitter_integerbasic::language(),&src).is_err() { return "ok rejected".to_string(); }
            let mut t = lang::integer::tokenizer::Tokenizer::new();
            let t1 = match t.tokenize(src.clone()) { Ok(v) => v, Err(_) => return "ok rejected-by-tokenizer".to_string() };
            // structure: each line is len num16 body 01 with len = whole line
            let mut i = 0; let mut nums = Vec::new();
            while i < t1.len() {
                let l = t1[i] as usize;
                if l<4 || i+l>t1.len() { return format!("FAIL structure: length byte {} at offset {} does not fit the program ({} bytes)",l,i,t1.len()); }
                if t1[i+l-1]!=1 { return format!("FAIL structure: line at offset {} does not end in 01",i); }
                nums.push(u16::from_le_bytes([t1[i+1],t1[i+2]]));
                i += l;
            }
            let want_nums: Vec<u16> = src.lines().filter(|l| l.trim_start().len()>0).map(|l| l.trim_start().chars().take_while(|c| c.is_ascii_digit()).collect::<String>().parse::<u16>().unwrap_or(0)).collect();
            if nums!=want_nums { return format!("FAIL structure: line numbers {:?} but the source has {:?}",&nums[..nums.len().min(8)],&want_nums[..want_nums.len().min(8)]); }
            // numeric literals: the byte in front of the binary value is B0 + the first decimal digit of that value (what the machine stores)
            let mut i = 0;
            while i < t1.len() {
                let l = t1[i] as usize;
                let mut j = i+3;
                while j < i+l-1 {
                    let b = t1[j];
                    if b==0x28 { j += 1; while j < i+l-1 && t1[j]!=0x29 { j += 1; } j += 1; }
                    else if b==0x5d { break; }
                    else if b>=0xb0 && b<=0xb9 {
                        if j+2 >= i+l { return format!("FAIL structure: numeric literal cut off at offset {}",j); }
                        let v = u16::from_le_bytes([t1[j+1],t1[j+2]]);
                        let first = v.to_string().as_bytes()[0];
                        if b != first+128 { return format!("FAIL structure: numeric literal {} is introduced by {:02X}, the machine stores {:02X}",v,b,first+128); }
                        j += 3;
                    }
                    else if b>=0x80 { while j < i+l-1 && t1[j]>=0x80 { j += 1; } }
                    else { j += 1; }
                }
                i += l;
            }
            let d = match t.detokenize(&t1) { Ok(s) => s, Err(e) => return format!("FAIL detokenize of own output failed: {}",e) };
            if lang::verify_str(tree_sitter_integerbasic::language(),&d).is_err() { return format!("FAIL the detokenized source is not accepted again: {}",rejected_part(&d,tree_sitter_integerbasic::language())); }
            let mut t2z = lang::integer::tokenizer::Tokenizer::new();
            let t2 = match t2z.tokenize(d.clone()) { Ok(v) => v, Err(e) => return format!("FAIL re-tokenizing the detokenized source failed: {}",e) };
            if t1!=t2 { return format!("FAIL round trip: program tokenizes differently after detokenize ({} vs {} bytes): {}",t1.len(),t2.len(),d.replace('\n',"|").chars().take(160).collect::<String>()); }
            format!("ok lines={} {}",nums.len(),tohex(&t1))
        },
        "merlin" => {
            if lang::verify_str(tree_sitter_merlin6502::language(),&src).is_err() { return "ok rejected".to_string(); }
            let mut t = lang::merlin::tokenizer::Tokenizer::new();
            let t1 = match t.tokenize(src.clone()) { Ok(v) => v, Err(_) => return "ok rejected-by-tokenizer".to_string() };
            let d = match t.detokenize(&t1) { Ok(s) => s, Err(e) => return format!("FAIL detokenize of own output failed: {}",e) };
            if lang::verify_str(tree_sitter_merlin6502::language(),&d).is_err() { return format!("FAIL the detokenized source is not accepted again: {}",rejected_part(&d,tree_sitter_merlin6502::language())); }
            let mut t2z = lang::merlin::tokenizer::Tokenizer::new();
            let t2 = match t2z.tokenize(d.clone()) { Ok(v) => v, Err(e) => return format!("FAIL re-tokenizing the detokenized source failed: {}",e) };
            if t1!=t2 { return format!("FAIL round trip: source tokenizes differently after detokenize ({} vs {} bytes)",t1.len(),t2.len()); }
            let nl = t1.iter().filter(|b| **b==0x8d).count();
            format!("ok lines={} {}",nl,tohex(&t1))
        },
        _ => "unsupported".to_string()
    }
}
