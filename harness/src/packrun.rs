//! C13: packing round trips through the real packers (implementation-side oracle) and the pieces the model predicts.
use a2kit::fs::{FileImage,Records};
use a2kit::commands::ItemType;
use crate::geom::Rng;
use crate::util::*;

fn new_fimg(fs: &str,chunk: usize) -> Result<FileImage,String> {
    let e = |x: Box<dyn std::error::Error>| x.to_string();
    match fs {
        "dos3x" => a2kit::fs::dos3x::new_fimg(chunk,"TEST").map_err(e),
        "prodos" => a2kit::fs::prodos::new_fimg(chunk,false,"TEST").map_err(e),
        "pascal" => a2kit::fs::pascal::new_fimg(chunk,false,"TEST").map_err(e),
        "cpm" => a2kit::fs::cpm::new_fimg(chunk,false,"TEST.TXT").map_err(e),
        "fat" => a2kit::fs::fat::new_fimg(chunk,false,"TEST.TXT").map_err(e),
        _ => Err("fs".to_string())
    }
}
fn unit(fs: &str) -> usize { match fs { "dos3x" => 256, "prodos" | "pascal" | "fat" => 512, _ => 1024 } }

fn boundary_len(rng: &mut Rng,fs: &str) -> usize {
    let u = unit(fs);
    let c = [0usize,1,2,u-1,u,u+1,2*u,2*u+1,255,256,257,1023,1024,1025,4095,4096,65531,65532,65533,65534,65535,65536,65537,70000];
    match rng.below(3) { 0 => rng.below(3000), _ => c[rng.below(c.len())] }
}

fn text(rng: &mut Rng,len: usize) -> String {
    // printable ASCII lines, each ending in a newline
    let mut s = String::new();
    while s.len() < len.max(1) {
        // indentation runs (Pascal stores them as a count byte), also very deep ones and lines made of blanks only
        if rng.below(3)==0 { let k = [1usize,2,3,15,16,17,94,95,96,127,128,222,223,224,225,300,500][rng.below(17)]; for _ in 0..k { s.push(' '); } }
        let l = if rng.below(12)==0 { 200 + rng.below(1000) } else { rng.below(60) };
        for _ in 0..l { s.push((0x20 + rng.below(0x5f) as u8) as char); }
        s.push('\n');
    }
    s
}

pub fn dispatch(toks: &[&str]) -> String {
    match toks[0] {
        "recpack" => {
            // recpack id fs rl num:hextext,... : the records packed into a file image; chunks (index:bytes) and end of file
            let rl = num(toks[3]) as usize;
            let mut recs = Records::new(rl);
            if toks[4]!="-" {
                for p in toks[4].split(',') {
                    let mut it = p.split(':');
                    let n: usize = it.next().unwrap().parse().unwrap();
                    let t = String::from_utf8_lossy(&unhex(it.next().unwrap_or(""))).to_string();
                    recs.add_record(n,&t);
                }
            }
            let mut f = match toks[2] { "dos3x" => a2kit::fs::dos3x::new_fimg(256,"TEST"), _ => a2kit::fs::prodos::new_fimg(512,false,"TEST") }.expect("fimg");
            match f.pack_rec(&recs) {
                Err(_) => "refused".to_string(),
                Ok(()) => {
                    let mut keys: Vec<usize> = f.chunks.keys().cloned().collect();
                    keys.sort();
                    let parts: Vec<String> = keys.iter().map(|k| format!("{}:{}",k,tohex(&f.chunks[k]))).collect();
                    format!("ok {} eof={}",parts.join("|"),f.get_eof())
                }
            }
        },
        "txtenc" | "txtdec" => {
            // txtenc id fs hextext / txtdec id fs hexbytes : the flat text converters with the terminator their packer uses
            use a2kit::fs::TextConversion;
            let arg = unhex(if toks[3]=="-" {""} else {toks[3]});
            let enc = toks[0]=="txtenc";
            let txt = String::from_utf8_lossy(&arg).to_string();
            let r: Option<Vec<u8>> = match (toks[2],enc) {
                ("dos3x",true) => a2kit::fs::dos3x::types::TextConverter::new(vec![0x8d]).from_utf8(&txt),
                ("dos3x",false) => a2kit::fs::dos3x::types::TextConverter::new(vec![0x8d]).to_utf8(&arg).map(|s| s.into_bytes()),
                ("prodos",true) => a2kit::fs::prodos::types::TextConverter::new(vec![0x0d]).from_utf8(&txt),
                ("prodos",false) => a2kit::fs::prodos::types::TextConverter::new(vec![0x0d]).to_utf8(&arg).map(|s| s.into_bytes()),
                (_,true) => a2kit::fs::cpm::types::TextConverter::new(vec![]).from_utf8(&txt),
                (_,false) => a2kit::fs::cpm::types::TextConverter::new(vec![]).to_utf8(&arg).map(|s| s.into_bytes())
            };
            match r { Some(v) => format!("ok:{}",tohex(&v)), None => "none".to_string() }
        },
        "pasenc" => {
            // pasenc id hextext : the Pascal text encoder alone (TextConverter::from_utf8 with the CR terminator)
            use a2kit::fs::TextConversion;
            let txt = String::from_utf8_lossy(&unhex(if toks[2]=="-" {""} else {toks[2]})).to_string();
            match a2kit::fs::pascal::types::TextConverter::new(vec![0x0d]).from_utf8(&txt) { Some(v) => format!("ok:{}",tohex(&v)), None => "none".to_string() }
        },
        "pasdec" => {
            use a2kit::fs::TextConversion;
            match a2kit::fs::pascal::types::TextConverter::new(vec![0x0d]).to_utf8(&unhex(if toks[2]=="-" {""} else {toks[2]})) { Some(v) => format!("ok:{}",tohex(v.as_bytes())), None => "none".to_string() }
        },
        "deseq" => {
            // deseq id chunk_len hexdata -> chunk lengths, eof
            let mut f = new_fimg("prodos",num(toks[2])).unwrap();
            f.chunk_len = num(toks[2]);
            let d = unhex(toks[3]);
            f.desequence(&d);
            let idx = f.ordered_indices();
            let lens: Vec<String> = idx.iter().map(|i| f.chunks[i].len().to_string()).collect();
            let dense = idx.iter().enumerate().all(|(k,i)| k==*i);
            format!("{} {} {} {}",lens.join(","),f.get_eof(),dense,tohex(&f.sequence()))
        },
        "dosbin" => {
            let mut f = new_fimg("dos3x",256).unwrap();
            let d = unhex(toks[3]);
            match f.pack_bin(&d,Some(num(toks[2])),None) {
                Ok(()) => format!("ok:{}",tohex(&f.sequence())),
                Err(_) => "err:1".to_string()
            }
        },
        "probin" => {
            let mut f = new_fimg("prodos",512).unwrap();
            let d = unhex(toks[3]);
            match f.pack_bin(&d,Some(num(toks[2])),None) {
                Ok(()) => {
                    let idx = f.ordered_indices();
                    let chunks: Vec<String> = idx.iter().map(|i| tohex(&f.chunks[i])).collect();
                    format!("ok:{}:{}:{}",tohex(&f.aux),f.get_eof(),chunks.join(","))
                },
                Err(_) => "err:1".to_string()
            }
        },
        "dostok" => {
            let mut f = new_fimg("dos3x",256).unwrap();
            let d = unhex(toks[2]);
            match f.pack_tok(&d,ItemType::ApplesoftTokens,None) {
                Ok(()) => format!("ok:{}",tohex(&f.sequence())),
                Err(_) => "err:1".to_string()
            }
        },
        "pack" => oracle(toks),
        "txtb" => {
            // txtb id fs L k adj : deterministic boundary text: k lines totalling L-adj-ish characters (see generator), must round trip
            let fs = toks[2]; let l = num(toks[3]); let k = num(toks[4]); let adj = num(toks[5]);
            let mut f = match new_fimg(fs,unit(fs)) { Ok(f) => f, Err(e) => return format!("FAIL new_fimg: {}",e) };
            let mut s = String::new();
            let per = l / k;
            for i in 0..k {
                let n = if i+1==k { l - per*(k-1) } else { per };
                for j in 0..n.saturating_sub(1+adj) { s.push((0x41 + ((i*7+j) % 26) as u8) as char); }
                s.push('\n');
            }
            if let Err(e) = f.pack_txt(&s) { return format!("ok refused {}",e); }
            match f.unpack_txt() {
                Ok(v) => if v==s { format!("ok len={}",s.len()) } else { format!("FAIL text of {} bytes in {} lines unpacks differently (got {} bytes)",s.len(),k,v.len()) },
                Err(e) => format!("FAIL unpack_txt failed after successful pack of {} bytes: {}",s.len(),e)
            }
        },
        _ => "unsupported".to_string()
    }
}

/// pack id fs what seed
fn oracle(toks: &[&str]) -> String {
    let fs = toks[2]; let what = toks[3];
    let mut rng = Rng(toks[4].parse().unwrap());
    let mut f = match new_fimg(fs,unit(fs)) { Ok(f) => f, Err(e) => return format!("FAIL new_fimg: {}",e) };
    let len = boundary_len(&mut rng,fs);
    match what {
        "raw" => {
            let d = rng.bytes(len);
            if len==0 { return "ok empty".to_string(); }
            if let Err(e) = f.pack_raw(&d) { return format!("ok refused {}",e); }
            match f.unpack_raw(true) {
                Ok(v) => if v==d || (v.len()>d.len() && v.len()-d.len()<unit(fs) && v[..d.len()]==d[..] && (fs=="dos3x" || fs=="cpm")) { format!("ok len={}",len) }
                         else { format!("FAIL raw data of {} bytes unpacks to {} bytes{}",len,v.len(),if v.len()>=d.len() && v[..d.len()]==d[..] {" (prefix equal)"} else {" (content differs)"}) },
                Err(e) => format!("FAIL unpack_raw failed after successful pack: {}",e)
            }
        },
        "bin" => {
            let d = rng.bytes(len);
            let addr = [0usize,1,0x300,0x2000,0x7fff,0x8000,0xfffe,0xffff,0x10000,0x12345][rng.below(10)];
            if len==0 { return "ok empty".to_string(); }
            if let Err(e) = f.pack_bin(&d,Some(addr),None) { return format!("ok refused {}",e); }
            let la = f.get_load_address() as usize;
            match f.unpack_bin() {
                Ok(v) => {
                    if v!=d { return format!("FAIL bin data of {} bytes (addr {}) packed without error but unpacks to {} bytes",len,addr,v.len()); }
                    if (fs=="dos3x" || fs=="prodos") && la!=addr { return format!("FAIL load address {} reads back as {}",addr,la); }
                    format!("ok len={} addr={}",len,addr)
                },
                Err(e) => format!("FAIL unpack_bin failed after successful pack of {} bytes: {}",len,e)
            }
        },
        "tok" => {
            // a structurally valid token stream: Applesoft lines (link, number, body, 0) ending in 00 00; Integer lines (len, number, body, 01)
            let applesoft = rng.below(2)==0;
            let mut d: Vec<u8> = Vec::new();
            let mut addr = 0x801usize;
            let mut num = 10usize;
            while d.len() < len {
                let bl = 1 + rng.below(if applesoft {200} else {100});
                let body: Vec<u8> = (0..bl).map(|_| 2 + rng.below(254) as u8).collect();
                if applesoft {
                    addr += 4 + bl + 1;
                    d.extend_from_slice(&[(addr&0xff) as u8,((addr>>8)&0xff) as u8,(num&0xff) as u8,(num>>8) as u8]);
                    d.extend_from_slice(&body); d.push(0);
                } else {
                    d.push((bl+4) as u8); d.extend_from_slice(&[(num&0xff) as u8,(num>>8) as u8]); d.extend_from_slice(&body); d.push(1);
                }
                num += 10;
            }
            if applesoft { d.extend_from_slice(&[0,0]); }
            let len = d.len();
            let lang = if applesoft { ItemType::ApplesoftTokens } else { ItemType::IntegerTokens };
            if let Err(e) = f.pack_tok(&d,lang,None) { return format!("ok refused {}",e); }
            match f.unpack_tok() {
                Ok(v) => if v==d { format!("ok len={}",len) } else { format!("FAIL token stream of {} bytes packed without error but unpacks to {} bytes",len,v.len()) },
                Err(e) => format!("FAIL unpack_tok failed after successful pack of {} bytes: {}",len,e)
            }
        },
        "txt" => {
            let len = len.min(20000);
            let mut t = match rng.below(3) {
                0 => text(&mut rng,len),
                _ => {
                    // encoded sizes at and around page / block boundaries: k lines whose characters plus terminators total L
                    let l = [255usize,256,257,511,512,513,514,1021,1022,1023,1024,1025,1026,1027,1535,1536,1537,2047,2048,2049,3071,3072,3073][rng.below(23)];
                    let k = 1 + rng.below(3);
                    let mut s = String::new();
                    let per = l / k;
                    for i in 0..k {
                        let n = if i+1==k { l - per*(k-1) } else { per };
                        let adj = rng.below(4);   // FS-specific per-line overhead differs (CR, CR LF, DLE prefix): sweep a few offsets
                        for _ in 0..n.saturating_sub(1+adj) { s.push((0x21 + rng.below(0x5e) as u8) as char); }
                        s.push('\n');
                    }
                    s
                }
            };
            let non_ascii = rng.below(8)==0;
            if non_ascii { t.insert(t.len()/2,'é'); }
            if let Err(e) = f.pack_txt(&t) { return format!("ok refused {}",e); }
            match f.unpack_txt() {
                Ok(v) => if v==t { format!("ok len={}",t.len()) } else if non_ascii { format!("FAIL text with a non-ASCII character packed without error and came back altered") }
                         else { let p = v.bytes().zip(t.bytes()).position(|(a,b)| a!=b).unwrap_or(v.len().min(t.len())); format!("FAIL text of {} bytes unpacks differently (lengths {} / {}, first difference at {})",t.len(),t.len(),v.len(),p) },
                Err(e) => format!("FAIL unpack_txt failed after successful pack of {} bytes: {}",t.len(),e)
            }
        },
        "rec" => {
            let rl = [16usize,64,127,128,200,255,256,512,2,10,30,32767,32768,65535,257,300,600,700,1100][rng.below(19)];
            let mut recs = Records::new(rl);
            let n = 1 + rng.below(12);
            let mut want: Vec<(usize,String)> = Vec::new();
            let mut used = std::collections::HashSet::new();
            let mut too_long = false;
            // records longer than a chunk that do not end on a chunk boundary: neighbours, each nearly full, so that every record runs on
            // into the chunk where the next one starts
            let neighbours = matches!(rl,257|300|600|700|1100) && rng.below(3)>0;
            for k in 0..n {
                let idx = if neighbours { k } else { [0usize,1,2,3,7,rng.below(40),rng.below(300),50,2489,2493][rng.below(10)] };
                if !used.insert(idx) { continue; }
                // the stored record is the text plus one line end: lengths below, at and beyond what fits
                let flen = if neighbours { rl-2-(k%3) } else { match rng.below(10) { 0 => rl-1, 1 => rl, 2 => rl+1, 3 => 2*rl, _ => 1 + rng.below(rl.max(3)-2) }.min(70000).max(1) };
                if flen+1 > rl { too_long = true; }
                let mut s = String::new();
                for _ in 0..flen { s.push((0x21 + rng.below(0x5d) as u8) as char); }
                recs.add_record(idx,&s);
                want.push((idx,s));
            }
            if let Err(e) = f.pack_rec(&recs) { return format!("ok refused {}",e); }
            if (fs=="pascal" || fs=="cpm" || fs=="fat") { return "ok accepted-without-unpacker".to_string(); }
            match f.unpack_rec(Some(rl)) {
                Ok(got) => {
                    for (i,s) in &want {
                        match got.map.get(i) {
                            Some(g) => { let g2 = g.trim_end_matches(|c| c=='\n' || c=='\r'); if g2!=s.as_str() {
                                return if too_long { format!("FAIL a record longer than the record length {} was packed without error and record {} reads back altered",rl,i) }
                                       else { format!("FAIL record {} (len {}, record length {}) reads back altered",i,s.len(),rl) }; } },
                            None => return format!("FAIL record {} of {} stored records is missing after unpack (record length {})",i,want.len(),rl)
                        }
                    }
                    // nothing that was never stored may turn up with text in it (blank records in the gaps are the documented exception)
                    if !too_long {
                        for (i,g) in &got.map {
                            if !want.iter().any(|(k,_)| k==i) && g.chars().any(|c| c.is_ascii_graphic()) {
                                return format!("FAIL record {} was never stored but reads back with text in it (record length {}, {} records stored)",i,rl,want.len());
                            }
                        }
                    }
                    format!("ok records={} rl={}",want.len(),rl)
                },
                Err(e) => format!("FAIL unpack_rec failed after successful pack (record length {}): {}",rl,e)
            }
        },
        "recjson" => {
            // a record set written as JSON parses back to an equal value: empty set, one record, many, texts of several lines
            let rl = [2usize,16,128,255,4000][rng.below(5)];
            let mut recs = Records::new(rl);
            let n = [0usize,0,1,3,10][rng.below(5)];
            for _ in 0..n {
                let idx = [0usize,1,7,rng.below(3000),65535][rng.below(5)];
                let lines = 1 + rng.below(3);
                let mut s = String::new();
                for _ in 0..lines { for _ in 0..rng.below(10) { s.push((0x21 + rng.below(0x5d) as u8) as char); } s.push('\n'); }
                recs.add_record(idx,&s);
            }
            let js = recs.to_json(if rng.below(2)==0 {None} else {Some(2)});
            match Records::from_json(&js) {
                Ok(g) => if g.record_len==recs.record_len && g.map==recs.map { format!("ok records={}",n) } else { format!("FAIL record set of {} records differs after JSON round trip",recs.map.len()) },
                Err(e) => format!("FAIL a record set of {} records written as JSON does not parse back: {}",recs.map.len(),e)
            }
        },
        "recidx" => {
            // record numbers whose byte offset does not fit: refused, never stored under another number
            let rl = [128usize,2,65535][rng.below(3)];
            let idx = [1usize<<57,1<<62,usize::MAX/rl,usize::MAX/rl+1,usize::MAX,1<<40][rng.below(6)];
            let mut recs = Records::new(rl);
            recs.add_record(idx,"HELLO");
            recs.add_record(1,"ONE");
            if let Err(e) = f.pack_rec(&recs) { return format!("ok refused {}",e); }
            if (fs=="pascal" || fs=="cpm" || fs=="fat") { return "ok accepted-without-unpacker".to_string(); }
            match f.unpack_rec(Some(rl)) {
                Ok(got) => match got.map.get(&idx) {
                    Some(g) if g.trim_end()=="HELLO" => format!("ok far-record idx={}",idx),
                    _ => format!("FAIL record number {} (record length {}) was packed without error but does not read back",idx,rl)
                },
                Err(e) => format!("FAIL unpack_rec failed after successful pack of record number {}: {}",idx,e)
            }
        },
        "big" => {
            // data longer than the length field of the file system can hold must be refused
            let n = [(1usize<<24)-1,1<<24,(1<<24)+5][rng.below(3)];
            let d: Vec<u8> = (0..n).map(|i| (i*7+1) as u8).collect();
            if let Err(e) = f.pack_bin(&d,Some(0x2000),None) { return format!("ok refused {}",e); }
            match f.unpack_bin() {
                Ok(v) => if v==d { format!("ok len={}",n) } else { format!("FAIL bin data of {} bytes packed without error but unpacks to {} bytes",n,v.len()) },
                Err(e) => format!("FAIL unpack_bin failed after successful pack of {} bytes: {}",n,e)
            }
        },
        "json" => {
            // sparse chunk map incl. holes, then JSON round trip
            let n = 1 + rng.below(6);
            for _ in 0..n { let i = [0usize,1,2,5,100,rng.below(1000)][rng.below(6)]; let l = 1 + rng.below(unit(fs)); f.chunks.insert(i,rng.bytes(l)); }
            f.set_eof(rng.below(100000));
            let js = f.to_json(if rng.below(2)==0 {None} else {Some(2)});
            match FileImage::from_json(&js) {
                Ok(g) => if g.chunks==f.chunks && g.eof==f.eof && g.fs_type==f.fs_type && g.aux==f.aux && g.access==f.access && g.chunk_len==f.chunk_len && g.file_system==f.file_system
                            && g.created==f.created && g.modified==f.modified && g.version==f.version && g.min_version==f.min_version { format!("ok chunks={}",f.chunks.len()) }
                         else { "FAIL file image differs after JSON round trip".to_string() },
                Err(e) => format!("FAIL from_json failed on to_json output: {}",e)
            }
        },
        _ => "unsupported".to_string()
    }
}
