//! a2v -- implementation-side harness: reads case lines on stdin, runs the real a2kit library
//! under catch_unwind, prints one canonical observation line per case.
use std::io::{self,BufRead,Write};
use std::panic::{catch_unwind,AssertUnwindSafe};

mod util;
mod img_streams;
mod geom;
mod sectorops;
mod cross;
mod langrun;
mod asmrun;
mod minrun;
mod malform;
mod packrun;
mod codec;
mod fsck;
mod fsrun;
mod fsckrun;

fn main() {
    if std::env::var("A2V_TRACE").is_err() { std::panic::set_hook(Box::new(|_| {})); }
    let stdin = io::stdin();
    let stdout = io::stdout();
    let mut out = io::BufWriter::new(stdout.lock());
    for line in stdin.lock().lines() {
        let line = match line { Ok(l) => l, Err(_) => break };
        let toks: Vec<&str> = line.split_whitespace().collect();
        if toks.len() < 2 { continue; }
        let id = toks[1].to_string();
        let res = catch_unwind(AssertUnwindSafe(|| dispatch(&toks)));
        match res {
            Ok(s) => writeln!(out,"{} {}",id,s).unwrap(),
            Err(e) => {
                let msg = if let Some(s) = e.downcast_ref::<String>() { s.clone() }
                          else if let Some(s) = e.downcast_ref::<&str>() { s.to_string() } else { "?".to_string() };
                writeln!(out,"{} PANIC {}",id,msg.replace('\n'," ")).unwrap()
            }
        }
    }
}

fn dispatch(toks: &[&str]) -> String {
    match toks[0] {
        "enc62" | "enc53" | "dec62" | "dec53" | "trk" | "enc35" | "dec35" | "trk35" => img_streams::dispatch(toks),
        "sectorops" => sectorops::run(toks),
        "dpbinfo" => { let d = a2kit::bios::dpb::DiskParameterBlock::create(&geom::kind_of(toks[2])); format!("{} {} {} {} {} {}",d.bsh,d.off,d.dsm,d.drm,d.exm,d.spt) },
        "crc32" | "crc16" | "imdtrk" | "codec" | "metasweep" => codec::dispatch(toks),
        "deseq" | "dosbin" | "probin" | "dostok" | "pack" | "txtb" | "pasenc" | "pasdec" | "txtenc" | "txtdec" | "recpack" => packrun::dispatch(toks),
        "malform" => malform::run(toks),
        "wozchunk" | "imdparse" | "dosunbin" | "dasmsweep" => malform::pieces(toks),
        "tokrt" | "escas" | "escint" | "unesc" | "menc" | "mdec" | "mfmt" | "renum" | "applyright" | "analyze" => langrun::dispatch(toks),
        "minichk" => minrun::minichk(toks),
        "minify" => minrun::minify(toks),
        "dasmrt" => asmrun::dasmrt(toks),
        "dasmtext" => asmrun::dasmtext(toks),
        "asmline" => asmrun::asmline(toks),
        "cells" => cross::cells(toks),
        "cross" => cross::cross(toks),
        "imgcmp" => cross::imgcmp(toks),
        "fsh" => fsrun::run(toks),
        "fsckfile" => fsckrun::fsck_file(toks),
        "pdtree" => fsckrun::pdtree(toks),
        "cpmext" => fsckrun::cpmext(toks),
        _ => format!("unsupported:{}",toks[0])
    }
}
