//! File-system history runner: executes an operation history on a real a2kit volume, evaluates the
//! implementation-side oracles of C01..C06/C19 after every step, and prints the per-step trace that the
//! Coq model (extracted) must reproduce.
use a2kit::fs::{DiskFS,FileImage};
use a2kit::img::DiskImage;
use std::collections::{BTreeMap,HashMap};
use std::panic::{catch_unwind,AssertUnwindSafe};
use crate::geom::*;
use crate::fsck;

pub fn mkfs(fs: &str,label: &str) -> Result<Box<dyn DiskFS>,String> {
    let kname = label.split(':').nth(1).unwrap_or("5.25in");
    let kind = kind_of(kname);
    let img = make_image(label);
    let e = |x: Box<dyn std::error::Error>| x.to_string();
    match fs {
        "dos33" => { let mut d = a2kit::fs::dos3x::Disk::from_img(img).map_err(e)?; d.init33(254,false).map_err(e)?; Ok(Box::new(d)) },
        "dos32" => { let mut d = a2kit::fs::dos3x::Disk::from_img(img).map_err(e)?; d.init32(254,false).map_err(e)?; Ok(Box::new(d)) },
        "prodos" => { let floppy = !kname.starts_with("hd"); let mut d = a2kit::fs::prodos::Disk::from_img(img).map_err(e)?; d.format(&"VOL".to_string(),floppy,None).map_err(e)?; Ok(Box::new(d)) },
        "pascal" => { let mut d = a2kit::fs::pascal::Disk::from_img(img).map_err(e)?; d.format(&"VOL".to_string(),0xee,None).map_err(e)?; Ok(Box::new(d)) },
        "cpm2" | "cpm3" => {
            let dpb = a2kit::bios::dpb::DiskParameterBlock::create(&kind);
            let vers = if fs=="cpm2" {[2,2,3]} else {[3,1,0]};
            let mut d = a2kit::fs::cpm::Disk::from_img(img,dpb,vers).map_err(e)?;
            let t = if fs=="cpm3" { Some(chrono::NaiveDate::from_ymd_opt(2020,1,2).unwrap().and_hms_opt(3,4,5).unwrap()) } else { None };
            d.format("",t).map_err(e)?; Ok(Box::new(d))
        },
        "fat" => {
            let boot = a2kit::bios::bpb::BootSector::create(&kind).map_err(e)?;
            let mut d = a2kit::fs::fat::Disk::from_img(img,Some(boot)).map_err(e)?;
            // one of the kinds carries a volume label: the label occupies a directory entry but is not a file
            let vol = if kname=="5.25in-ibm-dsdd9" { "VOLLBL" } else { "" };
            d.format(&vol.to_string(),None).map_err(e)?; Ok(Box::new(d))
        },
        _ => Err(format!("unknown fs {}",fs))
    }
}

/// chunk payload: deterministic in (file id, chunk index), unique per (id,idx), never all-equal
pub fn payload(id: usize,idx: usize,len: usize) -> Vec<u8> {
    let mut v: Vec<u8> = (0..len).map(|j| ((id*37 + idx*11 + j*7 + (j>>8)*3 + 1) & 0xff) as u8).collect();
    // some chunks hold what compressing containers treat specially: one byte value throughout except for the last 1..7 bytes, or a
    // two-byte pattern (the sectors behind the first one of such a chunk are then uniform / periodic from their first byte on)
    if len>=64 {
        let fill = ((id*13 + idx*5) & 0xff) as u8;
        match (id + idx) % 5 {
            3 => { for j in 16..len { v[j] = fill; } let k = 1 + (id + idx) % 7; for j in len-k..len { v[j] = fill ^ 0xff; } },
            1 => { for j in 16..len { v[j] = if j%2==0 { fill } else { fill ^ 0xaa }; } },
            _ => {}
        }
    }
    let tag = [0xA5u8,(id & 0xff) as u8,(id>>8) as u8,(idx & 0xff) as u8,(idx>>8) as u8,0x5A];
    for (i,b) in tag.iter().enumerate() { if i<len { v[i] = *b; } }
    v
}

#[derive(Clone,Debug)]
pub struct Shadow { pub id: usize, pub is_dir: bool, pub chunks: BTreeMap<usize,usize>, pub eof: usize, pub ftype: Vec<u8>, pub aux: Vec<u8>, pub access: Vec<u8>, pub locked: bool,
    pub got: Option<Got> }
#[derive(Clone,Debug,PartialEq)]
pub struct Got { pub chunks: BTreeMap<usize,Vec<u8>>, pub eof: usize, pub ftype: Vec<u8>, pub aux: Vec<u8>, pub access: Vec<u8> }

fn parse_chunkspec(s: &str) -> Vec<usize> {
    // "0-5,9,12-13" ; "" = none
    let mut v = Vec::new();
    for part in s.split(',') {
        if part.is_empty() { continue; }
        if let Some((a,b)) = part.split_once('-') { let a: usize = a.parse().unwrap(); let b: usize = b.parse().unwrap(); for i in a..=b { v.push(i); } }
        else { v.push(part.parse().unwrap()); }
    }
    v
}
fn fmt_idx(v: &Vec<usize>) -> String {
    // compact ranges
    let mut out: Vec<String> = Vec::new();
    let mut i = 0;
    while i<v.len() {
        let mut j = i;
        while j+1<v.len() && v[j+1]==v[j]+1 { j += 1; }
        if j>i { out.push(format!("{}-{}",v[i],v[j])); } else { out.push(format!("{}",v[i])); }
        i = j+1;
    }
    out.join(",")
}

fn tree_paths(disk: &mut Box<dyn DiskFS>) -> Result<Vec<(String,bool)>,String> {
    let js = disk.tree(false,None).map_err(|e| e.to_string())?;
    let obj = json::parse(&js).map_err(|e| e.to_string())?;
    let mut out = Vec::new();
    fn walk(node: &json::JsonValue,prefix: &str,out: &mut Vec<(String,bool)>) {
        for (name,val) in node["files"].entries() {
            let p = if prefix.is_empty() { name.to_string() } else { format!("{}/{}",prefix,name) };
            let is_dir = val.has_key("files");
            out.push((p.clone(),is_dir));
            if is_dir { walk(val,&p,out); }
        }
    }
    walk(&obj,"",&mut out);
    out.sort();
    Ok(out)
}
fn listing(r: &mut Runner) -> Result<Vec<(String,bool)>,String> {
    let mut l = tree_paths(&mut r.disk)?;
    if r.fs.starts_with("cpm") { l.retain(|x| x.0.contains('/')); }   // user-number directories are structure, not files
    Ok(l)
}

fn do_get(disk: &mut Box<dyn DiskFS>,path: &str) -> Result<Got,String> {
    let f = disk.get(path).map_err(|e| e.to_string())?;
    let mut chunks = BTreeMap::new();
    for (k,v) in f.chunks.iter() { chunks.insert(*k,v.clone()); }
    let eof = if f.eof.is_empty() { f.end()*f.chunk_len } else { f.get_eof() };
    Ok(Got { chunks, eof, ftype: f.fs_type.clone(), aux: f.aux.clone(), access: f.access.clone() })
}

/// units a dense file of n chunks consumes in the root directory (data + index overhead), per the format documents
pub fn needs_dense(fs: &str,n: usize) -> Option<usize> {
    if n==0 { return Some(0); }
    match fs {
        "dos33" | "dos32" => Some(n + 1 + (n-1)/122),
        "prodos" => Some(n + (if n>1 {1} else {0}) + (if n>256 {1 + (n-1)/256} else {0})),
        "pascal" | "cpm2" | "cpm3" | "fat" => Some(n),
        _ => None
    }
}
fn le_bytes(val: usize,len: usize) -> Vec<u8> { (0..len).map(|i| ((val >> (8*i)) & 0xff) as u8).collect() }

pub struct Runner { pub fs: String, pub label: String, pub disk: Box<dyn DiskFS>, pub shadow: BTreeMap<String,Shadow>, pub next_id: usize, pub unit: usize,
    pub trace: Vec<String>, pub stats: HashMap<String,usize>, pub notes: Vec<String> }

fn norm_path(fs: &str,p: &str) -> String {
    if fs.starts_with("cpm") {
        let up = p.to_uppercase();
        // the user number may be spelled 0, 00, +0 ...: one user area; more than one colon is no name at all
        if up.matches(':').count()>1 { return format!("<invalid>{}",up); }
        return match up.split_once(':') {
            Some((u,n)) => match u.parse::<u8>() { Ok(v) => format!("{}/{}",v,n), Err(_) => format!("<invalid>{}",up) },
            None => format!("0/{}",up)
        };
    }
    if fs=="fat" {
        // trailing blanks of the base name or the extension are the padding of the 8+3 fields: such a spelling names nothing
        let up = p.to_uppercase();
        for seg in up.split('/') {
            let (b,e) = match seg.split_once('.') { Some((b,e)) => (b,e), None => (seg,"") };
            if seg!="." && seg!=".." && (b.ends_with(' ') || e.ends_with(' ')) { return format!("<invalid>{}",up); }
        }
        return up;
    }
    p.to_uppercase()
}
/// path to hand to the API for a shadow key
fn api_path(fs: &str,key: &str) -> String {
    if fs.starts_with("cpm") { return match key.split_once('/') { Some((u,n)) => format!("{}:{}",u,n), None => key.to_string() }; }
    key.to_string()
}

impl Runner {
    pub fn free(&mut self) -> Result<usize,String> { self.disk.stat().map(|s| s.free_blocks).map_err(|e| e.to_string()) }
    fn bump(&mut self,k: &str) { *self.stats.entry(k.to_string()).or_insert(0) += 1; }

    /// evaluate oracles that hold after every step; returns Err(description) on the first failure
    fn check_all(&mut self,step: usize,touched: &Option<String>) -> Result<(),String> {
        // C05: listing = shadow
        let listed = listing(self).map_err(|e| format!("C05 tree failed: {}",e))?;
        let want: Vec<(String,bool)> = self.shadow.iter().map(|(k,v)| (k.clone(),v.is_dir)).collect();
        if listed!=want {
            let extra: Vec<&(String,bool)> = listed.iter().filter(|x| !want.contains(x)).collect();
            let missing: Vec<&(String,bool)> = want.iter().filter(|x| !listed.contains(x)).collect();
            return Err(format!("C05 listing differs from history: unexpected {:?} missing {:?}",extra,missing));
        }
        // C01/C02: every live file reads back as first read after its put (and that first read matched the put)
        let paths: Vec<String> = self.shadow.keys().cloned().collect();
        for p in paths {
            let sh = self.shadow.get(&p).unwrap().clone();
            if sh.is_dir { continue; }
            let g = match catch_unwind(AssertUnwindSafe(|| do_get(&mut self.disk,&api_path(&self.fs,&p)))) {
                Ok(Ok(g)) => g,
                Ok(Err(e)) => return Err(format!("{} get {} failed: {}",if touched.as_deref()==Some(&p) {"C01"} else {"C02"},p,e)),
                Err(_) => return Err(format!("C12 get {} panicked",p))
            };
            if let Some(prev) = &sh.got {
                if *prev!=g {
                    let cls = if touched.as_deref()==Some(p.as_str()) {"C01"} else {"C02"};
                    let what = if prev.chunks!=g.chunks {"chunk data"} else if prev.eof!=g.eof {"eof"} else if prev.ftype!=g.ftype {"type"} else if prev.aux!=g.aux {"aux"} else {"access"};
                    return Err(format!("{} file {} changed ({}) at step {} although the operation targeted {:?}",cls,p,what,step,touched));
                }
            }
        }
        Ok(())
    }

    /// C01 oracle: compare a fresh `get` with what was put, under the exemptions the property grants
    fn check_put_get(&mut self,path: &str) -> Result<Got,String> {
        let sh = self.shadow.get(path).unwrap().clone();
        let g = do_get(&mut self.disk,&api_path(&self.fs,path)).map_err(|e| format!("C01,C05 get after put of {} failed (a stored file cannot be fetched): {}",path,e))?;
        let got_idx: Vec<usize> = g.chunks.keys().cloned().collect();
        let want_idx: Vec<usize> = sh.chunks.keys().cloned().collect();
        if got_idx!=want_idx { return Err(format!("C01 {}: chunk indices {} read back as {}",path,fmt_idx(&want_idx),fmt_idx(&got_idx))); }
        for (i,len) in sh.chunks.iter() {
            let want = payload(sh.id,*i,*len);
            let got = &g.chunks[i];
            if got.len()<want.len() || got[0..want.len()]!=want[..] { return Err(format!("C01 {}: chunk {} data differs from what was stored",path,i)); }
            if got.len()>self.unit { return Err(format!("C01 {}: chunk {} longer than the allocation unit",path,i)); }
        }
        let exact = !matches!(self.fs.as_str(),"dos33"|"dos32"|"cpm2");
        if exact { if g.eof!=sh.eof { return Err(format!("C01 {}: eof {} read back as {}",path,sh.eof,g.eof)); } }
        else {
            let gran = if self.fs=="cpm2" {128} else {256};
            let rounded = (sh.eof + gran - 1)/gran*gran;
            if g.eof!=rounded && g.eof!=sh.eof { return Err(format!("C01 {}: eof {} read back as {} (expected {} rounded to {})",path,sh.eof,g.eof,rounded,gran)); }
        }
        if g.ftype!=sh.ftype && !(self.fs.starts_with("cpm") || self.fs=="fat") { return Err(format!("C01 {}: type {:?} read back as {:?}",path,sh.ftype,g.ftype)); }
        if g.aux!=sh.aux && !sh.aux.is_empty() { return Err(format!("C01 {}: aux {:?} read back as {:?}",path,sh.aux,g.aux)); }
        // access bits, apart from the archive / changed flags the file system sets itself on every write and the CP/M interface
        // attributes (name bytes 5-8), which are never stored
        let masked = |a: &Vec<u8>| -> Vec<u8> {
            let mut m = a.clone();
            match self.fs.as_str() {
                "prodos" | "fat" => { if m.len()>0 { m[0] &= !0x20; } },
                "cpm2" | "cpm3" => { for i in 4..8 { if i<m.len() { m[i] = 0; } } if m.len()>10 { m[10] = 0; } },
                _ => {}
            }
            m
        };
        if !sh.access.is_empty() && masked(&g.access)!=masked(&sh.access) { return Err(format!("C01 {}: access bits {:?} read back as {:?}",path,sh.access,g.access)); }
        Ok(g)
    }

    pub fn put(&mut self,path: &str,idx: &Vec<usize>,eof_in_last: usize,ftype: Option<usize>,aux: Option<usize>,vouched: bool,free_before: usize) -> (String,Option<String>) {
        // eof_in_last: bytes used in the chunk `end-1` (1..=unit); the last chunk present holds that many bytes if it is the end chunk
        let id = self.next_id; self.next_id += 1;
        let mut f: FileImage = match self.disk.new_fimg(None,false,path) { Ok(f) => f, Err(_) => return ("ref".to_string(),None) };
        let unit = f.chunk_len;
        let end = idx.iter().max().map(|m| m+1).unwrap_or(0);
        let mut sh = Shadow { id, is_dir: false, chunks: BTreeMap::new(), eof: 0, ftype: vec![], aux: vec![], access: vec![], locked: false, got: None };
        for i in idx {
            let len = if *i+1==end { eof_in_last.min(unit).max(1) } else { unit };
            f.chunks.insert(*i,payload(id,*i,len));
            sh.chunks.insert(*i,len);
        }
        let eof = if end==0 {0} else { (end-1)*unit + eof_in_last.min(unit).max(1) };
        f.set_eof(eof);
        sh.eof = eof;
        if let Some(t) = ftype { f.fs_type = le_bytes(t,f.fs_type.len().max(1)); }
        if let Some(a) = aux { if !f.aux.is_empty() { f.aux = le_bytes(a,f.aux.len()); } }
        if self.fs=="prodos" { f.access = vec![0xE3]; }
        // CP/M: the access field carries the high bits of the 11 name bytes; those of bytes 5-8 are interface attributes that are
        // never stored on disk -- a file image that has them set is still a file image of this file
        if self.fs.starts_with("cpm") && f.access.len()==11 && id%3==0 { f.access[4 + id%4] |= 0x80; }
        // the attributes f1-f4 and "system" are stored in every directory entry of the file and have no effect on the operations
        if self.fs.starts_with("cpm") && f.access.len()==11 && id%2==0 { f.access[id%4] |= 0x80; if id%4==2 { f.access[9] |= 0x80; } }
        sh.ftype = f.fs_type.clone(); sh.aux = f.aux.clone(); sh.access = f.access.clone();
        let key = norm_path(&self.fs,path);
        let existed = self.shadow.contains_key(&key);
        let r = self.disk.put(&f);
        match r {
            Ok(_) => {
                if existed { return ("ok".to_string(),Some(format!("C05 put onto existing name {} was accepted",key))); }
                self.shadow.insert(key.clone(),sh);
                match self.check_put_get(&key) {
                    Ok(g) => { self.shadow.get_mut(&key).unwrap().got = Some(g); ("ok".to_string(),None) },
                    Err(e) => ("ok".to_string(),Some(e))
                }
            },
            Err(e) => {
                // C04: a dense file whose requirement (with index overhead) fits the reported free space, under a valid new name in an
                // existing directory with room, must be accepted
                if vouched && !existed && !idx.is_empty() && idx.len()==end {
                    let n = idx.len();
                    let needs = match self.fs.as_str() {
                        "dos33" | "dos32" => Some(n + 1 + (n-1)/122),
                        "prodos" => Some(n + (if n>1 {1} else {0}) + (if n>256 {1 + (n-1)/256} else {0}) + (if key.contains('/') {1} else {0})),
                        "cpm2" | "cpm3" => Some(n),
                        "fat" => Some(n + (if key.contains('/') {1} else {0})),
                        _ => None
                    };
                    let parent_ok = match key.rfind('/') { Some(i) if !self.fs.starts_with("cpm") => self.shadow.get(&key[..i]).map(|d| d.is_dir).unwrap_or(false), _ => true };
                    let siblings = self.shadow.len();
                    if let Some(nd) = needs { if nd<=free_before && parent_ok && siblings<30 {
                        return ("ref".to_string(),Some(format!("C04 put of {} refused ({}) although it needs {} units and {} are reported free",key,e,nd,free_before)));
                    } }
                }
                ("ref".to_string(),None)
            }
        }
    }
}

/// the per-step trace line the model must reproduce: result, free units, listing with eof and chunk indices
fn trace_line(r: &mut Runner,res: &str) -> String {
    let free = r.free().map(|f| f.to_string()).unwrap_or("?".to_string());
    let mut items: Vec<String> = Vec::new();
    for (p,sh) in r.shadow.iter() {
        let p = &p.replace(' ',"_");
        if sh.is_dir { items.push(format!("{}/",p)); }
        else {
            let idx: Vec<usize> = match &sh.got { Some(g) => g.chunks.keys().cloned().collect(), None => vec![] };
            items.push(format!("{}:{}",p,fmt_idx(&idx)));
        }
    }
    format!("{},{},{}",res,free,items.join("|"))
}

fn fsck_alpha(r: &mut Runner) -> Option<fsck::Alpha> {
    crate::fsckrun::alpha_of(&r.fs,&r.label,&mut r.disk)
}

/// option n: the container carries notes of several lines (CR LF and LF breaks) in every free-text metadata field it has, put through
/// the metadata interface before the history starts; a field that refuses the text is left alone
fn annotate(img: &mut Box<dyn a2kit::img::DiskImage>) {
    let typ = img.what_am_i().to_string();
    let meta = match json::parse(&img.get_metadata(None)) { Ok(m) => m, Err(_) => return };
    fn walk(node: &json::JsonValue,path: &mut Vec<String>,out: &mut Vec<Vec<String>>) {
        for (k,v) in node.entries() { path.push(k.to_string()); if v.is_object() { walk(v,path,out); } else { out.push(path.clone()); } path.pop(); }
    }
    let mut leaves = Vec::new();
    walk(&meta,&mut Vec::new(),&mut leaves);
    if typ=="woz1" || typ=="woz2" {
        for k in ["title","notes"] { leaves.push(vec![typ.clone(),"meta".to_string(),k.to_string()]); }
    }
    let free_text = ["comment","notes","creator_info","title"];
    for leaf in &leaves {
        let last = leaf.last().unwrap().as_str();
        let key = if last=="_raw" && leaf.len()>1 { leaf[leaf.len()-2].as_str() } else { last };
        if free_text.contains(&key) && last!="_pretty" {
            let _ = img.put_metadata(leaf,&json::JsonValue::String("side A of two\r\nmade for the reload check\r\nlast line\nafter a bare LF ".to_string()));
        }
    }
}

/// fsh id fs label opts ops   (ops separated by ';', fields by ':')
pub fn run(toks: &[&str]) -> String {
    let fs = toks[2]; let label = toks[3]; let opts = toks[4];
    let ops: Vec<&str> = toks[5..].join(" ").leak().split(';').filter(|s| !s.is_empty()).collect();
    let disk = match mkfs(fs,label) { Ok(d) => d, Err(e) => return format!("MKFS-ERR {}",e) };
    let mut r = Runner { fs: fs.to_string(), label: label.to_string(), disk, shadow: BTreeMap::new(), next_id: 1, unit: 0, trace: Vec::new(), stats: HashMap::new(), notes: Vec::new() };
    r.unit = match r.disk.new_fimg(None,false,if fs.starts_with("cpm") {"A.B"} else {"A"}) { Ok(f) => f.chunk_len, Err(_) => 512 };
    let do_fsck = opts.contains('k');
    let do_reload = opts.contains('r');
    if opts.contains('n') { annotate(r.disk.get_img()); }
    // focus mode "@Cxx": a failure that belongs to other properties only is noted and the history goes on, so that the later
    // symptom of property Cxx (say, two files owning one block after a wrong free count) is reached
    let focus: Option<String> = opts.find('@').map(|i| opts[i+1..i+4].to_string());
    let init_rec = crate::fsckrun::init_record(fs,label,&mut r.disk);
    let t0 = trace_line(&mut r,"init");
    r.trace.push(t0);
    let mut fail: Option<String> = None;
    let mut foreign_notes: Vec<String> = Vec::new();
    macro_rules! raise { ($m:expr) => {{
        let m: String = $m;
        let foreign = match &focus { Some(fc) => { let head = m.split(' ').next().unwrap_or(""); !head.split(',').any(|c| c==fc) && !m.contains("panicked") }, None => false };
        if foreign { if foreign_notes.len()<40 { foreign_notes.push(format!("other-property: {}",m.chars().take(160).collect::<String>())); } } else { fail = Some(m); break; }
    }} }
    for (step,op) in ops.iter().enumerate() {
        let f: Vec<&str> = op.split('~').collect();
        let free_before = r.free().unwrap_or(0);
        let mut touched: Option<String> = None;
        // C19, last sentence: changing protection or type alters nothing but the file's own directory entry.  On raw sector images
        // the bytes of the image are the bytes of the disk: take them before the operation (the buffers a2kit keeps are flushed by get_img)
        let raw_container = label.starts_with("do:") || label.starts_with("po:") || label.starts_with("img:") || label.starts_with("d13:");
        let bytes_before: Option<Vec<u8>> = if raw_container && matches!(f[0],"L"|"U"|"T") { Some(r.disk.get_img().to_bytes()) } else { None };
        let outcome = catch_unwind(AssertUnwindSafe(|| -> (String,Option<String>) {
            match f[0] {
                "P" => {
                    // P:path:chunkspec:eof_in_last[:type[:aux]]   chunkspec may be F<delta> = dense file of free+delta chunks
                    let path = f[1];
                    let idx: Vec<usize> = if f[2].starts_with('F') { let d: i64 = f[2][1..].parse().unwrap(); let n = (free_before as i64 + d).max(1) as usize; (0..n).collect() } else { parse_chunkspec(f[2]) };
                    let eil: usize = if f[3]=="U" { r.unit } else { f[3].parse().unwrap() };
                    let ty = if f.len()>4 && !f[4].is_empty() { Some(f[4].parse().unwrap()) } else { None };
                    let aux = if f.len()>5 && !f[5].is_empty() { Some(f[5].parse().unwrap()) } else { None };
                    touched = Some(norm_path(fs,path));
                    let vouched = f.len()>6 && f[6]=="v";
                    r.put(path,&idx,eil,ty,aux,vouched,free_before)
                },
                "Z" => {
                    // fill the volume with filler files until exactly k units are reported free
                    let k: usize = f[1].parse().unwrap();
                    let mut i = 0;
                    loop {
                        let cur = r.free().unwrap_or(0);
                        if cur<=k || i>40 { break; }
                        let c = cur-k;
                        let mut n = c;
                        while n>0 && needs_dense(fs,n).unwrap_or(n)>c { n -= 1; }
                        if n==0 { break; }
                        let name = if fs.starts_with("cpm") || fs=="fat" { format!("ZF{}.Z",i) } else { format!("ZF{}",i) };
                        let idx: Vec<usize> = (0..n).collect();
                        let (res,orc) = r.put(&name,&idx,r.unit,None,None,false,cur);
                        if orc.is_some() { return (res,orc); }
                        if res!="ok" { break; }
                        i += 1;
                    }
                    ("ok".to_string(),None)
                },
                "D" => {
                    let key = norm_path(fs,f[1]); touched = Some(key.clone());
                    match r.disk.delete(f[1]) {
                        Ok(()) => {
                            match r.shadow.get(&key) {
                                None => ("ok".to_string(),Some(format!("C05 delete of missing path {} accepted",key))),
                                Some(sh) if sh.locked => ("ok".to_string(),Some(format!("C19 delete of protected file {} accepted",key))),
                                Some(_) => {
                                    let pre = format!("{}/",key);
                                    if r.shadow.keys().any(|k| k.starts_with(&pre)) { ("ok".to_string(),Some(format!("C05 delete of non-empty directory {} accepted",key))) }
                                    else { r.shadow.remove(&key); ("ok".to_string(),None) }
                                }
                            }
                        },
                        Err(e) => {
                            let pre = format!("{}/",key);
                            match r.shadow.get(&key) {
                                Some(sh) if !sh.locked && !r.shadow.keys().any(|k| k.starts_with(&pre)) =>
                                    ("ref".to_string(),Some(format!("C19 delete of existing unprotected {} refused: {}",key,e))),
                                _ => ("ref".to_string(),None)
                            }
                        }
                    }
                },
                "R" => {
                    let key = norm_path(fs,f[1]); touched = Some(key.clone());
                    let newname = f[2];
                    let newkey = if fs.starts_with("cpm") { norm_path(fs,newname) } else { match key.rfind('/') { Some(i) => format!("{}/{}",&key[..i],newname.to_uppercase()), None => newname.to_uppercase() } };
                    match r.disk.rename(f[1],newname) {
                        Ok(()) => {
                            if !r.shadow.contains_key(&key) { return ("ok".to_string(),Some(format!("C05 rename of missing path {} accepted",key))); }
                            if r.shadow.contains_key(&newkey) && newkey!=key { return ("ok".to_string(),Some(format!("C05 rename of {} onto existing name {} accepted",key,newkey))); }
                            if r.shadow[&key].locked { return ("ok".to_string(),Some(format!("C19 rename of protected file {} accepted",key))); }
                            let pre = format!("{}/",key);
                            let moved: Vec<String> = r.shadow.keys().filter(|k| **k==key || k.starts_with(&pre)).cloned().collect();
                            for k in moved { let v = r.shadow.remove(&k).unwrap(); let nk = format!("{}{}",newkey,&k[key.len()..]); r.shadow.insert(nk,v); }
                            touched = Some(newkey);
                            ("ok".to_string(),None)
                        },
                        Err(_) => ("ref".to_string(),None)
                    }
                },
                "C" => {
                    // C~src~dst : fetch whatever is at src as a file image and store that image as dst (what `get -t any | put -t any`
                    // does); what comes of it is a file: it may never be another way into the blocks of src
                    let key = norm_path(fs,f[2]); touched = Some(key.clone());
                    match r.disk.get(f[1]) {
                        Ok(mut fimg) => {
                            fimg.full_path = f[2].to_string();
                            // (the image of a directory says length 0: give it the length of its data, so that what is stored is a
                            // well-formed file and only the attribute byte is out of the ordinary)
                            if fimg.get_eof()==0 { let n: usize = fimg.chunks.values().map(|c| c.len()).sum(); fimg.set_eof(n); }
                            match r.disk.put(&fimg) {
                                Ok(_) => {
                                    let mut chunks = BTreeMap::new();
                                    for (k,v) in &fimg.chunks { chunks.insert(*k,v.len()); }
                                    r.shadow.insert(key,Shadow { id: 0, is_dir: false, chunks, eof: fimg.get_eof(), ftype: vec![], aux: vec![], access: vec![], locked: false, got: None });
                                    ("ok".to_string(),None)
                                },
                                Err(_) => ("ref".to_string(),None)
                            }
                        },
                        Err(_) => ("ref".to_string(),None)
                    }
                },
                "L" | "U" => {
                    let key = norm_path(fs,f[1]); touched = Some(key.clone());
                    let res = if f[0]=="L" { r.disk.lock(f[1]) } else { r.disk.unlock(f[1]) };
                    match res {
                        Ok(()) => { if let Some(sh) = r.shadow.get_mut(&key) { sh.locked = f[0]=="L"; if let Some(g) = &mut sh.got { g.access = vec![0xEE]; g.ftype = vec![0xEE]; } ("ok".to_string(),None) }
                                    else { ("ok".to_string(),Some(format!("C05 lock/unlock of missing path {} accepted",key))) } },
                        Err(_) => ("ref".to_string(),None)
                    }
                },
                "T" => {
                    let key = norm_path(fs,f[1]); touched = Some(key.clone());
                    match r.disk.retype(f[1],f[2],f[3]) {
                        Ok(()) => { if let Some(sh) = r.shadow.get_mut(&key) { if let Some(g) = &mut sh.got { g.access = vec![0xEE]; g.ftype = vec![0xEE]; g.aux = vec![0xEE]; } } ("ok".to_string(),None) },
                        Err(_) => ("ref".to_string(),None)
                    }
                },
                "M" => {
                    let key = norm_path(fs,f[1]); touched = Some(key.clone());
                    match r.disk.create(f[1]) {
                        Ok(()) => {
                            if r.shadow.contains_key(&key) { return ("ok".to_string(),Some(format!("C05 mkdir onto existing name {} accepted",key))); }
                            r.shadow.insert(key,Shadow { id: 0, is_dir: true, chunks: BTreeMap::new(), eof: 0, ftype: vec![], aux: vec![], access: vec![], locked: false, got: None });
                            ("ok".to_string(),None)
                        },
                        Err(_) => ("ref".to_string(),None)
                    }
                },
                _ => ("skip".to_string(),None)
            }
        }));
        let (res,oracle) = match outcome {
            Ok(x) => x,
            Err(e) => {
                let msg = if let Some(s) = e.downcast_ref::<String>() { s.clone() } else if let Some(s) = e.downcast_ref::<&str>() { s.to_string() } else { "?".to_string() };
                fail = Some(format!("C04 panicked: {} [step {} op {}]",msg.replace('\n'," "),step,op)); break; }
        };
        r.bump(&format!("{}-{}",f[0],res));
        if let Some(e) = oracle { raise!(format!("{} [step {} op {}]",e,step,op)); }
        if let Some(before) = bytes_before {
            let after = r.disk.get_img().to_bytes();
            let diff: Vec<usize> = (0..before.len().min(after.len())).filter(|i| before[*i]!=after[*i]).collect();
            // one entry is at most 39 bytes (ProDOS); a CP/M file has one entry per extent and a ProDOS directory header may be touched too
            let extents = if fs.starts_with("cpm") { 1 + touched.as_ref().and_then(|k| r.shadow.get(k)).map(|sh| sh.chunks.keys().max().map(|m| m/8).unwrap_or(0)).unwrap_or(0) } else { 1 };
            if before.len()!=after.len() || diff.len() > 16*extents + 24 {
                raise!(format!("C19 {} of {} changed {} bytes of the image (first at offset {}), more than the file's own directory entry [step {} op {} res {}]",
                    f[0],touched.clone().unwrap_or_default(),diff.len(),diff.first().cloned().unwrap_or(0),step,op,res));
            }
        }
        // after lock/unlock/retype the touched file's metadata legitimately changed: refresh its reference read
        if matches!(f[0],"L"|"U"|"T"|"R") && res=="ok" {
            if let Some(k) = &touched { if r.shadow.get(k).map(|sh| !sh.is_dir).unwrap_or(false) {
                match do_get(&mut r.disk,&api_path(&r.fs,k)) {
                    Ok(g) => {
                        let sh = r.shadow.get_mut(k).unwrap();
                        if let Some(prev) = &sh.got { if prev.chunks!=g.chunks || prev.eof!=g.eof { raise!(format!("C19 {} of {} altered data or length [step {}]",f[0],k,step)); } }
                        sh.got = Some(g);
                    },
                    Err(e) => { raise!(format!("C19 get of {} after {} failed: {} [step {}]",k,f[0],e,step)); }
                }
            } }
            if fail.is_some() { break; }
        }
        if res=="ref" {
            // a refused operation changes nothing: free count as before
            let free_after = r.free().unwrap_or(0);
            if free_after!=free_before { r.notes.push(format!("refused op {} at step {} changed free {}->{}",op,step,free_before,free_after)); }
        }
        // structure first: a broken allocation structure is the root cause of whatever the observations then show
        if do_fsck {
            match catch_unwind(AssertUnwindSafe(|| fsck_alpha(&mut r))) {
                Ok(Some(a)) => {
                    let v = a.check();
                    if !v.is_empty() { raise!(format!("C03 fsck: {} [step {} op {} res {}]",v[..v.len().min(3)].join("; "),step,op,res)); }
                    let free = r.free().unwrap_or(0);
                    if a.free_units()!=free { raise!(format!("C04 reported free {} but the allocation map has {} free units [step {} op {}]",free,a.free_units(),step,op)); }
                    let leaked = a.leaked();
                    if !leaked.is_empty() {
                        if r.stats.keys().all(|k| !k.ends_with("-ref")) { raise!(format!("C04 units {:?} marked used but owned by nothing after successful operations only [step {} op {}]",&leaked[..leaked.len().min(8)],step,op)); }
                        else { r.notes.push(format!("leak after a refused op: {} units",leaked.len())); }
                    }
                    // C03 also: listing of the independent reader = shadow
                    let mut names: Vec<(String,bool)> = a.entries.iter().map(|e| (crate::fsckrun::canon_path(&r.fs,&e.path),e.is_dir)).collect();
                    names.sort();
                    let want: Vec<(String,bool)> = r.shadow.iter().map(|(k,v)| (k.clone(),v.is_dir)).collect();
                    if names!=want { raise!(format!("C03 independent reading lists {:?} but history says {:?} [step {} op {}]",names.iter().filter(|x| !want.contains(x)).collect::<Vec<_>>(),want.iter().filter(|x| !names.contains(x)).collect::<Vec<_>>(),step,op)); }
                },
                Ok(None) => {},
                Err(_) => { raise!(format!("C03 fsck reader panicked [step {} op {}]",step,op)); }
            }
        }
        // option e (long fill histories): every file is read back only every 100th step and near the end
        let sparse_checks = opts.contains('e') && !(step%100==99 || step+6>=ops.len());
        match if sparse_checks { Ok(Ok(())) } else { catch_unwind(AssertUnwindSafe(|| r.check_all(step,&touched))) } {
            Ok(Ok(())) => {},
            Ok(Err(e)) => { raise!(format!("{} [step {} op {} res {}]",e,step,op,res)); },
            Err(_) => { raise!(format!("C12 observation panicked [step {} op {}]",step,op)); }
        }
        // C04: put followed by delete restores free (checked when the generator emits D right after P of the same path)
        let tl = trace_line(&mut r,&res);
        r.trace.push(tl);
        if do_reload && (step%4==3 || step+1==ops.len()) {
            if let Err(e) = crate::fsckrun::reload_check(&mut r) { raise!(format!("C06 {} [step {} op {}]",e,step,op)); }
        }
    }
    // C05: the glob of the whole volume lists exactly the stored files under their true paths
    if fail.is_none() && (fs=="fat" || fs=="prodos") {
        if let Ok(found) = r.disk.glob("**",false) {
            // (ProDOS paths start with the volume name)
            let mut got: Vec<String> = found.iter().map(|p| { let t = p.trim_start_matches('/'); let t = if fs=="prodos" { match t.find('/') { Some(i) => &t[i+1..], None => t } } else { t }; t.to_uppercase() }).collect();
            got.sort(); got.dedup();
            let mut want: Vec<String> = r.shadow.iter().filter(|(_,v)| !v.is_dir).map(|(k,_)| k.to_uppercase()).collect();
            want.sort();
            if got!=want {
                let extra: Vec<&String> = got.iter().filter(|x| !want.contains(x)).take(4).collect();
                let missing: Vec<&String> = want.iter().filter(|x| !got.contains(x)).take(4).collect();
                let m = format!("C05 glob of the whole volume differs from the history: unexpected {:?} missing {:?}",extra,missing);
                let foreign = match &focus { Some(fc) => fc!="C05", None => false };
                if foreign { foreign_notes.push(format!("other-property: {}",m)); } else { fail = Some(m); }
            }
        }
    }
    r.notes.append(&mut foreign_notes);
    let mut stats: Vec<String> = r.stats.iter().map(|(k,v)| format!("{}={}",k,v)).collect();
    stats.sort();
    let head = match fail { Some(e) => format!("FAIL {}",e), None => format!("ok {}",stats.join(",")) };
    format!("{} ;; {} ;; {} ;; {}",head,r.trace.join(" "),r.notes.join("|"),init_rec)
}
