//! glue between the history runner and the independent readers; reload (C06) check
use a2kit::fs::{DiskFS,Block};
use a2kit::img::DiskImage;
use crate::fsck::{self,Dev,Alpha};
use crate::fsrun::Runner;
use crate::geom::*;

/// allocation units read through the image layer (container correctness is the business of C07/C08)
struct ImgDev<'a> { img: &'a mut Box<dyn DiskImage>, mode: Mode }
enum Mode { Dos(usize), Dos13, Po, Cpm(u8,u16), FatSec(usize /*spt*/) }
impl<'a> Dev for ImgDev<'a> {
    fn read(&mut self,unit: usize) -> Option<Vec<u8>> {
        let r = std::panic::catch_unwind(std::panic::AssertUnwindSafe(|| match self.mode {
            Mode::Dos(spt) => self.img.read_block(Block::DO([unit/spt,unit%spt])),
            Mode::Dos13 => self.img.read_block(Block::D13([unit/13,unit%13])),
            Mode::Po => self.img.read_block(Block::PO(unit)),
            Mode::Cpm(bsh,off) => self.img.read_block(Block::CPM((unit,bsh,off))),
            Mode::FatSec(_) => self.img.read_block(Block::FAT((unit as u64,1)))
        }));
        match r { Ok(Ok(v)) => Some(v), _ => None }
    }
}

pub fn canon_path(fs: &str,p: &str) -> String {
    match fs {
        "prodos" | "fat" => p.trim_start_matches('/').to_uppercase(),
        "cpm2" | "cpm3" => p.to_uppercase().replacen(':',"/",1),
        _ => p.to_uppercase()
    }
}

pub fn alpha_of(fs: &str,label: &str,disk: &mut Box<dyn DiskFS>) -> Option<Alpha> {
    let kname = label.split(':').nth(1).unwrap_or("5.25in");
    let g = geom(kname);
    let img = disk.get_img();
    let a = match fs {
        "dos33" => fsck::dos3x::read(&mut ImgDev{img,mode:Mode::Dos(16)},35,16),
        "dos32" => fsck::dos3x::read(&mut ImgDev{img,mode:Mode::Dos13},35,13),
        "prodos" => fsck::prodos::read(&mut ImgDev{img,mode:Mode::Po}),
        "pascal" => fsck::pascal::read(&mut ImgDev{img,mode:Mode::Po}),
        "cpm2" | "cpm3" => {
            let d = a2kit::bios::dpb::DiskParameterBlock::create(&kind_of(kname));
            let p = fsck::cpm::CpmParams { bsh: d.bsh, dsm: d.dsm, drm: d.drm, al0: d.al0, al1: d.al1, exm: d.exm };
            fsck::cpm::read(&mut ImgDev{img,mode:Mode::Cpm(d.bsh,d.off)},&p)
        },
        "fat" => {
            let mut dev = ImgDev{img,mode:Mode::FatSec(g.zones[0].spt)};
            let boot = dev.read(0)?;
            let p = fsck::fat::params_from_boot(&boot)?;
            fsck::fat::read(&mut dev,&p)
        },
        _ => return None
    };
    if a.total_units==0 { return None; }  // stub reader
    Some(a)
}

fn ext_of(label: &str) -> &'static str {
    match label.split(':').next().unwrap() {
        "do" => "do", "po" => "po", "d13" => "d13", "nib" => "nib", "woz1" | "woz2" => "woz", "img" => "img", "imd" => "imd", "td0" => "td0", _ => "2mg"
    }
}

/// C06: serialise, load the bytes again with and without the extension hint, compare what the user sees
pub fn reload_check(r: &mut Runner) -> Result<(),String> {
    let bytes = r.disk.get_img().to_bytes();
    let free = r.free()?;
    let kind_live = r.disk.get_img().kind();
    let type_live = r.disk.get_img().what_am_i();
    for hint in [Some(ext_of(&r.label)),None] {
        // CP/M and the DOS-ordered DSK formats cannot be told apart without the hint in every case; a2kit tries in a fixed order
        let mut d2 = match a2kit::create_fs_from_bytestream(&bytes,hint) {
            Ok(d) => d,
            Err(e) => return Err(format!("reload (hint {:?}) failed: {}",hint,e))
        };
        let s2 = d2.stat().map_err(|e| e.to_string())?;
        let s1 = r.disk.stat().map_err(|e| e.to_string())?;
        if s2.fs_name!=s1.fs_name { return Err(format!("reload (hint {:?}) mounted as {} instead of {}",hint,s2.fs_name,s1.fs_name)); }
        if s2.free_blocks!=free { return Err(format!("reload (hint {:?}): free {} became {}",hint,free,s2.free_blocks)); }
        if hint.is_some() {
            if d2.get_img().what_am_i()!=type_live { return Err(format!("reload: image type changed to {}",d2.get_img().what_am_i())); }
            // IMD, TD0 and raw IMG record the geometry but not the package (a 3 inch and a 5.25 inch disk of the same layout are the same
            // bytes): for them only the layout has to survive
            let layout = |k: &a2kit::img::DiskKind| { let s = format!("{}",k); match s.find("inch") { Some(i) => s[i..].to_string(), None => s } };
            let geometry_only = matches!(type_live,a2kit::img::DiskImageType::IMD|a2kit::img::DiskImageType::TD0|a2kit::img::DiskImageType::IMG);
            let same = if geometry_only { layout(&d2.get_img().kind())==layout(&kind_live) } else { d2.get_img().kind()==kind_live };
            if !same && !matches!(type_live,a2kit::img::DiskImageType::DO|a2kit::img::DiskImageType::PO|a2kit::img::DiskImageType::D13|a2kit::img::DiskImageType::DOT2MG) {
                return Err(format!("reload: disk kind changed from {} to {}",kind_live,d2.get_img().kind()));
            }
        }
        let t1 = r.disk.tree(true,None).map_err(|e| e.to_string())?;
        let t2 = d2.tree(true,None).map_err(|e| e.to_string())?;
        if t1!=t2 { return Err(format!("reload (hint {:?}): tree differs",hint)); }
        let paths: Vec<String> = r.shadow.iter().filter(|(_,v)| !v.is_dir).map(|(k,_)| k.clone()).collect();
        for p in paths {
            let p = if r.fs.starts_with("cpm") { p.replacen('/',":",1) } else { p };
            let f1 = r.disk.get(&p).map_err(|e| format!("get {}: {}",p,e))?;
            let f2 = d2.get(&p).map_err(|e| format!("reload (hint {:?}): get {} failed: {}",hint,p,e))?;
            if f1.chunks!=f2.chunks || f1.eof!=f2.eof || f1.fs_type!=f2.fs_type || f1.aux!=f2.aux || f1.access!=f2.access {
                return Err(format!("reload (hint {:?}): file {} differs",hint,p));
            }
        }
    }
    // saving must be idempotent: serialising again gives the same bytes
    let bytes2 = r.disk.get_img().to_bytes();
    if bytes2!=bytes { return Err("second to_bytes differs from the first".to_string()); }
    Ok(())
}

/// parameters the model needs, read off the freshly formatted volume by the independent reader:
/// "total lo used0(csv) rootcap extent_slots sub_first sub_more"
pub fn init_record(fs: &str,label: &str,disk: &mut Box<dyn DiskFS>) -> String {
    let kname = label.split(':').nth(1).unwrap_or("5.25in");
    let a = match alpha_of(fs,label,disk) { Some(a) => a, None => return "none".to_string() };
    let lo = if a.units_are_clusters {2} else {0};
    let mut used: Vec<usize> = a.marked_used.clone();
    used.sort(); used.dedup();
    let used_s = if used.is_empty() { "-".to_string() } else { used.iter().map(|u| u.to_string()).collect::<Vec<String>>().join(",") };
    let (rootcap,ext,sf,sm) = match fs {
        "dos33" => (105,0,0,0), "dos32" => (84,0,0,0), "prodos" => (51,0,12,13), "pascal" => (77,0,0,0),
        "cpm2" | "cpm3" => { let d = a2kit::bios::dpb::DiskParameterBlock::create(&kind_of(kname)); (d.drm as usize + 1,d.extent_capacity()/d.block_size(),0,0) },
        "fat" => {
            let img = disk.get_img();
            let boot = img.read_block(Block::FAT((0,1))).unwrap_or(vec![0;512]);
            // a volume label takes one root entry of the fresh volume away (first byte neither 0 nor E5, attribute bit 3)
            match fsck::fat::params_from_boot(&boot) { Some(p) => {
                let cb = p.bytes_per_sec*p.sec_per_clus;
                let root_sec = p.reserved_secs + p.num_fats*p.secs_per_fat;
                let first = img.read_block(Block::FAT((root_sec as u64,1))).unwrap_or(vec![0;512]);
                let label = if first[0]!=0 && first[0]!=0xe5 && first[11] & 8 != 0 {1} else {0};
                (p.root_entries - label,0,cb/32-2,cb/32) }, None => (0,0,0,0) }
        },
        _ => (0,0,0,0)
    };
    format!("{} {} {} {} {} {} {}",a.total_units,lo,used_s,rootcap,ext,sf,sm)
}

/// fsckfile id fs kind path : load an image file written by the CLI, run the independent reader on it:
/// the volume must be well formed, empty, nothing marked used that nothing owns, and stat must agree with the allocation map
pub fn fsck_file(toks: &[&str]) -> String {
    let fs = toks[2]; let kind = toks[3]; let path = toks[4];
    let mut disk = match a2kit::create_fs_from_file(path) { Ok(d) => d, Err(e) => return format!("FAIL cannot reopen: {}",e) };
    let label = format!("x:{}",kind);
    let free = match disk.stat() { Ok(s) => s.free_blocks, Err(e) => return format!("FAIL stat: {}",e) };
    match alpha_of(fs,&label,&mut disk) {
        Some(a) => {
            let v = a.check();
            if !v.is_empty() { return format!("FAIL fresh volume is not well formed: {}",v[..v.len().min(3)].join("; ")); }
            if !a.entries.is_empty() { return format!("FAIL fresh volume lists {} entries",a.entries.len()); }
            let leaked = a.leaked();
            if !leaked.is_empty() { return format!("FAIL fresh volume marks {} units used that belong to nothing: {:?}",leaked.len(),&leaked[..leaked.len().min(10)]); }
            if a.free_units()!=free { return format!("FAIL stat reports {} free but the allocation map has {}",free,a.free_units()); }
            format!("ok free={} total={} sys={}",free,a.total_units,a.sys.len())
        },
        None => "ok no-reader".to_string()
    }
}


/// pdtree id label chunkspec : store one file with the given chunk set on a fresh ProDOS volume, then read the structure raw
/// (directory entry, master index block, index blocks): "storage key blocks ; m:ptr,... ; chunk:block,..."
pub fn pdtree(toks: &[&str]) -> String {
    let label = toks[2];
    let mut d = match crate::fsrun::mkfs("prodos",label) { Ok(d) => d, Err(e) => return format!("MKFS-ERR {}",e) };
    // a trailing F: the last block is used to its last byte; otherwise the file ends 3 bytes before the end of its last block
    let full = toks[3].ends_with('F');
    let idx: Vec<usize> = toks[3].trim_end_matches('F').split(',').flat_map(|p| { if let Some((a,b)) = p.split_once('-') { (a.parse::<usize>().unwrap()..=b.parse::<usize>().unwrap()).collect::<Vec<usize>>() } else { vec![p.parse::<usize>().unwrap()] } }).collect();
    let mut f = match d.new_fimg(None,false,"T") { Ok(f) => f, Err(e) => return format!("ERR {}",e) };
    let end = idx.iter().max().map(|m| m+1).unwrap_or(0);
    for i in &idx { f.chunks.insert(*i,crate::fsrun::payload(1,*i,512)); }
    let eof = if full { end*512 } else { end*512 - 3 };
    // set_eof cuts the value to the 3 bytes of the field: hand over all its bytes, as a file image read from JSON would
    f.eof = (0..4).map(|i| ((eof >> (8*i)) & 255) as u8).collect();
    f.access = vec![0xE3];
    if let Err(e) = d.put(&f) { return format!("refused {}",e); }
    match d.get("T") { Ok(g) => if g.get_eof()!=eof { return format!("EOF-LOST stored {} read back {}",eof,g.get_eof()); }, Err(e) => return format!("GET-FAILED {}",e) }
    let img = d.get_img();
    let blk = |img: &mut Box<dyn a2kit::img::DiskImage>,b: usize| -> Vec<u8> { img.read_block(a2kit::fs::Block::PO(b)).unwrap_or(vec![0;512]) };
    let dirb = blk(img,2);
    let e = &dirb[43..82];
    let storage = (e[0] >> 4) as usize;
    let key = e[17] as usize + 256*e[18] as usize;
    let blocks = e[19] as usize + 256*e[20] as usize;
    let ptrs = |b: &Vec<u8>| -> Vec<usize> { (0..256).map(|i| b[i] as usize + 256*b[i+256] as usize).collect() };
    let mut master: Vec<String> = Vec::new();
    let mut pairs: Vec<String> = Vec::new();
    match storage {
        1 => pairs.push(format!("0:{}",key)),
        2 => { let t = ptrs(&blk(img,key)); for (j,p) in t.iter().enumerate() { if *p>0 { pairs.push(format!("{}:{}",j,p)); } } },
        3 => { let m = ptrs(&blk(img,key));
               for (g,ip) in m.iter().enumerate() { if *ip>0 { master.push(format!("{}:{}",g,ip)); let t = ptrs(&blk(img,*ip)); for (j,p) in t.iter().enumerate() { if *p>0 { pairs.push(format!("{}:{}",256*g+j,p)); } } } } },
        _ => return format!("storage {}",storage)
    }
    format!("{} {} {} ; {} ; {}",storage,key,blocks,master.join(","),pairs.join(","))
}


/// cpmext id label exm bs spx v3 chunkspec eof : store one file with the given chunk set and end of file on a fresh CP/M volume, then read
/// its directory entries raw: "idx rc lb p,p,..;..." (pointers relative to the first one handed out) | chunk indices of get | eof of get
pub fn cpmext(toks: &[&str]) -> String {
    let label = toks[2];
    let v3 = toks[6]=="1";
    let fs = if v3 {"cpm3"} else {"cpm2"};
    let mut d = match crate::fsrun::mkfs(fs,label) { Ok(d) => d, Err(e) => return format!("MKFS-ERR {}",e) };
    let idx: Vec<usize> = if toks[7]=="-" { vec![] } else { toks[7].split(',').flat_map(|p| { if let Some((a,b)) = p.split_once('-') { (a.parse::<usize>().unwrap()..=b.parse::<usize>().unwrap()).collect::<Vec<usize>>() } else { vec![p.parse::<usize>().unwrap()] } }).collect() };
    let eof: usize = toks[8].parse().unwrap();
    let mut f = match d.new_fimg(None,false,"T.DAT") { Ok(f) => f, Err(e) => return format!("ERR {}",e) };
    let unit = f.chunk_len;
    for i in &idx { f.chunks.insert(*i,crate::fsrun::payload(1,*i,unit)); }
    f.set_eof(eof);
    if let Err(e) = d.put(&f) { return format!("refused {}",e); }
    let got = match d.get("T.DAT") { Ok(g) => g, Err(e) => return format!("get-err {}",e) };
    let mut gi: Vec<usize> = got.chunks.keys().cloned().collect(); gi.sort();
    let kname = label.split(':').nth(1).unwrap_or("5.25in");
    let dpb = a2kit::bios::dpb::DiskParameterBlock::create(&crate::geom::kind_of(kname));
    let img = d.get_img();
    let mut dir: Vec<u8> = Vec::new();
    for b in 0..dpb.dir_blocks() { dir.extend_from_slice(&img.read_block(a2kit::fs::Block::CPM((b,dpb.bsh,dpb.off))).unwrap_or(vec![0xe5;dpb.block_size()])); }
    let two = dpb.ptr_size()==2;
    let mut ents: Vec<(usize,usize,usize,Vec<usize>)> = Vec::new();
    for e in dir.chunks(32).take(dpb.dir_entries()) {
        if e[0]!=0 || &e[1..9]!=b"T       " { continue; }
        let ptrs: Vec<usize> = if two { (0..8).map(|i| e[16+2*i] as usize + 256*e[17+2*i] as usize).collect() } else { e[16..32].iter().map(|x| *x as usize).collect() };
        ents.push(((e[12] & 31) as usize + 32*e[14] as usize,e[15] as usize,e[13] as usize,ptrs));
    }
    ents.sort();
    let base = ents.iter().flat_map(|e| e.3.iter().cloned()).filter(|p| *p>0).min().unwrap_or(0);
    let txt: Vec<String> = ents.iter().map(|(i,rc,lb,p)| format!("{} {} {} {}",i,rc,lb,p.iter().map(|x| if *x==0 {"-".to_string()} else {(x-base).to_string()}).collect::<Vec<String>>().join(","))).collect();
    format!("{} | {} | {}",txt.join(";"),gi.iter().map(|x| x.to_string()).collect::<Vec<String>>().join(","),got.get_eof())
}
