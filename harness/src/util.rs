pub fn unhex(s: &str) -> Vec<u8> {
    if s=="-" { return Vec::new(); }
    hex::decode(s).expect("bad hex in case file")
}
pub fn tohex(v: &[u8]) -> String { hex::encode(v) }
pub fn num(s: &str) -> usize { s.parse::<usize>().expect("bad number in case file") }
