//! C08 implementation-side oracle: random read/write sequences in one address space of one image;
//! read-after-write (zero padded / truncated to the unit), all other addresses unchanged,
//! invalid addresses refused by an error return.
use a2kit::img::DiskImage;
use a2kit::fs::Block;
use std::collections::HashMap;
use crate::geom::*;

#[derive(Clone,Copy,PartialEq,Eq,Hash,Debug)]
pub enum Addr { Sec(usize,usize,usize), DO(usize,usize), D13(usize,usize), PO(usize), CPM(usize,u8,u16), FAT(u64,u8) }

fn rd(img: &mut Box<dyn DiskImage>,a: Addr) -> Result<Vec<u8>,String> {
    let r = match a {
        Addr::Sec(c,h,s) => img.read_sector(c,h,s),
        Addr::DO(t,s) => img.read_block(Block::DO([t,s])),
        Addr::D13(t,s) => img.read_block(Block::D13([t,s])),
        Addr::PO(b) => img.read_block(Block::PO(b)),
        Addr::CPM(b,bsh,off) => img.read_block(Block::CPM((b,bsh,off))),
        Addr::FAT(s1,n) => img.read_block(Block::FAT((s1,n)))
    };
    r.map_err(|e| e.to_string())
}
fn wr(img: &mut Box<dyn DiskImage>,a: Addr,d: &[u8]) -> Result<(),String> {
    let r = match a {
        Addr::Sec(c,h,s) => img.write_sector(c,h,s,d),
        Addr::DO(t,s) => img.write_block(Block::DO([t,s]),d),
        Addr::D13(t,s) => img.write_block(Block::D13([t,s]),d),
        Addr::PO(b) => img.write_block(Block::PO(b),d),
        Addr::CPM(b,bsh,off) => img.write_block(Block::CPM((b,bsh,off)),d),
        Addr::FAT(s1,n) => img.write_block(Block::FAT((s1,n)),d)
    };
    r.map_err(|e| e.to_string())
}

/// address spaces of an image label: (name, valid addresses with unit size, invalid addresses)
pub fn spaces(label: &str) -> Vec<(String,Vec<(Addr,usize)>,Vec<Addr>)> {
    let mut it = label.split(':');
    let typ = it.next().unwrap();
    let kname = it.next().unwrap_or("5.25in");
    let g = geom(kname);
    let mut ans = Vec::new();
    // physical sectors
    if typ!="po" && typ!="2mg-po" {
        let valid: Vec<(Addr,usize)> = g.sectors().iter().map(|x| (Addr::Sec(x[0],x[1],x[2]),x[3])).collect();
        let z0 = g.zones[0];
        let zl = *g.zones.last().unwrap();
        let mut invalid = vec![Addr::Sec(g.cyls(),0,g.id_base),Addr::Sec(0,g.heads,g.id_base),Addr::Sec(0,0,g.id_base+z0.spt),
                           Addr::Sec(g.cyls()-1,0,g.id_base+zl.spt),Addr::Sec(g.cyls()+40,0,g.id_base),Addr::Sec(0,0,255)];
        if g.id_base>0 { invalid.push(Addr::Sec(0,0,g.id_base-1)); }
        // numbers that only fit the address after losing their upper bits
        invalid.append(&mut vec![Addr::Sec(0,0,256+g.id_base),Addr::Sec(1,0,256+g.id_base+1),Addr::Sec(0,0,512+g.id_base+3),Addr::Sec(0,0,65536+g.id_base),Addr::Sec(256,0,g.id_base)]);
        ans.push(("sec".to_string(),valid,invalid));
    }
    let a2_16 = kname=="5.25in";
    let a2_13 = kname=="5.25in-13";
    let a2_35 = kname.starts_with("3.5in") && !kname.contains("ibm");
    if a2_16 && typ!="po" && typ!="2mg-po" {
        let mut v = Vec::new();
        for t in 0..35 { for s in 0..16 { v.push((Addr::DO(t,s),256)); } }
        ans.push(("do".to_string(),v,vec![Addr::DO(35,0),Addr::DO(0,16),Addr::DO(34,16),Addr::DO(200,3),Addr::DO(0,256),Addr::DO(291,0),Addr::D13(5,1),Addr::D13(0,12)]));
    }
    if a2_13 {
        let mut v = Vec::new();
        for t in 0..35 { for s in 0..13 { v.push((Addr::D13(t,s),256)); } }
        // (also: sector numbers that wrap, and the address forms of other disk kinds)
        ans.push(("d13".to_string(),v,vec![Addr::D13(35,0),Addr::D13(0,13),Addr::D13(34,13),Addr::D13(200,3),Addr::D13(0,256),Addr::D13(5,256+4),Addr::D13(291,0),
                                           Addr::DO(5,4),Addr::DO(5,13),Addr::PO(10),Addr::CPM(1,3,3)]));
    }
    if a2_16 || a2_35 || kname=="hdmax" {
        let n = g.capacity()/512;
        let v: Vec<(Addr,usize)> = (0..n).map(|b| (Addr::PO(b),512)).collect();
        let mut inv = vec![Addr::PO(n),Addr::PO(n+7),Addr::PO(70000)];
        if a2_35 && typ!="po" && typ!="2mg-po" { inv.append(&mut vec![Addr::DO(1,1),Addr::D13(1,1),Addr::CPM(1,3,3)]); }
        ans.push(("po".to_string(),v,inv));
    }
    if a2_16 && typ!="po" && typ!="2mg-po" {
        // Apple CP/M: 1K blocks, 3 reserved tracks, 128 blocks
        let v: Vec<(Addr,usize)> = (0..128).map(|b| (Addr::CPM(b,3,3),1024)).collect();
        ans.push(("cpm".to_string(),v,vec![Addr::CPM(128,3,3),Addr::CPM(1000,3,3)]));
    }
    if typ=="img" || ((typ=="imd" || typ=="td0") && kname.contains("ibm")) {
        let total = g.capacity()/512;
        for n in [1usize,2] {
            let v: Vec<(Addr,usize)> = (0..total/n).map(|i| (Addr::FAT((i*n) as u64,n as u8),512*n)).collect();
            // (a block that starts on the last sector and runs beyond the end is no valid address either)
            ans.push((format!("fat{}",n),v,vec![Addr::FAT(total as u64,n as u8),Addr::FAT((total+100) as u64,n as u8),Addr::FAT((total-1) as u64,(n+1) as u8)]));
        }
    }
    if (typ=="imd" || typ=="td0") && !kname.contains("ibm") {
        let dpb = a2kit::bios::dpb::DiskParameterBlock::create(&kind_of(kname));
        let n = dpb.dsm as usize + 1;
        let v: Vec<(Addr,usize)> = (0..n).map(|b| (Addr::CPM(b,dpb.bsh,dpb.off),128usize << dpb.bsh)).collect();
        ans.push(("cpm".to_string(),v,vec![Addr::CPM(n,dpb.bsh,dpb.off),Addr::CPM(n+1,dpb.bsh,dpb.off),Addr::CPM(n+200,dpb.bsh,dpb.off),Addr::CPM(60000,dpb.bsh,dpb.off)]));
    }
    ans
}

fn expect(d: &[u8],unit: usize) -> Vec<u8> {
    let mut v = d.to_vec();
    v.resize(unit,0);
    v
}

pub fn run(toks: &[&str]) -> String {
    let label = toks[2];
    let seed: u64 = toks[3].parse().unwrap();
    let nops: usize = toks[4].parse().unwrap();
    let mut rng = Rng(seed);
    let mut img = make_image(label);
    let sp = spaces(label);
    if sp.is_empty() { return "ok no-space".to_string(); }
    let which = rng.below(sp.len());
    let (sname,valid,invalid) = &sp[which];
    let mut shadow: HashMap<Addr,Vec<u8>> = HashMap::new();
    // initial content is whatever the fresh image holds
    let mut init: HashMap<Addr,Vec<u8>> = HashMap::new();
    let mut touched: Vec<(Addr,usize)> = Vec::new();
    let (mut nw,mut nr,mut ninv) = (0,0,0);
    for op in 0..nops {
        let k = rng.below(20);
        if k==0 && !invalid.is_empty() {
            // invalid address: must be refused by an error return, and change nothing
            let a = invalid[rng.below(invalid.len())];
            ninv += 1;
            // the last addresses of the space, where a unit that runs beyond the end would land
            let tail: Vec<(Addr,usize)> = valid[valid.len().saturating_sub(48)..].to_vec();
            let before: Vec<Option<Vec<u8>>> = tail.iter().map(|(t,_)| rd(&mut img,*t).ok()).collect();
            let r = if rng.below(2)==0 { rd(&mut img,a).map(|_| ()) } else { wr(&mut img,a,&rng.bytes(2100)) };
            if r.is_ok() { return format!("FAIL op {} space {} invalid address {:?} accepted",op,sname,a); }
            for (i,(t,_)) in tail.iter().enumerate() {
                if rd(&mut img,*t).ok()!=before[i] { return format!("FAIL op {} space {} invalid address {:?} was refused but {:?} changed",op,sname,a,t); }
            }
        } else {
            // bias toward a small working set so overwrites and neighbours are exercised
            let (a,unit) = if !touched.is_empty() && rng.below(3)==0 { touched[rng.below(touched.len())] }
                else if rng.below(4)==0 { valid[[0,valid.len()-1,valid.len()/2,1.min(valid.len()-1)][rng.below(4)]] }
                else { valid[rng.below(valid.len())] };
            if !init.contains_key(&a) && !shadow.contains_key(&a) {
                match rd(&mut img,a) {
                    Ok(v) => { if v.len()!=unit { return format!("FAIL op {} space {} {:?} read length {} != unit {}",op,sname,a,v.len(),unit); } init.insert(a,v); },
                    Err(e) => return format!("FAIL op {} space {} valid address {:?} refused on read: {}",op,sname,a,e)
                }
            }
            if k<11 {
                let len = match rng.below(6) { 0 => 1, 1 => unit-1, 2 => unit+1+rng.below(40), 3 => rng.below(unit)+1, _ => unit };
                let d = rng.bytes(len);
                if let Err(e) = wr(&mut img,a,&d) { return format!("FAIL op {} space {} valid address {:?} refused on write: {}",op,sname,a,e); }
                shadow.insert(a,expect(&d,unit));
                if !touched.contains(&(a,unit)) { touched.push((a,unit)); }
                nw += 1;
            }
            let want = shadow.get(&a).or(init.get(&a)).unwrap().clone();
            match rd(&mut img,a) {
                Ok(v) => if v!=want { return format!("FAIL op {} space {} {:?} read back differs from last write (first diff at {})",op,sname,a,
                    v.iter().zip(want.iter()).position(|(x,y)| x!=y).unwrap_or(v.len().min(want.len()))); },
                Err(e) => return format!("FAIL op {} space {} {:?} read error {}",op,sname,a,e)
            }
            nr += 1;
        }
        // non-interference: every address seen so far still holds what the shadow says
        if op%16==15 || op==nops-1 {
            let keys: Vec<Addr> = init.keys().chain(shadow.keys()).cloned().collect();
            for a in keys {
                let want = shadow.get(&a).or(init.get(&a)).unwrap().clone();
                match rd(&mut img,a) {
                    Ok(v) => if v!=want { return format!("FAIL op {} space {} {:?} changed although it was not written (non-interference)",op,sname,a); },
                    Err(e) => return format!("FAIL op {} space {} {:?} read error {}",op,sname,a,e)
                }
            }
        }
    }
    // survive a serialisation round trip as well (track pointers etc. are not part of the content)
    format!("ok space={} writes={} reads={} invalid={} addrs={}",sname,nw,nr,ninv,valid.len())
}
