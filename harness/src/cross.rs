//! C07 streams: `cells` (which physical records a block write touches) and `cross` (same block-write
//! history on several containers, then every block and every physical sector must agree).
use a2kit::img::DiskImage;
use crate::geom::*;
use crate::sectorops::Addr;
use a2kit::fs::Block;

fn to_block(a: Addr) -> Block {
    match a {
        Addr::DO(t,s) => Block::DO([t,s]), Addr::D13(t,s) => Block::D13([t,s]), Addr::PO(b) => Block::PO(b),
        Addr::CPM(b,bsh,off) => Block::CPM((b,bsh,off)), Addr::FAT(s1,n) => Block::FAT((s1,n)),
        Addr::Sec(_,_,_) => panic!("not a block")
    }
}

fn parse_block(btype: &str,args: &[&str]) -> (Addr,usize) {
    let n = |i: usize| args[i].parse::<usize>().unwrap();
    match btype {
        "do" => (Addr::DO(n(0),n(1)),256),
        "d13" => (Addr::D13(n(0),n(1)),256),
        "po" => (Addr::PO(n(0)),512),
        "cpm" => (Addr::CPM(n(0),n(1) as u8,n(2) as u16),128usize << n(1)),
        "fat" => (Addr::FAT(n(0) as u64,n(1) as u8),0),
        _ => panic!("btype")
    }
}

/// cells id label btype args.. : write chunk-numbered data into the block of a fresh image and report where each
/// 128-byte record landed, found by scanning every physical sector
pub fn cells(toks: &[&str]) -> String {
    let label = toks[2];
    let kname = label.split(':').nth(1).unwrap_or("5.25in");
    let g = geom(kname);
    let mut img = make_image(label);
    let (addr,mut unit) = parse_block(toks[4],&toks[5..]);
    if let Addr::FAT(_,n) = addr { unit = n as usize * g.zones[0].secsize; }
    let dat: Vec<u8> = (0..unit).map(|i| (1 + i/128) as u8).collect();
    if let Err(e) = img.write_block(to_block(addr),&dat) { return format!("write-err:{}",e); }
    let mut found: Vec<(usize,String)> = Vec::new();
    for [c,h,s,size] in g.sectors() {
        let v = match img.read_sector(c,h,s) { Ok(v) => v, Err(e) => return format!("scan-err:{},{},{}:{}",c,h,s,e) };
        if v.len()!=size { return format!("scan-len:{},{},{}:{}",c,h,s,v.len()); }
        for j in 0..size/128 {
            let r = &v[j*128..(j+1)*128];
            if r[0]!=0 && r.iter().all(|x| *x==r[0]) { found.push((r[0] as usize - 1,format!("{},{},{},{}",c,h,s,j*128))); }
        }
    }
    found.sort();
    if found.len()!=unit/128 || found.iter().enumerate().any(|(i,f)| f.0!=i) { return format!("bad-cover:{:?}",found); }
    found.iter().map(|f| f.1.clone()).collect::<Vec<String>>().join(";")
}

/// cross id seed nops btype label1 label2 ... : same block writes on every container; all blocks and sectors must agree
pub fn cross(toks: &[&str]) -> String {
    let seed: u64 = toks[2].parse().unwrap();
    let nops: usize = toks[3].parse().unwrap();
    let btype = toks[4];
    let labels: Vec<&str> = toks[5..].to_vec();
    let mut imgs: Vec<Box<dyn DiskImage>> = labels.iter().map(|l| make_image(l)).collect();
    // address space = the one of this block type in the first label
    let sp = crate::sectorops::spaces(labels[0]);
    let space = sp.iter().find(|s| s.0==btype || (btype=="fat" && s.0=="fat1")).expect("block type not in first label");
    let valid = &space.1;
    let mut rng = Rng(seed);
    // a small working set is rewritten often (stale tails, overwrite order), the rest is spread over the disk
    let hot: Vec<(Addr,usize)> = (0..6).map(|_| valid[rng.below(valid.len())]).collect();
    for _op in 0..nops {
        let (a,unit) = if rng.below(2)==0 { hot[rng.below(hot.len())] } else { valid[rng.below(valid.len())] };
        let len = match rng.below(4) { 0 => 1 + rng.below(unit), 1 => unit + rng.below(9), _ => unit };
        let d = rng.bytes(len);
        for (i,img) in imgs.iter_mut().enumerate() {
            if let Err(e) = img.write_block(to_block(a),&d) { return format!("FAIL write {:?} refused on {}: {}",a,labels[i],e); }
        }
        // the command line saves and loads the image around every operation: now and then, and after the last operation, every
        // container is serialised and parsed again before the volumes are compared
        if _op+1==nops || rng.below(12)==0 {
            for i in 0..imgs.len() {
                let bytes = imgs[i].to_bytes();
                let ext = match labels[i].split(':').next().unwrap() { "woz1" | "woz2" => "woz", x if x.starts_with("2mg") => "2mg", x => x };
                // raw sector dumps do not record the disk kind; the other formats must come back as the same kind of image
                if matches!(ext,"do"|"po"|"d13"|"img"|"nib") { continue; }
                match a2kit::create_img_from_bytestream(&bytes,Some(ext)) {
                    Ok(img2) => { if img2.what_am_i()!=imgs[i].what_am_i() { return format!("FAIL {} reloaded as {}",labels[i],img2.what_am_i()); } imgs[i] = img2; },
                    Err(e) => return format!("FAIL {} cannot be parsed back after serialising: {}",labels[i],e)
                }
            }
        }
    }
    // every block
    for (a,_unit) in valid {
        let r0 = match imgs[0].read_block(to_block(*a)) { Ok(v) => v, Err(e) => return format!("FAIL read {:?} on {}: {}",a,labels[0],e) };
        for i in 1..imgs.len() {
            match imgs[i].read_block(to_block(*a)) {
                Ok(v) => if v!=r0 { return format!("FAIL block {:?} differs between {} and {}",a,labels[0],labels[i]); },
                Err(e) => return format!("FAIL read {:?} on {}: {}",a,labels[i],e)
            }
        }
    }
    // every physical sector, among the containers that have a sector API
    let kname = labels[0].split(':').nth(1).unwrap_or("5.25in");
    let g = geom(kname);
    let with_sec: Vec<usize> = (0..labels.len()).filter(|i| !labels[*i].starts_with("po") && !labels[*i].starts_with("2mg-po")).collect();
    let mut nsec = 0;
    if with_sec.len()>1 {
        for [c,h,s,_] in g.sectors() {
            let r0 = match imgs[with_sec[0]].read_sector(c,h,s) { Ok(v) => v, Err(e) => return format!("FAIL sector {},{},{} on {}: {}",c,h,s,labels[with_sec[0]],e) };
            for &i in &with_sec[1..] {
                match imgs[i].read_sector(c,h,s) {
                    Ok(v) => if v!=r0 { return format!("FAIL sector {},{},{} differs between {} and {}",c,h,s,labels[with_sec[0]],labels[i]); },
                    Err(e) => return format!("FAIL sector {},{},{} on {}: {}",c,h,s,labels[i],e)
                }
            }
            nsec += 1;
        }
    }
    format!("ok blocks={} sectors={} containers={}",valid.len(),nsec,labels.len())
}

/// imgcmp id unit kind path1 path2 : two image files made for the same disk kind hold the same content in every block (unit = po) or
/// every physical sector (unit = sec); wall-clock fields of the volume header are masked by the caller choosing volumes without them
pub fn imgcmp(toks: &[&str]) -> String {
    let unit = toks[2];
    let mut a = match a2kit::create_img_from_file(toks[4]) { Ok(i) => i, Err(e) => return format!("FAIL {} does not load: {}",toks[4],e) };
    let mut b = match a2kit::create_img_from_file(toks[5]) { Ok(i) => i, Err(e) => return format!("FAIL {} does not load: {}",toks[5],e) };
    if unit=="po" && a.byte_capacity()!=b.byte_capacity() { return format!("FAIL capacities differ: {} / {}",a.byte_capacity(),b.byte_capacity()); }
    let mut n = 0;
    if unit=="po" {
        for blk in 0..a.byte_capacity()/512 {
            let x = a.read_block(a2kit::fs::Block::PO(blk)).map_err(|e| e.to_string());
            let y = b.read_block(a2kit::fs::Block::PO(blk)).map_err(|e| e.to_string());
            if x!=y {
                let nd = match (&x,&y) { (Ok(u),Ok(v)) => u.iter().zip(v.iter()).filter(|(p,q)| p!=q).count(), _ => 0 };
                return format!("FAIL block {} differs between the two image types ({} bytes differ)",blk,nd);
            }
            n += 1;
        }
    } else {
        let g = geom(toks[3]);
        for [c,h,sec,_] in g.sectors() {
            let x = a.read_sector(c,h,sec).map_err(|e| e.to_string());
            let y = b.read_sector(c,h,sec).map_err(|e| e.to_string());
            if x!=y { return format!("FAIL sector {},{},{} differs between the two image types",c,h,sec); }
            n += 1;
        }
    }
    format!("ok same units={}",n)
}
