//! image-layer correspondence streams (C07/C08/C09)
use a2kit::img::{self,DiskImage,TrackBits,NibbleError};
use a2kit::img::disk525;
use crate::util::*;

fn nib_err(e: &NibbleError) -> String {
    match e {
        NibbleError::InvalidByte => "err:1".to_string(),
        NibbleError::BadChecksum => "err:2".to_string(),
        NibbleError::BadTrack => "err:3".to_string(),
        NibbleError::BitPatternNotFound => "err:4".to_string(),
        NibbleError::SectorNotFound => "err:5".to_string(),
        NibbleError::NibbleType => "err:6".to_string()
    }
}

/// byte offset of the data nibbles of the idx-th sector on an 8-bit-sync (byte aligned) track
fn data_off(idx: usize,data_nibs: usize) -> usize {
    40 + idx*(14 + 10 + 3 + data_nibs + 3 + 20) + 14 + 10 + 3
}

pub fn dispatch(toks: &[&str]) -> String {
    match toks[0] {
        "enc62" | "enc53" => {
            let dat = unhex(toks[3]);
            let is13 = toks[0]=="enc53";
            let (mut bits,mut tb): (Vec<u8>,Box<dyn TrackBits>) = match is13 {
                true => disk525::format_std13_track(254,0,6656,8),
                false => disk525::format_std16_track(254,0,6656,8)
            };
            match tb.write_sector(&mut bits,&dat,0,0) {
                Ok(()) => {
                    let n = if is13 {411} else {343};
                    let off = data_off(0,n);
                    tohex(&bits[off..off+n])
                },
                Err(e) => nib_err(&e)
            }
        },
        "dec62" | "dec53" => {
            let nibs = unhex(toks[4]);
            let is13 = toks[0]=="dec53";
            let (mut bits,mut tb): (Vec<u8>,Box<dyn TrackBits>) = match is13 {
                true => disk525::format_std13_track(254,0,6656,8),
                false => disk525::format_std16_track(254,0,6656,8)
            };
            // make sure a data field exists, then overwrite its nibbles
            tb.write_sector(&mut bits,&vec![0;256],0,0).expect("write failed");
            let n = if is13 {411} else {343};
            let off = data_off(0,n);
            bits[off..off+n].copy_from_slice(&nibs);
            tb.reset();
            match tb.read_sector(&bits,0,0) {
                Ok(v) => format!("ok:{}",tohex(&v)),
                Err(e) => nib_err(&e)
            }
        },
        "enc35" | "dec35" => {
            // the data field of sector 0 on a freshly formatted 3.5 inch track: 36 ten-bit sync bytes, address field (10 bytes),
            // 6 ten-bit sync bytes, data prolog (3), sector nibble (1), then the 703 nibbles
            let off_bits = 36*10 + 10*8 + 6*10 + 4*8;
            let (mut bits,mut tb) = a2kit::img::disk35::create_std_track(0,1,10240);
            let getbit = |bits: &Vec<u8>,i: usize| (bits[i/8] >> (7 - i%8)) & 1;
            if toks[0]=="enc35" {
                let dat = unhex(toks[2]);
                match tb.write_sector(&mut bits,&dat,0,0) {
                    Ok(()) => {
                        let mut nibs: Vec<u8> = Vec::new();
                        for n in 0..703 { let mut v = 0u8; for b in 0..8 { v = v*2 + getbit(&bits,off_bits + n*8 + b); } nibs.push(v); }
                        tohex(&nibs)
                    },
                    Err(e) => nib_err(&e)
                }
            } else {
                let nibs = unhex(toks[2]);
                for (n,v) in nibs.iter().enumerate().take(703) {
                    for b in 0..8 { let i = off_bits + n*8 + b; let bit = (v >> (7-b)) & 1; bits[i/8] = (bits[i/8] & !(1 << (7 - i%8))) | (bit << (7 - i%8)); }
                }
                tb.reset();
                match tb.read_sector(&bits,0,0) {
                    Ok(v) => format!("ok:{}",tohex(&v)),
                    Err(e) => nib_err(&e)
                }
            }
        },
        "trk35" => {
            // trk35 id sides track (sector hex)* : writes through the WOZ2 image, then the packed track buffer
            let sides = num(toks[2]); let trk = num(toks[3]);
            let kind = if sides==1 { img::names::A2_400_KIND } else { img::names::A2_800_KIND };
            let mut disk: Box<dyn DiskImage> = Box::new(img::woz2::Woz2::create(254,kind));
            let (cyl,head) = if sides==1 { (trk,0) } else { (trk/2,trk%2) };
            let mut i = 4;
            while i+1 < toks.len() {
                let sec = num(toks[i]);
                let dat = if toks[i+1]=="-" { Vec::new() } else { unhex(toks[i+1]) };
                if let Err(e) = disk.write_sector(cyl,head,sec,&dat) {
                    // a sector number that is not on the track is refused; the model leaves the track alone
                    let _ = e;
                }
                i += 2;
            }
            match disk.get_track_buf(cyl,head) {
                Ok(buf) => tohex(&buf),
                Err(e) => format!("buf-err:{}",e)
            }
        },
        "trk" => {
            let is13 = toks[2]=="1";
            let sync = num(toks[3]);
            let buflen = num(toks[5]);
            let vol = num(toks[6]) as u8;
            let trk = num(toks[7]);
            let kind = if is13 { img::names::A2_DOS32_KIND } else { img::names::A2_DOS33_KIND };
            let mut disk: Box<dyn DiskImage> = match (sync,buflen) {
                (8,_) => Box::new(img::nib::Nib::create(vol,kind)),
                (_,6646) => Box::new(img::woz1::Woz1::create(vol,kind)),
                _ => Box::new(img::woz2::Woz2::create(vol,kind))
            };
            let mut i = 8;
            while i+1 < toks.len() {
                let sec = num(toks[i]);
                let dat = unhex(toks[i+1]);
                if let Err(e) = disk.write_sector(trk,0,sec,&dat) {
                    return format!("write-err:{}",e);
                }
                i += 2;
            }
            match disk.get_track_buf(trk,0) {
                Ok(buf) => tohex(&buf),
                Err(e) => format!("buf-err:{}",e)
            }
        },
        _ => "unsupported".to_string()
    }
}
