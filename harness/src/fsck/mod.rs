//! Independent readers ("fsck") of the five file systems.  They share NO code with a2kit's fs modules:
//! each parses the raw allocation units of an image, written from the format documents, and yields the
//! abstract state alpha(image): every directory entry with its metadata and the units it owns, the system
//! units, the units the allocation map marks used, the header counters.  `check` then evaluates the
//! well-formedness conditions of property C03 generically.
use std::collections::{HashMap,HashSet};

pub mod dos3x;
pub mod prodos;
pub mod pascal;
pub mod cpm;
pub mod fat;

/// Access to the raw allocation units of a volume.  The unit is the file system's native one:
/// DOS 3.x: 256-byte sector, unit = track*sectors_per_track + sector;  ProDOS / Pascal: 512-byte block;
/// CP/M: DPB block (128 << bsh bytes), unit = absolute block number as stored in the directory;
/// FAT: logical sector (boot sector = 0); cluster n>=2 starts at logical sector data_start + (n-2)*sec_per_clus.
pub trait Dev {
    /// None when the unit does not exist on the device
    fn read(&mut self,unit: usize) -> Option<Vec<u8>>;
}

#[derive(Clone,Debug,Default)]
pub struct FEntry {
    /// full path: "NAME" (DOS 3.x, Pascal), "/DIR/NAME" without volume prefix (ProDOS), "user:NAME.TYP" (CP/M), "/DIR/NAME.EXT" (FAT)
    pub path: String,
    pub is_dir: bool,
    pub ftype: u32,
    pub aux: u32,
    /// raw access/attribute/flag bits of the entry (DOS: 1 if locked; ProDOS access byte; CP/M: bit0 read-only, bit1 system, bit2 archive; FAT attribute byte)
    pub access: u32,
    pub eof: u64,
    /// (chunk index, unit number) for every data unit the file owns, in chunk order (holes are simply absent)
    pub chunks: Vec<(usize,usize)>,
    /// other units owned by the file: TS-list sectors, index/master blocks, subdirectory blocks/clusters
    pub meta: Vec<usize>,
    /// blocks the entry's `blocks used` / sector count field claims (0 if the FS has no such field)
    pub blocks_field: u64,
    /// where the entry itself lives: (unit, slot)
    pub entry_loc: (usize,usize)
}

#[derive(Clone,Debug,Default)]
pub struct Alpha {
    pub entries: Vec<FEntry>,
    /// units that belong to the file system itself (boot, VTOC, bitmap, FAT, volume/root directory, reserved tracks)
    pub sys: Vec<usize>,
    /// units the allocation map marks as in use (for CP/M and Pascal, which have no map: sys + all owned units)
    pub marked_used: Vec<usize>,
    /// number of allocatable units on the volume (range of valid unit numbers is 0..total_units; FAT: cluster numbers 2..total_units)
    pub total_units: usize,
    /// problems found while walking structures: cycles, unterminated chains, out-of-range pointers met during the walk, malformed entries
    pub problems: Vec<String>,
    /// (name, stored value, actual value) for every header counter (ProDOS file_count per directory, Pascal num_files, ...)
    pub counters: Vec<(String,i64,i64)>,
    /// for FAT: true when unit numbers in entries/marked_used are cluster numbers (>=2) rather than sectors
    pub units_are_clusters: bool
}

impl Alpha {
    /// The well-formedness conditions of C03, evaluated on the abstract state.  Returns the list of violations.
    pub fn check(&self) -> Vec<String> {
        let mut v: Vec<String> = self.problems.clone();
        let lo = if self.units_are_clusters {2} else {0};
        let mut owner: HashMap<usize,String> = HashMap::new();
        let sys: HashSet<usize> = self.sys.iter().cloned().collect();
        let used: HashSet<usize> = self.marked_used.iter().cloned().collect();
        for e in &self.entries {
            let units: Vec<usize> = e.chunks.iter().map(|c| c.1).chain(e.meta.iter().cloned()).collect();
            for u in units {
                if u<lo || u>=self.total_units { v.push(format!("{}: unit {} outside the volume (0..{})",e.path,u,self.total_units)); continue; }
                if sys.contains(&u) { v.push(format!("{}: unit {} is a system unit",e.path,u)); }
                if !used.contains(&u) { v.push(format!("{}: unit {} is not marked in use",e.path,u)); }
                if let Some(o) = owner.get(&u) { v.push(format!("unit {} owned by both {} and {}",u,o,e.path)); }
                else { owner.insert(u,e.path.clone()); }
            }
        }
        for (name,stored,actual) in &self.counters {
            if stored!=actual { v.push(format!("counter {}: stored {} actual {}",name,stored,actual)); }
        }
        let mut names: HashSet<String> = HashSet::new();
        for e in &self.entries {
            if !names.insert(e.path.clone()) { v.push(format!("duplicate name {}",e.path)); }
        }
        v
    }
    /// units marked used that nothing owns (leaks); not a C03 violation by itself
    pub fn leaked(&self) -> Vec<usize> {
        let mut owned: HashSet<usize> = self.sys.iter().cloned().collect();
        for e in &self.entries { for c in &e.chunks { owned.insert(c.1); } for m in &e.meta { owned.insert(*m); } }
        let mut l: Vec<usize> = self.marked_used.iter().filter(|u| !owned.contains(u)).cloned().collect();
        l.sort();
        l
    }
    pub fn free_units(&self) -> usize {
        let lo = if self.units_are_clusters {2} else {0};
        let used: HashSet<usize> = self.marked_used.iter().filter(|u| **u>=lo && **u<self.total_units).cloned().collect();
        self.total_units - lo - used.len()
    }
}
