//! Independent reader of the Apple ProDOS file system (std only, no a2kit code).
//!
//! On-disk layout implemented here (unit = 512-byte block, all integers little endian):
//! * blocks 0,1: boot loader.  Block 2: volume directory key block.
//! * directory block: +0 prev block (2), +2 next block (2), then 13 slots of `entry_len` (0x27) bytes starting at +4.
//!   Slots are numbered 1..=13 within the block; slot 1 of a key block is the directory header.
//! * header (relative to slot): +0 storage type (hi nibble: 0xF volume, 0xE subdirectory) | name length (lo nibble),
//!   +1 name (15), +0x1f entry_len, +0x20 entries_per_block, +0x21 file_count (2);
//!   volume: +0x23 bitmap pointer (2), +0x25 total blocks (2);
//!   subdirectory: +0x23 parent pointer (block holding the parent entry) (2), +0x25 parent entry number (slot, 1-based),
//!   +0x26 parent entry length.
//! * entry: +0 storage type | name length (whole byte 0 = inactive/deleted), +1 name (15), +0x10 file type,
//!   +0x11 key pointer (2), +0x13 blocks used (2), +0x15 EOF (3), +0x1e access, +0x1f aux type (2),
//!   +0x25 header pointer (key block of the directory that contains the entry) (2).
//! * storage type 1 seedling: key pointer = the single data block.  2 sapling: key pointer = index block with up to
//!   256 data pointers.  3 tree: key pointer = master index block with up to 128 pointers to index blocks.
//!   0xD subdirectory: key pointer = key block of a chain of directory blocks.
//!   Index blocks keep the low bytes of pointer i at +i and the high bytes at +256+i; pointer 0 is a hole.
//! * volume bitmap: ceil(total/4096) consecutive blocks starting at the bitmap pointer, one bit per block,
//!   MSB first, bit set = free.
use std::collections::HashSet;
use super::{Alpha,Dev,FEntry};

const VOL_KEY: usize = 2;

fn byte(b: &[u8],i: usize) -> usize { b.get(i).copied().unwrap_or(0) as usize }
fn word(b: &[u8],i: usize) -> usize { byte(b,i) | byte(b,i+1)<<8 }
fn index_ptr(b: &[u8],i: usize) -> usize { byte(b,i) | byte(b,i+256)<<8 }

fn name_of(e: &[u8]) -> String {
    let n = byte(e,0) & 0x0f;
    (1..=n).map(|i| byte(e,i) as u8).map(|c| if c.is_ascii_graphic() { (c as char).to_string() } else { format!("\\x{:02X}",c) }).collect()
}

struct Reader<'a> {
    dev: &'a mut dyn Dev,
    total: usize,
    a: Alpha,
    /// every directory block met so far, over all directories (catches cycles within and between directories)
    dir_seen: HashSet<usize>
}

/// a subdirectory waiting to be walked: its path, key block, and the location of its entry in the parent
struct Pending { path: String, key: usize, parent: Option<(usize,usize)>, entry_idx: Option<usize> }

impl<'a> Reader<'a> {
    /// read a block that a pointer refers to; None (with a problem recorded) if the pointer or the block is bad
    fn fetch(&mut self,ptr: usize,what: &str) -> Option<Vec<u8>> {
        if ptr>=self.total {
            self.a.problems.push(format!("{}: pointer {} outside the volume (0..{})",what,ptr,self.total));
            return None;
        }
        match self.dev.read(ptr) {
            Some(b) if b.len()>=512 => Some(b),
            _ => { self.a.problems.push(format!("{}: block {} unreadable",what,ptr)); None }
        }
    }
    /// a data pointer must lie inside the volume and the block must exist on the device
    fn data_ok(&mut self,path: &str,ptr: usize,chunk: usize) -> bool {
        if ptr>=self.total { self.a.problems.push(format!("{}: data pointer {} (chunk {}) outside the volume (0..{})",path,ptr,chunk,self.total)); return false; }
        if self.dev.read(ptr).map_or(true,|b| b.len()<512) { self.a.problems.push(format!("{}: data block {} (chunk {}) unreadable",path,ptr,chunk)); return false; }
        true
    }
    /// data pointers of one index block -> chunks, chunk numbers starting at `base`
    fn index_block(&mut self,path: &str,ptr: usize,base: usize,fe: &mut FEntry) {
        if let Some(ib) = self.fetch(ptr,&format!("{} index block",path)) {
            fe.meta.push(ptr);
            for i in 0..256 {
                let p = index_ptr(&ib,i);
                if p==0 { continue; }
                if self.data_ok(path,p,base+i) { fe.chunks.push((base+i,p)); }
            }
        }
    }
    /// Walk one directory: collect its blocks, list its entries, queue its subdirectories.
    fn directory(&mut self,d: Pending,queue: &mut Vec<Pending>) -> Vec<usize> {
        let label = if d.path.is_empty() { "/".to_string() } else { d.path.clone() };
        let mut blocks: Vec<usize> = Vec::new();
        let (mut cur,mut prev,mut stored_count,mut active) = (d.key,0usize,None,0i64);
        let (mut elen,mut epb) = (0x27usize,13usize);
        loop {
            if blocks.len()>=self.total { self.a.problems.push(format!("{}: directory chain longer than the volume",label)); break; }
            if self.dir_seen.contains(&cur) { self.a.problems.push(format!("{}: directory chain reaches block {} again (cycle or shared directory block)",label,cur)); break; }
            let blk = match self.fetch(cur,&format!("{} directory chain",label)) { Some(b) => b, None => break };
            self.dir_seen.insert(cur);
            blocks.push(cur);
            if word(&blk,0)!=prev { self.a.problems.push(format!("{}: block {} has prev pointer {} instead of {}",label,cur,word(&blk,0),prev)); }
            let first_slot = if cur==d.key {
                // header
                let h = &blk[4..];
                let want = if d.parent.is_none() {0xF} else {0xE};
                if byte(h,0)>>4 != want { self.a.problems.push(format!("{}: header storage type {:X} instead of {:X}",label,byte(h,0)>>4,want)); }
                let (l,n) = (byte(h,0x1f),byte(h,0x20));
                if l>=0x27 && n>=1 && 4+l*n<=512 { elen = l; epb = n; }
                else { self.a.problems.push(format!("{}: implausible entry_len {} / entries_per_block {}",label,l,n)); }
                stored_count = Some(word(h,0x21) as i64);
                if let Some((pb,ps)) = d.parent {
                    if word(h,0x23)!=pb || byte(h,0x25)!=ps {
                        self.a.problems.push(format!("{}: header parent pointer ({},{}) but its entry is at ({},{})",label,word(h,0x23),byte(h,0x25),pb,ps));
                    }
                    if byte(h,0x26)!=0x27 { self.a.problems.push(format!("{}: header parent entry length {}",label,byte(h,0x26))); }
                }
                2
            } else {1};
            for slot in first_slot..=epb {
                let off = 4+(slot-1)*elen;
                let e = match blk.get(off..off+elen) { Some(e) => e, None => break };
                if byte(e,0)==0 { continue; }
                active += 1;
                let (stype,name) = (byte(e,0)>>4,name_of(e));
                let path = format!("{}/{}",d.path,name);
                let key = word(e,0x11);
                let mut fe = FEntry { path: path.clone(), is_dir: stype==0xD, ftype: byte(e,0x10) as u32, aux: word(e,0x1f) as u32,
                    access: byte(e,0x1e) as u32, eof: (word(e,0x15) | byte(e,0x17)<<16) as u64, chunks: Vec::new(), meta: Vec::new(),
                    blocks_field: word(e,0x13) as u64, entry_loc: (cur,slot) };
                if name.is_empty() { self.a.problems.push(format!("{}: entry ({},{}) has an empty name",label,cur,slot)); }
                if word(e,0x25)!=d.key { self.a.problems.push(format!("{}: header pointer {} instead of {}",path,word(e,0x25),d.key)); }
                match stype {
                    1 => {
                        if self.data_ok(&path,key,0) { fe.chunks.push((0,key)); }
                    },
                    2 => self.index_block(&path,key,0,&mut fe),
                    3 => if let Some(mb) = self.fetch(key,&format!("{} master index block",path)) {
                        fe.meta.push(key);
                        for j in 0..256 {
                            let p = index_ptr(&mb,j);
                            if p==0 { continue; }
                            if j>=128 { self.a.problems.push(format!("{}: master index slot {} in use (file would exceed 16M)",path,j)); continue; }
                            self.index_block(&path,p,j*256,&mut fe);
                        }
                    },
                    0xD => queue.push(Pending { path: path.clone(), key, parent: Some((cur,slot)), entry_idx: Some(self.a.entries.len()) }),
                    t => self.a.problems.push(format!("{}: unsupported storage type {:X}",path,t))
                }
                self.a.entries.push(fe);
            }
            let next = word(&blk,2);
            if next==0 { break; }
            prev = cur;
            cur = next;
        }
        if let Some(stored) = stored_count { self.a.counters.push((format!("file_count:{}",label),stored,active)); }
        if let Some(i) = d.entry_idx {
            if let Some(fe) = self.a.entries.get_mut(i) { fe.meta = blocks.clone(); }
        }
        blocks
    }
}

pub fn read(dev: &mut dyn Dev) -> Alpha {
    let mut a = Alpha::default();
    let vk = match dev.read(VOL_KEY) {
        Some(b) if b.len()>=512 => b,
        _ => { a.problems.push("volume directory key block 2 unreadable".to_string()); return a; }
    };
    let (bitmap_ptr,total) = (word(&vk,4+0x23),word(&vk,4+0x25));
    a.total_units = total;
    if total<=VOL_KEY { a.problems.push(format!("implausible total blocks {}",total)); return a; }
    let mut r = Reader { dev, total, a, dir_seen: HashSet::new() };
    // directory tree, starting from the volume directory (explicit stack, no recursion)
    let mut queue: Vec<Pending> = Vec::new();
    let vol_blocks = r.directory(Pending { path: String::new(), key: VOL_KEY, parent: None, entry_idx: None },&mut queue);
    let mut done = 0;
    while let Some(d) = queue.pop() {
        done += 1;
        if done>total { r.a.problems.push("more subdirectories than blocks".to_string()); break; }
        r.directory(d,&mut queue);
    }
    // system units and bitmap
    r.a.sys = vec![0,1];
    r.a.sys.extend(vol_blocks);
    let nmap = (total+4095)/4096;
    for i in 0..nmap {
        let mb = bitmap_ptr+i;
        if mb>=total || mb<=VOL_KEY { r.a.problems.push(format!("bitmap block {} outside the volume or over the boot/key blocks",mb)); continue; }
        if r.a.sys.contains(&mb) { r.a.problems.push(format!("bitmap block {} overlaps the volume directory",mb)); } else { r.a.sys.push(mb); }
        match r.dev.read(mb) {
            Some(buf) if buf.len()>=512 => for b in i*4096..total.min((i+1)*4096) {
                if byte(&buf,(b%4096)/8) & (0x80 >> (b%8)) == 0 { r.a.marked_used.push(b); }
            },
            _ => r.a.problems.push(format!("bitmap block {} unreadable",mb))
        }
    }
    r.a
}
