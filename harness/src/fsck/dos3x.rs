//! Independent reader of the Apple DOS 3.2 / 3.3 file system (std only, no a2kit code).
//!
//! On-disk layout implemented here (unit = 256-byte sector, unit number = track*sectors + sector):
//! * VTOC at track 17 sector 0: +1,+2 = track,sector of the first catalog sector; +3 DOS version; +6 volume;
//!   +0x27 = T/S pairs per list sector (122); +0x30 last track allocated, +0x31 direction; +0x34 tracks;
//!   +0x35 sectors per track; +0x36 bytes per sector (LE, 256); +0x38.. free-sector bitmap, 4 bytes per track
//!   read as a big-endian u32 in which sector s is bit (s + 32 - sectors) (16 sectors: bits 16..31, 13 sectors:
//!   bits 19..31); bit set = free, clear = in use.  Bytes 0x38..0xFF hold at most 50 tracks.
//! * Catalog sector: +1,+2 = link to the next catalog sector (track 0 terminates the chain); seven 35-byte
//!   entries at +0x0B + 35*i: +0 TSL track (0x00 = never used, 0xFF = deleted), +1 TSL sector, +2 type byte
//!   (0x80 = locked; 0 T, 1 I, 2 A, 4 B, ...), +3..+32 name (30 bytes, high-bit ASCII, padded with 0xA0),
//!   +33 sector count (u16 LE, counts T/S-list sectors and data sectors).
//!   a2kit formats the whole of track 17 (sectors sectors-1 down to 1) as the catalog.
//! * Track/sector list sector: +1,+2 = link to the next list sector (track 0 terminates); +5 = index of the first
//!   data sector described by this list (u16 LE, not relied upon); 122 pairs (track,sector) at +0x0C.  Pair k of
//!   the n-th list sector describes file sector 122*n + k; the pair (0,0) is a hole of a sparse (random access) file.
//! * There is no byte-granular EOF in the catalog; eof here = 256 * (index of the last non-hole pair + 1).
//! * System units: all of track 0, all of track 17 (VTOC + catalog as formatted), any catalog sector the chain
//!   reaches elsewhere, and tracks 1 and 2 when they hold the DOS image.  a2kit's `init` always marks track 0 and
//!   track 17 used, and marks tracks 1..2 used only for a bootable volume (on a non-bootable volume it hands their
//!   sectors out to files), so a track t in {1,2} is classified as system iff track 0 sector 0 holds a boot sector
//!   (is not blank, i.e. not all bytes equal) and the bitmap marks every sector of t in use.
use std::collections::HashSet;
use super::{Alpha,Dev,FEntry};

const VTOC_TRACK: usize = 17;
const PAIRS: usize = 122;
const ENTRY_LEN: usize = 35;

fn byte(buf: &[u8],i: usize) -> u8 {
    buf.get(i).copied().unwrap_or(0)
}

/// high-bit ASCII to string, anything else as \xHH (the convention a2kit uses for names), trailing blanks removed
fn name_to_string(raw: &[u8]) -> String {
    let mut s = String::new();
    for b in raw {
        if *b>=0xa0 && *b<=0xfe { s.push((*b-0x80) as char); } else { s += &format!("\\x{:02X}",b); }
    }
    s.trim_end().to_string()
}

/// Walk the T/S lists of one file, filling chunks, meta, eof of `e`; anomalies go to `problems`.
fn walk_file(dev: &mut dyn Dev,tracks: usize,sectors: usize,first: (usize,usize),e: &mut FEntry,problems: &mut Vec<String>) {
    let total = tracks*sectors;
    let mut visited: HashSet<usize> = HashSet::new();
    let (mut t,mut s) = first;
    let mut list_num: usize = 0;
    let mut last_data: Option<usize> = None;
    loop {
        if t>=tracks || s>=sectors {
            problems.push(format!("{}: T/S list pointer ({},{}) outside the volume",e.path,t,s));
            break;
        }
        let unit = t*sectors + s;
        if !visited.insert(unit) {
            problems.push(format!("{}: T/S list chain is cyclic at unit {}",e.path,unit));
            break;
        }
        if visited.len()>total {
            problems.push(format!("{}: T/S list chain longer than the volume",e.path));
            break;
        }
        let buf = match dev.read(unit) {
            Some(b) if b.len()>=256 => b,
            _ => { problems.push(format!("{}: T/S list unit {} unreadable",e.path,unit)); break; }
        };
        e.meta.push(unit);
        for p in 0..PAIRS {
            let (pt,ps) = (byte(&buf,12+2*p) as usize,byte(&buf,13+2*p) as usize);
            let idx = list_num*PAIRS + p;
            if pt==0 && ps==0 { continue; }
            if pt==0 {
                problems.push(format!("{}: pair {} is (0,{}), neither a hole nor a data sector",e.path,idx,ps));
                continue;
            }
            last_data = Some(idx);
            if pt>=tracks || ps>=sectors {
                problems.push(format!("{}: pair {} points to ({},{}) outside the volume",e.path,idx,pt,ps));
                continue;
            }
            let du = pt*sectors + ps;
            if dev.read(du).is_none() {
                problems.push(format!("{}: data unit {} (pair {}) unreadable",e.path,du,idx));
            }
            e.chunks.push((idx,du));
        }
        let (nt,ns) = (byte(&buf,1) as usize,byte(&buf,2) as usize);
        if nt==0 {
            if ns!=0 { problems.push(format!("{}: T/S list terminator is (0,{}) instead of (0,0)",e.path,ns)); }
            break;
        }
        t = nt; s = ns; list_num += 1;
    }
    e.eof = match last_data { Some(i) => 256*(i as u64+1), None => 0 };
}

pub fn read(dev: &mut dyn Dev, tracks: usize, sectors: usize) -> Alpha {
    let mut a = Alpha::default();
    let total = tracks*sectors;
    a.total_units = total;
    let mut sys: Vec<usize> = Vec::new();
    let mut sys_set: HashSet<usize> = HashSet::new();
    for t in [0,VTOC_TRACK] {
        if t<tracks { for s in 0..sectors { if sys_set.insert(t*sectors+s) { sys.push(t*sectors+s); } } }
    }
    if tracks<=VTOC_TRACK || sectors==0 || sectors>32 {
        a.problems.push(format!("geometry {}x{} cannot hold a DOS 3.x volume",tracks,sectors));
        a.sys = sys.clone(); a.marked_used = sys;
        return a;
    }
    let vtoc_unit = VTOC_TRACK*sectors;
    let vtoc = match dev.read(vtoc_unit) {
        Some(b) if b.len()>=256 => b,
        _ => {
            a.problems.push(format!("VTOC unit {} unreadable",vtoc_unit));
            a.sys = sys.clone(); a.marked_used = sys;
            return a;
        }
    };
    if byte(&vtoc,0x34) as usize!=tracks || byte(&vtoc,0x35) as usize!=sectors {
        a.problems.push(format!("VTOC geometry {}x{} differs from the device {}x{}",byte(&vtoc,0x34),byte(&vtoc,0x35),tracks,sectors));
    }
    if byte(&vtoc,0x36)!=0 || byte(&vtoc,0x37)!=1 {
        a.problems.push(format!("VTOC bytes per sector is {} instead of 256",u16::from_le_bytes([byte(&vtoc,0x36),byte(&vtoc,0x37)])));
    }
    if byte(&vtoc,0x27) as usize!=PAIRS {
        a.problems.push(format!("VTOC pairs per T/S list is {} instead of {}",byte(&vtoc,0x27),PAIRS));
    }
    // allocation bitmap
    let mut used: HashSet<usize> = HashSet::new();
    let mut track_full = vec![true;tracks];
    let mut bitmap_short = false;
    for t in 0..tracks {
        let i = 0x38 + 4*t;
        let map = match vtoc.get(i..i+4) {
            Some(b) if i+4<=256 => u32::from_be_bytes([b[0],b[1],b[2],b[3]]),
            _ => { bitmap_short = true; 0 }
        };
        for s in 0..sectors {
            if map & (1u32 << (s+32-sectors)) == 0 {
                used.insert(t*sectors+s);
                a.marked_used.push(t*sectors+s);
            } else if let Some(f) = track_full.get_mut(t) { *f = false; }
        }
    }
    if bitmap_short { a.problems.push(format!("VTOC bitmap cannot describe {} tracks",tracks)); }
    // DOS image on tracks 1..2
    let bootable = match dev.read(0) { Some(b) => b.iter().any(|x| Some(x)!=b.first()), None => false };
    for t in 1..3usize {
        if bootable && track_full.get(t)==Some(&true) {
            for s in 0..sectors { if sys_set.insert(t*sectors+s) { sys.push(t*sectors+s); } }
        }
    }
    // catalog chain
    let mut cat_visited: HashSet<usize> = HashSet::new();
    let (mut t,mut s) = (byte(&vtoc,1) as usize,byte(&vtoc,2) as usize);
    if t==0 { a.problems.push("VTOC has no catalog pointer".to_string()); }
    while t!=0 {
        if t>=tracks || s>=sectors {
            a.problems.push(format!("catalog pointer ({},{}) outside the volume",t,s));
            break;
        }
        let unit = t*sectors + s;
        if !cat_visited.insert(unit) {
            a.problems.push(format!("catalog chain is cyclic at unit {}",unit));
            break;
        }
        if cat_visited.len()>total {
            a.problems.push("catalog chain longer than the volume".to_string());
            break;
        }
        if unit==vtoc_unit { a.problems.push("catalog chain runs through the VTOC".to_string()); break; }
        let buf = match dev.read(unit) {
            Some(b) if b.len()>=256 => b,
            _ => { a.problems.push(format!("catalog unit {} unreadable",unit)); break; }
        };
        if sys_set.insert(unit) { sys.push(unit); }
        for slot in 0..7 {
            let off = 11 + ENTRY_LEN*slot;
            let ent = match buf.get(off..off+ENTRY_LEN) { Some(x) => x, None => break };
            let tt = byte(ent,0);
            if tt==0 || tt==0xff { continue; }
            let typ = byte(ent,2);
            let mut e = FEntry::default();
            e.path = name_to_string(ent.get(3..33).unwrap_or(&[]));
            e.ftype = (typ & 0x7f) as u32;
            e.access = if typ & 0x80 != 0 {1} else {0};
            e.blocks_field = u16::from_le_bytes([byte(ent,33),byte(ent,34)]) as u64;
            e.entry_loc = (unit,slot);
            walk_file(dev,tracks,sectors,(tt as usize,byte(ent,1) as usize),&mut e,&mut a.problems);
            a.entries.push(e);
        }
        let (nt,ns) = (byte(&buf,1) as usize,byte(&buf,2) as usize);
        if nt==0 && ns!=0 { a.problems.push(format!("catalog terminator in unit {} is (0,{}) instead of (0,0)",unit,ns)); }
        t = nt; s = ns;
    }
    for u in &sys {
        if !used.contains(u) { a.problems.push(format!("system unit {} is marked free",u)); }
    }
    a.sys = sys;
    a
}
