//! Independent reader of FAT12 / FAT16 (MS-DOS) volumes.  Shares no code with a2kit::fs::fat.
//!
//! On-disk layout implemented here (all integers little endian, unit of `Dev::read` = logical sector):
//!   sector 0                 boot sector; BPB at byte 11: bytes/sector u16, sectors/cluster u8, reserved sectors u16,
//!                            number of FATs u8, root entries u16, total sectors u16 (0 => u32 at 32), media u8 (21),
//!                            sectors/FAT u16 (22)
//!   reserved ..              `num_fats` copies of the FAT, `secs_per_fat` sectors each
//!   then                     root directory, ceil(root_entries*32/bytes_per_sec) sectors (fixed, not a cluster chain)
//!   then                     data region; cluster n>=2 = sectors data_start+(n-2)*spc .. +spc
//!   cluster count            min(data sectors / spc, FAT capacity - 2); FAT12 if data sectors / spc < 4085, else FAT16
//!   FAT12 entry n            16 bits at byte n*3/2; even n: low 12 bits, odd n: high 12 bits
//!   FAT16 entry n            16 bits at byte 2n
//!   entry values             0 free, 1 reserved, 0xFF7/0xFFF7 bad, >=0xFF8/0xFFF8 end of chain, else next cluster
//!   directory entry (32)     name[8] ext[3] attr(11) ... first cluster u16 (26), size u32 (28);
//!                            name[0]: 0x00 end of directory, 0xE5 deleted, 0x05 stands for 0xE5;
//!                            attr: low nibble 0x0F long-name slot, 0x08 volume label, 0x10 directory
//!   subdirectory             a cluster chain; slot 0 "." -> itself, slot 1 ".." -> parent (0 = root)
//!
//! Conventions of the returned `Alpha`: units are cluster numbers, `total_units` = cluster count + 2, `sys` is empty,
//! `entry_loc` = (cluster holding the entry, slot within that cluster) and for root entries (0, slot within the root).
use std::collections::HashSet;
use super::{Alpha,Dev,FEntry};

#[derive(Clone,Debug,PartialEq)]
pub struct FatParams { pub bytes_per_sec: usize, pub sec_per_clus: usize, pub reserved_secs: usize, pub num_fats: usize, pub root_entries: usize, pub total_secs: usize, pub secs_per_fat: usize }

fn le16(b: &[u8],o: usize) -> Option<usize> { Some(*b.get(o)? as usize | (*b.get(o+1)? as usize) << 8) }
fn le32(b: &[u8],o: usize) -> Option<usize> { Some(le16(b,o)? | le16(b,o+2)? << 16) }

/// (root directory sectors, first data sector, cluster count, FAT bits); None if the geometry is impossible
fn geometry(p: &FatParams) -> Option<(usize,usize,usize,usize)> {
    if p.bytes_per_sec<32 || p.sec_per_clus==0 || p.secs_per_fat==0 || p.num_fats==0 { return None; }
    let root_secs = p.root_entries.checked_mul(32)?.checked_add(p.bytes_per_sec-1)? / p.bytes_per_sec;
    let data_start = p.num_fats.checked_mul(p.secs_per_fat)?.checked_add(p.reserved_secs)?.checked_add(root_secs)?;
    let abstract_count = p.total_secs.checked_sub(data_start)? / p.sec_per_clus;
    let bits = if abstract_count<4085 {12} else {16};
    let capacity = (p.secs_per_fat.checked_mul(p.bytes_per_sec)?.checked_mul(8)? / bits).checked_sub(2)?;
    let count = abstract_count.min(capacity);
    if count==0 || abstract_count>=65525 { return None; }
    Some((root_secs,data_start,count,bits))
}

/// Parse the BPB of logical sector 0; None if implausible.
pub fn params_from_boot(boot: &[u8]) -> Option<FatParams> {
    let tot16 = le16(boot,19)?;
    let p = FatParams {
        bytes_per_sec: le16(boot,11)?, sec_per_clus: *boot.get(13)? as usize, reserved_secs: le16(boot,14)?, num_fats: *boot.get(16)? as usize,
        root_entries: le16(boot,17)?, total_secs: if tot16!=0 {tot16} else {le32(boot,32)?}, secs_per_fat: le16(boot,22)?
    };
    if !p.bytes_per_sec.is_power_of_two() || p.bytes_per_sec<128 || p.bytes_per_sec>4096 { return None; }
    if !p.sec_per_clus.is_power_of_two() || p.reserved_secs==0 || p.num_fats==0 || p.num_fats>4 || p.root_entries==0 { return None; }
    if (p.root_entries*32)%p.bytes_per_sec!=0 || *boot.get(21)?<0xf0 { return None; }
    geometry(&p)?;
    Some(p)
}

struct Vol<'a> { dev: &'a mut dyn Dev, bps: usize, spc: usize, data_start: usize, total: usize, bits: usize, fat: Vec<u8> }

impl<'a> Vol<'a> {
    fn fat_val(fat: &[u8],bits: usize,n: usize) -> Option<usize> {
        if bits==12 { let v = le16(fat,n+n/2)?; Some(if n&1==1 {v>>4} else {v&0xfff}) } else { le16(fat,2*n) }
    }
    fn get(&self,n: usize) -> Option<usize> { Self::fat_val(&self.fat,self.bits,n) }
    fn eoc(&self) -> usize { if self.bits==12 {0xff8} else {0xfff8} }
    fn read_cluster(&mut self,n: usize) -> Option<Vec<u8>> {
        let mut ans = Vec::new();
        for s in 0..self.spc {
            let sec = self.dev.read(self.data_start + (n.checked_sub(2)?)*self.spc + s)?;
            if sec.len()!=self.bps { return None; }
            ans.extend_from_slice(&sec);
        }
        Some(ans)
    }
    /// Follow the chain starting at `first`; returns (clusters in order, terminated properly).  Problems go to `probs`.
    fn chain(&self,who: &str,first: usize,probs: &mut Vec<String>) -> (Vec<usize>,bool) {
        let mut ans = Vec::new();
        let mut seen: HashSet<usize> = HashSet::new();
        let mut cur = first;
        for _ in 0..self.total {
            if cur<2 || cur>=self.total {
                probs.push(format!("{}: chain reaches {} cluster {} after {} links (valid 2..{})",who,if cur<2 {"reserved"} else {"out-of-range"},cur,ans.len(),self.total));
                return (ans,false);
            }
            if !seen.insert(cur) { probs.push(format!("{}: cycle in chain at cluster {}",who,cur)); return (ans,false); }
            let v = match self.get(cur) { Some(v) => v, None => { probs.push(format!("{}: FAT entry {} unreadable",who,cur)); return (ans,false); } };
            if v==0 { probs.push(format!("{}: chain reaches free cluster {}",who,cur)); return (ans,false); }
            if v==self.eoc()-1 { probs.push(format!("{}: chain reaches bad cluster {}",who,cur)); return (ans,false); }
            ans.push(cur);
            if v>=self.eoc() { return (ans,true); }
            cur = v;
        }
        probs.push(format!("{}: unterminated chain",who));
        (ans,false)
    }
}

fn name_of(raw: &[u8]) -> String {
    let cvt = |s: &[u8]| -> String { let t: String = s.iter().map(|c| *c as char).collect(); t.trim_end_matches(' ').to_string() };
    let mut base: Vec<u8> = raw[0..8].to_vec();
    if base[0]==0x05 { base[0] = 0xe5; }
    let (b,x) = (cvt(&base),cvt(&raw[8..11]));
    if x.is_empty() {b} else {format!("{}.{}",b,x)}
}

struct DirJob { path: String, first: usize, parent: usize, data: Vec<u8>, clusters: Vec<usize>, depth: usize }

pub fn read(dev: &mut dyn Dev, p: &FatParams) -> Alpha {
    let mut a = Alpha { units_are_clusters: true, total_units: 2, ..Default::default() };
    let (root_secs,data_start,count,bits) = match geometry(p) {
        Some(g) => g,
        None => { a.problems.push(format!("impossible volume geometry {:?}",p)); return a; }
    };
    a.total_units = count + 2;
    // the FAT copies
    let mut fats: Vec<Vec<u8>> = Vec::new();
    for f in 0..p.num_fats {
        let mut buf = Vec::new();
        for s in 0..p.secs_per_fat {
            match dev.read(p.reserved_secs + f*p.secs_per_fat + s) {
                Some(sec) if sec.len()==p.bytes_per_sec => buf.extend_from_slice(&sec),
                _ => { a.problems.push(format!("FAT copy {} sector {} unreadable",f,s)); buf.extend(std::iter::repeat(0).take(p.bytes_per_sec)); }
            }
        }
        fats.push(buf);
    }
    for f in 1..fats.len() {
        let diff: Vec<usize> = (0..a.total_units).filter(|n| Vol::fat_val(&fats[0],bits,*n)!=Vol::fat_val(&fats[f],bits,*n)).collect();
        if let Some(n) = diff.first() { a.problems.push(format!("FAT copy {} differs from copy 0 in {} entries, first at cluster {}",f,diff.len(),n)); }
    }
    let mut v = Vol { dev, bps: p.bytes_per_sec, spc: p.sec_per_clus, data_start, total: a.total_units, bits, fat: fats.swap_remove(0) };
    a.marked_used = (2..v.total).filter(|n| v.get(*n).unwrap_or(0)!=0).collect();
    if let Some(boot) = v.dev.read(0) {
        if params_from_boot(&boot).as_ref()==Some(p) {
            a.counters.push(("media byte in FAT[0] vs BPB".to_string(),(v.get(0).unwrap_or(0)&0xff) as i64,boot.get(21).cloned().unwrap_or(0) as i64));
        }
    }
    // the root directory
    let mut root = Vec::new();
    for s in 0..root_secs {
        match v.dev.read(data_start - root_secs + s) {
            Some(sec) if sec.len()==p.bytes_per_sec => root.extend_from_slice(&sec),
            _ => { a.problems.push(format!("root directory sector {} unreadable",s)); break; }
        }
    }
    root.truncate(p.root_entries*32);
    let per_clus = (v.bps*v.spc/32).max(1);
    let mut dir_seen: HashSet<usize> = HashSet::new();
    let mut jobs = vec![DirJob { path: String::new(), first: 0, parent: 0, data: root, clusters: Vec::new(), depth: 0 }];
    while let Some(job) = jobs.pop() {
        let is_root = job.depth==0;
        let (mut dot,mut dotdot) = (false,false);
        for (slot,raw) in job.data.chunks_exact(32).enumerate() {
            if raw[0]==0 { break; }
            let attr = raw[11];
            if raw[0]==0xe5 || attr&0x0f==0x0f || attr&0x08!=0 { continue; }
            let (is_dir,fc,size) = (attr&0x10!=0,le16(raw,26).unwrap_or(0),le32(raw,28).unwrap_or(0));
            let nm = name_of(raw);
            let path = format!("{}/{}",job.path,nm);
            if !is_root && is_dir && (nm=="." || nm=="..") {
                let (want,flag) = if nm=="." {(job.first,&mut dot)} else {(job.parent,&mut dotdot)};
                if *flag { a.problems.push(format!("{}: repeated entry",path)); }
                *flag = true;
                if fc!=want { a.problems.push(format!("{}: points at cluster {} instead of {}",path,fc,want)); }
                if slot!=(if nm=="." {0} else {1}) { a.problems.push(format!("{}: found in slot {}",path,slot)); }
                continue;
            }
            if nm.is_empty() || nm.starts_with('.') || nm.contains('/') || raw.iter().take(11).enumerate().any(|(i,c)| *c<0x20 && !(i==0 && *c==5)) {
                a.problems.push(format!("{}: malformed name {:02x?} in slot {}",path,&raw[0..11],slot));
            }
            let loc = if is_root {(0,slot)} else {(job.clusters.get(slot/per_clus).cloned().unwrap_or(0),slot%per_clus)};
            let mut e = FEntry { path: path.clone(), is_dir, access: attr as u32, eof: if is_dir {0} else {size as u64}, entry_loc: loc, ..Default::default() };
            if fc==0 && !is_dir {
                if size!=0 { a.problems.push(format!("{}: size {} but no first cluster",path,size)); }
                a.entries.push(e);
                continue;
            }
            let (chain,ok) = v.chain(&path,fc,&mut a.problems);
            if is_dir {
                if size!=0 { a.problems.push(format!("{}: directory with nonzero size {}",path,size)); }
                e.meta = chain.clone();
                a.entries.push(e);
                if chain.is_empty() { continue; }
                if !dir_seen.insert(fc) || job.depth>=64 { a.problems.push(format!("{}: directory cluster {} already visited or nesting too deep",path,fc)); continue; }
                let mut data = Vec::new();
                for c in &chain {
                    match v.read_cluster(*c) {
                        Some(buf) => data.extend_from_slice(&buf),
                        None => { a.problems.push(format!("{}: directory cluster {} unreadable",path,c)); break; }
                    }
                }
                jobs.push(DirJob { path, first: fc, parent: job.first, data, clusters: chain, depth: job.depth+1 });
            } else {
                let need = (size + v.bps*v.spc - 1) / (v.bps*v.spc);
                if ok && need!=chain.len() { a.problems.push(format!("{}: size {} needs {} clusters but chain has {}",path,size,need,chain.len())); }
                if let Some(c) = chain.iter().find(|c| v.read_cluster(**c).is_none()) { a.problems.push(format!("{}: data cluster {} unreadable",path,c)); }
                e.chunks = chain.into_iter().enumerate().collect();
                a.entries.push(e);
            }
        }
        if !is_root && !(dot && dotdot) { a.problems.push(format!("{}/: missing . or .. entry",job.path)); }
    }
    a
}
