//! Independent reader of the Apple Pascal (UCSD p-System) file system.  std only, shares no code with a2kit.
//!
//! On-disk layout implemented here (unit = 512-byte block, all words little endian):
//! * blocks 0,1: boot loader; blocks 2..end_block (normally 2..6): the directory, treated as ONE contiguous byte
//!   string of (end_block-2)*512 bytes cut into 26-byte records; records may straddle a block boundary.
//! * record 0 is the volume header:
//!     +0 begin_block (0: points at the boot block, not at the header)   +2 end_block (first block after the directory, 6)
//!     +4 file type (0)   +6 name length (1..7)   +7 name[7]   +14 total_blocks   +16 num_files
//!     +18 last access date   +20 date set   +22 pad[4]
//! * records 1..=77 ((2048/26)-1 = 77 for the standard 4-block directory) are file entries:
//!     +0 begin_block   +2 end_block (exclusive)   +4 file type word   +6 name length (1..15)   +7 name[15]
//!     +22 last-block byte word   +24 modification date
//! * the live entries are records 1..=num_files (packed; deleting shifts the tail down); everything after is garbage.
//! * a file is the contiguous extent [begin_block,end_block): no index blocks, no holes, no subdirectories,
//!   no allocation map (a block is in use iff it is below the header's end_block or inside a live extent).
//! * last-block byte word: the UCSD documents call it DLASTBYTE = number of valid bytes in the last block (1..512).
//!   a2kit reads AND writes it as "bytes remaining" (eof = 512*(end-begin) - word, so 0 means the last block is
//!   full).  This reader follows a2kit's convention for `eof` because it is run against a2kit volumes; the two
//!   conventions agree only for word==256.  A word > 512 is flagged under either reading.
//!
//! `entry_loc` = (block holding the first byte of the record, record index in the directory with the header = 0).
use super::{Alpha,Dev,FEntry};
use std::collections::BTreeSet;

const BS: usize = 512;
const ES: usize = 26;
const DIR_BEG: usize = 2;
const STD_DIR_END: usize = 6;
/// largest directory end we are willing to believe (a2kit's own test accepts up to 20)
const MAX_DIR_END: usize = 20;

fn word(buf: &[u8],off: usize) -> usize {
    let lo = buf.get(off).copied().unwrap_or(0) as usize;
    let hi = buf.get(off+1).copied().unwrap_or(0) as usize;
    lo | (hi<<8)
}

/// read one block, always returning exactly 512 bytes (zero filled when unreadable or short, which is reported)
fn block(dev: &mut dyn Dev,unit: usize,problems: &mut Vec<String>) -> (Vec<u8>,bool) {
    match dev.read(unit) {
        Some(mut b) => {
            let ok = b.len()>=BS;
            if !ok { problems.push(format!("block {} is short ({} bytes)",unit,b.len())); }
            b.resize(BS,0);
            (b,ok)
        },
        None => {
            problems.push(format!("block {} is unreadable",unit));
            (vec![0;BS],false)
        }
    }
}

fn name_of(raw: &[u8],len: usize,max: usize,what: &str,problems: &mut Vec<String>) -> (String,bool) {
    let mut ok = true;
    if len==0 || len>max {
        problems.push(format!("{}: name length {} not in 1..{}",what,len,max));
        ok = false;
    }
    let mut s = String::new();
    for i in 0..len.min(max) {
        let c = raw.get(i).copied().unwrap_or(0);
        if c<32 || c>126 {
            problems.push(format!("{}: name byte {} is ${:02X}",what,i,c));
            ok = false;
            s.push('?');
        } else {
            s.push(c as char);
        }
    }
    (s,ok)
}

pub fn read(dev: &mut dyn Dev) -> Alpha {
    let mut a = Alpha::default();
    let mut problems: Vec<String> = Vec::new();
    let (hdr_block,hdr_ok) = block(dev,DIR_BEG,&mut problems);
    if !hdr_ok {
        problems.push("volume header block unreadable, giving up".to_string());
        a.problems = problems;
        return a;
    }
    // ---- volume header
    let h_beg = word(&hdr_block,0);
    let h_end = word(&hdr_block,2);
    let h_type = word(&hdr_block,4);
    let h_nlen = hdr_block.get(6).copied().unwrap_or(0) as usize;
    let total = word(&hdr_block,14);
    let num_files = word(&hdr_block,16);
    if h_beg!=0 { problems.push(format!("header: begin_block {} (expected 0)",h_beg)); }
    if h_type!=0 { problems.push(format!("header: file type {} (expected 0)",h_type)); }
    let _ = name_of(hdr_block.get(7..14).unwrap_or(&[]),h_nlen,7,"header",&mut problems);
    if total==0 { problems.push("header: total_blocks is 0".to_string()); }
    let dir_end = if h_end>DIR_BEG && h_end<=MAX_DIR_END && (h_end<=total || total==0) {
        h_end
    } else {
        problems.push(format!("header: end_block {} not in {}..={} or beyond total_blocks {}; assuming {}",h_end,DIR_BEG+1,MAX_DIR_END,total,STD_DIR_END));
        STD_DIR_END
    };
    if total>0 && dev.read(total-1).is_none() {
        problems.push(format!("header: total_blocks {} exceeds the device (block {} unreadable)",total,total-1));
    }
    a.total_units = total;
    a.sys = (0..dir_end).collect();
    let mut used: BTreeSet<usize> = a.sys.iter().cloned().collect();
    // ---- directory as one byte string
    let mut dir: Vec<u8> = hdr_block;
    for b in DIR_BEG+1..dir_end {
        let (mut buf,_) = block(dev,b,&mut problems);
        dir.append(&mut buf);
    }
    let capacity = dir.len()/ES - 1;
    if num_files>capacity {
        problems.push(format!("header: num_files {} exceeds the directory capacity {}",num_files,capacity));
    }
    // ---- live entries
    let mut well_formed: i64 = 0;
    for i in 0..num_files.min(capacity) {
        let slot = i+1;
        let off = slot*ES;
        let rec = match dir.get(off..off+ES) {
            Some(r) => r,
            None => { problems.push(format!("entry {}: outside the directory",slot)); break; }
        };
        let what = format!("entry {}",slot);
        let beg = word(rec,0);
        let end = word(rec,2);
        let ftype = word(rec,4);
        let nlen = rec.get(6).copied().unwrap_or(0) as usize;
        let last = word(rec,22);
        let (name,mut ok) = name_of(rec.get(7..22).unwrap_or(&[]),nlen,15,&what,&mut problems);
        let what = format!("entry {} ({})",slot,name);
        if beg>=end {
            problems.push(format!("{}: begin {} >= end {}",what,beg,end));
            ok = false;
        }
        if end>total {
            problems.push(format!("{}: end {} > total_blocks {}",what,end,total));
            ok = false;
        }
        if beg<dir_end {
            problems.push(format!("{}: begin {} lies in the system area 0..{}",what,beg,dir_end));
            ok = false;
        }
        if last>BS {
            problems.push(format!("{}: last-block byte word {} > 512",what,last));
            ok = false;
        }
        let nblocks = end.saturating_sub(beg);
        let mut e = FEntry::default();
        e.path = name;
        e.is_dir = false;
        e.ftype = ftype as u32;
        e.aux = 0;
        e.access = 0;
        e.eof = ((BS*nblocks) as u64).saturating_sub(last as u64);
        e.blocks_field = 0;
        e.entry_loc = (DIR_BEG + off/BS,slot);
        // extent, clipped to the volume so that a wild end_block does not flood the report
        for u in beg..end.min(total) {
            e.chunks.push((u-beg,u));
            used.insert(u);
        }
        if ok { well_formed += 1; }
        a.entries.push(e);
    }
    a.counters.push(("num_files".to_string(),num_files as i64,well_formed));
    a.marked_used = used.into_iter().collect();
    a.problems = problems;
    a
}
