//! Independent reader of the CP/M 2.2 / 3 file system (std only, shares no code with a2kit).
//!
//! On-disk layout implemented here
//! -------------------------------
//! * The volume is `dsm+1` allocation blocks of `128<<bsh` bytes; block 0 is the first block after the reserved
//!   (system) tracks.  There is no header, no bitmap and no counters: everything is in the directory.
//! * The directory occupies the blocks flagged by the leading one bits of AL0:AL1 (AL0 bit 7 = block 0).  It is a
//!   packed array of `drm+1` entries of 32 bytes (the flagged blocks may be larger than that, e.g. Kaypro II flags 4
//!   blocks and uses 2; the surplus is reserved and still counts as a system unit).
//! * Entry: +0 status (0..15 user number of a file extent, 16..31 password entry of user-16, 0x20 disc label,
//!   0x21 timestamp entry, 0xE5 unused/deleted; everything else is illegal), +1 name[8], +9 typ[3] (7-bit ASCII,
//!   space padded; bit 7 of typ[0] = read-only, typ[1] = system, typ[2] = archive), +12 EX, +13 S1 (bytes used in the
//!   last record, CP/M 3, 0 = all 128), +14 S2, +15 RC (records used in the last logical extent, 0x80 = full),
//!   +16 sixteen bytes of block pointers: 16 one-byte pointers when dsm<256, else 8 little-endian words.  0 = hole.
//! * Logical extent number (16K units) lx = (S2&0x3f)*32 + (EX&0x1f).  One entry covers exm+1 logical extents, so the
//!   entry's position in its file is k = lx/(exm+1) and pointer slot j of it is chunk k*slots+j of the file.
//! * A file is the set of extent entries with equal (user, name&0x7f, typ&0x7f).  `access` (bit0 R/O, bit1 SYS,
//!   bit2 ARC) and `entry_loc` are taken from the entry with the lowest k (first one in the directory on a tie).
//! * eof, exactly as a2kit's Extent::get_eof on the entry with the highest lx:  RC==0 -> lx*16384;
//!   otherwise lx*16384 + (min(RC,128)-1)*128 + (S1==0 ? 128 : S1).
//! * `ftype` = typ[0]&0x7f | (typ[1]&0x7f)<<8 | (typ[2]&0x7f)<<16, `aux` = 0, `blocks_field` = 0, `meta` empty,
//!   no counters.  `sys` = flagged directory blocks, `marked_used` = sys + every non-zero in-range pointer of every
//!   file extent, `total_units` = dsm+1.
//! Problems reported: illegal status bytes, pointers > dsm, two entries of one file with the same index k,
//! control characters in a name, unreadable/short directory blocks, directory not covered by AL0/AL1 or the volume.
use std::collections::{BTreeSet,HashMap,HashSet};
use super::{Alpha,FEntry,Dev};

pub struct CpmParams { pub bsh: u8, pub dsm: u16, pub drm: u16, pub al0: u8, pub al1: u8, pub exm: u8 }

struct Work {
    fe: FEntry,
    seen_k: HashSet<usize>,
    /// lowest entry index met so far (source of access, entry_loc)
    low_k: usize,
    /// highest logical extent number met so far (source of eof)
    high_lx: usize
}

fn eof_of(lx: usize,rc: u8,s1: u8) -> u64 {
    let base = lx as u64 * 16384;
    if rc==0 { return base; }
    let rec_idx = if rc<0x80 { rc as u64 - 1 } else { 0x7f };
    let bytes = if s1==0 { 128 } else { s1 as u64 };
    base + rec_idx*128 + bytes
}

pub fn read(dev: &mut dyn Dev, p: &CpmParams) -> Alpha {
    let mut a = Alpha::default();
    a.total_units = p.dsm as usize + 1;
    if p.bsh>7 {
        a.problems.push(format!("block shift {} out of range",p.bsh));
        return a;
    }
    let bs = 128usize << p.bsh;
    let per_block = bs/32;
    let wide = p.dsm>=256;
    let slots = if wide {8} else {16};
    let lx_per_entry = p.exm as usize + 1;
    let flagged = (((p.al0 as u16) << 8) | p.al1 as u16).leading_ones() as usize;
    a.sys = (0..flagged).collect();
    let mut used: BTreeSet<usize> = BTreeSet::new();
    for b in 0..flagged {
        if b<a.total_units { used.insert(b); }
        else { a.problems.push(format!("directory block {} outside the volume (0..{})",b,a.total_units)); }
    }
    let entries = p.drm as usize + 1;
    let mut dir_blocks = (entries*32 + bs - 1)/bs;
    if dir_blocks>flagged {
        a.problems.push(format!("directory of {} entries needs {} blocks but AL0/AL1 flag only {}",entries,dir_blocks,flagged));
        dir_blocks = flagged;
    }
    let mut files: Vec<Work> = Vec::new();
    let mut index: HashMap<(u8,[u8;11]),usize> = HashMap::new();
    for b in 0..dir_blocks.min(a.total_units) {
        let dat = match dev.read(b) {
            Some(d) if d.len()>=bs => d,
            Some(d) => { a.problems.push(format!("directory block {} is short ({} bytes)",b,d.len())); continue; },
            None => { a.problems.push(format!("directory block {} unreadable",b)); continue; }
        };
        for s in 0..per_block {
            let i = b*per_block + s;
            if i>=entries { break; }
            let e = match dat.get(s*32..s*32+32) { Some(e) => e, None => break };
            let st = e[0];
            match st {
                0xe5 | 0x20 | 0x21 => continue,
                16..=31 => continue,
                0..=15 => {},
                _ => { a.problems.push(format!("entry {}: illegal status byte {:#04x}",i,st)); continue; }
            }
            let mut nm = [0u8;11];
            for c in 0..11 { nm[c] = e[1+c] & 0x7f; }
            let base: String = nm[0..8].iter().map(|c| *c as char).collect();
            let typ: String = nm[8..11].iter().map(|c| *c as char).collect();
            let (base,typ) = (base.trim_end_matches(' '),typ.trim_end_matches(' '));
            let path = if typ.is_empty() { format!("{}:{}",st,base) } else { format!("{}:{}.{}",st,base,typ) };
            if nm.iter().any(|c| *c<0x20 || *c==0x7f) {
                a.problems.push(format!("entry {}: control character in name {:?}",i,path));
            }
            let access = (e[9]>>7) as u32 | ((e[10]>>7) as u32) << 1 | ((e[11]>>7) as u32) << 2;
            let lx = (e[14] & 0x3f) as usize * 32 + (e[12] & 0x1f) as usize;
            let k = lx/lx_per_entry;
            let wi = *index.entry((st,nm)).or_insert_with(|| {
                files.push(Work {
                    fe: FEntry {
                        path: path.clone(),
                        ftype: nm[8] as u32 | (nm[9] as u32) << 8 | (nm[10] as u32) << 16,
                        access,
                        entry_loc: (b,s),
                        ..Default::default()
                    },
                    seen_k: HashSet::new(), low_k: k, high_lx: lx
                });
                files.len()-1
            });
            let w = match files.get_mut(wi) { Some(w) => w, None => continue };
            let first = w.seen_k.is_empty();
            let dup = !w.seen_k.insert(k);
            if dup {
                a.problems.push(format!("{}: entry {} repeats extent index {} (logical extent {})",path,i,k,lx));
            }
            if !dup && (first || k<w.low_k) {
                w.low_k = k;
                w.fe.access = access;
                w.fe.entry_loc = (b,s);
            }
            if !dup && (first || lx>=w.high_lx) {
                w.high_lx = lx;
                w.fe.eof = eof_of(lx,e[15],e[13]);
            }
            for j in 0..slots {
                let ptr = if wide { u16::from_le_bytes([e[16+2*j],e[17+2*j]]) as usize } else { e[16+j] as usize };
                if ptr==0 { continue; }
                if ptr>p.dsm as usize {
                    a.problems.push(format!("{}: entry {} slot {} points to block {} outside the volume (0..{})",path,i,j,ptr,a.total_units));
                    continue;
                }
                used.insert(ptr);
                if !dup { w.fe.chunks.push((k*slots+j,ptr)); }
            }
        }
    }
    for mut w in files {
        w.fe.chunks.sort();
        a.entries.push(w.fe);
    }
    a.marked_used = used.into_iter().collect();
    a
}
