"""C14 -- tokenized programs are faithful and re-readable."""
import os, re, collections
import framework as fw
import langgen
from framework import hexs

LANGS = ['applesoft', 'integer', 'merlin']
ADDRS = [2049, 2049, 2049, 16384, 768, 1, 24576, 60000, 65000, 65400]


def esc_bytes(rng, neg=False):
    """payload-like bytes for the escape codec: printable text with backslashes, x, hex digits, controls, high bytes, terminators"""
    n = rng.choice([0, 1, 2, 3, 4, 6, 10, 20, 40])
    out = []
    for _ in range(n):
        r = rng.random()
        if r < 0.35:
            b = rng.randrange(32, 127)
        elif r < 0.5:
            b = 92
        elif r < 0.62:
            b = 120
        elif r < 0.8:
            b = ord(rng.choice('0123456789abcdefABCDEF5c'))
        elif r < 0.86:
            b = rng.choice([10, 13, 0, 34, 58, 1, 41, 7, 127, 126, 44])
        else:
            b = rng.randrange(256)
        if neg and rng.random() < 0.85:
            b |= 0x80
        out.append(b)
    return bytes(out)


def esc_text(rng):
    n = rng.choice([0, 1, 3, 5, 8, 16, 30])
    return ''.join(rng.choice(['\\', 'x', 'X', '5', 'c', 'C', '0', 'd', 'f', 'g', 'A', 'a', ' ', '"', 'z', '4', '1', '\\x', '\\x4', '\\x41', '\\x5c', '~']) for _ in range(n))


def program_lines(ctx, n_as, n_int, n_mer, n_esc):
    rng = ctx.rng
    lines = []
    langgen.AMP_FORMS[0] = True
    for i in range(n_as):
        lines.append(f"tokrt a{i} applesoft {rng.choice(ADDRS)} {hexs(langgen.applesoft_program(rng).encode())}")
    for i in range(n_int):
        lines.append(f"tokrt i{i} integer 0 {hexs(langgen.integer_program(rng).encode())}")
    for i in range(n_mer):
        lines.append(f"tokrt m{i} merlin 0 {hexs(langgen.merlin_source(rng).encode())}")
    old = langgen.ESC_LEVEL[0]
    langgen.ESC_LEVEL[0] = 0.9
    try:
        for i in range(n_esc):
            lines.append(f"tokrt e{i} applesoft {rng.choice(ADDRS)} {hexs(langgen.applesoft_program(rng, nlines=rng.choice([1, 2, 3])).encode())}")
    finally:
        langgen.ESC_LEVEL[0] = old
        langgen.AMP_FORMS[0] = False
    # escapes in Integer strings and REM (the generator for Integer has none): splice escape pieces into string literals
    for i in range(n_esc):
        src = langgen.integer_program(rng, nlines=rng.choice([1, 2, 3]))
        def repl(m):
            if rng.random() < 0.7:
                return '"' + langgen.esc_mix(rng, m.group(1)).replace('"', '') + rng.choice(['', '\\xe1', '\\xa2', '\\xdc\\xf84a', '\\xdc', '\\x5cx41', '\\xdcx41', '\\xf8', '\\x29' if rng.random() < 0.1 else '']) + '"'
            return m.group(0)
        src = re.sub(r'"([^"\n]*)"', repl, src)
        if rng.random() < 0.3:
            src = src.rstrip('\n') + '\n' + f"{32000 + i % 700} REM " + langgen.esc_mix(rng, 'note') + rng.choice(['', '\\xe1\\xfa', '\\xdc\\xf841', '\\xa0', ' \\xa0', '\\x89']) + '\n'
        lines.append(f"tokrt j{i} integer 0 {hexs(src.encode())}")
    return lines


def boundary_lines(ctx):
    """fixed edge cases that random generation reaches rarely"""
    L = []
    k = 0
    def add(lang, addr, src):
        nonlocal k
        L.append(f"tokrt b{k} {lang} {addr} {hexs(src.encode())}")
        k += 1
    # load addresses around the top of memory
    for addr in [1, 2049, 65000, 65520, 65528, 65529, 65530, 65535]:
        add('applesoft', addr, "10 END\n")
        add('applesoft', addr, "10 PRINT \"HELLO\":GOTO 10\n20 REM X\n30 DATA 1,2,A B\n")
    # line numbers at the limits, out of order, duplicated
    add('applesoft', 2049, "0 END\n63999 END\n")
    add('applesoft', 2049, "65535 END\n")
    add('applesoft', 2049, "10 PRINT\n5 PRINT\n10 PRINT\n")
    add('integer', 0, "0 END\n32767 END\n")
    add('integer', 0, "10 PRINT\n5 PRINT\n10 PRINT\n")
    # spacing and case
    add('applesoft', 2049, "  10   p r i n t  \"a b\" ; a $ : g o t o 1 0\n")
    add('applesoft', 2049, "10 REM   three blanks   \n20 DATA   x  ,  y  \n30 REM\n40 DATA\n")
    add('applesoft', 2049, "10 PRINT \"unterminated\n20 A$=\"also  \n")
    add('applesoft', 2049, "10 PRINT \"A\"\r\n20 END\r\n")
    add('integer', 0, "10 PRINT \"A\"\r\n20 END\r\n")
    add('integer', 0, "10 REM\n20 REM  X \n30 PRINT \"\"\n")
    add('integer', 0, "10 PRINT \"\n")
    # a program larger than the memory it lives in: refused, or listed whole - never listed in part
    big = ''.join(f"{n} REM " + 'X' * 110 + chr(10) for n in range(1, 601))
    add('integer', 0, big)
    add('integer', 0, ''.join(f"{n} REM " + 'X' * 110 + chr(10) for n in range(1, 560)))
    add('merlin', 0, "* \n*\n;   \n LDA #$00 ;  x  \nLABEL\nLABEL2 RTS\n\n ASC \"a b  c\"\n")
    add('merlin', 0, " LDA #' '\n ASC ' ; not a comment'\n")
    for src in langgen.merlin_boundary_sources():
        add('merlin', 0, src)
    # escapes that cannot be represented
    for s in ['10 PRINT "\\x00"\n', '10 REM \\x00\n', '10 DATA \\x00\n', '10 PRINT "a\\x22 b"\n']:
        add('applesoft', 2049, s)
    for s in ['10 PRINT "\\x01"\n', '10 REM \\x01\n', '10 PRINT "\\x29"\n', '10 PRINT "\\xa2"\n', '10 PRINT "\\xe1"\n', '10 REM \\xe1\\xfa\n', '10 PRINT "\\xdc\\xf8"\n', '10 PRINT "\\xdc\\xf841"\n', '10 REM \\xdc\\xf841\n']:
        add('integer', 0, s)
    # escapes that yield a byte with a meaning of its own in a DATA statement, blanks where the listing would drop them, REM and DATA as
    # names of ampersand commands, text that is not ASCII in Merlin comments
    for s in ['10 DATA A\\x3aB\n', '10 DATA "A",\\x20\n', '10 DATA A\\x2c  :REM X\n', '10 DATA \\x20\n', '10 DATA "S"\\x20:PRINT\n', '10 & DATA A+B\n', '10 & REM A TO B\n',
              '10 & REM X:PRINT 1\n', '44800 &REM\n', '10 REM X\\x20\n']:
        add('applesoft', 2049, s)
    for s in ['10 REM X\\xa0\n', '10 REM\\xa0\n', '10 REM X\\x89\n', '10 REM X\\xa0\\xa0\n', '10 PRINT "X\\xa0"\n']:
        add('integer', 0, s)
    for s in ['; \u00e0 b\n', ' LDA #1 ; \u010d x\n', '* caf\u00e9\n']:
        add('merlin', 0, s)
    # blanks that belong to the last column of a line (a character constant holding a blank, the operand of USR), an empty operand
    # an operand wider than its column in front of a comment: where one blank can belong to the operand (file names, macro arguments)
    # the comment has to stay a comment
    for s in [' DSK A-LONG-FILE-NAME\t;output file\n', ' PUT A LONG FILE NAME\t;c\n', 'LONGMACRONAME MAC\n LDA #1\n <<<\n PMC LONGMACRONAME\t;call it\n',
              ' SAV LONGFILENAME12 ;c\n', ' USE LONG.FILE.NAME1\t; c\n', ' LDA LONGOPERAND12 ;c\n', ' DSK SHORT\t;c\n']:
        add('merlin', 0, s)
    for s in [' USR 1,2   \n', " LDA #' \n", ' CMP #" \n', ' USR \n', "LABEL LDA #' \n RTS\n", " ASC 'A B' \n"]:
        add('merlin', 0, s)
    # long lines
    add('applesoft', 2049, "10 REM " + "A" * 300 + "\n20 END\n")
    add('applesoft', 2049, "10 PRINT \"" + "A" * 300 + "\"\n20 END\n")
    add('integer', 0, "10 PRINT \"" + "A" * 100 + "\"\n20 END\n")
    return L


KNOWN_CASES = [
    # documented open findings: kept in the run so that the finding stays visible and anything else is reported
    ('applesoft', 2049, "10 " + ':'.join(['A=1'] * 70) + "\n20 END\n"),
    ('applesoft', 2049, ''.join(f"{i + 1} A=1\n" for i in range(5200))),
    ('integer', 0, "10 IF Y THEN REM X \n"),
    ('integer', 0, "10 IF 02 THEN 10\n"),
]


def classify(o):
    if o is None:
        return 'no-output'
    if o.startswith('PANIC'):
        return 'panic'
    m = re.match(r'FAIL ([a-z -]+?)[:(]', o)
    if o.startswith('FAIL structure'):
        return 'structure'
    if o.startswith('FAIL round trip'):
        return 'roundtrip'
    if o.startswith('FAIL detokenize'):
        return 'detok-failed'
    if o.startswith('FAIL the detokenized'):
        return 'not-accepted-again'
    if o.startswith('FAIL re-tokenizing'):
        return 'retok-failed'
    return 'other'


def oracle(ctx, lines, model_ok):
    out = fw.run_lines(fw.HARNESS_BIN, lines, timeout=1400)
    mlines = []
    stats = collections.Counter()
    for ln in lines:
        t = ln.split()
        o = out.get(t[1])
        ctx.evaluations += 1
        if o is not None and o.startswith('ok'):
            parts = o.split()
            stats[f"{t[2]}:{parts[1] if parts[1].startswith('rejected') else 'accepted'}"] += 1
            if parts[1].startswith('lines='):
                ctx.nontrivial.add(ln)
                if t[2] == 'applesoft':
                    mlines.append((f"tokas {t[1]} {t[3]} {parts[2]}", parts[1], ln))
                elif t[2] == 'integer' and len(parts) > 2:
                    mlines.append((f"tokint {t[1]} {parts[2]}", parts[1], ln))
        else:
            stats[f"{t[2]}:FAIL"] += 1
            ctx.failures.append({'cls': f"tok:{t[2]}:{classify(o)}", 'case': ln if len(ln) < 3000 else ln[:3000] + '...', 'detail': (o or 'NO-OUTPUT')[:600],
                                 'source': bytes.fromhex(t[4]).decode(errors='replace')[:400]})
    if model_ok and mlines:
        mo = fw.run_lines(fw.MODEL_BIN, [m[0] for m in mlines], timeout=1400)
        bad = []
        for cmd, nl, ln in mlines:
            r = mo.get(cmd.split()[1])
            ctx.evaluations += 1
            if r is None or not r.startswith('ok') or r.split()[1] != nl:
                bad.append({'case': ln[:2000], 'model': (r or 'NO-OUTPUT')[:300], 'impl': nl})
            else:
                ctx.traces_validated += 1
        ctx.streams.append({'name': 'token-stream structure (impl output is in the image of Lang/Tokens.v asm, links close)', 'cases': len(mlines), 'disagreements': len(bad), 'first': bad[:3]})
        ctx.oblige(f'correspondence/token-stream structure: every token stream the implementation produced is re-assembled byte for byte by the model and its links close ({len(mlines)} programs)', not bad, str(bad[:1])[:1200] if bad else '')
        for b in bad:
            ctx.failures.append({'cls': 'tok:structure-model', 'case': b['case'], 'detail': b['model']})
    return stats


def run(ctx, model_ok=True):
    rng = ctx.rng
    quick = ctx.tier == 'quick'
    n = 60 if quick else 1500
    if model_ok:
        lines = []
        for i in range(n * 2):
            lines.append(f"escas s{i} {rng.choice([0, 1, 2])} {hexs(esc_bytes(rng)) or '-'}")
            lines.append(f"escint t{i} {rng.choice([0, 1])} {hexs(esc_bytes(rng, neg=True)) or '-'}")
        for i in range(n):
            lines.append(f"unesc u{i} {rng.choice([0, 1])} {rng.choice([0, 1])} {hexs(esc_text(rng).encode()) or '-'}")
            txt = rng.choice(['*', ';', '* ', '*-- ']) + ''.join(rng.choice(langgen.PRINTABLE + ['"', ' ', ' ']) for _ in range(rng.choice([0, 1, 5, 20, 60])))
            txt = txt.rstrip()
            lines.append(f"menc w{i} {hexs((txt + chr(10)).encode())}")
            ncol = rng.choice([1, 2, 3, 4, 5])
            cols = []
            for c in range(ncol):
                ln = rng.choice([0, 1, 3, 5, 6, 7, 8, 9, 10, 11, 12, 20])
                body = ''.join(rng.choice('ABCXYZ09$#(),_') for _ in range(ln))
                if c == ncol - 1 and rng.random() < 0.4:
                    body = ';' + body
                if c == ncol - 1 and rng.random() < 0.25:
                    body = rng.choice([body + ' ', body + '   ', '', "#' ", body + ' X '])     # blanks of its own, or nothing at all
                cols.append(body)
            w = rng.choice([(9, 6, 11), (9, 6, 11), (1, 1, 1), (12, 8, 16), (0, 0, 0), (4, 9, 2)])
            lines.append(f"mfmt f{i} {w[0]} {w[1]} {w[2]} {'|'.join(hexs(c.encode()) or '-' for c in cols)}")
        lines = [l.replace(' - ', ' - ') for l in lines]
        canon = lambda toks, o: None if o is None else (o if toks[0] != 'menc' else o)
        # the model's menc takes the text without the newline
        def fix(l):
            t = l.split()
            return l
        impl = fw.run_lines(fw.HARNESS_BIN, lines)
        mlines = []
        for l in lines:
            t = l.split()
            if t[0] == 'menc':
                mlines.append(f"menc {t[1]} {t[2][:-2] or '-'}")
            else:
                mlines.append(l)
        model = fw.run_lines(fw.MODEL_BIN, mlines)
        dis = []
        for l in lines:
            cid = l.split()[1]
            a, b = impl.get(cid), model.get(cid)
            ctx.evaluations += 1
            if a is None or a != b:
                dis.append({'case': l[:1500], 'impl': (a or 'NO-OUTPUT')[:500], 'model': (b or 'NO-OUTPUT')[:500]})
            else:
                ctx.traces_validated += 1
            ctx.nontrivial.add(l)
        ctx.streams.append({'name': 'escape codec and Merlin byte encoding (Lang/Escape.v, Lang/Merlin.v)', 'cases': len(lines), 'disagreements': len(dis), 'first': dis[:3]})
        ctx.oblige(f'correspondence/escape codec + Merlin encoding: model = implementation on {len(lines)} cases', not dis, str(dis[:1])[:1500] if dis else '')
        for d in dis:
            ctx.failures.append({'cls': 'tok:codec-correspondence', 'case': d['case'], 'detail': f"impl {d['impl']} model {d['model']}"}) if False else None
        # Merlin decoding of arbitrary byte strings
        dl = []
        for i in range(n):
            k = rng.choice([0, 1, 3, 10, 40])
            bs = bytes(rng.choice([0xa0, 0x8d, 0x20, 0xc1, 0xd2, 0xbb, 0xaa, 0xa4, rng.randrange(128, 256), rng.randrange(128, 256), 9, rng.randrange(256)]) for _ in range(k))
            dl.append(f"mdec d{i} {hexs(bs) or '-'}")
        a = fw.run_lines(fw.HARNESS_BIN, dl)
        b = fw.run_lines(fw.MODEL_BIN, dl)
        dis = []
        for l in dl:
            cid = l.split()[1]
            x, y = a.get(cid), b.get(cid)
            ctx.evaluations += 1
            ok = False
            if x is not None and y is not None:
                if x == 'err.' or y == 'err.':
                    ok = x == y
                else:
                    WS = ' \t\n\x0b\x0c\r'
                    xi = bytes.fromhex(x[:-1]).decode('latin1')
                    ml = [bytes.fromhex(s.replace('SS', '20')).decode('latin1') for s in y[:-1].split('|')] if y != '.' else []
                    # (pasteable style: the columns joined by one blank; nothing of the last column is trimmed)
                    yi = ''.join(s + '\n' for s in ml) if ml else '\n'
                    ok = xi == yi
            if ok:
                ctx.traces_validated += 1
            else:
                dis.append({'case': l, 'impl': (x or 'NO-OUTPUT')[:300], 'model': (y or 'NO-OUTPUT')[:300]})
        ctx.streams.append({'name': 'Merlin detokenize of arbitrary bytes (pasteable style) vs m_dec_line', 'cases': len(dl), 'disagreements': len(dis), 'first': dis[:3]})
        ctx.oblige(f'correspondence/Merlin decode: model = implementation on {len(dl)} byte strings', not dis, str(dis[:1])[:1200] if dis else '')
    # oracle over programs
    lines = []
    cp = os.path.join(fw.VERIF, 'corpus', 'C14.cases')
    if os.path.exists(cp):
        lines += [l.strip() for l in open(cp) if l.strip() and not l.startswith('#')]
    lines += boundary_lines(ctx)
    for k, (lang, addr, src) in enumerate(KNOWN_CASES):
        lines.append(f"tokrt k{k} {lang} {addr} {hexs(src.encode())}")
    lines += program_lines(ctx, *( (120, 100, 100, 120) if quick else (4000, 3000, 3000, 4000) ))
    stats = oracle(ctx, lines, model_ok)
    ctx.samples += [bytes.fromhex(lines[-1].split()[4]).decode(errors='replace')[:200]]
    ctx.distribution = {'rule': 'distinct program texts; non-trivial = accepted by verify_str and the tokenizer, so the round trip and the structure were checked',
                        'programs': len(lines), 'outcomes': dict(stats)}


def replay(ctx, rp):
    f = rp.get('failure')
    if f and f.get('case', '').startswith('tokrt') and not f['case'].endswith('...'):
        out = fw.run_lines(fw.HARNESS_BIN, [f['case']])
        o = out.get(f['case'].split()[1])
        print('replay:', f.get('source', '')[:300].replace('\n', ' | '), '->', o)
        if o is None or not o.startswith('ok'):
            ctx.failures.append({'cls': f['cls'], 'case': f['case'], 'detail': (o or '')[:500]})
    else:
        run(ctx)
