#!/bin/sh
# usage: confirm_seeded.sh <id>   (id like c08) -- confirm in the scratch worktree /tmp/mut/<id> that the seeded change
# compiles, passes the existing suite, and that the demo fails with it and passes without it.
id=$1; n=${2:-1}; w=/tmp/mut/$id; out=/verif/seeded/$id-$n/confirm.log
export CARGO_BUILD_JOBS=6 CARGO_TARGET_DIR=$w/target CARGO_NET_OFFLINE=true
cd $w || exit 2
demo=tests/seeded_$id.rs
{
echo "== suite with change (demo moved aside)"; mv $demo /tmp/mut/$id.demo.rs
cargo test --workspace --no-fail-fast --offline 2>&1 | grep "^test result" | awk '{p+=$4; f+=$6} END {print "passed="p" failed="f}'
mv /tmp/mut/$id.demo.rs $demo
echo "== demo with change (expect failure)"; cargo test --offline --test seeded_$id 2>&1 | grep "^test result\|panicked" | head -5
git diff -- src > /tmp/mut/$id.confirm.diff; git checkout -- src
echo "== demo without change (expect pass)"; cargo test --offline --test seeded_$id 2>&1 | grep "^test result" | head -3
git apply /tmp/mut/$id.confirm.diff
git diff --stat -- src | tail -1
} > $out 2>&1
echo done >> $out
