"""C18 -- language servers report on the latest text under any schedule."""
import os, json, collections, concurrent.futures, random
import framework as fw
import langgen, lspdrv

NEEDS_BINS = True
SERVERS = {'applesoft': ('server-applesoft', 'applesoft'), 'integerbasic': ('server-integerbasic', 'integerbasic'), 'merlin': ('server-merlin', 'merlin6502')}


def binpath(name):
    return os.path.join(fw.BUILD, 'target-bins', 'debug', name)


def doc_text(rng, lang, broken=False):
    if lang == 'applesoft':
        t = langgen.applesoft_program(rng, nlines=rng.choice([1, 3, 8, 30]))
    elif lang == 'integerbasic':
        t = langgen.integer_program(rng, nlines=rng.choice([1, 3, 8]))
    else:
        t = langgen.merlin_source(rng, nlines=rng.choice([2, 10, 40]))
        # state an analysis may leave behind for the next one: processor selection, register widths, macros named like instructions,
        # conditional assembly left open, equates
        r = rng.random()
        if r < 0.5:
            head = rng.choice([' XC\n', ' XC\n XC\n', ' XC OFF\n', ' XC\n XC\n MX %00\n', 'BRA MAC\n JMP ]1\n <<<\n', 'PHX MAC\n TXA\n PHA\n <<<\n', ' DO 0\n', 'VAL EQU $10\n', ' LST OFF\n'])
            t = head + t
        if rng.random() < 0.5:
            t += ''.join(rng.choice([' BRA L0\n', ' PHX\n', ' STZ $10\n', ' LDA ($10)\n', ' REP #$30\n', ' PHB\n', ' LDA #VAL\n', ' BRA $0300\n', ' INC\n', ' FIN\n']) for _ in range(rng.randrange(1, 5)))
    if broken:
        k = rng.random()
        if k < 0.3 and t:
            i = rng.randrange(len(t))
            t = t[:i] + rng.choice(['"', '(', ')', ':', '\x00', '\x7f', 'é', '\t', '\r', '10 10 10', 'GOTO', 'THEN THEN']) + t[i + rng.randrange(0, 4):]
        elif k < 0.5:
            t = ''.join(rng.choice(['10 ', 'PRINT', '"', 'A$', '(', ')', 'GOTO ', '999999', ':', '\n', ' ', 'REM', 'LDA', '#$', 'FF', ';', '*', '=', 'ORG', 'é', '\x01']) for _ in range(rng.randrange(0, 60)))
        elif k < 0.6:
            t = ''
        elif k < 0.7:
            t = '\n' * rng.randrange(1, 5)
        elif k < 0.8:
            t = t.replace('\n', '\r\n')
        elif k < 0.9:
            t = t + t[:rng.randrange(0, 40)]
        else:
            t = t.upper()[::-1]
    return t


def scenario(seed, lang):
    rng = random.Random(seed)
    ndocs = rng.choice([1, 1, 2, 3])
    uris = [f"file:///verif/doc{d}.{'bas' if lang != 'merlin' else 'S'}" for d in range(ndocs)]
    steps = []
    vers = {}
    nsteps = rng.choice([1, 2, 4, 8, 15])
    for u in uris:
        vers[u] = 1
        steps.append(('open', u, 1, doc_text(rng, lang, rng.random() < 0.3), rng.choice([0, 0, 0.02, 0.15])))
    for _ in range(nsteps):
        u = rng.choice(uris)
        vers[u] += 1
        steps.append((rng.choice(['change', 'change', 'change', 'change2']), u, vers[u], doc_text(rng, lang, rng.random() < 0.4), rng.choice([0, 0, 0, 0.01, 0.05, 0.2])))
    # delays: make some analyses slow before or inside the lock so that later ones finish first
    items = []
    for u in uris:
        for v in range(1, vers[u] + 1):
            if rng.random() < 0.4:
                items.append(f"start:{v}:{rng.choice([30, 120, 400])}")
            if rng.random() < 0.25:
                items.append(f"locked:{v}:{rng.choice([30, 150])}")
    return steps, ','.join(items)


MAC_BRA = "BRA MAC\n JMP ]1\n <<<\n ORG $300\n BRA DONE\n PHX\nDONE RTS\n"
WITH_XC = " XC\n ORG $300\n LDA #1\n BRA SKIP\n STZ $10\nSKIP RTS\n"
WITH_XC2 = " XC\n XC\n ORG $300\n MX %00\n LDA #$1234\n REP #$30\n RTL\n"
PLAIN = " ORG $300\n LDA #1\n STA $10\n RTS\n"
U0, U1 = 'file:///verif/fix0.S', 'file:///verif/fix1.S'
# what one analysis leaves behind must not colour the next: processor selection, register widths, macros, conditionals
FIXED = {
 -1: ('merlin', [('open', U0, 1, WITH_XC, 0.3), ('open', U1, 1, MAC_BRA, 0.3)]),
 -2: ('merlin', [('open', U0, 1, WITH_XC, 0.3), ('change', U0, 2, MAC_BRA, 0.3)]),
 -3: ('merlin', [('open', U0, 1, WITH_XC2, 0.3), ('change', U0, 2, " ORG $300\n LDA #$12\n RTS\n", 0.3), ('open', U1, 1, PLAIN, 0.2)]),
 -4: ('merlin', [('open', U0, 1, " DO 0\n LDA #1\n", 0.3), ('open', U1, 1, PLAIN, 0.3), ('change', U0, 2, PLAIN, 0.2)]),
 -5: ('merlin', [('open', U0, 1, MAC_BRA, 0.3), ('change', U0, 2, " ORG $300\n BRA L\nL RTS\n", 0.3)]),
 -6: ('applesoft', [('open', 'file:///verif/fix0.bas', 1, '10 COUNT = 1: COUNTER = 2\n20 GOTO 99\n', 0.3), ('change', 'file:///verif/fix0.bas', 2, '10 PRINT "OK"\n', 0.3)]),
 -7: ('integerbasic', [('open', 'file:///verif/fix0.bas', 1, '10 DIM A$(10): GOTO 99\n', 0.3), ('change', 'file:///verif/fix0.bas', 2, '10 PRINT A$\n', 0.3)]),
 # one notification with two content changes: the diagnostics must describe the last of them
 -8: ('integerbasic', [('open', 'file:///verif/fix0.bas', 1, '10 PRINT 1\n', 0.3), ('change2', 'file:///verif/fix0.bas', 2, '10 PRINT 2\n20 END\n', 0.3)]),
 -9: ('applesoft', [('open', 'file:///verif/fix0.bas', 1, '10 PRINT 1\n', 0.3), ('change2', 'file:///verif/fix0.bas', 2, '10 PRINT 2\n20 END\n', 0.3)]),
 -10: ('merlin', [('open', U0, 1, PLAIN, 0.3), ('change2', U0, 2, " ORG $300\n LDA #2\n RTS\n", 0.3)]),
}


def one(args):
    seed, lang = args
    if seed < 0:
        lang, steps = FIXED[seed]
        delays = ''
    else:
        steps, delays = scenario(seed, lang)
    binname, lang_id = SERVERS[lang]
    obs = lspdrv.run_history(binpath(binname), lang_id, steps, delays)
    if 'error' in obs:
        return {'seed': seed, 'lang': lang, 'fail': ('no-start', obs['error'])}
    fails = []
    per = collections.defaultdict(list)
    for u, v, d in obs['publishes']:
        per[u].append((v, d))
    for u, last in obs['last_sent'].items():
        vs = [v for v, _ in per[u]]
        if any(b is None or a is None or b < a for a, b in zip(vs, vs[1:])):     # equal: one notification with several content changes
            fails.append(('out-of-order', f"{u}: versions published in the order {vs}"))
        if not vs:
            fails.append(('nothing-published', f"{u}: no diagnostics at all for {last} versions sent"))
        elif vs[-1] != last:
            fails.append(('stale-last', f"{u}: last published version {vs[-1]} but last sent {last} (published {vs})"))
    if not obs['alive']:
        fails.append(('server-dead', f"no answer to a request after the history (exit status {obs['exited']})"))
    # the final diagnostics must be what a fresh server says about the final text alone
    if not fails:
        for u, last in obs['last_sent'].items():
            final_text = [t for k, uu, v, t, g in steps if uu == u][-1]
            # "what analysing that final text alone produces": a fresh server that has seen nothing but this text (the generated
            # documents do not refer to each other, so no other document may influence the result)
            fsteps = [('open', u, last, final_text, 0)]
            ref = lspdrv.run_history(binpath(binname), lang_id, fsteps, '', settle=0.3)
            rd = [d for uu, v, d in ref.get('publishes', []) if uu == u]
            if not rd:
                fails.append(('reference-missing', f"{u}: fresh server published nothing for the final text"))
            elif rd[-1] != per[u][-1][1]:
                fails.append(('final-differs', f"{u}: diagnostics of the last publish differ from a fresh analysis of the final text: {len(per[u][-1][1])} vs {len(rd[-1])} items"))
    return {'seed': seed, 'lang': lang, 'steps': len(steps), 'delays': delays, 'fail': fails[0] if fails else None, 'publishes': sum(len(x) for x in per.values()),
            'reordering_forced': bool(delays)}


def analyzer_stream(ctx, quick):
    """no document content may kill (or hang) an analysis: the analyzers the servers run, in process, under a watchdog"""
    rng = ctx.rng
    lines = []
    k = 0
    fixed = {'applesoft': ['10 ONERR GOTO 100: REM x\n100 END\n', '10 ONERR GOTO 100:REM\n', '10 PRINT "é":REM é\n', '10 A=1:B=2:REM x:ONERR GOTO 10\n'],
             'integerbasic': ['10 PRINT "é"\n', '10 REM é\n', '10 IF X THEN REM x \n'],
             'merlin': ['L2 TXé .D\n', ' LDé #1\n', 'é\n', ' ASC "é"\n', ' LUP 2\n --^\n', ' MAC\n', ' <<<\n', 'L PUT é\n', ' DO 1\n', ' FIN\n', ' ELSE\n', 'é EQU é\n', ' ADRLé 1\n', ' STRé "a"\n']}
    # local labels where no global label has opened a scope yet, and where only a global one makes sense
    fixed['merlin'] += [' DO :X\n', ' LUP :N\n --^\n', ':A EQU :B\n', ' VAR :A\n', ' ENT :FOO\n', ' EXT :FOO\n', ':LOC LDA #1\n', ' IF :X\n', ' DS :N\n', ']V = :X\n']
    # every state a line passes through while it is typed: each prefix of a set of lines (a lone quote, half an operand, ...)
    typed = {'merlin': ["A EQU 'X'", 'A EQU "X"', " LDA #'A'", ' ASC "HI",00', 'L1 LDA ($10),Y ;c', " MX %11", " DO 'A'=\"A\"", "]V = 'Q'", 'M MAC', ' >>> M,1;2', ' DS 2,$FF', ' STR "AB"', ' LDA #<L1+1'],
             'applesoft': ['10 PRINT "A";CHR$(4):GOTO 10', '10 IF A$="X" THEN 20', '10 DEF FN A(X)=X*2', '10 DATA "A,B",C', '10 ON X GOSUB 10,20'],
             'integerbasic': ['10 PRINT "A";A$(1,2)', '10 IF X#1 THEN 20', '10 DIM A$(10)', '10 FOR I=1 TO 10 STEP 2']}
    for lang, tl in typed.items():
        for t in tl:
            for n in range(1, len(t) + 1):
                fixed[lang].append(t[:n] + '\n')
    for lang, docs in fixed.items():
        for t in docs:
            lines.append(f"analyze z{k} {lang} {t.encode().hex() or '-'}")
            k += 1
    for lang in SERVERS:
        for i in range(60 if quick else 3000):
            t = doc_text(rng, lang, broken=rng.random() < 0.7)
            lines.append(f"analyze z{k} {lang} {t.encode().hex() or '-'}")
            k += 1
    out = fw.run_lines(fw.HARNESS_BIN, lines, timeout=2400)
    st = collections.Counter()
    for ln in lines:
        t = ln.split()
        o = out.get(t[1])
        ctx.evaluations += 1
        if o is not None and o.startswith('ok'):
            st[t[2] + ' analysed'] += 1
            ctx.nontrivial.add(ln)
        else:
            kind = 'hang' if 'hang' in (o or '') else 'panic' if 'panic' in (o or '').lower() else 'crash'
            st['FAIL ' + kind] += 1
            ctx.failures.append({'cls': f"lsp:{t[2]}:analysis-{kind}", 'case': ln[:3000], 'detail': (o or 'NO-OUTPUT')[:500], 'text': bytes.fromhex(t[3] if t[3] != '-' else '').decode(errors='replace')[:300]})
    return dict(st)


def run(ctx, model_ok=True):
    quick = ctx.tier == 'quick'
    rng = ctx.rng
    astats = analyzer_stream(ctx, quick)
    n = 8 if quick else 120
    jobs = [(k, v[0]) for k, v in FIXED.items()]
    for lang in SERVERS:
        for i in range(n):
            jobs.append((rng.randrange(1 << 30), lang))
    cp = os.path.join(fw.VERIF, 'corpus', 'C18.cases')
    if os.path.exists(cp):
        for l in open(cp):
            l = l.strip()
            if l and not l.startswith('#'):
                s, lg = l.split()
                jobs.insert(0, (int(s), lg))
    stats = collections.Counter()
    with concurrent.futures.ThreadPoolExecutor(max_workers=12) as ex:
        for r in ex.map(one, jobs):
            ctx.evaluations += 1
            if r.get('fail'):
                stats['FAIL ' + r['fail'][0]] += 1
                ctx.failures.append({'cls': f"lsp:{r['lang']}:{r['fail'][0]}", 'case': f"scenario seed={r['seed']} lang={r['lang']}", 'detail': r['fail'][1][:600], 'delays': r.get('delays', '')})
            else:
                stats[f"{r['lang']} ok"] += 1
                stats['publishes observed'] += r['publishes']
                if r['reordering_forced']:
                    stats['histories with forced delays'] += 1
                ctx.nontrivial.add(f"{r['seed']} {r['lang']}")
    ctx.samples += [f"scenario seed={jobs[-1][0]} lang={jobs[-1][1]}"]
    ctx.distribution = {'rule': 'distinct (seed, server) notification histories, each with its own delay schedule for the analysis threads; non-trivial = all checks passed incl. comparison with a fresh server',
                        'histories': len(jobs), 'outcomes': dict(stats), 'analyzer_documents': astats}


def replay(ctx, rp):
    f = rp.get('failure')
    if f and f.get('case', '').startswith('scenario'):
        seed = int(f['case'].split('seed=')[1].split()[0])
        lang = f['case'].split('lang=')[1].split()[0]
        r = one((seed, lang))
        print('replay:', f['case'], '->', r.get('fail'))
        if r.get('fail'):
            ctx.failures.append({'cls': f"lsp:{lang}:{r['fail'][0]}", 'case': f['case'], 'detail': r['fail'][1]})
    else:
        run(ctx)
