"""Grammar-directed generators of valid Applesoft, Integer BASIC and Merlin sources (shared by C14, C16, C17, C18).
Every choice comes from the Random instance passed in."""

A_VARS = ['A', 'B', 'I', 'J', 'X', 'Y', 'AB', 'X1', 'Z9', 'COUNT', 'HEIGHT', 'PLAYER', 'SC', 'Q']
A_SVARS = ['A$', 'B$', 'NAME$', 'S1$', 'LINE$']
A_IVARS = ['I%', 'N%', 'COUNT%']
A_NUMFN = ['SIN', 'COS', 'INT', 'ABS', 'SQR', 'RND', 'PEEK', 'SGN', 'EXP', 'LOG', 'ATN', 'TAN', 'FRE', 'POS']
PRINTABLE = [chr(c) for c in range(32, 127) if chr(c) not in '"\\']


MARK = [False]      # when set, line numbers are wrapped: \x01 def \x02 and \x03 ref \x04 (stripped by split_marks)


def mref(n):
    return f"\x03{n}\x04" if MARK[0] else str(n)


def mdef(n):
    return f"\x01{n}\x02" if MARK[0] else str(n)


def split_marks(text):
    """-> (plain source, list of (kind, offset, length, number)) for a text generated with MARK set"""
    out = []
    marks = []
    i = 0
    pos = 0
    while i < len(text):
        ch = text[i]
        if ch in '\x01\x03':
            j = text.index('\x02' if ch == '\x01' else '\x04', i)
            num = text[i + 1:j]
            marks.append(('def' if ch == '\x01' else 'ref', pos, len(num), int(num)))
            out.append(num)
            pos += len(num)
            i = j + 1
        else:
            out.append(ch)
            pos += 1
            i += 1
    return ''.join(out), marks


def a_num(rng):
    r = rng.random()
    if r < 0.5:
        v = str(rng.choice([0, 1, 2, 10, 255, 256, 1000, 32767, 49152, 63999, rng.randrange(100000)]))
        if rng.random() < 0.06:
            v = '0' * rng.choice([1, 2]) + v
        return v
    if r < 0.7:
        return f"{rng.randrange(1000)}.{rng.randrange(100)}"
    if r < 0.8:
        return f".{rng.randrange(1, 1000)}"
    if r < 0.9:
        return f"{rng.randrange(1, 10)}E{rng.choice(['', '+', '-'])}{rng.randrange(1, 20)}"
    return str(rng.randrange(10))


ESC_PIECES = ['\\x0d', '\\x04', '\\xff', '\\x8d', '\\x07', '\\x0a', '\\x5c', '\\x5cx41', '\\x41', '\\x7f', '\\x22' if False else '\\x1b',
              '\\', '\\\\', '\\xZ1', '\\x4', '\\y', '\\x5cx5c', '\\X0D', '\\x5Cx0d',
              '\\x5cxFF', '\\x5CxA9', '\\x5cxfF', '\\x5cxFf', '\\x5cxaB', '\\x5cxC0', '\\x5cx4A', '\\x5cxa4',
              '\\xa0', '\\x89', '\\x20', '\\x3a', '\\x2c']      # a literal backslash in front of x and two hex digits of either case
AMP_FORMS = [False]     # switched on by the C14 check
ESC_LEVEL = [0.15]     # probability that a string-like payload carries escape pieces (raised by the escape stream)


def esc_mix(rng, plain):
    """interleave plain text with escape-like pieces (valid escapes, literal backslashes, near misses)"""
    k = rng.choice([1, 1, 2, 3])
    parts = [plain]
    for _ in range(k):
        parts.insert(rng.randrange(len(parts) + 1), rng.choice(ESC_PIECES))
        if rng.random() < 0.5:
            parts.insert(rng.randrange(len(parts) + 1), ''.join(rng.choice(PRINTABLE) for _ in range(rng.randrange(0, 4))))
    return ''.join(parts)


def a_str(rng, escapes=True):
    n = rng.choice([0, 1, 3, 8, 20])
    s = ''.join(rng.choice(PRINTABLE) for _ in range(n))
    if escapes and rng.random() < ESC_LEVEL[0]:
        s = esc_mix(rng, s)
    return '"' + s + '"'


def a_nexpr(rng, depth=0):
    r = rng.random()
    if depth > 2 or r < 0.3:
        return rng.choice([a_num(rng), rng.choice(A_VARS), rng.choice(A_IVARS)])
    if r < 0.45:
        return f"{rng.choice(A_NUMFN)}({a_nexpr(rng, depth + 1)})"
    if r < 0.5:
        return f"LEN({a_sexpr(rng, depth + 1)})"
    if r < 0.55:
        return f"ASC({a_sexpr(rng, depth + 1)})"
    if r < 0.6:
        return f"VAL({a_sexpr(rng, depth + 1)})"
    if r < 0.65:
        return f"{rng.choice(A_VARS)}({a_nexpr(rng, depth + 1)})"
    if r < 0.7:
        return f"({a_nexpr(rng, depth + 1)})"
    if r < 0.75:
        return f"-{a_nexpr(rng, depth + 1)}"
    if r < 0.78:
        return f"NOT {a_nexpr(rng, depth + 1)}"
    if r < 0.8:
        return f"FN F({a_nexpr(rng, depth + 1)})"
    op = rng.choice(['+', '-', '*', '/', '^', '=', '<', '>', '<=', '>=', '<>', ' AND ', ' OR '])
    return f"{a_nexpr(rng, depth + 1)}{op}{a_nexpr(rng, depth + 1)}"


def a_sexpr(rng, depth=0):
    r = rng.random()
    if depth > 1 or r < 0.45:
        return rng.choice([a_str(rng), rng.choice(A_SVARS)])
    if r < 0.55:
        return f"CHR$({a_nexpr(rng, 2)})"
    if r < 0.65:
        return f"MID$({a_sexpr(rng, depth + 1)},{a_nexpr(rng, 2)},{a_nexpr(rng, 2)})"
    if r < 0.72:
        return f"LEFT$({a_sexpr(rng, depth + 1)},{a_nexpr(rng, 2)})"
    if r < 0.8:
        return f"STR$({a_nexpr(rng, 2)})"
    return f"{a_sexpr(rng, depth + 1)}+{a_sexpr(rng, depth + 1)}"


def a_rem(rng):
    n = rng.choice([0, 1, 5, 20, 40])
    s = ''.join(rng.choice(PRINTABLE + ['"', ':']) for _ in range(n))
    if rng.random() < ESC_LEVEL[0] / 2:
        s = esc_mix(rng, s)
    return s.rstrip()


def a_data(rng):
    items = []
    for _ in range(rng.randrange(1, 5)):
        r = rng.random()
        if r < 0.4:
            items.append(a_num(rng))
        elif r < 0.7:
            items.append(''.join(rng.choice('ABCDEFGHIJ KLMNOP') for _ in range(rng.randrange(1, 8))).strip() or 'X')
        else:
            items.append(a_str(rng, escapes=True))
    if rng.random() < ESC_LEVEL[0]:
        # an unquoted item with escapes (a byte with a meaning of its own - colon, comma, blank - may come out of one), and escaped
        # blanks where raw ones would not count: behind a comma, behind a string, as the only item
        items.insert(rng.randrange(len(items) + 1), esc_mix(rng, rng.choice(['AB', 'X', '12', 'A B'])).replace('"', '').replace(',', '').strip() or 'Q')
        if rng.random() < 0.5:
            items.append(rng.choice(['\\x20', ' \\x20', 'A\\x2c  ', '"S"\\x20', '\\x20\\x20']))
    if rng.random() < 0.2:
        # the closing quote of the last item may be left out at the end of a line; commas and colons inside belong to the item
        items.append('"' + ''.join(rng.choice('ABC ,:;XYZ') for _ in range(rng.randrange(1, 8))).rstrip())
    return ','.join(items)


def a_stmt(rng, targets, allow_if=True):
    r = rng.random()
    t = lambda: mref(rng.choice(targets)) if targets and rng.random() < 0.9 else mref(rng.randrange(64000))
    if r < 0.16:
        # items of every kind next to each other: plain string and integer variables, a signed number behind a separator, a long
        # name followed by an operator word (the minifier may have to guard it), expressions
        def item():
            q = rng.random()
            if q < 0.15:
                return rng.choice(A_SVARS + A_IVARS)
            if q < 0.30:
                return rng.choice(['+', '-', '+ ', '- ']) + rng.choice([a_num(rng), rng.choice(A_VARS), a_nexpr(rng, 2)])
            if q < 0.45:
                return f"{rng.choice(A_VARS)} {rng.choice(['OR', 'AND'])} {rng.choice(['1', rng.choice(A_VARS)])}"
            return rng.choice([a_nexpr(rng), a_sexpr(rng)])
        items = [item() for _ in range(rng.randrange(0, 4))]
        seps = [rng.choice([';', ',', ' ', ';', '; ']) for _ in items]
        body = ''.join(it + sp for it, sp in zip(items, seps[:-1] + [''])) if items else ''
        return rng.choice(['PRINT ', '? ', 'PRINT']) + body + rng.choice(['', ';', ''])
    if r < 0.28:
        return rng.choice(['', 'LET ']) + f"{rng.choice(A_VARS + A_IVARS)} = {a_nexpr(rng)}"
    if r < 0.34:
        return rng.choice(['', 'LET ']) + f"{rng.choice(A_SVARS)} = {a_sexpr(rng)}"
    if r < 0.40:
        return f"GOTO {t()}"
    if r < 0.45:
        return f"GOSUB {t()}"
    if r < 0.50 and allow_if:
        return f"IF {a_nexpr(rng)} THEN " + rng.choice([t(), a_stmt(rng, targets, False), f"GOTO {t()}", a_stmt(rng, targets, False), 'REM' + rng.choice(['', ' ']) + a_rem(rng)])
    if r < 0.54:
        return f"ON {a_nexpr(rng, 2)} " + rng.choice(['GOTO', 'GOSUB']) + ' ' + ','.join(t() for _ in range(rng.randrange(1, 4)))
    if r < 0.59:
        return f"FOR {rng.choice(['I', 'J', 'X'])} = {a_nexpr(rng, 2)} TO {a_nexpr(rng, 2)}" + (f" STEP {a_nexpr(rng, 2)}" if rng.random() < 0.3 else '')
    if r < 0.63:
        return 'NEXT' + rng.choice(['', ' I', ' J', ' I,J'])
    if r < 0.66:
        return f"DIM {rng.choice(A_VARS)}({rng.randrange(1, 50)})" + (f",{rng.choice(A_SVARS)}({rng.randrange(1, 9)})" if rng.random() < 0.3 else '')
    if r < 0.69:
        return f"POKE {a_nexpr(rng, 2)},{a_nexpr(rng, 2)}"
    if r < 0.71:
        return f"CALL {a_nexpr(rng, 2)}"
    if r < 0.74:
        return f"INPUT {a_str(rng, False)};{rng.choice(A_SVARS + A_VARS)}"
    if r < 0.76:
        return f"GET {rng.choice(A_SVARS)}"
    if r < 0.79:
        return f"READ {rng.choice(A_VARS)},{rng.choice(A_SVARS)}"
    if r < 0.82:
        return f"HPLOT {a_nexpr(rng, 2)},{a_nexpr(rng, 2)} TO {a_nexpr(rng, 2)},{a_nexpr(rng, 2)}"
    if r < 0.85:
        return f"DEF FN F(X) = {a_nexpr(rng, 1)}"
    if r < 0.88:
        return rng.choice([f"VTAB {a_nexpr(rng, 2)}", f"HTAB {a_nexpr(rng, 2)}", f"HCOLOR= {rng.randrange(8)}", f"COLOR= {rng.randrange(16)}", f"SPEED= {rng.randrange(256)}"])
    if r < 0.93:
        return rng.choice(['HOME', 'TEXT', 'HGR', 'GR', 'RETURN', 'END', 'STOP', 'RESTORE', 'NORMAL', 'INVERSE', 'POP', 'HGR2', 'FLASH'])
    if r < 0.95:
        return f"ONERR GOTO {t()}"
    return f"PLOT {a_nexpr(rng, 2)},{a_nexpr(rng, 2)}"


def mangle_spacing(rng, line):
    """case and spacing variants outside of strings / REM / DATA (which are preserved verbatim)"""
    if rng.random() < 0.25:
        out = []
        instr = False
        for ch in line:
            if ch == '"':
                instr = not instr
            out.append(ch.lower() if (not instr and rng.random() < 0.9) else ch)
        return ''.join(out)
    return line


def applesoft_program(rng, nlines=None, refs_resolve=True, rem_data=True):
    n = nlines or rng.choice([1, 2, 3, 5, 8, 15, 30])
    nums = []
    cur = rng.choice([0, 1, 10, 100, 1000])
    for _ in range(n):
        nums.append(cur)
        cur += rng.choice([1, 5, 10, 10, 10, 100])
        if cur > 63999:
            break
    lines = []
    for num in nums:
        stmts = []
        for k in range(rng.choice([1, 1, 1, 2, 3, 4])):
            r = rng.random()
            if rem_data and r < 0.08:
                stmts.append('REM' + rng.choice(['', ' ', '  ']) + a_rem(rng))
                break   # REM swallows the rest of the line
            if AMP_FORMS[0] and 0.14 <= r < 0.17:
                # REM and DATA as the name of an ampersand command: what follows is an ordinary statement, not a payload
                stmts.append(rng.choice(['& REM A TO B', '& DATA A+B', '&REM X', '& DATA 1,2', '& REM', f'& DATA {rng.choice(A_VARS)}*2']))
                continue
            if rem_data and r < 0.14:
                stmts.append('DATA' + rng.choice(['', ' ']) + a_data(rng))
                if stmts[-1].count('"') % 2 == 1:
                    break       # an open string runs to the end of the line
                continue
            stmts.append(a_stmt(rng, nums if refs_resolve else []))
            if stmts[-1].startswith('IF') or stmts[-1].startswith('ON'):
                break
        if rem_data and rng.random() < 0.06 and not any(x.startswith(('REM', 'DATA', 'IF', 'ON')) for x in stmts[-1:]):
            # a string left open at the end of the line, also as a lone quote behind a blank
            stmts.append(rng.choice([f'{rng.choice(A_SVARS)} = "', f'{rng.choice(A_SVARS)}="', 'PRINT "A"; "', f'PRINT {rng.choice(A_SVARS)};"', 'PRINT "OPEN', f'{rng.choice(A_SVARS)} = "X Y']))
        body = rng.choice([':', ' : ', ': ']).join(stmts)
        pre = rng.choice(['', '', ' ', '  '])
        line = f"{pre}{mdef(num)}{rng.choice([' ', '', '  '])}{body}"
        # only mangle case when there is no REM/DATA payload (their text is preserved verbatim by design)
        if 'REM' not in line and 'DATA' not in line:
            line = mangle_spacing(rng, line)
        lines.append(line)
    return '\n'.join(lines) + '\n'


# ---------------------------------------------------------------------------------------------
I_VARS = ['A', 'B', 'I', 'J', 'X', 'Y', 'AB', 'X1', 'COUNT', 'SC']
I_SVARS = ['A$', 'B$', 'NAME$']


def i_num(rng):
    v = str(rng.choice([0, 1, 2, 10, 255, 256, 1000, 32767, rng.randrange(32768)]))
    r = rng.random()
    if r < 0.08:
        v = '0' * rng.choice([1, 2]) + v                  # leading zeros
    elif r < 0.12 and len(v) > 1:
        k = rng.randrange(1, len(v))
        v = v[:k] + ' ' + v[k:]                           # a blank inside the number (the machine ignores it)
    return v


def i_expr(rng, depth=0):
    r = rng.random()
    if depth > 2 or r < 0.4:
        return rng.choice([i_num(rng), rng.choice(I_VARS)])
    if r < 0.5:
        return f"{rng.choice(['ABS', 'SGN', 'RND', 'PEEK', 'PDL', 'SCRN' if False else 'ABS'])}({i_expr(rng, depth + 1)})"
    if r < 0.55:
        return f"LEN({rng.choice(I_SVARS)})"
    if r < 0.6:
        return f"({i_expr(rng, depth + 1)})"
    if r < 0.65:
        return f"-{i_expr(rng, depth + 1)}"
    if r < 0.7:
        return f"{rng.choice(I_VARS)}({i_expr(rng, depth + 1)})"
    op = rng.choice(['+', '-', '*', '/', '=', '<', '>', '<=', '>=', '<>', '#', ' AND ', ' OR ', ' MOD '])
    return f"{i_expr(rng, depth + 1)}{op}{i_expr(rng, depth + 1)}"


def i_str(rng):
    n = rng.choice([0, 1, 3, 8, 20])
    return '"' + ''.join(rng.choice(PRINTABLE) for _ in range(n)) + '"'


def i_stmt(rng, targets, allow_if=True):
    r = rng.random()
    t = lambda: mref(rng.choice(targets)) if targets and rng.random() < 0.9 else mref(rng.randrange(32768))
    if r < 0.2:
        items = [rng.choice([i_expr(rng), i_str(rng), rng.choice(I_SVARS)]) for _ in range(rng.randrange(0, 3))]
        if not items:
            return 'PRINT'
        return 'PRINT ' + rng.choice([';', ',']).join(items) + rng.choice(['', ';'])
    if r < 0.35:
        return rng.choice(['', 'LET ']) + f"{rng.choice(I_VARS)} = {i_expr(rng)}"
    if r < 0.4:
        return rng.choice(['', 'LET ']) + f"{rng.choice(I_SVARS)} = {i_str(rng)}"
    if r < 0.48:
        return f"GOTO {t()}"
    if r < 0.54:
        return f"GOSUB {t()}"
    if r < 0.6 and allow_if:
        e = i_expr(rng)
        if e[-1].isdigit() and rng.random() < 0.9:
            e = '(' + e + ')'
        return f"IF {e} THEN " + rng.choice([t(), i_stmt(rng, targets, False)])
    if r < 0.66:
        return f"FOR {rng.choice(['I', 'J'])} = {i_expr(rng, 2)} TO {i_expr(rng, 2)}" + (f" STEP {i_expr(rng, 2)}" if rng.random() < 0.3 else '')
    if r < 0.7:
        return 'NEXT ' + rng.choice(['I', 'J'])
    if r < 0.74:
        return f"DIM {rng.choice(I_SVARS)}({rng.randrange(1, 50)})"
    if r < 0.78:
        return f"POKE {i_expr(rng, 2)},{i_expr(rng, 2)}"
    if r < 0.8:
        return f"CALL {i_expr(rng, 2)}"
    if r < 0.84:
        return f"INPUT {i_str(rng)},{rng.choice(I_VARS)}"
    if r < 0.88:
        return rng.choice([f"COLOR= {rng.randrange(16)}", f"PLOT {i_expr(rng, 2)},{i_expr(rng, 2)}", f"HLIN {i_expr(rng, 2)},{i_expr(rng, 2)} AT {i_expr(rng, 2)}", f"VTAB {i_expr(rng, 2)}", f"TAB {i_expr(rng, 2)}"])
    if r < 0.94:
        return rng.choice(['GR', 'TEXT', 'RETURN', 'END', 'POP'])
    return 'REM ' + a_rem(rng)


def integer_program(rng, nlines=None):
    n = nlines or rng.choice([1, 2, 3, 5, 8, 15])
    nums = []
    cur = rng.choice([0, 1, 10, 100, 1000])
    for _ in range(n):
        nums.append(cur)
        cur += rng.choice([1, 5, 10, 10, 100])
        if cur > 32767:
            break
    lines = []
    for num in nums:
        stmts = []
        for k in range(rng.choice([1, 1, 2, 3])):
            stmts.append(i_stmt(rng, nums))
            if stmts[-1].startswith('REM') or stmts[-1].startswith('IF'):
                break
        lines.append(f"{mdef(num)} " + ' : '.join(stmts))
    return '\n'.join(lines) + '\n'


# ---------------------------------------------------------------------------------------------
M_OPS = ['LDA', 'STA', 'LDX', 'LDY', 'JSR', 'JMP', 'ADC', 'SBC', 'CMP', 'AND', 'ORA', 'EOR', 'INC', 'DEC', 'BNE', 'BEQ', 'BCC', 'BCS', 'RTS', 'NOP', 'CLC', 'SEC', 'TAX', 'TXA', 'PHA', 'PLA', 'INX', 'DEY']
M_IMPLIED = {'RTS', 'NOP', 'CLC', 'SEC', 'TAX', 'TXA', 'PHA', 'PLA', 'INX', 'DEY'}


def merlin_source(rng, nlines=None):
    n = nlines or rng.choice([2, 5, 10, 20])
    labels = [f"L{i}" for i in range(max(1, n // 3))]
    lines = [' ORG $300']
    used = set()
    for i in range(n):
        lab = ''
        if rng.random() < 0.3:
            cand = rng.choice(labels)
            if cand not in used:
                used.add(cand)
                lab = cand
        r = rng.random()
        if r < 0.1:
            lines.append(rng.choice(['* ', '; ']) + a_rem(rng) + (rng.choice([' \u00e0 b', ' \u010d x', '\u00e9', ' \u2014 dash']) if rng.random() < 0.15 else ''))
            continue
        if r < 0.18:
            q = rng.choice(['"', "'"])
            lines.append(lab + ' ' + rng.choice(['ASC', 'DCI']) + ' ' + q + 'HELLO' + str(rng.randrange(100)) + q)
            continue
        if r < 0.25:
            lines.append(f"{lab} HEX {''.join(rng.choice('0123456789ABCDEF') for _ in range(2 * rng.randrange(1, 6)))}")
            continue
        if r < 0.3:
            lines.append(f"{lab} DFB ${rng.randrange(256):02X},{rng.randrange(256)}")
            continue
        op = rng.choice(M_OPS)
        if op in M_IMPLIED:
            operand = ''
        elif op.startswith('B') or op in ('JSR', 'JMP'):
            operand = rng.choice(list(used) or ['$300']) if rng.random() < 0.7 else f"${rng.randrange(0x300, 0x3ff):04X}"
        else:
            modes = [f"${rng.randrange(256):02X}", f"${rng.randrange(65536):04X}"]
            if op not in ('LDX',):
                modes.append(f"${rng.randrange(256):02X},X")
            if op not in ('STA', 'INC', 'DEC'):
                modes += [f"#${rng.randrange(256):02X}", f"#{rng.randrange(256)}", f"#<${rng.randrange(65536):04X}"]
            if op not in ('INC', 'DEC', 'LDX', 'LDY') and rng.random() < 0.95:
                modes.append(f"(${rng.randrange(256):02X}),Y")
            if rng.random() < 0.03:
                modes.append(f"(${rng.randrange(256):02X}),Y")
            operand = rng.choice(modes)
        com = (' ; ' + a_rem(rng)) if rng.random() < 0.2 else ''
        lines.append(f"{lab} {op} {operand}{com}".rstrip())
    return '\n'.join(lines) + '\n'


def merlin_boundary_sources():
    """labels, mnemonics/macros and operands of every length around the default column widths (9, 6, 11), with and without comments"""
    out = []
    for n in range(1, 15):
        lab = ('LABELABCDEFGHIJ')[:n]
        out.append(f" ORG $300\n{lab} LDA #$00\n RTS\n")
        out.append(f" ORG $300\n{lab} LDA #$00 ; note\n{lab}X\n")
    for n in range(1, 15):
        opnd = ('TARGETABCDEFGHIJ')[:n]
        out.append(f"{opnd} EQU $300\nSTART JMP {opnd} ; note\n JMP {opnd}\n")
    for n in range(1, 13):
        mac = ('MACROABCDEFGH')[:n]
        out.append(f"{mac} MAC\n NOP\n <<<\n {mac}\nL1 {mac} ; c\n")
    for n in range(1, 40, 3):
        out.append(f" ASC \"{'A' * n}\" ; c\n HEX {'AB' * n}\n")
    return out
