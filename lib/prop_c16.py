"""C16 -- renumbering preserves program structure."""
import os, re, collections, json
import framework as fw
import langgen, renumgen
from framework import hexs


def case(rng, k, lang=None):
    lang = lang or rng.choice(['applesoft', 'integer'])
    pl = renumgen.program(rng, lang, nlines=rng.choice([1, 2, 3, 5, 8, 15, 30]), blanks=rng.random() < 0.3)
    sep = rng.choice(['\n', '\n', '\r\n', 'mix'])
    nums = [m[3] for l in pl for m in langgen.split_marks(l)[1] if m[0] == 'def']
    if not nums:
        return None
    mx = renumgen.MAXNUM[lang]
    beg = rng.choice([0, 0, rng.choice(nums), rng.choice(nums), rng.choice(nums) + 1, rng.randrange(mx)])
    end = rng.choice([mx + 1, mx + 1, rng.choice(nums), rng.choice(nums) + 1, beg + rng.randrange(1, 2000)])
    first = rng.choice([rng.choice(nums), rng.choice(nums) + 1, max(0, rng.choice(nums) - 5), 0, 1, 10, 100, 1000, mx - 9, mx, mx + 1, rng.randrange(mx)])
    step = rng.choice([1, 1, 5, 10, 10, 100, 1000, 0, 9, 99])
    reorder = rng.choice([0, 0, 1])
    return dict(id=f"n{k}", lang=lang, lines=pl, sep=sep, beg=beg, end=end, first=first, step=step, reorder=reorder)


def rows_of(lines):
    out = []
    for l in lines:
        _, m = langgen.split_marks(l)
        d = [x for x in m if x[0] == 'def']
        out.append(str(d[0][3]) if d else '-')
    return out


def boundary_cases(rng):
    """digits gained and lost, several references per line, references to missing lines, first/last line, CRLF, blank lines"""
    out = []
    k = 0
    progs = [
        ("applesoft", ["\x019\x02 GOTO \x0310\x04:GOTO \x039\x04:GOTO \x031000\x04", "\x0110\x02 ON X GOTO \x039\x04,\x0310\x04,\x03999\x04,\x031000\x04:GOSUB \x0310\x04", "", "\x01999\x02 IF A THEN \x031000\x04", "\x011000\x02 IF A THEN GOTO \x039\x04:REM GOTO 10"]),
        ("applesoft", ["  \x01100\x02  GOSUB\x03200\x04 :ONERR GOTO \x03100\x04", "\x01200\x02RETURN"]),
        ("integer", ["\x0110\x02 GOTO \x0330\x04 : GOSUB \x0310\x04", "\x0120\x02 IF X THEN \x0330\x04", "\x0130\x02 END"]),
    ]
    for lang, pl in progs:
        nums = [m[3] for l in pl for m in langgen.split_marks(l)[1] if m[0] == 'def']
        for sep in ['\n', '\r\n', 'mix']:
            for (beg, end) in [(0, 70000), (nums[0], nums[0] + 1), (nums[-1], nums[-1] + 1), (nums[1], nums[-1]), (nums[0] + 1, nums[-1] + 1)]:
                for (first, step) in [(1, 1), (5, 5), (nums[0], 10), (100000, 1), (63999, 1), (63998, 1), (32767, 1), (7, 100), (10000, 10000), (nums[-1] + 1, 1)]:
                    for reorder in [0, 1]:
                        out.append(dict(id=f"b{k}", lang=lang, lines=pl, sep=sep, beg=beg, end=end, first=first, step=step, reorder=reorder))
                        k += 1
    return out


def run(ctx, model_ok=True):
    rng = ctx.rng
    quick = ctx.tier == 'quick'
    cases = boundary_cases(rng)
    if quick:
        cases = cases[::3]
    k = 0
    while len([c for c in cases if c['id'].startswith('n')]) < (400 if quick else 12000):
        c = case(rng, k)
        k += 1
        if c:
            cases.append(c)
    lines = []
    for c in cases:
        c['src'] = renumgen.render(c['lines'], c['sep'])
        lines.append(f"renum {c['id']} {c['lang']} {c['beg']} {c['end']} {c['first']} {c['step']} {c['reorder']} {hexs(c['src'].encode())}")
    out = fw.run_lines(fw.HARNESS_BIN, lines, timeout=1400)
    stats = collections.Counter()
    mlines = []
    for c, ln in zip(cases, lines):
        o = out.get(c['id'])
        ctx.evaluations += 1
        if o == 'rejected':
            stats['source rejected by verify_str'] += 1
            continue
        # a text with both endings: which of the two the result uses is a2kit's choice, the lines are compared with LF throughout
        exp = renumgen.expected(c['lines'], c['lang'], c['beg'], c['end'], c['first'], c['step'], c['reorder'], '\n' if c['sep'] == 'mix' else c['sep'])
        got = None
        if o and o.startswith('ok '):
            got = bytes.fromhex(o[3:-1]).decode(errors='replace')
            if c['sep'] == 'mix':
                got = got.replace('\r\n', '\n')
        c['got'] = got
        fail = None
        if o is None or o.startswith('PANIC'):
            fail = ('panic', o or 'NO-OUTPUT')
        elif exp[0] == 'ok':
            if got is None:
                fail = ('valid-request-refused', 'the request keeps the numbers ascending and within bounds but was refused')
            elif got != exp[1]:
                j = next((i for i, (a, b) in enumerate(zip(got, exp[1])) if a != b), min(len(got), len(exp[1])))
                fail = ('wrong-text', f"differs from the expected text at offset {j}: got {got[max(0, j - 20):j + 30]!r} expected {exp[1][max(0, j - 20):j + 30]!r}")
            else:
                stats['accepted, text exact'] += 1
        elif exp[0] == 'refused':
            if got is not None:
                fail = ('invalid-request-accepted', f"should be refused ({exp[1]}) but produced a program")
            else:
                stats['refused: ' + exp[1]] += 1
        else:   # moved
            if got is None:
                fail = ('valid-move-refused', 'move allowed and possible but refused')
            else:
                want = [l for l in exp[1] if l.strip()]
                want.sort(key=lambda l: int(re.match(r'\s*(\d+)', l).group(1)))
                have = [l for l in got.replace('\r\n', '\n').split('\n') if l.strip()]
                blanks_in = sum(1 for l in c['src'].replace('\r\n', '\n').split('\n')[:-1] if not l.strip())
                blanks_out = sum(1 for l in got.replace('\r\n', '\n').split('\n')[:-1] if not l.strip())
                if have != want:
                    fail = ('wrong-text-after-move', f"non-blank lines differ: got {have[:4]!r} expected {want[:4]!r}")
                elif blanks_out != blanks_in and c['src'].endswith('\n'):
                    fail = ('blank-line-added-by-move', f"the source has {blanks_in} blank lines, the result {blanks_out}: a move may not add or drop lines")
                else:
                    stats['accepted with move, lines exact'] += 1
        if fail:
            stats['FAIL ' + fail[0]] += 1
            ctx.failures.append({'cls': f"renum:{c['lang']}:{fail[0]}", 'case': ln[:3000], 'detail': fail[1][:600], 'source': c['src'][:500],
                                 'params': {k2: c[k2] for k2 in ('beg', 'end', 'first', 'step', 'reorder')}})
        else:
            ctx.nontrivial.add(ln)
        mlines.append((c, f"renummodel {c['id']} {renumgen.MAXNUM[c['lang']]} {c['beg']} {c['end']} {c['first']} {c['step']} {c['reorder']} {','.join(rows_of(c['lines']))}"))
    if model_ok:
        mo = fw.run_lines(fw.MODEL_BIN, [m[1] for m in mlines], timeout=1400)
        dis = []
        for c, ml in mlines:
            r = mo.get(c['id'])
            ctx.evaluations += 1
            got = c.get('got')
            ok = False
            if r is None:
                ok = False
            elif r.startswith('refused'):
                ok = got is None
            elif got is not None:
                m = re.match(r'ok ins=(\d+) sel=(\d+)-(\d+) rows=(.*)$', r)
                mrows = m.group(4).split(',')
                hrows = []
                for l in got.replace('\r\n', '\n').split('\n'):
                    mm = re.match(r'\s*(\d+)', l)
                    hrows.append(mm.group(1) if mm else '-')
                if int(m.group(1)) == int(m.group(2)):
                    # no move: row by row, blank rows included (the printed text ends with one separator)
                    ok = hrows[:len(mrows)] == mrows and all(x == '-' for x in hrows[len(mrows):])
                else:
                    s0, t0, ins = int(m.group(2)), int(m.group(3)), int(m.group(1))
                    block = mrows[s0:t0 + 1]
                    rest = [(i, x) for i, x in enumerate(mrows) if not (s0 <= i <= t0)]
                    moved = [x for i, x in rest if i < ins] + block + [x for i, x in rest if i >= ins]
                    ok = [x for x in hrows if x != '-'] == [x for x in moved if x != '-']
            if ok:
                ctx.traces_validated += 1
            else:
                dis.append({'case': ml, 'model': (r or 'NO-OUTPUT')[:300], 'impl': (got if got is not None else 'refused')[:300]})
        ctx.streams.append({'name': 'renumber decision (Lang/Renumber.v build/renumber) vs Renumberer::renumber: refusal, new numbers by row, insert position', 'cases': len(mlines), 'disagreements': len(dis), 'first': dis[:3]})
        ctx.oblige(f'correspondence/renumber decision: model = implementation on {len(mlines)} requests', not dis, json.dumps(dis[:2])[:1500] if dis else '')
        # replacements inside a line
        el = []
        for i in range(200 if quick else 6000):
            n = rng.choice([0, 1, 5, 12, 30])
            line = ''.join(rng.choice('ABC 0123456789:,') for _ in range(n))
            cuts = sorted(rng.randrange(n + 1) for _ in range(rng.choice([0, 2, 2, 4, 6])))
            eds = []
            for j in range(0, len(cuts) - 1, 2):
                eds.append((cuts[j], cuts[j + 1], ''.join(rng.choice('0123456789 ') for _ in range(rng.choice([0, 1, 2, 5])))))
            order = list(range(len(eds)))
            same = len(set(e[0] for e in eds)) != len(eds)
            if not same:
                rng.shuffle(order)      # the implementation sorts by position; equal positions keep the given order
            impl_args = ' '.join(f"{eds[j][0]} {eds[j][1]} {hexs(eds[j][2].encode()) or '-'}" for j in order)
            model_args = ' '.join(f"{e[0]} {e[1]} {hexs(e[2].encode()) or '-'}" for e in eds)
            el.append((f"applyright e{i} {hexs(line.encode()) or '-'} {impl_args}".rstrip(), f"applyright e{i} {hexs(line.encode()) or '-'} {model_args}".rstrip()))
        a = fw.run_lines(fw.HARNESS_BIN, [x[0] for x in el])
        b = fw.run_lines(fw.MODEL_BIN, [x[1] for x in el])
        dis = []
        for il, ml in el:
            cid = il.split()[1]
            ctx.evaluations += 1
            if a.get(cid) is None or a.get(cid) != b.get(cid):
                dis.append({'case': il, 'impl': str(a.get(cid))[:200], 'model': str(b.get(cid))[:200]})
            else:
                ctx.traces_validated += 1
        ctx.streams.append({'name': 'apply_edits on one line vs apply_right', 'cases': len(el), 'disagreements': len(dis), 'first': dis[:3]})
        ctx.oblige(f'correspondence/apply_edits: model = implementation on {len(el)} edit lists', not dis, json.dumps(dis[:2])[:1200] if dis else '')
    ctx.samples += [cases[-1]['src'][:200]]
    ctx.distribution = {'rule': 'distinct (program, beg, end, first, step, reorder) requests; non-trivial = the outcome matched the expectation computed from the generator structure',
                        'requests': len(cases), 'outcomes': dict(stats)}


def replay(ctx, rp):
    f = rp.get('failure')
    if f and f.get('case', '').startswith('renum '):
        out = fw.run_lines(fw.HARNESS_BIN, [f['case']])
        o = out.get(f['case'].split()[1])
        res = bytes.fromhex(o[3:-1]).decode(errors='replace') if o and o.startswith('ok ') else o
        print('replay:', f.get('params'), '\nsource:\n' + f.get('source', ''), '\nresult:\n' + str(res))
        # the expectation cannot be recomputed without the marked lines: re-run the whole check for the verdict
    run(ctx)
