#!/bin/sh
# usage: lib/commit.sh "message"  -- commit /verif only when /repo is clean and every evidence file is a complete record
cd /verif
if [ -n "$(git -C /repo status --short)" ]; then echo "/repo has uncommitted changes: not committing"; exit 1; fi
python3-vt - <<'PY' || exit 1
import json, jsonschema, sys
m=json.load(open('/verif/MANIFEST.json')); jsonschema.validate(m, json.load(open('/root/.vp/MANIFEST.schema.json')))
es=json.load(open('/root/.vp/EVIDENCE.schema.json'))
bad=[]
for c in m['checks']:
    e=json.load(open(c['evidence_file'])); jsonschema.validate(e, es)
    cov=e['coverage']
    if cov['obligations']!=cov['discharged']: bad.append((c['property_id'],cov['obligations'],cov['discharged']))
if bad:
    print('evidence not from a clean run:', bad); sys.exit(1)
PY
git add -A && git commit -qm "$1" && git log --oneline | head -1
