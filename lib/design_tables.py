#!/usr/bin/env python3
"""Regenerates the fix table (11.4) and the open-findings list (11.5) of DESIGN.md from /repo's log and known-findings.txt."""
import subprocess, re
p = '/verif/DESIGN.md'
s = open(p).read()
log = subprocess.run(['git', '-C', '/repo', 'log', '--reverse', '--format=%h %s'], capture_output=True, text=True).stdout.strip().split('\n')
kf = open('/verif/known-findings.txt').read().split('\n')
prop_of = {}
for l in kf:
    if l.startswith('fixed:'):
        parts = l.split()
        prop_of[parts[2][:7]] = parts[1].split('=')[1]
rows = [f"| {l.split(' ', 1)[0]} | {prop_of.get(l.split(' ', 1)[0][:7], '')} | {l.split(' ', 1)[1][5:]} |" for l in log if ' fix:' in l]
i = s.index("| commit | property | what was wrong (repaired) |")
j = s.index("\nCommits whose property column is empty")
s = s[:i] + "| commit | property | what was wrong (repaired) |\n|---|---|---|\n" + '\n'.join(rows) + s[j:]
i = s.index("### 11.5 Open known findings")
i = s.index("\n\n", i) + 2
j = s.index("\nWhy not repaired:")
items = []
for l in kf:
    if l.startswith('open:'):
        head, _, txt = l[5:].partition('|')
        items.append(f"* `{head.strip()}` - {txt.strip()}")
s = s[:i] + '\n'.join(items) + '\n' + s[j:]
open(p, 'w').write(s)
print(len(rows), 'fixes;', len(items), 'open findings')
