"""Shared driver of the file-system properties (C01..C06, C19): correspondence stream `fs-history`
(Fs/Spec.v extracted vs the real file systems, step by step) and the implementation-side oracle stream."""
import re, os
import framework as fw
import fsgen

def gen_cases(ctx, fss, n_per_label, opts, valid_only, lock_heavy=False, lengths=(8, 20, 40), tag='h'):
    lines = []
    k = 0
    quick = ctx.tier == 'quick'
    for fs in fss:
        labels = fsgen.SMALL_LABELS[fs] if quick else fsgen.FS[fs]['labels']
        for lab in labels:
            if not quick and ('3.5in' in lab or '1440' in lab or '720' in lab) and valid_only:
                continue   # model evaluation on big volumes is slow; they are covered by the oracle stream
            for _ in range(n_per_label):
                h = fsgen.history(ctx.rng, fs, ctx.rng.choice(lengths), lock_heavy=lock_heavy, valid_only=valid_only)
                lines.append(f"fsh {tag}{k} {fs} {lab} {opts} {h}")
                k += 1
    return lines

def corpus_cases(pid):
    p = os.path.join(fw.VERIF, 'corpus', f'{pid}.cases')
    out = []
    if os.path.exists(p):
        for l in open(p):
            l = l.strip()
            if l and not l.startswith('#'):
                out.append(l)
    return out

def failure_class(head, fs):
    """a failure can belong to several properties at once ("FAIL C01,C05 ..."): returns (property ids, class of the first)"""
    m = re.match(r'FAIL (C\d\d(?:,C\d\d)*)', head)
    pids = m.group(1).split(',') if m else ['C04'] if head.startswith('PANIC') else ['?']
    fam = 'cpm' if fs.startswith('cpm') else 'dos3x' if fs.startswith('dos') else fs
    return pids, fam

def run_oracle(ctx, pid, lines, also=()):
    """impl-only run; failures whose oracle class belongs to `pid` (or `also`) are collected"""
    out = fw.run_lines(fw.HARNESS_BIN, lines, timeout=1400)
    stats = {}
    others = {}
    cut = []
    for ln in lines:
        t = ln.split(' ', 5)
        o = out.get(t[1])
        ctx.evaluations += 1
        if o is None:
            ctx.failures.append({'cls': f'{pid}:no-output', 'case': ln[:3000], 'detail': 'the harness produced no output for this case (crash or timeout)'})
            continue
        head = o.split(' ;; ')[0]
        if head.startswith('ok'):
            ctx.nontrivial.add(ln)
            for kv in head[3:].split(','):
                if '=' in kv:
                    a, b = kv.split('=')
                    stats[a] = stats.get(a, 0) + int(b)
            continue
        fpids, fam = failure_class(head, t[2])
        mine = [q for q in fpids if q == pid or q in also]
        if mine:
            ctx.failures.append({'cls': f"{mine[0]}:{fam}", 'case': ln[:3000], 'detail': head[:700]})
        else:
            others[fpids[0]] = others.get(fpids[0], 0) + 1
            ctx.nontrivial.add(ln)
            cut.append(ln)
    # a history cut short by another property's oracle is run again in focus mode: failures of other properties are noted and the
    # history goes on, so that a later symptom of THIS property (e.g. two files owning one block after a wrong free count) is reached
    if cut and not getattr(ctx, 'in_focus', False):
        redo = []
        for ln in cut:
            t = ln.split(' ', 5)
            redo.append(' '.join([t[0], t[1] + 'f', t[2], t[3], t[4].replace('-', '') + '@' + pid, t[5]]))
        out2 = fw.run_lines(fw.HARNESS_BIN, redo, timeout=1400)
        for ln in redo:
            t = ln.split(' ', 5)
            o = out2.get(t[1])
            ctx.evaluations += 1
            if o is None:
                continue
            head = o.split(' ;; ')[0]
            if head.startswith('ok'):
                continue
            fpids, fam = failure_class(head, t[2])
            mine = [q for q in fpids if q == pid or q in also]
            if mine:
                ctx.failures.append({'cls': f"{mine[0]}:{fam}", 'case': ln[:3000], 'detail': head[:700]})
        ctx.distribution['histories_rerun_in_focus_mode'] = len(redo)
    ctx.distribution['operation_mix(op-result=count)'] = stats
    if others:
        ctx.notes.append(f"histories cut short by an oracle of another property (reported by that property's check): {others}")
    return out

def run_correspondence(ctx, lines):
    """model vs implementation, step by step: result class, reported free units, listing with chunk indices"""
    out = fw.run_lines(fw.HARNESS_BIN, lines, timeout=1400)
    mlines = []
    for ln in lines:
        t = ln.split(' ', 5)
        parts = (out.get(t[1]) or '').split(' ;; ')
        if len(parts) < 4 or parts[3] == 'none':
            continue
        mlines.append(f"fsm {t[1]} {t[2]} {parts[3]} {t[5]}")
    mout = fw.run_lines(fw.MODEL_BIN, mlines, timeout=1400)
    dis = []
    steps = 0
    for ln in lines:
        t = ln.split(' ', 5)
        parts = (out.get(t[1]) or '').split(' ;; ')
        ctx.evaluations += 1
        if len(parts) < 4:
            dis.append({'case': ln[:1500], 'impl': (out.get(t[1]) or 'NO-OUTPUT')[:300], 'model': ''})
            continue
        it = parts[1].split(' ')
        mt = (mout.get(t[1]) or '').split(' ')
        complete = parts[0].startswith('ok')
        n = max(len(it), len(mt)) if complete else min(len(it), len(mt))
        bad = None
        for i in range(n):
            a = it[i] if i < len(it) else None
            b = mt[i] if i < len(mt) else None
            if a != b:
                bad = (i, a, b)
                break
            steps += 1
        if bad:
            ops = t[5].split(';')
            dis.append({'case': ln[:1500], 'step': bad[0], 'op': ops[bad[0] - 1] if 0 < bad[0] <= len(ops) else 'init',
                        'impl': str(bad[1])[:400], 'model': str(bad[2])[:400]})
        else:
            ctx.traces_validated += 1
            ctx.nontrivial.add(ln)
    ctx.streams.append({'name': 'fs-history', 'cases': len(lines), 'steps_compared': steps, 'disagreements': len(dis), 'first': dis[:3]})
    ctx.oblige(f'correspondence/fs-history: Fs/Spec.v (extracted) = implementation after every step (result, free units, listing, chunk indices) on {len(lines)} histories / {steps} steps',
               not dis, str(dis[:1])[:1500] if dis else '')
    return out

ALL_FS = ['dos33', 'dos32', 'prodos', 'pascal', 'cpm2', 'cpm3', 'fat']
MODEL_FS = ['dos33', 'dos32', 'prodos', 'pascal', 'cpm2', 'fat']

DIRFILL = [('dos33', 'do:5.25in', 105), ('dos32', 'd13:5.25in-13', 84), ('prodos', 'po:5.25in', 51), ('pascal', 'po:5.25in', 77),
           ('cpm2', 'do:5.25in', 48), ('cpm2', 'imd:5.25in-osb-sd', 64), ('cpm2', 'imd:8in', 64), ('cpm2', 'td0:5.25in-kayii', 64), ('cpm3', 'do:5.25in', 48),
           ('fat', 'img:5.25in-ibm-ssdd8', 64), ('fat', 'img:5.25in-ibm-ssdd9', 64), ('fat', 'img:5.25in-ibm-dsdd9', 112)]

COLLIDE = [('dos33', 'do:5.25in'), ('dos32', 'd13:5.25in-13'), ('prodos', 'po:5.25in'), ('pascal', 'po:5.25in'), ('cpm2', 'do:5.25in'), ('cpm3', 'do:5.25in'),
           ('fat', 'img:5.25in-ibm-dsdd9')]


def collide_cases(ctx, opts, tag):
    """names meeting names: put onto existing, rename onto existing (must be refused), rename back and forth, and for CP/M the same
    name in different user areas (rename must look at the target's own area)"""
    out = []
    for i, (fs, lab) in enumerate(COLLIDE):
        cfg = fsgen.FS[fs]
        ext = '.T' if cfg['ext'] else ''
        A, B, C = 'AA' + ext, 'BB' + ext, 'CC' + ext
        ops = [f"P~{A}~0~U~~", f"P~{B}~0-1~U~~", f"R~{A}~{B}", f"P~{B}~0~U~~", f"P~{B.lower()}~0~U~~", f"R~{A.lower()}~{B.lower()}", f"R~{A}~{C}", f"R~{C.lower()}~{A}",
               f"R~{B}~{A.lower()}", f"D~{A.lower()}", f"R~{B}~{A}", f"R~{A}~{A}"]
        if cfg.get('users'):
            u = ctx.rng.choice(['1', '3', '15'])
            ops += [f"P~{u}:{A}~0~U~~", f"P~{u}:{B}~0~U~~", f"R~{u}:{A}~{u}:{B}", f"P~{u}:{A.lower()}~0~U~~", f"R~{u}:{A}~{u}:{B.lower()}", f"L~{u}:{B.lower()}", f"U~{u}:{B.lower()}", f"P~{C}~0~U~~", f"R~{u}:{A}~{u}:{C}", f"R~{u}:{C}~{u}:{A}", f"P~{u}:{C}~0~U~~",
                    f"R~{C}~{B}", f"D~{u}:{B}", f"R~{u}:{A}~{u}:{B}"]
        # one name a strict prefix of the other, the longer one in the earlier directory slot (it takes the slot of a deleted file)
        if opts != '-':
            for short, long in [('FO' + ext, 'FOO' + ext), ('F1' + ext, 'F10' + ext)] + ([('FO.T', 'FO.TX')] if ext else []):
                ops += [f"P~SCR{ext}~0~U~~~v", f"P~{short}~0-1~U~~~v", f"D~SCR{ext}", f"P~{long}~0-2~U~~~v", f"L~{short}", f"U~{short}", f"R~{short}~FX{ext}", f"D~FX{ext}", f"D~{long}"]
        # a name of the greatest length, then the same name with one more character: nothing may be done to the file through the
        # longer name (delete, lock, unlock, rename, retype, store), which names no file
        full = {'dos33': 'ABCDEFGHIJKLMNOPQRSTUVWXYZ1234', 'dos32': 'ABCDEFGHIJKLMNOPQRSTUVWXYZ1234', 'prodos': 'ABCDEFGHIJKLMNO', 'pascal': 'ABCDEFGHIJKLMNO',
                'cpm2': 'LONGNAME.EXT', 'cpm3': 'LONGNAME.EXT', 'fat': 'LONGNAME.EXT'}[fs]
        over = full + '5' if '.' not in full else 'LONGNAMEXYZ.EXTRA'
        over2 = full + '5' if '.' not in full else 'LONGNAME.EXTRA'
        if opts != '-':
            ops += [f"P~{full}~0-1~U~~", f"D~{over}", f"L~{over}", f"U~{over}", f"R~{over}~ZZ", f"D~{over2}", f"R~{over2}~ZZ", f"P~{over}~0~U~~", f"D~{full}"]
            if fs in ('dos33', 'dos32', 'prodos'):
                ops.insert(-1, f"T~{over}~bin~768")
        if fs == 'fat' and opts != '-':      # (the abstract model has no label: oracle stream only)
            # the volume label (VOLLBL on this kind) is no file: it cannot be deleted, renamed or locked, and its name stays taken
            ops += ["D~VOLLBL", "R~VOLLBL~OTHER", "L~VOLLBL", "P~VOLLBL~0~U~~", "D~VOLLBL"]
        out.append(f"fsh {tag}{i} {fs} {lab} {opts} {';'.join(ops)}")
    return out


BIGFILE = [('dos33', 'do:5.25in'), ('prodos', 'po:5.25in'), ('prodos', 'po:3.5in-ds'), ('pascal', 'po:5.25in'), ('cpm2', 'do:5.25in'), ('cpm2', 'imd:8in'),
           ('cpm2', 'imd:8in-trs80'), ('cpm2', 'td0:8in-nabu'), ('cpm2', 'imd:5.25in-kay4'),      # more than 255 blocks: two-byte block pointers
           ('fat', 'img:5.25in-ibm-dsdd9'), ('fat', 'img:3.5in-ibm-720'), ('fat', 'img:3.5in-ibm-1440'), ('fat', 'imd:5.25in-ibm-dsdd9')]


def bigfile_cases(ctx, opts, tag):
    """one file takes nearly the whole volume (its chain reaches the last sectors of the allocation structures), is deleted, small files
    follow; the image is serialised and reloaded in between (stale allocation data would show as lost free space)"""
    out = []
    for i, (fs, lab) in enumerate(BIGFILE):
        cfg = fsgen.FS[fs]
        ext = '.T' if cfg['ext'] else ''
        z0 = 'ZF0.Z' if (fs.startswith('cpm') or fs == 'fat') else 'ZF0'
        # the image is serialised after every 4th step: once while the big file exists, again after it is gone
        ops = [f"P~A{ext}~0~U~~~v", f"P~B{ext}~0-1~U~~~v", f"D~A{ext}", f"Z~{ctx.rng.choice([0, 1, 3])}",
               f"D~{z0}", f"P~C{ext}~0~U~~~v", f"P~E{ext}~0-2~U~~~v", f"D~C{ext}",
               f"Z~2", f"D~{z0}", f"P~G{ext}~0~U~~~v", f"D~B{ext}"]
        if fs == 'cpm2' and lab == 'imd:8in' and opts != '-':
            # a chunk 32 MB into the file lies beyond the last extent number: the file is refused and nothing changes
            far = 32 * 1024 * 1024 // 1024
            ops = [f"P~A{ext}~0~U~~~v", f"P~FAR{ext}~0,{far}~U~~", f"P~FAR2{ext}~0,{far - 1}~U~~", f"D~FAR2{ext}", f"D~FAR{ext}"] + ops
        if fs == 'pascal' and opts != '-':
            # a file of more blocks than a 16 bit count holds cannot be stored, and the attempt leaves the other files alone
            ops = [f"P~A{ext}~0~U~~~v", f"P~B{ext}~0-1~U~~~v", f"D~A{ext}", f"P~HUGE{ext}~0-65536~U~~", f"P~C{ext}~0~U~~~v", f"P~HUGE{ext}~0-65535~U~~"] + ops
        out.append(f"fsh {tag}{i} {fs} {lab} {opts} {';'.join(ops)}")
    return out


SUBDIR = [('fat', 'img:5.25in-ibm-dsdd9', 32), ('fat', 'img:5.25in-ibm-ssdd8', 16), ('fat', 'imd:5.25in-ibm-dsdd9', 32), ('prodos', 'po:5.25in', 12), ('prodos', 'woz2:5.25in', 12)]


def subdir_cases(ctx, opts, tag):
    """a subdirectory filled to the end of its unit: the next entry (a file, or another directory) makes it grow; both kinds of entry
    at every fill level around the boundary"""
    out = []
    k = 0
    for fs, lab, first in SUBDIR:
        ext = '.T' if fsgen.FS[fs]['ext'] else ''
        used0 = 2 if fs == 'fat' else 0            # . and .. occupy two entries of a FAT subdirectory
        for delta in (-1, 0, 1):
            for kind in ('M', 'P'):
                n = first - used0 + delta
                ops = ["M~D1"] + [f"P~D1/F{i}{ext}~0~U~~~v" for i in range(n)]
                ops += [f"M~D1/SUB" if kind == 'M' else f"P~D1/NEW{ext}~0-1~U~~~v", f"P~D1/AFTER{ext}~0~U~~~v"]
                if kind == 'M':
                    ops += [f"P~D1/SUB/IN{ext}~0-1~U~~~v", f"D~D1/F0{ext}", f"P~D1/SUB/IN2{ext}~0~U~~~v"]
                out.append(f"fsh {tag}{k} {fs} {lab} {opts} {';'.join(ops)}")
                k += 1
        # a directory that has grown beyond its first unit is emptied and deleted, its space used again
        n = first - used0 + 2
        ops = ["M~D1"] + [f"P~D1/F{i}{ext}~0~U~~~v" for i in range(n)] + [f"P~KEEP{ext}~0-1~U~~~v"] + [f"D~D1/F{i}{ext}" for i in range(n)]
        ops += ["D~D1", f"P~AFTER{ext}~0-3~U~~~v", "M~D1", f"P~D1/AGAIN{ext}~0~U~~~v"]
        out.append(f"fsh {tag}{k} {fs} {lab} {opts} {';'.join(ops)}")
        k += 1
        # a file is not a directory: nothing can be stored, created, renamed or deleted below it
        ops = [f"P~PLAIN{ext}~0~U~~~v", f"P~PLAIN{ext}/B{ext}~0~U~~", f"M~PLAIN{ext}/SUB", "M~D1", f"P~D1/IN{ext}~0~U~~~v", f"P~D1/IN{ext}/DEEP{ext}~0~U~~",
               f"R~PLAIN{ext}/B{ext}~C{ext}", f"D~PLAIN{ext}/B{ext}", f"L~D1/IN{ext}/X"]
        out.append(f"fsh {tag}{k} {fs} {lab} {opts} {';'.join(ops)}")
        k += 1
        # a full directory on a volume with one unit left: the directory can still grow, but the file (or the new directory) that made it
        # grow finds no room; what was in the directory must stay readable, in this session and after saving
        n = first - used0
        for last_op in (f"P~D1/BIG{ext}~0-1~U~~", "M~D1/SUB"):
            # (the one unit left is one that held a file before: its old content must not be taken for directory entries)
            ops = ["M~D1"] + [f"P~D1/F{i}{ext}~0~U~~~v" for i in range(n)] + [f"P~KEEP{ext}~0-2~U~~~v", f"P~ONE{ext}~0~U~~~v", "Z~0", f"D~ONE{ext}", last_op, f"D~KEEP{ext}", f"P~D1/AFTER{ext}~0~U~~~v"]
            out.append(f"fsh {tag}{k} {fs} {lab} {opts} {';'.join(ops)}")
            k += 1
        # directories whose names have an extension (legal on FAT, unusual), nested
        if fs == 'fat' and opts != '-':
            ops = ["M~DATA.DIR", "P~DATA.DIR/NOTE.TXT~0-1~U~~~v", "M~DATA.DIR/SUB.X", "P~DATA.DIR/SUB.X/IN.T~0~U~~~v", "M~PLAIN", "P~PLAIN/A.TXT~0~U~~~v", "P~ROOT.TXT~0~U~~~v",
                   "R~DATA.DIR~DATA2.D", "P~DATA2.D/MORE.T~0~U~~~v", "D~DATA2.D/NOTE.TXT"]
            out.append(f"fsh {tag}{k} {fs} {lab} {opts} {';'.join(ops)}")
            k += 1
        # the file image of a directory stored under another name is a file, not a second way into the directory's files
        if opts != '-':
            ops = ["M~D1", f"P~D1/X{ext}~0-1~U~~~v", f"P~D1/Y{ext}~0~U~~~v", "C~D1~D9", f"D~D9/X{ext}", f"P~NEW{ext}~0-2~U~~~v", f"D~D1/Y{ext}", f"P~D1/Z{ext}~0~U~~~v"]
            out.append(f"fsh {tag}{k} {fs} {lab} {opts} {';'.join(ops)}")
            k += 1
        # a name is taken by whatever holds it: a file cannot take the name of a directory beside it, nor a directory that of a file
        # or of another directory, by rename, put or mkdir; in the root and one level down
        for pre in ('', 'D1/'):
            ops = (["M~D1"] if pre else []) + [f"M~{pre}SUBA", f"M~{pre}SUBB", f"P~{pre}FILE{ext}~0~U~~~v", f"P~{pre}OTHER~0-1~U~~~v", f"P~{pre}SUBA/IN{ext}~0~U~~~v",
                   f"R~{pre}FILE{ext}~SUBA", f"R~{pre}OTHER~suba", f"R~{pre}SUBA~FILE{ext}", f"R~{pre}SUBB~OTHER", f"R~{pre}SUBA~SUBB", f"R~{pre}subb~SUBA",
                   f"M~{pre}FILE{ext}", f"M~{pre}OTHER", f"M~{pre}suba", f"P~{pre}SUBA~0~U~~", f"P~{pre}subb~0~U~~",
                   f"R~{pre}SUBA~SUBC", f"R~{pre}OTHER~SUBA", f"R~{pre}FILE{ext}~SUBC", f"P~{pre}SUBC/IN2{ext}~0~U~~~v"]
            out.append(f"fsh {tag}{k} {fs} {lab} {opts} {';'.join(ops)}")
            k += 1
    return out


LOCKBIG = [('dos33', 'do:5.25in', ['0-1', '0-121', '0-122', '0-250', '0,130']), ('dos32', 'd13:5.25in-13', ['0-1', '0-122']),
           ('prodos', 'po:5.25in', ['0', '0-1', '0-200', '0,256', '0,255', '0,300', '0-2,257']), ('prodos', 'po:3.5in-ds', ['0-256', '0-300', '0-255']),
           ('cpm2', 'do:5.25in', ['0-1', '0-16', '0-40', '0,40']), ('cpm2', 'imd:8in', ['0-16', '0-17']),
           ('fat', 'img:5.25in-ibm-dsdd9', ['0', '0-1', '0-100'])]


def deepdir_cases(ctx, opts, tag):
    """a ProDOS subdirectory filled until it can grow no more (every directory walk of a2kit ends after 100 blocks): the put that does not
    fit is refused, everything stored before stays readable, files can be deleted and the directory removed when it is empty"""
    n = 1300
    ops = ["M~D1"] + [f"P~D1/F{i}~0~U~~" for i in range(n + 3)] + [f"D~D1/F{i}" for i in (0, 650, n - 1, n - 2)] + [f"P~D1/G{i}~0~U~~" for i in range(3)]
    return [f"fsh {tag}0 prodos po:3.5in-ds {opts}e {';'.join(ops)}"]


def lockbig_cases(ctx, opts, tag):
    """a locked file of every storage form (one unit, one index, several indexes, sparse past an index boundary), in the root and
    in a subdirectory: delete, rename and overwrite must be refused, unlock must give the file back unchanged"""
    out = []
    k = 0
    for fs, lab, specs in LOCKBIG:
        cfg = fsgen.FS[fs]
        ext = '.T' if cfg['ext'] else ''
        for spec in specs:
            if (',' in spec) and not cfg['holes']:
                continue
            for where in (['', 'D1/'] if cfg['dirs'] else ['']):
                ops = (["M~D1"] if where else []) + [f"P~{where}KEEP{ext}~0~U~~~v", f"P~{where}BIG{ext}~{spec}~U~~~v", f"L~{where}BIG{ext}", f"D~{where}BIG{ext}",
                       f"R~{where}BIG{ext}~OTHER{ext}", f"P~{where}BIG{ext}~0~U~~", f"D~{where}KEEP{ext}", f"U~{where}BIG{ext}", f"R~{where}BIG{ext}~OTHER{ext}",
                       f"L~{where}OTHER{ext}", f"D~{where}OTHER{ext}", f"U~{where}OTHER{ext}", f"D~{where}OTHER{ext}"]
                out.append(f"fsh {tag}{k} {fs} {lab} {opts} {';'.join(ops)}")
                k += 1
        if cfg['dirs'] and specs:
            # a protected directory (empty, then with a file in it): delete and rename refused until the protection is removed
            for inner in (False, True):
                ops = ["M~D1", f"P~KEEP{ext}~0~U~~~v"] + ([f"P~D1/IN{ext}~0~U~~~v"] if inner else []) + ["L~D1", "D~D1", "R~D1~D2", "U~D1", "R~D1~D2", "L~D2", "D~D2", "U~D2"]
                ops += ([f"D~D2/IN{ext}"] if inner else []) + ["D~D2", f"D~KEEP{ext}"]
                out.append(f"fsh {tag}{k} {fs} {lab} {opts} {';'.join(ops)}")
                k += 1
    return out


def dirfill_cases(ctx, opts, tag):
    return [f"fsh {tag}{i} {fs} {lab} {opts} {fsgen.dirfill_history(ctx.rng, fs, cap)}" for i, (fs, lab, cap) in enumerate(DIRFILL)]

def slotfill_cases(ctx, opts, tag):
    quick = ctx.tier == 'quick'
    return [f"fsh {tag}{i} {fs} {lab} {opts} {fsgen.slotfill_history(ctx.rng, fs, min(cap - 3, 42 if quick else 70))}"
            for i, (fs, lab, cap) in enumerate(DIRFILL) if not (quick and i in (5, 6, 7, 9, 10))]

EXACTFIT = [('dos33', 'do:5.25in', [1, 122, 123, 244, 245]), ('dos32', 'd13:5.25in-13', [122, 123]), ('prodos', 'po:5.25in', [1, 2, 255, 256, 257]),
            ('prodos', 'po:3.5in-ds', [256, 257, 512, 513]), ('pascal', 'po:5.25in', [1, 100]), ('cpm2', 'do:5.25in', [1, 16, 17, 32, 33]),
            ('cpm2', 'imd:5.25in-osb-sd', [8, 9, 16, 17]), ('fat', 'img:5.25in-ibm-ssdd9', [1, 2, 100]), ('fat', 'img:5.25in-ibm-dsdd9', [1, 2, 100])]

def exactfit_cases(ctx, opts, tag):
    out = []
    i = 0
    for fs, lab, bounds in EXACTFIT:
        for b in bounds:
            for delta in ([0, 1] if ctx.tier == 'quick' else [0, 1, 2, 3]):
                out.append(f"fsh {tag}{i} {fs} {lab} {opts} {fsgen.exactfit_history(ctx.rng, fs, b, delta)}")
                i += 1
    return out

def prodos_tree_stream(ctx):
    """ProDOS file structure: chunk sets at every storage-type boundary and sparse ones, stored on a fresh volume; storage type, key
    pointer, block count, master table and every (chunk, block) pair read raw from the image must equal Fs/ProdosTree.v"""
    rng = ctx.rng
    quick = ctx.tier == 'quick'
    sets = ['0', '1', '0-1', '0,2', '255', '0-255', '254-255', '256', '0,256', '0-256', '255-256', '257', '1,257', '511', '512', '0,511-513', '39', '300',
            '0,255,256,600,1300', '767-769', '1023-1025', '32767', '0,32767', '256,32767', '32768', '40000', '0-300', '0-600', '32767F', '0,32767F', '32766F', '0F', '0-256F']
    for _ in range(12 if quick else 200):
        n = rng.choice([1, 2, 3, 8, 30])
        top = rng.choice([2, 256, 257, 600, 1300, 5000, 32768])
        cs = sorted({rng.choice([rng.randrange(top), rng.choice([0, 1, 255, 256, 257, 511, 512, 513]) % top]) for _ in range(n)})
        sets.append(','.join(str(c) for c in cs))
    lines = [f"pdtree pt{i} po:3.5in-ds {s}" for i, s in enumerate(sets)]
    lines += [f"pdtree pu{i} po:5.25in {s}" for i, s in enumerate(sets[:20])]
    canon = lambda toks, text: None if text is None else ('refused' if text.startswith('refused') else text)
    probe = lines
    fw.correspond(ctx, 'prodos-structure (storage type, key, block count, master and index tables after put on a fresh volume vs Fs/ProdosTree.v)', lines, canon=canon,
                  trivial=lambda toks, out: out is None or out.startswith('refused'))


def cpm_extent_stream(ctx):
    """CP/M directory entries of one file: chunk sets at every entry and logical-extent boundary, with holes of whole entries, and ends
    of file at every record position; extent numbers, record counts, pointers, the chunk indices and the end of file that get reports
    must equal Fs/CpmExtents.v (disk kinds with and without an extent mask, one- and two-byte pointers, CP/M 2 and 3)"""
    rng = ctx.rng
    quick = ctx.tier == 'quick'
    kinds = [('do:5.25in', '5.25in'), ('imd:5.25in-osb-sd', '5.25in-osb-sd'), ('imd:5.25in-kay4', '5.25in-kay4'), ('imd:8in-trs80', '8in-trs80'), ('imd:8in', '8in')]
    info = fw.run_lines(fw.HARNESS_BIN, [f"dpbinfo d{i} {k}" for i, (_, k) in enumerate(kinds)], shards=1)
    lines = []
    n = 0
    for i, (lab, k) in enumerate(kinds):
        try:
            bsh, off, dsm, drm, exm, spt = [int(x) for x in info.get(f"d{i}", '').split()]
        except ValueError:
            continue
        bs = 128 << bsh
        spx = 16 if dsm < 256 else 8
        slx = spx // (exm + 1)
        sets = [[], [0], [0, 1], list(range(slx)), list(range(slx + 1)), list(range(spx)), list(range(spx + 1)), list(range(2 * spx)), list(range(2 * spx + 1)),
                [spx], [0, spx], [0, 2 * spx + 1], [slx], [0, slx], [spx - 1], [0, spx - 1, spx], [3 * spx + slx], list(range(3 * spx + slx + 1))]
        for _ in range(4 if quick else 60):
            top = rng.choice([spx, 2 * spx, 4 * spx])
            sets.append(sorted({rng.randrange(top) for _ in range(rng.choice([1, 2, 5]))}))
        for cs in sets:
            if len(cs) > dsm - 8:
                continue
            end = (max(cs) + 1) if cs else 0
            for tail in ([1, 128, bs] if quick else [1, 127, 128, 129, bs - 128, bs - 1, bs]):
                eof = (end - 1) * bs + tail if cs else 0
                for v3 in ([0] if (quick and n % 3) else [0, 1]):
                    spec = ','.join(str(c) for c in cs) if cs else '-'
                    lines.append(f"cpmext ce{n} {lab} {exm} {bs} {spx} {v3} {spec} {eof}")
                    n += 1
    fw.correspond(ctx, 'cpm-extents (extent numbers, record and byte counts, pointers of every directory entry, chunk indices and end of file of get, vs Fs/CpmExtents.v)', lines,
                  trivial=lambda toks, out: out is None or out.startswith('refused'))


def standard_run(ctx, pid, opts='r', lock_heavy=False, also=(), model_ok=True, n_oracle=None, n_corr=None):
    ctx.also_props = tuple(also)
    quick = ctx.tier == 'quick'
    n_o = n_oracle or (3 if quick else 12)
    n_c = n_corr or (2 if quick else 8)
    if model_ok:
        corr = gen_cases(ctx, MODEL_FS, n_c, '-', True, lock_heavy=lock_heavy, tag='m')
        corr += [c for c in dirfill_cases(ctx, '-', 'md') if c.split()[2] != 'cpm3']
        corr += exactfit_cases(ctx, '-', 'me')
        corr += [c for c in slotfill_cases(ctx, '-', 'mf') if c.split()[2] != 'cpm3']
        corr += [c for c in collide_cases(ctx, '-', 'mc') if c.split()[2] != 'cpm3']
        corr += subdir_cases(ctx, '-', 'ms')
        corr += [' '.join(c.split(' ')[:4] + ['-'] + c.split(' ')[5:]).replace(' k', ' mk', 1) for c in corpus_cases(pid) if c.split()[2] != 'cpm3']
        run_correspondence(ctx, corr)
        if pid in ('C01', 'C03'):
            prodos_tree_stream(ctx)
        if pid == 'C01':
            cpm_extent_stream(ctx)
    oracle = corpus_cases(pid) + (deepdir_cases(ctx, opts, 'ox') if (pid == 'C05' and not quick) else []) + collide_cases(ctx, opts, 'oc') + bigfile_cases(ctx, opts, 'ob') + subdir_cases(ctx, opts, 'os') + (lockbig_cases(ctx, opts, 'ol') if lock_heavy else []) + dirfill_cases(ctx, opts, 'od') + slotfill_cases(ctx, opts, 'of') + exactfit_cases(ctx, opts, 'oe') + gen_cases(ctx, ALL_FS, n_o, opts, False, lock_heavy=lock_heavy, tag='o')
    if pid == 'C06':
        # every second history on a container with metadata runs on an image that carries notes of several lines
        def noted(i, c):
            t = c.split(' ', 5)
            if i % 2 == 0 and t[3].split(':')[0] in ('td0', 'imd', 'woz1', 'woz2', '2mg-po', '2mg-do', '2mg-nib') and 'n' not in t[4]:
                t[4] += 'n'
            return ' '.join(t)
        oracle = [noted(i, c) for i, c in enumerate(oracle)]
    out = run_oracle(ctx, pid, oracle, also=also)
    ctx.samples += [oracle[-1][:300] + ' -> ' + (out.get(oracle[-1].split()[1]) or '')[:300]]
    ctx.distribution['rule'] = ('a case is one operation history on one (file system, disk kind, container); distinct by text; non-trivial = it ran to its end or to an '
                                'oracle verdict with at least one accepted operation')
    ctx.distribution['oracle_histories'] = len(oracle)
    return out

def replay(ctx, pid, rp, also=()):
    ctx.also_props = tuple(also)
    f = rp.get('failure')
    if f:
        run_oracle(ctx, pid, [f['case']], also=also)
        print('replayed', f['case'][:160], '->', len(ctx.failures), 'failure(s)')
    else:
        standard_run(ctx, pid)
