"""Minimal LSP client for the a2kit language servers (stdio, Content-Length framing). Used by C18."""
import json, os, subprocess, threading, time, queue


class Server:
    def __init__(self, binary, env_extra=None):
        env = dict(os.environ)
        env.update(env_extra or {})
        self.p = subprocess.Popen([binary], stdin=subprocess.PIPE, stdout=subprocess.PIPE, stderr=subprocess.DEVNULL, env=env)
        self.q = queue.Queue()
        self.t = threading.Thread(target=self._reader, daemon=True)
        self.t.start()
        self.next_id = 1
        self.log = []          # everything received, in order, with arrival time

    def _reader(self):
        f = self.p.stdout
        try:
            while True:
                n = None
                while True:
                    line = f.readline()
                    if not line:
                        self.q.put(None)
                        return
                    line = line.strip()
                    if not line:
                        break
                    if line.lower().startswith(b'content-length:'):
                        n = int(line.split(b':')[1])
                body = f.read(n)
                self.q.put(json.loads(body))
        except Exception:
            self.q.put(None)

    def send(self, msg):
        body = json.dumps(msg).encode()
        try:
            self.p.stdin.write(b'Content-Length: %d\r\n\r\n' % len(body) + body)
            self.p.stdin.flush()
            return True
        except Exception:
            return False

    def notify(self, method, params):
        return self.send({'jsonrpc': '2.0', 'method': method, 'params': params})

    def request(self, method, params):
        i = self.next_id
        self.next_id += 1
        self.send({'jsonrpc': '2.0', 'id': i, 'method': method, 'params': params})
        return i

    def pump(self, until=None, timeout=1.0):
        """receive messages for at most `timeout` s (or until until(msg) is true); answers server->client requests"""
        end = time.time() + timeout
        while True:
            left = end - time.time()
            if left <= 0:
                return None
            try:
                m = self.q.get(timeout=left)
            except queue.Empty:
                return None
            if m is None:
                self.log.append({'eof': True, 't': time.time()})
                return 'eof'
            m['_t'] = time.time()
            self.log.append(m)
            if 'method' in m and 'id' in m:      # request from the server
                if m['method'] == 'workspace/configuration':
                    self.send({'jsonrpc': '2.0', 'id': m['id'], 'result': [None for _ in m['params'].get('items', [1])]})
                else:
                    self.send({'jsonrpc': '2.0', 'id': m['id'], 'result': None})
            if until and until(m):
                return m

    def close(self):
        try:
            i = self.request('shutdown', None)
            self.pump(lambda m: m.get('id') == i and 'method' not in m, 1.0)
            self.notify('exit', None)
            self.p.stdin.close()
            self.p.wait(timeout=1)
        except Exception:
            pass
        try:
            self.p.kill()
            self.p.wait(timeout=1)
        except Exception:
            pass


def start(binary, env_extra=None):
    s = Server(binary, env_extra)
    i = s.request('initialize', {'processId': None, 'rootUri': None, 'capabilities': {'workspace': {'configuration': True}}})
    r = s.pump(lambda m: m.get('id') == i and 'method' not in m, 10.0)
    if r in (None, 'eof'):
        s.close()
        return None
    s.notify('initialized', {})
    s.pump(None, 0.3)
    return s


def diags_of(log, uri=None):
    out = []
    for m in log:
        if m.get('method') == 'textDocument/publishDiagnostics':
            p = m['params']
            if uri is None or p['uri'] == uri:
                out.append((p['uri'], p.get('version'), p['diagnostics'], m['_t']))
    return out


def canon_diags(ds):
    return sorted(json.dumps({'range': d.get('range'), 'severity': d.get('severity'), 'message': d.get('message')}, sort_keys=True) for d in ds)


def run_history(binary, lang_id, steps, delays='', settle=0.8, timeout=30.0):
    """steps: list of (kind 'open'|'change', uri, version, text, gap_seconds). Returns observation dict."""
    s = start(binary, {'A2KIT_VERIF_DELAYS': delays} if delays else None)
    if s is None:
        return {'error': 'server did not initialize'}
    last = {}
    for kind, uri, ver, text, gap in steps:
        if kind == 'open':
            s.notify('textDocument/didOpen', {'textDocument': {'uri': uri, 'languageId': lang_id, 'version': ver, 'text': text}})
        elif kind == 'change2':
            # one notification carrying two full-text changes: they apply in order, the document is the last one
            broken = text.replace('\n', ' )(\n', 1) if '\n' in text else text + ' )('
            s.notify('textDocument/didChange', {'textDocument': {'uri': uri, 'version': ver}, 'contentChanges': [{'text': broken}, {'text': text}]})
        else:
            s.notify('textDocument/didChange', {'textDocument': {'uri': uri, 'version': ver}, 'contentChanges': [{'text': text}]})
        last[uri] = ver
        if gap > 0:
            s.pump(None, gap)
    # wait until every document has a publish for its last version (or timeout)
    end = time.time() + timeout
    def done():
        got = {}
        for u, v, d, t in diags_of(s.log):
            got[u] = v
        return all(got.get(u) == v for u, v in last.items())
    while time.time() < end and not done():
        if s.pump(None, 0.2) == 'eof':
            break
    s.pump(None, settle)          # anything stale arriving late?
    # the server must still answer a request
    alive = False
    if s.p.poll() is None:
        uri0 = steps[-1][1]
        i = s.request('textDocument/documentSymbol', {'textDocument': {'uri': uri0}})
        r = s.pump(lambda m: m.get('id') == i and 'method' not in m, 5.0)
        alive = r not in (None, 'eof')
    obs = {'publishes': [(u, v, canon_diags(d)) for u, v, d, t in diags_of(s.log)], 'last_sent': last, 'alive': alive, 'exited': s.p.poll()}
    s.close()
    return obs
