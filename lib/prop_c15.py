"""C15 -- disassembly reassembles to the identical bytes."""
import os, sys, json, collections, re
import framework as fw
import asmgen
from framework import hexs
sys.path.insert(0, os.path.join(fw.VERIF, 'translator'))
import gen as translator

PROCS = ['6502', '65c02', '65802', '65816']
PROC_ID = {'6502': 0, '65c02': 1, '65802': 2, '65816': 3}
TEMPLATES = {'imm': '#{v}', 'data': '{v}', 'addr': '{v}', 'addr_x': '{v},X', 'addr_y': '{v},Y', 'iaddr': '({v})', 'iaddr_ix': '({v},X)',
             'iaddr_y': '({v}),Y', 'daddr': '[{v}]', 'daddr_y': '[{v}],Y', 'addr_s': '{v},S', 'iaddr_is_y': '({v},S),Y'}


def settings(rng, proc, any_mx=False):
    # the register-width setting can be given for every processor; the 8 bit ones have no such status and must not be affected by it
    mx = rng.choice(['11', '10', '01', '00']) if proc in ('65802', '65816') else (rng.choice(['11', '11', '00', '01', '10']) if any_mx else '11')
    if proc in ('6502', '65c02'):
        variant = 'm8'
    elif proc == '65802' and mx == '11':
        variant = rng.choice(['m8', 'm8', 'm16'])
    else:
        variant = rng.choice(['m16', 'm16+', 'm32'])
    return mx, variant


def norm_text(o):
    if o is None:
        return None
    return '|'.join(' '.join(l.split()) for l in o.split('|'))


def gen_bytes(rng, tab, proc, mx):
    kind = rng.random()
    if kind < 0.45:
        return asmgen.code_stream(rng, tab, proc, mx, rng.choice([1, 1, 2, 5, 20])), 1
    if kind < 0.8:
        return b''.join(asmgen.data_run(rng) if rng.random() < 0.5 else asmgen.code_stream(rng, tab, proc, mx, rng.randrange(1, 4)) for _ in range(rng.randrange(1, 5))), 0
    return bytes(rng.randrange(256) for _ in range(rng.choice([1, 2, 3, 8, 30]))), 0


def pick_org(rng, n):
    org = rng.choice([768, 2048, 0x8000, 0, 0xff00, 0xfff0, 0x00f0, 0x7f, 0xff, rng.randrange(65000)])
    return min(org, 65536 - n)


def sweep_lines(tab, quick):
    """every opcode of every processor x operand value classes x origins, alone and followed by NOP"""
    lines = []
    k = 0
    for proc in PROCS:
        for mx in (['11', '10', '01', '00'] if proc in ('65802', '65816') else ['11', '00']):
            variants = ['m8'] if proc in ('6502', '65c02') else (['m8', 'm16'] if (proc == '65802' and mx == '11') else ['m16', 'm32'])
            for variant in variants:
                for code, (mn, mode, procs) in sorted(tab.items()):
                    if asmgen.PROC_KEY[proc] not in procs:
                        continue
                    n = asmgen.operand_bytes(mn, mode, mx if proc in ('65802', '65816') else '11')
                    vals = [0] if n == 0 else asmgen.VALUE_CLASSES[n]
                    if quick:
                        vals = vals[:1] + vals[-2:]
                    for v in vals:
                        for org in ([0x300, 65536 - 1 - n] if quick else [0, 0x300, 0x80, 0xff00, 65536 - 1 - n]):
                            b = bytes([code]) + (v.to_bytes(n, 'little') if n else b'')
                            for tail in ([b''] if quick else [b'', b'\xea']):
                                bb = b + tail
                                if org + len(bb) > 65536:
                                    continue
                                lines.append(f"dasmrt s{k} {proc} {mx} {org} {variant} 1 {1 if code != 0 else 0} {bb.hex()}")
                                k += 1
    return lines


def ir_cases(ctx, n):
    """(source line, model IR) pairs for the assembler alone, including operand shapes the disassembler never writes"""
    rng = ctx.rng
    ops_src = translator.strip_comments(translator.read('/repo', 'src/lang/merlin/handbook/operations.rs'))
    unparsing = dict(translator.rust_str_pairs(ops_src, 'UNPARSING_MAP', 'operations.rs'))
    reduced = sorted(set(unparsing.values()))
    book = json.load(open('/repo/src/lang/merlin/handbook/opcodes.json'))
    mns = sorted(book.keys())
    out = []
    for k in range(n):
        proc = rng.choice(PROCS)
        mn = rng.choice([m for m in mns if asmgen.PROC_KEY[proc] in book[m]['processors']])
        modes = [m['addr_mnemonic'] for m in book[mn]['modes']]
        rms = sorted(set(unparsing[m] for m in modes if unparsing[m] in TEMPLATES))
        if not rms:
            continue
        rm = rng.choice(rms)
        mx, variant = settings(rng, proc)
        v = rng.choice([0, 1, 0x7f, 0x80, 0xff, 0x100, 0x1234, 0x7fff, 0xffff, 0x10000, 0x012345, 0xff0000, 0xffffff, rng.randrange(1 << 24)])
        pc = rng.choice([0x300, 0x8000, 0x80, 0xff00, 0xfffc, rng.randrange(65000)])
        relative = any(m in ('rel', 'rell') for m in modes)
        if relative and rm == 'addr':
            v = max(0, min(0xffff, pc + rng.choice([0, 2, 3, -1, -126, -125, 129, 130, 127, 128, 300, -300, 32000, -32000, 40000])))
        suf = rng.choice([0, 0, 0, 1, 2]) if rm != 'imm' else 0
        pre = 2 if rm == 'imm' else rng.choice([0, 0, 0, 1])
        digits = rng.choice([0, 0, 2, 4, 6])
        hx = f"{v:X}"
        if digits and len(hx) < digits:
            hx = hx.rjust(digits, '0')
        opnd = TEMPLATES[rm].format(v=('>' if pre == 1 else '') + '$' + hx) if rm != 'imm' else '#$' + hx
        text = f" {mn.upper()}{['', ':', 'L'][suf]} {opnd}"
        v8 = 1 if variant == 'm8' else 0
        out.append((f"asmline q{k} {variant} {proc} {mx} {pc} {hexs(text.encode())}",
                    f"asmir q{k} {v8} {PROC_ID[proc]} {mx[0]} {mx[1]} {pc} {mns.index(mn)} {suf} {pre} {reduced.index(rm)} {v}", text))
    return out


def run(ctx, model_ok=True):
    rng = ctx.rng
    quick = ctx.tier == 'quick'
    tab = asmgen.table()
    if model_ok:
        # 1. the disassembler's decisions (instruction vs data, widths, suffixes, prefixes, data runs) = model
        lines = []
        for i in range(300 if quick else 12000):
            proc = rng.choice(PROCS)
            mx, _ = settings(rng, proc)
            b, _ = gen_bytes(rng, tab, proc, mx)
            lines.append(f"dasmtext t{i} {proc} {mx} {pick_org(rng, len(b))} {b.hex()}")
        fw.correspond(ctx, 'disassembly text (Lang/Asm.v dasm_one, data_run_ex rendered by the driver) vs Disassembler::disassemble', lines, canon=lambda toks, o: norm_text(o))
        # 2. the assembler's operand width / mode / opcode choice = model
        cases = ir_cases(ctx, 300 if quick else 12000)
        impl = fw.run_lines(fw.HARNESS_BIN, [c[0] for c in cases])
        model = fw.run_lines(fw.MODEL_BIN, [c[1] for c in cases])
        dis = []
        kinds = collections.Counter()
        for il, ml, text in cases:
            cid = il.split()[1]
            a, b = impl.get(cid), model.get(cid)
            ctx.evaluations += 1
            ca = None if a is None else ('err' if a.startswith('err') else a)
            cb = None if b is None else ('err' if b.startswith('err') else b)
            if a is not None and a.startswith('err diagnostics'):
                # refused by the analyzer before the assembler ran (operation or mode not of this processor): outside the assembler model
                kinds['analyzer-refused'] += 1
                continue
            kinds['ok' if (ca or '').startswith('ok') else 'refused'] += 1
            if ca is None or ca != cb:
                dis.append({'case': il, 'source': text, 'impl': (a or 'NO-OUTPUT')[:200], 'model': (b or 'NO-OUTPUT')[:200]})
            else:
                ctx.traces_validated += 1
            ctx.nontrivial.add(il)
        ctx.streams.append({'name': 'single instruction lines: Assembler (analyze + spot_assemble) vs asm_instr', 'cases': len(cases), 'disagreements': len(dis), 'first': dis[:3], 'outcomes': dict(kinds)})
        ctx.oblige(f'correspondence/assembler instruction lines: model = implementation on {len(cases)} lines', not dis, json.dumps(dis[:2])[:1500] if dis else '')
    # 3. the property itself on the real pipeline
    lines = []
    cp = os.path.join(fw.VERIF, 'corpus', 'C15.cases')
    if os.path.exists(cp):
        lines += [l.strip() for l in open(cp) if l.strip() and not l.startswith('#')]
    lines += sweep_lines(tab, quick)
    # long runs of one byte (no instruction of the 6502: 00 under the default setting, FF, 03), alone, in front of code and behind it
    k = 0
    for n in [255, 256, 257, 300, 512, 1000, 4096, 65535]:
        for v in ([0, 0xff, 3] if n < 1000 or not quick else [0]):
            for tail in [b'', b'\xea', b'\xa9\x01\x60']:
                b = bytes([v]) * n + tail
                if len(b) <= 65535:
                    lines.append(f"dasmrt u{k} 6502 11 {min(2048, 65536 - len(b))} m8 1 0 {b.hex()}")
                    k += 1
    for i in range(400 if quick else 20000):
        proc = rng.choice(PROCS)
        mx, variant = settings(rng, proc, any_mx=True)
        b, valid = gen_bytes(rng, tab, proc, mx)
        literals = rng.choice([1, 1, 1, 0])
        # without --literals a label used as an operand has no value: refusal is then legitimate even for valid code
        lines.append(f"dasmrt r{i} {proc} {mx} {pick_org(rng, len(b))} {variant} {literals} {valid if literals else 0} {b.hex()}")
    out = fw.run_lines(fw.HARNESS_BIN, lines, timeout=2400)
    stats = collections.Counter()
    for ln in lines:
        t = ln.split()
        o = out.get(t[1])
        ctx.evaluations += 1
        if o is not None and o.startswith('ok'):
            stats[' '.join(o.split()[:2])] += 1
            if o.startswith('ok same') or 'expanded-same' in o:
                ctx.nontrivial.add(ln)
        else:
            kind = 'panic' if (o or '').startswith('PANIC') else ('different-bytes' if 'different bytes' in (o or '') else ('valid-refused' if 'valid instructions refused' in (o or '') else 'other'))
            stats['FAIL ' + kind] += 1
            ctx.failures.append({'cls': f"asm:{kind}", 'case': ln[:3000], 'detail': (o or 'NO-OUTPUT')[:600]})
    ctx.samples += [lines[-1][:160]]
    ctx.distribution = {'rule': 'distinct (processor, MX, origin, assembler variant, bytes) cases; non-trivial = reassembly reproduced the input (directly or after LUP expansion)',
                        'cases': len(lines), 'outcomes': dict(stats)}


def replay(ctx, rp):
    f = rp.get('failure')
    if f and f.get('case', '').startswith('dasmrt'):
        out = fw.run_lines(fw.HARNESS_BIN, [f['case']])
        o = out.get(f['case'].split()[1])
        print('replay:', f['case'][:200], '->', o)
        if o is None or not o.startswith('ok'):
            ctx.failures.append({'cls': f['cls'], 'case': f['case'], 'detail': (o or '')[:500]})
    else:
        run(ctx)
