"""Python copy of the geometry table (kind name -> cyls, heads, spt, secsize, id base, rust ident used by get_skew)."""
KINDS = {
 '5.25in': dict(cyls=35, heads=1, spt=16, secsize=256),
 '5.25in-13': dict(cyls=35, heads=1, spt=13, secsize=256),
 '3.5in-ss': dict(cyls=80, heads=1, spt=None, secsize=512),
 '3.5in-ds': dict(cyls=80, heads=2, spt=None, secsize=512),
 '8in': dict(cyls=77, heads=1, spt=26, secsize=128, ident='IBM_CPM1_KIND', cpm=True),
 '8in-trs80': dict(cyls=77, heads=1, spt=16, secsize=512, ident='TRS80_M2_CPM_KIND', cpm=True),
 '8in-nabu': dict(cyls=77, heads=2, spt=26, secsize=256, ident='NABU_CPM_KIND', cpm=True),
 '5.25in-ibm-ssdd8': dict(cyls=40, heads=1, spt=8, secsize=512, ibm=True),
 '5.25in-ibm-ssdd9': dict(cyls=40, heads=1, spt=9, secsize=512, ibm=True),
 '5.25in-ibm-dsdd8': dict(cyls=40, heads=2, spt=8, secsize=512, ibm=True),
 '5.25in-ibm-dsdd9': dict(cyls=40, heads=2, spt=9, secsize=512, ibm=True),
 '5.25in-ibm-ssqd': dict(cyls=80, heads=1, spt=8, secsize=512, ibm=True),
 '5.25in-ibm-dsqd': dict(cyls=80, heads=2, spt=8, secsize=512, ibm=True),
 '5.25in-ibm-dshd': dict(cyls=80, heads=2, spt=15, secsize=512, ibm=True),
 '5.25in-osb-sd': dict(cyls=40, heads=1, spt=10, secsize=256, ident='OSBORNE1_SD_KIND', cpm=True),
 '5.25in-osb-dd': dict(cyls=40, heads=1, spt=5, secsize=1024, ident='OSBORNE1_DD_KIND', cpm=True),
 '5.25in-kayii': dict(cyls=40, heads=1, spt=10, secsize=512, ident='KAYPROII_KIND', cpm=True),
 '5.25in-kay4': dict(cyls=40, heads=2, spt=10, secsize=512, ident='KAYPRO4_KIND', cpm=True),
 '3.5in-ibm-720': dict(cyls=80, heads=2, spt=9, secsize=512, ibm=True),
 '3.5in-ibm-1440': dict(cyls=80, heads=2, spt=18, secsize=512, ibm=True),
 '3.5in-ibm-2880': dict(cyls=80, heads=2, spt=36, secsize=512, ibm=True),
 '3in-amstrad': dict(cyls=40, heads=1, spt=9, secsize=512, ident='AMSTRAD_SS_KIND', cpm=True),
}
IBM_KINDS = [k for k, v in KINDS.items() if v.get('ibm')]
CPM_KINDS = [k for k, v in KINDS.items() if v.get('cpm')]
def shift_of(secsize):
    return {128: 0, 256: 1, 512: 2, 1024: 3}[secsize]
