"""C01 -- file-system property; see fscommon.py and coq/theories/Props/C01.v"""
import fscommon

def run(ctx, model_ok=True):
    fscommon.standard_run(ctx, 'C01', opts='r', lock_heavy=False, model_ok=model_ok, also=('C02',))

def replay(ctx, rp):
    fscommon.replay(ctx, 'C01', rp, also=('C02',))
