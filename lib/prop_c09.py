"""C09 -- image encode/decode is stable and self-identifying."""
import framework as fw
from framework import hexs
from prop_c08 import LABELS

def run(ctx, model_ok=True):
    rng = ctx.rng
    quick = ctx.tier == 'quick'
    lines = []
    for i in range(20 if quick else 300):
        n = rng.choice([0, 1, 2, 255, 256, 1000, rng.randrange(3000)])
        b = bytes(rng.randrange(256) for _ in range(n))
        lines.append(f"crc32 c{i} {hexs(b)}")
        lines.append(f"crc16 k{i} {rng.choice([0, 0xffff, rng.randrange(65536)])} {hexs(b)}")
    kinds = [('5.25in-ibm-ssdd9', 512, 9), ('5.25in-osb-sd', 256, 10), ('8in', 128, 26), ('5.25in-osb-dd', 1024, 5), ('5.25in-ibm-dsdd8', 512, 8)]
    for i in range(10 if quick else 120):
        kind, size, nsec = rng.choice(kinds)
        pay = []
        for s in range(nsec):
            r = rng.random()
            if r < 0.4:
                pay.append(bytes([rng.randrange(256)]) * size)
            elif r < 0.5:
                pay.append(bytes([rng.randrange(256), rng.randrange(256)]) * (size // 2))
            elif r < 0.6:
                pay.append(bytes([7]) * (size - 1) + bytes([8]))
            else:
                pay.append(bytes(rng.randrange(256) for _ in range(size)))
        lines.append(f"imdtrk t{i} {kind} {size} {nsec} " + ' '.join(hexs(p) for p in pay))
    if model_ok:
        fw.correspond(ctx, 'codec-pieces (crc32, crc16, IMD track record as serialised vs Img/Codec.v)', lines)
    # implementation-side oracle
    olines = []
    k = 0
    for lab in LABELS:
        for rep in range(1 if quick else 6):
            olines.append(f"codec o{k} {lab} {rng.randrange(1 << 30)} {rng.choice([0, 3, 25])}")
            k += 1
    # every metadata leaf of every format with metadata gets other values of its own form: what the interface accepts must leave a loadable image of the same shape
    for lab in ['woz2:5.25in', 'woz1:5.25in', 'woz2:3.5in-ds', 'woz2:5.25in-13', '2mg-po:3.5in-ss', '2mg-do:5.25in', '2mg-nib:5.25in', 'td0:8in', 'td0:3.5in-ibm-720', 'td0:5.25in-kayii',
                'imd:8in', 'imd:5.25in-ibm-dsdd9']:
        olines.append(f"metasweep o{k} {lab}")
        k += 1
    out = fw.run_lines(fw.HARNESS_BIN, olines, timeout=1400)
    for ln in olines:
        o = out.get(ln.split()[1])
        ctx.evaluations += 1
        if o is None or not o.startswith('ok'):
            typ = ln.split()[2].split(':')[0]
            ctx.failures.append({'cls': ('panic:' if (o or '').startswith('PANIC') else 'codec:') + typ, 'case': ln, 'detail': (o or 'NO-OUTPUT')[:600]})
        else:
            ctx.nontrivial.add(ln)
    ctx.samples += [lines[0][:100], olines[0] + ' -> ' + str(out.get(olines[0].split()[1]))]
    ctx.distribution = {'rule': 'distinct case lines; non-trivial = the image was serialised, reloaded and compared', 'piece_cases': len(lines), 'codec_cases': len(olines)}

def replay(ctx, rp):
    f = rp.get('failure')
    if f:
        out = fw.run_lines(fw.HARNESS_BIN, [f['case']])
        o = out.get(f['case'].split()[1])
        print('replay:', f['case'], '->', o)
        if o is None or not o.startswith('ok'):
            ctx.failures.append({'cls': f['cls'], 'case': f['case'], 'detail': (o or '')[:600]})
    else:
        run(ctx)
