"""C11 -- a failed or read-only command never changes the image file (real binary, sha256 before/after)."""
import os, tempfile, shutil, json
from concurrent.futures import ThreadPoolExecutor
import framework as fw
import cliutil
from cliutil import run as cli, sha

NEEDS_BINS = True

def failing_commands(spec, p, rng):
    o, k, ty, w, v, ext, n1, n2, dirs = spec
    big = bytes(rng.randrange(256) for _ in range(40 * 1024 * 1024 if k == 'hdmax' else 2 * 1024 * 1024))
    fimg_ok = None
    cmds = [
        ('delete missing', ['delete', '-d', p, '-f', 'NOSUCH' + ('.X' if '.' in n1 else '')], None),
        ('rename missing', ['rename', '-d', p, '-f', 'NOSUCH', '-n', 'OTHER'], None),
        ('rename onto existing', ['rename', '-d', p, '-f', n1, '-n', n2], None),
        ('lock missing', ['lock', '-d', p, '-f', 'NOSUCH'], None),
        ('unlock missing', ['unlock', '-d', p, '-f', 'NOSUCH'], None),
        ('retype missing', ['retype', '-d', p, '-f', 'NOSUCH', '-t', 'bin', '-a', '0'], None),
        ('retype bad type', ['retype', '-d', p, '-f', n1, '-t', 'nosuchtype', '-a', '0'], None),
        ('mkdir existing', ['mkdir', '-d', p, '-f', n1], None),
        ('put duplicate', ['put', '-d', p, '-f', n1, '-t', 'txt'], b'AGAIN\n'),
        ('put bad name', ['put', '-d', p, '-f', 'BAD*NAME/' + 'X' * 70, '-t', 'txt'], b'X\n'),
        ('put too large', ['put', '-d', p, '-f', 'BIG' + ('.BIN' if '.' in n1 else ''), '-t', 'raw'], big),
        ('put malformed fimg json', ['put', '-d', p, '-f', 'J' + ('.X' if '.' in n1 else ''), '-t', 'any'], b'{"fimg_version": "2.0.0", "chunks": '),
        ('put fimg for another fs', ['put', '-d', p, '-f', 'J2' + ('.X' if '.' in n1 else ''), '-t', 'any'],
         json.dumps({"fimg_version": "2.1.0", "file_system": "nosuchfs", "chunk_len": 256, "eof": "", "fs_type": "00", "aux": "", "access": "", "accessed": "", "created": "", "modified": "",
                     "version": "", "min_version": "", "full_path": "J2", "chunks": {"0": "00"}}).encode()),
        ('put bad tokens type', ['put', '-d', p, '-f', 'T' + ('.X' if '.' in n1 else ''), '-t', 'rec'], b'not json'),
        ('put block range mismatch', ['put', '-d', p, '-f', '1,,3', '-t', 'block'], b'short'),
        ('put block out of range', ['put', '-d', p, '-f', '999999', '-t', 'block'], bytes(512)),
        ('put sector out of range', ['put', '-d', p, '-f', '200,0,1', '-t', 'sec'], bytes(256)),
        ('put sector list mismatch', ['put', '-d', p, '-f', '0,0,1,,0,0,2', '-t', 'sec'], bytes(100)),
        ('put track on unsupported', ['put', '-d', p, '-f', '99,0', '-t', 'raw_track'], bytes(100)),
        ('put meta malformed', ['put', '-d', p, '-t', 'meta'], b'{"nosuch": {"x": '),
        ('put meta wrong type', ['put', '-d', p, '-t', 'meta'], b'{"nosuchtype": {"x": "1"}}'),
        ('put empty stdin', ['put', '-d', p, '-f', 'E' + ('.X' if '.' in n1 else ''), '-t', 'txt'], b''),
        ('protect unsupported or missing', ['protect', '-d', p, '-f', 'NOSUCH', '-p', 'pw', '--read'], None),
        ('unprotect missing', ['unprotect', '-d', p, '-f', 'NOSUCH'], None),
        ('get missing', ['get', '-d', p, '-f', 'NOSUCH', '-t', 'raw'], None),
        ('delete non-empty dir', ['delete', '-d', p, '-f', 'SUB'], None) if dirs else None,
        ('bad args', ['put', '-d', p, '-t', 'txt'], b'X\n'),
    ]
    return [c for c in cmds if c]

def readonly_commands(spec, p):
    o, k, ty, w, v, ext, n1, n2, dirs = spec
    return [
        ('catalog', ['catalog', '-d', p], None), ('catalog generic', ['catalog', '-d', p, '--generic'], None),
        ('tree', ['tree', '-d', p], None), ('tree meta', ['tree', '-d', p, '--meta'], None),
        ('glob', ['glob', '-d', p, '-f', '*'], None), ('stat', ['stat', '-d', p], None), ('geometry', ['geometry', '-d', p], None),
        ('get txt', ['get', '-d', p, '-f', n1, '-t', 'txt'], None), ('get raw', ['get', '-d', p, '-f', n1, '-t', 'raw'], None),
        ('get bin', ['get', '-d', p, '-f', n2, '-t', 'bin'], None), ('get any', ['get', '-d', p, '-f', n1, '-t', 'any'], None),
        ('get block', ['get', '-d', p, '-f', '2', '-t', 'block'], None), ('get sector', ['get', '-d', p, '-f', '0,0,1', '-t', 'sec'], None),
        ('get meta', ['get', '-d', p, '-t', 'meta'], None), ('get track', ['get', '-d', p, '-f', '0,0', '-t', 'track'], None),
        ('mget', ['mget', '-d', p], json.dumps([n1, n2]).encode()),
    ]

def mput_cases(spec, p):
    """a batch whose n-th element fails: nothing of the batch may reach the file"""
    o, k, ty, w, v, ext, n1, n2, dirs = spec
    rc, out, err = cli(['mget', '-d', p], stdin=json.dumps([n1, n2]).encode())
    if rc != 0:
        return []
    try:
        lst = json.loads(out.decode())
    except Exception:
        return []
    if not isinstance(lst, list) or len(lst) < 2:
        return []
    cases = []
    for pos in range(3):
        items = []
        for j in range(3):
            it = json.loads(json.dumps(lst[j % 2]))
            base = f"NEW{j}" + ('.TXT' if '.' in n1 else '')
            it['full_path'] = base if j != pos else lst[0]['full_path']     # the failing element: a name that already exists
            items.append(it)
        cases.append((f'mput element {pos} duplicate', ['mput', '-d', p], json.dumps(items).encode()))
    bad = json.loads(json.dumps(lst[:2]))
    bad[1]['chunks'] = {}
    bad[0]['full_path'] = 'FRESH' + ('.TXT' if '.' in n1 else '')
    cases.append(('mput second element empty', ['mput', '-d', p], json.dumps(bad).encode()))
    cases.append(('mput malformed json', ['mput', '-d', p], b'[{"fimg_version": '))
    return cases

def one_image(args):
    d, i, spec, seed = args
    import random
    rng = random.Random(seed * 1000 + i)
    p = cliutil.make_image(d, i, spec)
    res = []
    if p is None:
        return [('setup', spec[0] + ':' + spec[2], 'mkdsk failed', 'setup')]
    for kind, lst in [('fail', failing_commands(spec, p, rng)), ('ro', readonly_commands(spec, p)), ('fail', mput_cases(spec, p))]:
        for name, argv, stdin in lst:
            before = sha(p)
            rc, out, err = cli(argv, stdin=stdin)
            after = sha(p)
            label = f"{spec[0]}:{spec[2]} {name}"
            replay = ' '.join(argv).replace(p, '<img>')
            if rc == 101 or rc < 0:
                res.append(('panic', label, f"exit status {rc}: {err.decode('utf-8', 'replace')[-160:]}", replay))
            if kind == 'ro':
                if after != before:
                    res.append(('ro-modified', label, 'a read-only command modified the image file', replay))
                else:
                    res.append(('ok', label, f'rc={rc}', replay))
            else:
                if rc != 0 and after != before:
                    res.append(('fail-modified', label, f'command exited with {rc} but the image file changed', replay))
                elif rc != 0:
                    res.append(('ok', label, f'rc={rc}', replay))
                else:
                    res.append(('accepted', label, 'the command succeeded (nothing to check)', replay))
                    if after != before:
                        # keep later cases meaningful: restore
                        pass
    return res

def unserialisable_image(d):
    """a WOZ2 image a2kit reads but refuses to serialise (an extra chunk before TRKS moves the track bits off their usual offset):
    every modifying command then fails while saving, after the file system work is done -- the file must still be untouched"""
    p = os.path.join(d, 'odd.woz')
    if cli(['mkdsk', '-o', 'dos33', '-v', '254', '-t', 'woz2', '-k', '5.25in', '-d', p])[0] != 0:
        return []
    cli(['put', '-d', p, '-f', 'HELLO', '-t', 'txt'], stdin=b'HELLO\n')
    cli(['put', '-d', p, '-f', 'OTHER', '-t', 'txt'], stdin=b'OTHER\n')
    b = bytearray(open(p, 'rb').read())
    if b[248:252] != b'TRKS':
        return []
    extra = b'XTRA' + (504).to_bytes(4, 'little') + bytes(504)
    b[248:248] = extra
    for t in range(160):                       # TRK records: starting block moves by one
        off = 248 + 512 + 8 + t * 8
        sb = int.from_bytes(b[off:off + 2], 'little')
        if sb:
            b[off:off + 2] = (sb + 1).to_bytes(2, 'little')
    b[8:12] = bytes(4)                         # CRC 0 = not checked
    open(p, 'wb').write(bytes(b))
    res = []
    rc, out, err = cli(['catalog', '-d', p])
    if rc != 0 or b'HELLO' not in out:
        return [('ok', 'dos33:woz2-odd setup', 'a2kit does not read the odd image (nothing to check)', 'catalog')]
    for name, argv, stdin in [('delete', ['delete', '-d', p, '-f', 'HELLO'], None), ('rename', ['rename', '-d', p, '-f', 'HELLO', '-n', 'HOWDY'], None),
                              ('lock', ['lock', '-d', p, '-f', 'OTHER'], None), ('put', ['put', '-d', p, '-f', 'THIRD', '-t', 'txt'], b'THIRD\n'),
                              ('retype', ['retype', '-d', p, '-f', 'HELLO', '-t', 'bin', '-a', '768'], None)]:
        before = sha(p)
        rc, out, err = cli(argv, stdin=stdin)
        after = sha(p)
        label = f"dos33:woz2-odd {name} (failure while saving)"
        replay = ' '.join(argv).replace(p, '<odd.woz>')
        if rc != 0 and after != before:
            res.append(('fail-modified', label, f'command exited with {rc} but the image file changed (size {os.path.getsize(p)})', replay))
            open(p, 'wb').write(bytes(b))
        elif rc != 0:
            res.append(('ok', label, f'rc={rc}', replay))
        else:
            res.append(('accepted', label, 'the command succeeded (nothing to check)', replay))
    return res

def run_check(ctx):
    d = tempfile.mkdtemp(dir=fw.BUILD)
    specs = cliutil.IMAGES if ctx.tier == 'thorough' else cliutil.IMAGES[:11]
    with ThreadPoolExecutor(8) as ex:
        allres = list(ex.map(one_image, [(d, i, s, ctx.seed) for i, s in enumerate(specs)]))
    allres.append(unserialisable_image(d))
    shutil.rmtree(d, ignore_errors=True)
    counts = {}
    for res in allres:
        for cls, label, detail, replay in res:
            ctx.evaluations += 1
            counts[cls] = counts.get(cls, 0) + 1
            if cls in ('ok',):
                ctx.nontrivial.add(label)
            elif cls in ('panic', 'ro-modified', 'fail-modified', 'setup'):
                ctx.failures.append({'cls': f"{cls}:{label.split()[0]}", 'case': label + ' :: a2kit ' + replay, 'detail': detail})
    ctx.samples += [allres[0][0][1] + ' -> ' + allres[0][0][2], f"{len(specs)} images x (failing + read-only + mput batches)"]
    ctx.distribution = {'rule': 'one case = one invocation of the real binary on a populated image; non-trivial = it exited non-zero (failing set) or is read-only, and the file hash was compared', 'outcomes': counts}

def run(ctx, model_ok=True):
    run_check(ctx)

def replay(ctx, rp):
    run_check(ctx)
