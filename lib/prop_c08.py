"""C08 -- sector and block storage is exact and non-interfering."""
import framework as fw
from framework import hexs

def patterns(rng, n):
    """sector contents: boundary patterns first, then random"""
    pats = [bytes([0] * n), bytes([255] * n), bytes([0xd5, 0xaa] * (n // 2)), bytes([0xaa, 0x55] * (n // 2)),
            bytes(range(256))[:n] if n <= 256 else bytes([i & 255 for i in range(n)]),
            bytes([0xd5, 0xaa, 0x96, 0xde, 0xaa, 0xeb, 0xd5, 0xaa, 0xad] * (n // 9 + 1))[:n],
            bytes([3] * n), bytes([0xfc] * n), bytes([1, 2] * (n // 2)), bytes([7, 0xf8] * (n // 2))]
    return pats

def gen_nib(ctx, count):
    lines = []
    rng = ctx.rng
    datas = patterns(rng, 256) + [bytes(rng.randrange(256) for _ in range(256)) for _ in range(count)]
    for i, d in enumerate(datas):
        lines.append(f"enc62 e62_{i} 0 {hexs(d)}")
        lines.append(f"enc53 e53_{i} 0 {hexs(d)}")
    # decode of arbitrary (valid-MSB) nibble strings, mostly invalid/bad checksum: the error classes must agree
    t62 = [0x96, 0x97, 0x9a, 0x9b, 0x9d, 0x9e, 0x9f, 0xa6, 0xa7, 0xab, 0xac, 0xad, 0xae, 0xaf, 0xb2, 0xb3]
    for i in range(max(4, count // 4)):
        nibs = bytes(rng.choice(t62) for _ in range(343))
        lines.append(f"dec62 d62_{i} 0 1 {hexs(nibs)}")
        nibs = bytes(rng.choice([0xab, 0xad, 0xae, 0xaf, 0xb5, 0xb6, 0xb7, 0xba, 0x80 + rng.randrange(128)]) for _ in range(411))
        lines.append(f"dec53 d53_{i} 0 1 {hexs(nibs)}")
    return lines

T35 = [0x96, 0x97, 0x9a, 0x9b, 0x9d, 0x9e, 0x9f, 0xa6, 0xa7, 0xab, 0xac, 0xad, 0xae, 0xaf, 0xb2, 0xb3, 0xb4, 0xb5, 0xb6, 0xb7, 0xb9, 0xba, 0xbb, 0xbc, 0xbd, 0xbe, 0xbf, 0xcb, 0xcd, 0xce,
       0xcf, 0xd3, 0xd6, 0xd7, 0xd9, 0xda, 0xdb, 0xdc, 0xdd, 0xde, 0xdf, 0xe5, 0xe6, 0xe7, 0xe9, 0xea, 0xeb, 0xec, 0xed, 0xee, 0xef, 0xf2, 0xf3, 0xf4, 0xf5, 0xf6, 0xf7, 0xf9, 0xfa, 0xfb,
       0xfc, 0xfd, 0xfe, 0xff]

def gen_35(ctx, count):
    """3.5 inch: the 703 nibbles of a data field for 524-byte contents (carry patterns of the three checksums first), decoding of nibble
    strings that are valid, carry a wrong checksum, or contain a byte outside the table; whole WOZ2 track buffers after writes"""
    rng = ctx.rng
    lines = []
    datas = patterns(rng, 524) + [bytes([255] * 12 + [0] * 512), bytes([0x80] * 524), bytes([0x7f, 0x80, 0x81] * 175)[:524], bytes([255, 0, 255] * 175)[:524]]
    datas += [bytes(rng.randrange(256) for _ in range(524)) for _ in range(count)]
    datas += [bytes(rng.choice([0, 255, 254, 1, 128]) for _ in range(524)) for _ in range(count // 2)]
    for i, d in enumerate(datas):
        lines.append(f"enc35 e35_{i} {hexs(d)}")
    for i in range(max(6, count // 3)):
        r = rng.random()
        if r < 0.4:
            nibs = bytes(rng.choice(T35) for _ in range(703))                     # valid bytes, checksum almost surely wrong
        elif r < 0.7:
            nibs = bytearray(rng.choice(T35[:4]) for _ in range(703))               # a byte with its high bit set that is not in the table
            nibs[rng.randrange(703)] = rng.choice([0x80, 0x95, 0xaa, 0xd5, 0x98, 0xc0])
            nibs = bytes(nibs)
        else:
            nibs = bytes([0x96] * 703)                                             # all zero values: data zero, checksums zero
        lines.append(f"dec35 d35_{i} {hexs(nibs)}")
    k = 0
    for sides, tracks in ((1, [0, 15, 16, 47, 63, 64, 79]), (2, [0, 1, 31, 32, 95, 127, 128, 129, 159])):
        for j in range(max(1, count // 12)):
            trk = rng.choice(tracks)
            zone = (trk if sides == 1 else trk // 2) // 16
            nsec = [12, 11, 10, 9, 8][zone]
            ws = []
            for _ in range(rng.choice([0, 1, 2, 3, nsec])):
                sec = rng.choice([rng.randrange(nsec), rng.randrange(nsec), nsec - 1, nsec, 12, 13])      # some are not on the track
                ln = rng.choice([512, 512, 512, 1, 100, 511, 600, 0])
                d = bytes(rng.randrange(256) for _ in range(ln)) if rng.random() < 0.7 else (rng.choice(patterns(rng, 512)) * 2)[:ln]
                ws.append(f"{sec} {hexs(d) if d else '-'}")
            lines.append(f"trk35 t35_{k} {sides} {trk} " + ' '.join(ws))
            k += 1
    return lines

CONTAINERS = [  # (is13, sync, fill, buflen) as the three nibble containers create their tracks
    (0, 8, 255, 6656), (1, 8, 255, 6656),      # NIB
    (0, 10, 0, 6646), (1, 9, 0, 6646),         # WOZ1
    (0, 10, 0, 6656), (1, 9, 0, 6656)]         # WOZ2

def gen_trk(ctx, per_container):
    lines = []
    rng = ctx.rng
    k = 0
    for (is13, sync, fill, buflen) in CONTAINERS:
        nsec = 13 if is13 else 16
        for j in range(per_container):
            vol = rng.choice([254, 1, 255, 0, rng.randrange(256)])
            trk = rng.choice([0, 34, 17, rng.randrange(35)])
            nw = rng.choice([0, 1, 2, nsec, rng.randrange(1, 6)])
            ws = []
            for _ in range(nw):
                sec = rng.randrange(nsec)
                ln = rng.choice([256, 256, 256, 1, 100, 255, 300])
                d = rng.choice(patterns(rng, 256) + [bytes(rng.randrange(256) for _ in range(256))])
                d = (d + d)[:ln]
                ws.append(f"{sec} {hexs(d)}")
            lines.append(f"trk t{k} {is13} {sync} {fill} {buflen} {vol} {trk} " + ' '.join(ws))
            k += 1
    return lines

def run(ctx, model_ok=True):
    quick = ctx.tier == 'quick'
    nib = gen_nib(ctx, 40 if quick else 1500)
    trk = gen_trk(ctx, 6 if quick else 120)
    s35 = gen_35(ctx, 24 if quick else 600)
    ctx.samples += [nib[0][:120] + '...', trk[1][:160] + '...']
    ctx.distribution = {'rule': 'a case is distinct by its sha1; non-trivial = the implementation did not refuse it (a sector was encoded/decoded or a track rendered)',
                        'nib_cases': len(nib), 'trk_cases': len(trk), 'sony_cases': len(s35)}
    triv = lambda toks, out: out is None or out.startswith('err') or out.startswith('write-err')
    if model_ok:
        fw.correspond(ctx, 'nib (encode_sector_62/53, decode_sector_62/53 vs Img/Nibble.v)', nib, trivial=triv)
        impl, model = fw.correspond(ctx, 'trk (NIB/WOZ1/WOZ2 track buffer after writes vs Img/Track525.v)', trk, trivial=triv)
        fw.correspond(ctx, '3.5in (encode_sector_62 / decode_sector_62 of disk35.rs vs Img/Sony.v; WOZ2 400K/800K track buffer after writes vs Img/Track35.v)', s35, trivial=triv)
    else:
        impl = fw.run_lines(fw.HARNESS_BIN, nib + trk + s35)
    # implementation-side oracle (the property's own wording): encode then decode through the real code
    oracle_sector(ctx)

LABELS = ['do:5.25in', 'po:5.25in', 'po:3.5in-ss', 'po:3.5in-ds', 'd13:5.25in-13', 'nib:5.25in', 'nib:5.25in-13', 'woz1:5.25in', 'woz1:5.25in-13',
          'woz2:5.25in', 'woz2:5.25in-13', 'woz2:3.5in-ss', 'woz2:3.5in-ds', '2mg-do:5.25in', '2mg-nib:5.25in', '2mg-po:3.5in-ss', '2mg-po:3.5in-ds',
          'img:5.25in-ibm-ssdd8', 'img:5.25in-ibm-ssdd9', 'img:5.25in-ibm-dsdd8', 'img:5.25in-ibm-dsdd9', 'img:5.25in-ibm-ssqd', 'img:5.25in-ibm-dsqd',
          'img:5.25in-ibm-dshd', 'img:3.5in-ibm-720', 'img:3.5in-ibm-1440', 'img:3.5in-ibm-2880',
          'imd:5.25in-ibm-ssdd8', 'imd:5.25in-ibm-dsdd9', 'imd:5.25in-ibm-dshd', 'imd:3.5in-ibm-720', 'imd:3.5in-ibm-1440',
          'imd:8in', 'imd:5.25in-osb-sd', 'imd:5.25in-osb-dd', 'imd:5.25in-kayii', 'imd:5.25in-kay4', 'imd:8in-trs80', 'imd:8in-nabu', 'imd:3in-amstrad',
          'td0:5.25in-ibm-ssdd9', 'td0:5.25in-ibm-dsdd9', 'td0:5.25in-ibm-dsqd', 'td0:3.5in-ibm-720', 'td0:3.5in-ibm-1440',
          'td0:8in', 'td0:5.25in-osb-sd', 'td0:5.25in-osb-dd', 'td0:5.25in-kayii', 'td0:5.25in-kay4', 'td0:8in-trs80', 'td0:8in-nabu', 'td0:3in-amstrad']

def oracle_sector(ctx):
    quick = ctx.tier == 'quick'
    lines = []
    k = 0
    for img in LABELS:
        for rep in range(2 if quick else 12):
            seed = ctx.rng.randrange(1 << 30)
            nops = 60 if quick else 400
            lines.append(f"sectorops so{k} {img} {seed} {nops}")
            k += 1
    out = fw.run_lines(fw.HARNESS_BIN, lines)
    n_ok = 0
    for ln in lines:
        toks = ln.split()
        o = out.get(toks[1])
        ctx.evaluations += 1
        if o is None or not o.startswith('ok'):
            ctx.failures.append({'cls': classify(toks, o), 'case': ln, 'detail': (o or 'NO-OUTPUT')[:800]})
        else:
            n_ok += 1
            ctx.nontrivial.add(ln)
    ctx.samples.append(lines[0] + ' -> ' + str(out.get(lines[0].split()[1]))[:200])
    ctx.distribution['sectorops_cases'] = len(lines)
    ctx.distribution['sectorops_ok'] = n_ok

def classify(toks, out):
    o = out or ''
    typ = toks[2].split(':')[0]
    if 'PANIC' in o:
        return f"panic:{typ}"
    if 'invalid address' in o:
        return f"invalid-accepted:{typ}"
    return f"oracle:{typ}"

def known_match(k, f):
    return k.get('class') == f['cls'] and all(s in f['detail'] for s in k.get('detail_contains', []))

def replay(ctx, rp):
    f = rp.get('failure')
    if f:
        out = fw.run_lines(fw.HARNESS_BIN, [f['case']])
        o = out.get(f['case'].split()[1])
        print('replay:', f['case'][:200], '->', o)
        if o is None or not o.startswith('ok'):
            ctx.failures.append({'cls': classify(f['case'].split(), o), 'case': f['case'], 'detail': (o or '')[:800]})
    else:
        run(ctx)
