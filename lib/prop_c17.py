"""C17 -- minification keeps the program valid and referentially intact."""
import os, re, json, collections
import framework as fw
import langgen
from framework import hexs

FOLLOW = [(' TO 5', 'FOR I = {v}{f}'), (' TO X STEP 2', 'FOR I = {v}{f}'), (' STEP 2', 'FOR I = 1 TO {v}{f}'), (' THEN 10', 'IF {v}{f}'), (' GOTO 10', 'IF {v}{f}'),
          (' GOTO 10,20', 'ON {v}{f}'), (' GOSUB 10', 'ON {v}{f}'), (' OR B', 'X = {v}{f}'), (' AND B', 'X = {v}{f}'), (' TAN(1)', 'PRINT {v}{f}'), (' NOT B', 'PRINT {v}{f}'),
          (' SIN(1)', 'PRINT {v}{f}'), (' LEN(A$)', 'PRINT {v}{f}'), (' FRE(0)', 'PRINT {v}{f}'), (' INT(2)', 'PRINT {v}{f}'), (' RND(1)', 'PRINT {v}{f}'), (' TAB(5)', 'PRINT {v}{f}'),
          (' SPC(5)', 'PRINT {v}{f}'), (' STR$(1)', 'PRINT {v}{f}'), (' RIGHT$(A$,1)', 'PRINT {v}{f}'), (' LEFT$(A$,1)', 'PRINT {v}{f}'), (' FN F(1)', 'PRINT {v}{f}'),
          (' AT 3', 'HLIN 1,{v}{f}'), (' + B', 'X = {v}{f}'), (' = 5', '{v}{f}'), (' ,B', 'PLOT {v}{f}'), (') + 1', 'X = ({v}{f}'), (' * EXP(1)', 'X = {v}{f}'), (' - SGN(1)', 'X = {v}{f}'),
          (' MID$(A$,1,1)', 'PRINT {v}{f}'), (' POS(0)', 'PRINT {v}{f}'), (' PEEK(0)', 'PRINT {v}{f}'), (' PDL(0)', 'PRINT {v}{f}'), (' SCRN(1,1)', 'PRINT {v}{f}'), (' ABS(1)', 'PRINT {v}{f}'),
          (' ASC(A$)', 'PRINT {v}{f}'), (' ATN(1)', 'PRINT {v}{f}'), (' CHR$(4)', 'PRINT {v}{f}'), (' COS(1)', 'PRINT {v}{f}'), (' LOG(1)', 'PRINT {v}{f}'), (' SQR(1)', 'PRINT {v}{f}'),
          (' USR(1)', 'PRINT {v}{f}'), (' VAL(A$)', 'PRINT {v}{f}'), (' SGN(1)', 'PRINT {v}{f}'), (' EXP(1)', 'PRINT {v}{f}')]


def name(rng, n=None):
    n = n or rng.choice([3, 3, 4, 5, 6, 8])
    return rng.choice('ABCDEFGHIJKLMNOPQRSTUVWXYZ') + ''.join(rng.choice('ABCDEFGHIJKLMNOPQRSTUVWXYZ0123456789') for _ in range(n - 1))


def var_pool(rng, k):
    """names of every shape the parser accepts as one variable (checked through the tokenizer: the name must come back whole)"""
    cand = sorted(set(name(rng) for _ in range(k * 3)) | {a + b + 'X' for a in 'AFGHILNOPRSTV' for b in 'ABDEFGHILNOPQRSTUVX'})
    lines = [f"tokrt v{i} applesoft 2049 {hexs(f'10 {c} = 1{chr(10)}'.encode())}" for i, c in enumerate(cand)]
    out = fw.run_lines(fw.HARNESS_BIN, lines)
    good = []
    for i, c in enumerate(cand):
        o = out.get(f"v{i}", '')
        # accepted and tokenized as name, '=' token, '1': 5 header bytes... the name bytes must appear contiguously
        if o.startswith('ok lines=1') and c.encode().hex() + 'd031' in o:
            good.append(c)
    return good


def guard_cases(ctx, pool, n):
    rng = ctx.rng
    cases = []
    for k in range(n):
        v = rng.choice(pool)
        f, tmpl = rng.choice(FOLLOW)
        src = '10 ' + tmpl.format(v=v, f=f) + '\n'
        follow = (f + src.split(f, 1)[1] if False else src[src.index(v) + len(v):]).replace(' ', '').rstrip('\n')[:8]
        cases.append((f"g{k}", v, follow, src))
    return cases


def run(ctx, model_ok=True):
    rng = ctx.rng
    quick = ctx.tier == 'quick'
    pool = var_pool(rng, 60 if quick else 400)
    ctx.oblige('generator: a pool of variable names the parser accepts whole is available', len(pool) >= 20, f'{len(pool)} names')
    if model_ok and pool:
        # 1. the guard decision
        cases = guard_cases(ctx, pool, 400 if quick else 8000)
        impl = fw.run_lines(fw.HARNESS_BIN, [f"minify {cid} 1 {hexs(src.encode())}" for cid, v, fo, src in cases])
        model = fw.run_lines(fw.MODEL_BIN, [f"hidden {cid} {hexs(v[:2].encode())} {hexs(fo.encode()) or '-'}" for cid, v, fo, src in cases])
        full = fw.run_lines(fw.MODEL_BIN, [f"hidden {cid} {hexs(v.encode())} {hexs(fo.encode()) or '-'}" for cid, v, fo, src in cases])
        dis = []
        st = collections.Counter()
        for cid, v, fo, src in cases:
            a, b = impl.get(cid), model.get(cid)
            ctx.evaluations += 1
            if a == 'rejected':
                st['source rejected'] += 1
                continue
            if full.get(cid) == '1':
                st['long name already runs into the follower: not name + follower'] += 1
                continue
            if a is None or not a.startswith('ok ') or b is None:
                dis.append({'case': src, 'impl': str(a)[:200], 'model': str(b)})
                continue
            text = bytes.fromhex(a[3:-1]).decode(errors='replace')
            squeeze = lambda t: t.replace(' ', '').replace('AT3', 'AT 3')     # the minifier keeps a blank after AT
            cand_short = squeeze(src.replace(v, v[:2], 1))
            cand_guard = squeeze(src.replace(v, '(' + v[:2] + ')' if len(v) > 4 else v, 1))
            guarded = text == cand_guard and text != cand_short
            observed = '1' if guarded else ('0' if text == cand_short else '?')
            st['guarded' if guarded else 'shortened'] += 1
            if observed != b:
                dis.append({'case': src.strip(), 'output': text.strip(), 'observed_guard': observed, 'model_guard': b})
            else:
                ctx.traces_validated += 1
                ctx.nontrivial.add(src)
        ctx.streams.append({'name': 'hidden-token guard decision: Minifier level 1 on name+follower lines vs forms_hidden_token', 'cases': len(cases), 'disagreements': len(dis), 'first': dis[:3], 'outcomes': dict(st)})
        ctx.oblige(f'correspondence/guard decision: model = implementation on {len(cases)} lines', not dis, json.dumps(dis[:2])[:1500] if dis else '')
        # 2. the line reference map
        rcases = []
        for k in range(200 if quick else 4000):
            nl = rng.choice([2, 3, 5, 8, 12])
            nums = sorted(rng.sample(range(1, 400), nl))
            rem = [n for n in nums if rng.random() < 0.4]
            lines = []
            refs = []
            for n in nums:
                if n in rem:
                    lines.append(f"{n} REM {rng.choice(['', 'X', 'note'])}")
                else:
                    tgt = rng.choice(nums + [999])
                    refs.append(tgt)
                    lines.append(f"{n} {rng.choice(['GOTO', 'GOSUB'])} {tgt}" + (f":ON X GOTO {rng.choice(nums)},{rng.choice(nums)}" if rng.random() < 0.3 else ''))
            src = '\n'.join(lines) + '\n'
            rcases.append((f"r{k}", nums, rem, src))
        impl = fw.run_lines(fw.HARNESS_BIN, [f"minify {cid} 2 {hexs(src.encode())}" for cid, nums, rem, src in rcases])
        model = fw.run_lines(fw.MODEL_BIN, [f"refmap {cid} {','.join(map(str, nums))} {','.join(map(str, rem)) or '-'}" for cid, nums, rem, src in rcases])
        dis = []
        for cid, nums, rem, src in rcases:
            a, b = impl.get(cid), model.get(cid)
            ctx.evaluations += 1
            if a is None or b is None or not a.startswith('ok ') or b == 'none':
                dis.append({'case': src, 'impl': str(a)[:200], 'model': str(b)})
                continue
            text = bytes.fromhex(a[3:-1]).decode(errors='replace')
            mp = dict((int(x.split('>')[0]), int(x.split('>')[1])) for x in b[:-1].split(',') if x)
            # expected output: every reference to a mapped line replaced, mapped lines gone, everything else as level 1 leaves it
            want_refs = []
            for l in src.strip().split('\n'):
                n = int(l.split()[0])
                if n in mp:
                    continue
                want_refs.append((n, [mp.get(int(x), int(x)) for x in re.findall(r'(?:GOTO|GOSUB|,)\s*(\d+)', l)]))
            have_refs = []
            for l in text.strip().split('\n'):
                mm = re.match(r'(\d+)(.*)', l)
                if not mm:
                    continue
                n = int(mm.group(1))
                if 'REM' in mm.group(2) and 'GO' not in mm.group(2):
                    have_refs.append((n, []))
                    continue
                have_refs.append((n, [int(x) for x in re.findall(r'(?:GOTO|GOSUB|,)(\d+)', mm.group(2))]))
            if have_refs != want_refs:
                dis.append({'case': src, 'output': text, 'model_map': b})
            else:
                ctx.traces_validated += 1
                ctx.nontrivial.add(src)
        ctx.streams.append({'name': 'deleted-line reference map: Minifier level 2 on REM/GOTO programs vs ref_map', 'cases': len(rcases), 'disagreements': len(dis), 'first': dis[:3]})
        ctx.oblige(f'correspondence/reference map: model = implementation on {len(rcases)} programs', not dis, json.dumps(dis[:2])[:1500] if dis else '')
    # 3. the property on whole programs, every level
    lines = []
    cp = os.path.join(fw.VERIF, 'corpus', 'C17.cases')
    if os.path.exists(cp):
        lines += [l.strip() for l in open(cp) if l.strip() and not l.startswith('#')]
    old = list(langgen.A_VARS)
    k = 0
    try:
        for i in range(150 if quick else 6000):
            if pool and i % 2 == 0:
                langgen.A_VARS[:] = rng.sample(pool, min(len(pool), 10)) + ['A', 'I', 'X']
            else:
                langgen.A_VARS[:] = old
            src = langgen.applesoft_program(rng, nlines=rng.choice([1, 2, 3, 5, 8, 15, 30]))
            for lv in [1, 2, 3]:
                lines.append(f"minichk p{k} {lv} {hexs(src.encode())}")
                k += 1
    finally:
        langgen.A_VARS[:] = old
    # a long name in front of every kind of follower, in upper, lower and mixed case: the shortened name must not run into a reserved word
    if pool:
        for cid, v, fo, src in guard_cases(ctx, pool, 150 if quick else 4000):
            variant = rng.choice([src.lower(), src.lower(), ''.join(c.lower() if rng.random() < 0.5 else c for c in src), src.replace(v, v.lower()), src])
            lines.append(f"minichk p{k} {rng.choice([1, 1, 3])} {hexs(variant.encode())}")
            k += 1
    # runs of comment-only lines with references into them (the programs of the reference-map stream), every level
    for i in range(60 if quick else 1500):
        nl = rng.choice([3, 5, 8, 12])
        nums = sorted(rng.sample(range(1, 400), nl))
        body = []
        for n in nums:
            if rng.random() < 0.5:
                body.append(f"{n} REM {rng.choice(['', 'X', 'note'])}")
            else:
                body.append(f"{n} {rng.choice(['GOTO', 'GOSUB', 'IF X THEN', 'ON X GOTO'])} {rng.choice(nums)}" + (f",{rng.choice(nums)}" if rng.random() < 0.2 else ''))
        for lv in [2, 3]:
            lines.append(f"minichk p{k} {lv} {hexs((chr(10).join(body) + chr(10)).encode())}")
            k += 1
    # REM-only lines that are branch targets, in every position, every level
    for a in range(3):
        for pos in range(4):
            body = [f"{(j + 1) * 10} " + ('REM target' if j == pos else f"GOTO {(pos + 1) * 10}:PRINT {j}" if j == a else f'PRINT "L{j}"') for j in range(4)]
            for lv in [1, 2, 3]:
                lines.append(f"minichk p{k} {lv} {hexs((chr(10).join(body) + chr(10)).encode())}")
                k += 1
    out = fw.run_lines(fw.HARNESS_BIN, lines, timeout=2400)
    stats = collections.Counter()
    for ln in lines:
        t = ln.split()
        o = out.get(t[1])
        ctx.evaluations += 1
        if o is not None and o.startswith('ok'):
            stats[('level ' + t[2] + ' ok') if o.startswith('ok level') else 'source rejected'] += 1
            if o.startswith('ok level'):
                ctx.nontrivial.add(ln)
        else:
            kind = 'panic' if (o or '').startswith('PANIC') else re.sub(r'[^a-z]+', '-', ' '.join((o or 'no output').split()[1:5]).lower()).strip('-')
            stats['FAIL ' + kind] += 1
            ctx.failures.append({'cls': f"minify:{kind}", 'case': ln[:3000], 'detail': (o or 'NO-OUTPUT')[:600], 'source': bytes.fromhex(t[3]).decode(errors='replace')[:500], 'level': t[2]})
    ctx.samples += [bytes.fromhex(lines[-1].split()[3]).decode(errors='replace')[:200]]
    ctx.distribution = {'rule': 'distinct (program, level) pairs; non-trivial = accepted source whose minified form was compared statement by statement', 'cases': len(lines), 'outcomes': dict(stats), 'variable_pool': len(pool)}


def replay(ctx, rp):
    f = rp.get('failure')
    if f and f.get('case', '').startswith('minichk'):
        out = fw.run_lines(fw.HARNESS_BIN, [f['case']])
        o = out.get(f['case'].split()[1])
        print('replay: level', f.get('level'), '\n' + f.get('source', ''), '->', o)
        if o is None or not o.startswith('ok'):
            ctx.failures.append({'cls': f['cls'], 'case': f['case'], 'detail': (o or '')[:500]})
    else:
        run(ctx)
