"""C20 -- output is a deterministic function of input: every operation is repeated in fresh processes (fresh hash seeds)
under a fixed wall clock and the outputs / resulting image bytes are compared byte for byte."""
import os, tempfile, shutil, json, subprocess
from concurrent.futures import ThreadPoolExecutor
import framework as fw
import cliutil
from cliutil import run as cli, sha

NEEDS_BINS = True
REPS_QUICK, REPS_THOROUGH = 5, 12
APPLESOFT = b'10 HOME\n20 FOR I = 1 TO 10: PRINT "HELLO ";I: NEXT I\n30 GOTO 10\n40 REM COMMENT\n50 DATA 1,2,"THREE"\n'
INTEGER = b'10 PRINT "HELLO"\n20 GOTO 10\n30 END\n'
MERLIN = b' ORG $300\nSTART LDA #$00\n STA $C000\n JMP START\n'

def fixclock():
    so = os.path.join(fw.BUILD, 'fixclock.so')
    if not os.path.exists(so):
        fw.sh(f"gcc -shared -fPIC -O2 -o {so} {os.path.join(fw.VERIF, 'lib', 'fixclock.c')} -ldl")
    return {'LD_PRELOAD': so} if os.path.exists(so) else {}

def records_json(n, rl=64):
    if rl == 64:
        return json.dumps({"fimg_type": "rec", "record_length": 64, "records": {str(i * 3 + (i % 2)): [f"FIELD{i}", f"SECOND{i}"] for i in range(n)}}).encode()
    # record length that does not divide the chunk size, long records next to each other: records straddle chunk boundaries
    return json.dumps({"fimg_type": "rec", "record_length": rl, "records": {str(i): ["L" * (rl - 20 - (i % 7)), f"T{i}"] for i in range(n)}}).encode()

def scenario(args):
    d, i, spec, reps, env = args
    o, k, ty, w, v, ext, n1, n2, dirs = spec
    out = []
    label = f"{o}:{ty}"
    # (a) building the same image from scratch in separate processes gives identical bytes
    hashes = []
    for r in range(reps):
        sub = os.path.join(d, f"s{i}_{r}")
        os.makedirs(sub)
        p = os.path.join(sub, f"img.{ext}")
        a = ['mkdsk', '-o', o, '-k', k, '-t', ty, '-d', p] + (['-v', v] if v else []) + (['-w', w] if w else [])
        cli(a, env=env)
        cli(['put', '-d', p, '-f', n1, '-t', 'txt'], stdin=b'HELLO WORLD\nSECOND LINE\n', env=env)
        cli(['put', '-d', p, '-f', n2, '-t', 'bin', '-a', '768'], stdin=bytes(range(200)), env=env)
        rn = 'RECS' + ('.TXT' if '.' in n1 else '')
        cli(['put', '-d', p, '-f', rn, '-t', 'rec'], stdin=records_json(9), env=env)
        cli(['put', '-d', p, '-f', 'RECX' + ('.TXT' if '.' in n1 else ''), '-t', 'rec'], stdin=records_json(14, 100), env=env)
        # a sparse file: several chunks far beyond the number of chunks present
        cli(['put', '-d', p, '-f', 'RECZ' + ('.TXT' if '.' in n1 else ''), '-t', 'rec'],
            stdin=json.dumps({"fimg_type": "rec", "record_length": 64, "records": {str(r): [f"FAR{r}"] for r in (0, 40, 90, 200, 333)}}).encode(), env=env)
        if o.startswith('cpm'):
            # files in several user areas: stat, catalog and tree enumerate the areas
            for u in (3, 1, 15, 7, 2, 11, 5, 9):
                cli(['put', '-d', p, '-f', f'{u}:U{u}.TXT', '-t', 'txt'], stdin=f'USER {u}\n'.encode(), env=env)
        if dirs:
            cli(['mkdir', '-d', p, '-f', 'SUB'], env=env)
            cli(['put', '-d', p, '-f', 'SUB/INNER' + ('.TXT' if '.' in n1 else ''), '-t', 'txt'], stdin=b'INNER\n', env=env)
        cli(['delete', '-d', p, '-f', n2], env=env)
        cli(['put', '-d', p, '-f', n2, '-t', 'raw'], stdin=bytes([7]) * 3000, env=env)
        hashes.append(sha(p))
    out.append((label + ' image bytes after the same history', len(set(hashes)) == 1, f"{len(set(hashes))} different images in {reps} runs"))
    p = os.path.join(d, f"s{i}_0", f"img.{ext}")
    rn = 'RECS' + ('.TXT' if '.' in n1 else '')
    queries = [('catalog', ['catalog', '-d', p], None), ('catalog generic', ['catalog', '-d', p, '--generic'], None), ('tree', ['tree', '-d', p], None), ('tree meta', ['tree', '-d', p, '--meta'], None),
               ('stat', ['stat', '-d', p], None), ('geometry', ['geometry', '-d', p], None), ('glob', ['glob', '-d', p, '-f', '*'], None),
               ('get any', ['get', '-d', p, '-f', n1, '-t', 'any'], None), ('get txt', ['get', '-d', p, '-f', n1, '-t', 'txt'], None),
               ('get rec', ['get', '-d', p, '-f', rn, '-t', 'rec', '-l', '64'], None), ('get rec any', ['get', '-d', p, '-f', rn, '-t', 'any'], None),
               ('get sparse raw', ['get', '-d', p, '-f', 'RECZ' + ('.TXT' if '.' in n1 else ''), '-t', 'raw'], None),
               ('get sparse txt', ['get', '-d', p, '-f', 'RECZ' + ('.TXT' if '.' in n1 else ''), '-t', 'txt'], None),
               ('get sparse any', ['get', '-d', p, '-f', 'RECZ' + ('.TXT' if '.' in n1 else ''), '-t', 'any'], None),
               ('get sparse rec', ['get', '-d', p, '-f', 'RECZ' + ('.TXT' if '.' in n1 else ''), '-t', 'rec', '-l', '64'], None),
               ('get rec raw', ['get', '-d', p, '-f', rn, '-t', 'raw'], None),
               ('get meta', ['get', '-d', p, '-t', 'meta'], None), ('get block', ['get', '-d', p, '-f', '2', '-t', 'block'], None),
               ('mget', ['mget', '-d', p], json.dumps([n1, rn]).encode())]
    for name, argv, stdin in queries:
        outs = set()
        for r in range(reps):
            rc, so, se = cli(argv, stdin=stdin, env=env)
            outs.add((rc, so))
        out.append((f"{label} {name}", len(outs) == 1, f"{len(outs)} different outputs in {reps} runs of: a2kit {' '.join(argv).replace(p, '<img>')}"))
    return out

def lang_scenarios(reps, env):
    out = []
    cases = [('tokenize atxt', ['tokenize', '-t', 'atxt', '-a', '2049'], APPLESOFT), ('tokenize itxt', ['tokenize', '-t', 'itxt'], INTEGER), ('tokenize mtxt', ['tokenize', '-t', 'mtxt'], MERLIN),
             ('minify', ['minify', '-t', 'atxt', '--level', '3'], APPLESOFT), ('renumber', ['renumber', '-t', 'atxt', '-b', '10', '-e', '60', '-f', '100', '-s', '5'], APPLESOFT),
             ('verify', ['verify', '-t', 'atxt'], APPLESOFT), ('asm', ['asm'], MERLIN),
             ('verify with diagnostics', ['verify', '-t', 'atxt'], b'10 COUNT = 1: COUNTER = 2: COLD = 3: COT = 4\n20 HEIGHT = HEN + HEX1: PRINT COUNT,COUNTER,COLD\n30 GOTO 99\n'),
             ('verify merlin with diagnostics', ['verify', '-t', 'mtxt'], b' ORG $300\nA LDA B\nA STA C\n JMP NOWHERE\n'),
             # macros that depend on each other (a self-calling one among them), macro locals defined twice: outcome and message must not vary
             ('verify merlin macro dependencies', ['verify', '-t', 'mtxt'], b'C1       MAC\n         NOP\n         C1\n         <<<\nXX       MAC\n         INX\n         <<<\nSS       MAC\n         C1\n         XX\n         <<<\n         SS\n'),
             ('verify merlin macro dependencies 2', ['verify', '-t', 'mtxt'], b'C1       MAC\n         NOP\n         C1\n         <<<\nXX       MAC\n         LDA UNDEF\n         <<<\nSS       MAC\n         C1\n         XX\n         <<<\n         SS\n'),
             ('verify merlin duplicate macro locals', ['verify', '-t', 'mtxt'], b'M1   MAC\nALPHA    NOP\nBETA    NOP\nGAMMA   NOP\nDELTA   NOP\n     <<<\nM2   MAC\nALPHA    NOP\nBETA    NOP\nGAMMA   NOP\nDELTA   NOP\n     M1\n     <<<\n     M2\n'),
             ('dasm', ['dasm', '-p', '6502', '--mx', '11', '-o', '768'], bytes([0xa9, 0, 0x8d, 0, 0xc0, 0x4c, 0, 3, 0x20, 0x58, 0xfc, 0x60] * 8)),
             ('pack rec', ['pack', '-t', 'rec', '-o', 'prodos', '-f', 'R'], records_json(12)),
             ('pack rec straddling prodos', ['pack', '-t', 'rec', '-o', 'prodos', '-f', 'R'], records_json(14, 100)),
             ('pack rec straddling dos', ['pack', '-t', 'rec', '-o', 'dos33', '-f', 'R'], records_json(14, 100)),
             ('pack rec straddling dos 127', ['pack', '-t', 'rec', '-o', 'dos33', '-f', 'R'], records_json(20, 127)),
             # records as long as a chunk and longer: each runs on into the chunk where the next one starts
             ('pack rec long dos 300', ['pack', '-t', 'rec', '-o', 'dos33', '-f', 'R'], records_json(12, 300)), ('pack rec long dos 256', ['pack', '-t', 'rec', '-o', 'dos33', '-f', 'R'], records_json(12, 256)),
             ('pack rec long prodos 600', ['pack', '-t', 'rec', '-o', 'prodos', '-f', 'R'], records_json(12, 600)), ('pack rec long prodos 512', ['pack', '-t', 'rec', '-o', 'prodos', '-f', 'R'], records_json(12, 512)),
             ('pack rec long prodos 1100', ['pack', '-t', 'rec', '-o', 'prodos', '-f', 'R'], records_json(9, 1100)), ('pack txt', ['pack', '-t', 'txt', '-o', 'dos33', '-f', 'T'], b'A\nB\n')]
    for name, argv, stdin in cases:
        outs = set()
        for r in range(reps):
            rc, so, se = cli(argv, stdin=stdin, env=env)
            outs.add((rc, so, se if name.startswith('verify') else b''))      # diagnostics are printed on stderr
        out.append((f"lang {name}", len(outs) == 1, f"{len(outs)} different outputs in {reps} runs of: a2kit {' '.join(argv)}"))
    # detokenize what tokenize produced
    for t1, t2, src in [('atxt', 'atok', APPLESOFT), ('itxt', 'itok', INTEGER)]:
        rc, tok, _ = cli(['tokenize', '-t', t1] + (['-a', '2049'] if t1 == 'atxt' else []), stdin=src, env=env)
        outs = set(cli(['detokenize', '-t', t2], stdin=tok, env=env)[:2] for r in range(reps))
        out.append((f"lang detokenize {t2}", len(outs) == 1, f"{len(outs)} different outputs"))
    return out

def run(ctx, model_ok=True):
    d = tempfile.mkdtemp(dir=fw.BUILD)
    env = fixclock()
    reps = REPS_QUICK if ctx.tier == 'quick' else REPS_THOROUGH
    specs = cliutil.IMAGES[:10] if ctx.tier == 'quick' else cliutil.IMAGES
    with ThreadPoolExecutor(8) as ex:
        res = list(ex.map(scenario, [(d, i, s, reps, env) for i, s in enumerate(specs)]))
    res.append(lang_scenarios(reps, env))
    shutil.rmtree(d, ignore_errors=True)
    for lst in res:
        for label, ok, detail in lst:
            ctx.evaluations += reps
            if ok:
                ctx.nontrivial.add(label)
            else:
                ctx.failures.append({'cls': 'nondeterministic:' + label.split()[0], 'case': label, 'detail': detail})
    ctx.samples += [res[0][1][0] + ' -> identical in all runs' if res[0][1][1] else res[0][1][2], f"{reps} fresh processes per operation, wall clock fixed by LD_PRELOAD lib/fixclock.c"]
    ctx.distribution = {'rule': 'one case = one operation repeated in fresh processes; non-trivial = all repetitions produced output and were compared byte for byte',
                        'operations': sum(len(l) for l in res), 'repetitions': reps, 'clock_fixed': bool(env)}

def replay(ctx, rp):
    run(ctx)
