/* LD_PRELOAD shim: a fixed wall clock (2020-01-02 03:04:05 UTC) so that fields which by design record the
   current time are identical between runs; monotonic clocks are left alone. */
#define _GNU_SOURCE
#include <time.h>
#include <sys/time.h>
#include <dlfcn.h>
static const time_t FIXED = 1577934245;
int clock_gettime(clockid_t id, struct timespec *ts) {
    static int (*real)(clockid_t, struct timespec *) = 0;
    if (!real) real = dlsym(RTLD_NEXT, "clock_gettime");
    if (id == CLOCK_REALTIME || id == CLOCK_REALTIME_COARSE) { ts->tv_sec = FIXED; ts->tv_nsec = 0; return 0; }
    return real(id, ts);
}
time_t time(time_t *t) { if (t) *t = FIXED; return FIXED; }
int gettimeofday(struct timeval *tv, void *tz) { if (tv) { tv->tv_sec = FIXED; tv->tv_usec = 0; } return 0; }
