"""C06 -- a saved image reloads to the same volume (reload oracle after every 4th step and at the end of each history), and the image file
loads under any name: with its usual extension, with another known one that fits, and with an extension a2kit does not know."""
import os, tempfile, shutil
import framework as fw
import fscommon

NEEDS_BINS = True


def file_name_scenarios(ctx):
    """the same image bytes under other file names: an unknown extension means "no hint", whatever its spelling (also one that happens to
    be part of a known extension, like .1, .o, .mg, .im)"""
    import cliutil
    from cliutil import run as cli
    d = tempfile.mkdtemp(dir=fw.BUILD)
    try:
        for osn, ty, kind, extra in [('prodos', 'po', '5.25in', ['-v', 'VOL']), ('dos33', 'woz2', '5.25in', ['-v', '254']), ('fat', 'img', '3.5in-ibm-720', []),
                                     ('cpm2', 'imd', '8in', []), ('pascal', 'do', '5.25in', ['-v', 'VOL'])]:
            p = os.path.join(d, f'{osn}.{ "woz" if ty.startswith("woz") else ty}')
            if cli(['mkdsk', '-o', osn, '-t', ty, '-k', kind, '-d', p] + extra)[0] != 0:
                continue
            name = 'HELLO.TXT' if osn in ('fat', 'cpm2') else 'HELLO'
            cli(['put', '-d', p, '-f', name, '-t', 'txt'], stdin=b'HELLO\n')
            rc0, want, _ = cli(['catalog', '-d', p, '--generic'])
            for ext in ['1', '2', 'o', 'd', 'mg', 'im', 'xyz', 'bak', 'IMAGE']:
                q = os.path.join(d, f'side-{osn}.{ext}')
                shutil.copyfile(p, q)
                rc, got, err = cli(['catalog', '-d', q, '--generic'])
                ctx.evaluations += 1
                if rc != rc0 or got != want:
                    ctx.failures.append({'cls': f'file-name:{osn}:{ty}', 'case': f'a2kit catalog -d side-{osn}.{ext} (a copy of the {ty} image)',
                                         'detail': f'exit status {rc} (the original gives {rc0}); listing equal: {got == want}: {err.decode("utf-8", "replace")[-160:]}'})
                else:
                    ctx.nontrivial.add(f'{osn}:{ty} as .{ext}')
                os.remove(q)
    finally:
        shutil.rmtree(d, ignore_errors=True)


def run(ctx, model_ok=True):
    fscommon.standard_run(ctx, 'C06', opts='r', model_ok=model_ok)
    file_name_scenarios(ctx)

def replay(ctx, rp):
    f = rp.get('failure')
    if f and f.get('cls', '').startswith('file-name:'):
        file_name_scenarios(ctx)
    else:
        fscommon.replay(ctx, 'C06', rp)
