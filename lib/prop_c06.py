"""C06 -- a saved image reloads to the same volume (reload oracle after every 4th step and at the end of each history)"""
import fscommon

def run(ctx, model_ok=True):
    fscommon.standard_run(ctx, 'C06', opts='r', model_ok=model_ok)

def replay(ctx, rp):
    fscommon.replay(ctx, 'C06', rp)
