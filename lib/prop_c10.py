"""C10 -- every accepted mkdsk configuration yields a valid empty volume; run on the real CLI binary for EVERY tuple."""
import os, subprocess, itertools, tempfile, json, shutil
from concurrent.futures import ThreadPoolExecutor
import framework as fw

NEEDS_BINS = True
OS = ["cpm2", "cpm3", "dos32", "dos33", "prodos", "pascal", "fat"]
KINDS = ["8in", "8in-trs80", "8in-nabu", "5.25in", "5.25in-ibm-ssdd8", "5.25in-ibm-ssdd9", "5.25in-ibm-dsdd8", "5.25in-ibm-dsdd9", "5.25in-ibm-ssqd", "5.25in-ibm-dsqd",
         "5.25in-ibm-dshd", "5.25in-kayii", "5.25in-kay4", "5.25in-osb-sd", "5.25in-osb-dd", "3.5in", "3.5in-ss", "3.5in-ds", "3.5in-ibm-720", "3.5in-ibm-1440",
         "3.5in-ibm-2880", "3in-amstrad", "hdmax"]
TYPES = ["d13", "do", "po", "woz1", "woz2", "imd", "img", "2mg", "nib", "td0"]
EXT = {"d13": "d13", "do": "do", "po": "po", "woz1": "woz", "woz2": "woz", "imd": "imd", "img": "img", "2mg": "2mg", "nib": "nib", "td0": "td0"}
WRAPS = [None, "do", "po", "nib"]
FSNAME = {"cpm2": "cpm", "cpm3": "cpm", "dos32": "a2 dos", "dos33": "a2 dos", "prodos": "prodos", "pascal": "a2 pascal", "fat": "fat"}
CAP = {'8in': 256256, '8in-trs80': 625920, '8in-nabu': 1018368, '5.25in': 143360, '5.25in-ibm-ssdd8': 163840, '5.25in-ibm-ssdd9': 184320, '5.25in-ibm-dsdd8': 327680,
       '5.25in-ibm-dsdd9': 368640, '5.25in-ibm-ssqd': 327680, '5.25in-ibm-dsqd': 655360, '5.25in-ibm-dshd': 1228800, '5.25in-kayii': 204800, '5.25in-kay4': 409600,
       '5.25in-osb-sd': 102400, '5.25in-osb-dd': 204800, '3.5in': 819200, '3.5in-ss': 409600, '3.5in-ds': 819200, '3.5in-ibm-720': 737280, '3.5in-ibm-1440': 1474560,
       '3.5in-ibm-2880': 2949120, '3in-amstrad': 184320, 'hdmax': 33553920}

def vol(o):
    return {"dos32": "254", "dos33": "254", "prodos": "NEW.DISK", "pascal": "BLANK", "cpm3": "LABEL", "fat": "NEW DISK", "cpm2": None}[o]

def a2kit():
    return os.path.join(fw.BINS_DIR, 'a2kit')

def run_tuple(args):
    d, i, (o, k, ty, w), volume, boot = args
    p = os.path.join(d, f"x{i}.{EXT[ty]}")
    cmd = [a2kit(), "mkdsk", "-o", o, "-k", k, "-t", ty, "-d", p]
    if volume is not None:
        cmd += ["-v", volume]
    if w:
        cmd += ["-w", w]
    if boot:
        cmd += ["-b"]
    try:
        r = subprocess.run(cmd, capture_output=True, text=True, timeout=120)
        rc = r.returncode
    except subprocess.TimeoutExpired:
        rc = 124
    exists = os.path.exists(p)
    verdict = None
    if rc == 0 and exists:
        # independent reader on the fresh file (before anything is stored in it)
        kk = '5.25in-13' if o == 'dos32' else k
        out = fw.run_lines(fw.HARNESS_BIN, [f"fsckfile f{i} {o} {kk} {p}"], shards=1)
        fs_verdict = out.get(f"f{i}", 'NO-OUTPUT')
        verdict = validate(p, o, k, ty, d, i)
        if verdict is None and not fs_verdict.startswith('ok'):
            verdict = fs_verdict
    if exists:
        os.remove(p)
    return (o, k, ty, w, rc, exists, verdict)

def validate(p, o, k, ty, d, i):
    """the written file is recognised again as that image type / file system, empty, with a sane free count, and accepts a first file"""
    r = subprocess.run([a2kit(), "stat", "-d", p], capture_output=True, text=True, timeout=120)
    if r.returncode != 0:
        return f"stat failed: {r.stderr.strip()[-200:]}"
    try:
        st = json.loads(r.stdout)
    except Exception as e:
        return f"stat output is not JSON: {e}"
    if st.get('fs_name') != FSNAME[o]:
        return f"reopened as file system {st.get('fs_name')!r} instead of {FSNAME[o]!r}"
    free = int(st.get('free_blocks', -1)) * int(st.get('block_size', 0))
    cap = CAP[k] if not (o == 'dos32') else 116480
    if not (0.75 * cap <= free <= cap):
        return f"free space {free} not consistent with capacity {cap}"
    r = subprocess.run([a2kit(), "geometry", "-d", p], capture_output=True, text=True, timeout=120)
    if r.returncode != 0:
        return f"geometry failed: {r.stderr.strip()[-200:]}"
    r = subprocess.run([a2kit(), "tree", "-d", p], capture_output=True, text=True, timeout=120)
    if r.returncode != 0:
        return f"tree failed: {r.stderr.strip()[-200:]}"
    try:
        tr = json.loads(r.stdout)
        files = tr.get('files', {})
        # CP/M lists user areas lazily; any listed file is a failure
        def count(n):
            return sum(1 + (count(v['files']) if isinstance(v, dict) and 'files' in v else 0) for v in n.values()) if isinstance(n, dict) else 0
        if count(files) != 0:
            return f"fresh volume is not empty: {list(files)[:5]}"
    except Exception as e:
        return f"tree output is not JSON: {e}"
    name = "FIRST.TXT" if o in ('cpm2', 'cpm3', 'fat') else "FIRST"
    r = subprocess.run([a2kit(), "put", "-d", p, "-f", name, "-t", "txt"], input="HELLO\n", capture_output=True, text=True, timeout=120)
    if r.returncode != 0:
        return f"a first file is not accepted: {r.stderr.strip()[-200:]}"
    r = subprocess.run([a2kit(), "get", "-d", p, "-f", name, "-t", "txt"], capture_output=True, text=True, timeout=120)
    if r.returncode != 0 or 'HELLO' not in r.stdout:
        return f"the first file does not read back: rc={r.returncode}"
    return None

def run(ctx, model_ok=True):
    d = tempfile.mkdtemp(dir=os.path.join(fw.BUILD))
    tuples = list(itertools.product(OS, KINDS, TYPES, WRAPS))
    jobs = [(d, i, t, vol(t[0]), False) for i, t in enumerate(tuples)]
    # volume names / numbers at the edges of their ranges, and the boot flag, on representative accepted tuples
    edge = []
    base = len(jobs)
    for v in ["0", "1", "254", "255", "256", "-1", "abc", ""]:
        edge.append((d, base + len(edge), ("dos33", "5.25in", "do", None), v, False))
    # (also: letters that are not ASCII but whose upper case is - the name is stored byte by byte)
    for v in ["A", "A" * 15, "A" * 16, "1ABC", "A.B", "A B", "", "a2345678901234.", "A\u017f", "\u0131", "D\u0131\u017fK", "A\ufb01", "\u00df", "ABCDEFGHIJKLMN\u017f", "CAF\u00c9"]:
        edge.append((d, base + len(edge), ("prodos", "5.25in", "po", None), v, False))
    for v in ["A", "A" * 7, "A" * 8, "A:B", "", "VOL$", "A\u017f", "\u00df", "CAF\u00c9"]:
        edge.append((d, base + len(edge), ("pascal", "5.25in", "po", None), v, False))
    for v in ["LABEL", "TOOLONGLABEL12", "A" * 11, "lower", "A\u017f", "\u00df"]:
        edge.append((d, base + len(edge), ("fat", "5.25in-ibm-dsdd9", "img", None), v, False))
    for o, k, ty in [("dos33", "5.25in", "do"), ("dos32", "5.25in", "d13"), ("prodos", "5.25in", "po"), ("cpm2", "5.25in", "do"), ("fat", "3.5in-ibm-720", "img"), ("pascal", "5.25in", "do")]:
        edge.append((d, base + len(edge), (o, k, ty, None), vol(o), True))
    edge.append((d, base + len(edge), ("dos33", "5.25in", "do", None), None, False))      # volume missing
    edge.append((d, base + len(edge), ("prodos", "5.25in", "po", None), None, False))
    with ThreadPoolExecutor(16) as ex:
        res = list(ex.map(run_tuple, jobs + edge))
    shutil.rmtree(d, ignore_errors=True)
    main, edges = res[:len(jobs)], res[len(jobs):]
    # model decision for the same tuples
    model = {}
    if model_ok:
        lines = [f"mkdecide t{i} {o} {k} {ty} {w or '-'}" for i, (o, k, ty, w) in enumerate(tuples)]
        mout = fw.run_lines(fw.MODEL_BIN, lines)
        model = {i: mout.get(f"t{i}") for i in range(len(tuples))}
    dis = []
    acc = 0
    for i, (o, k, ty, w, rc, exists, verdict) in enumerate(main):
        ctx.evaluations += 1
        case = f"mkdsk -o {o} -k {k} -t {ty}" + (f" -w {w}" if w else "") + (f" -v {vol(o)!r}" if vol(o) else "")
        if rc == 0 and exists:
            acc += 1
            ctx.nontrivial.add(case)
            if verdict:
                ctx.failures.append({'cls': f'accepted-invalid:{o}', 'case': case, 'detail': verdict})
        elif rc == 0 and not exists:
            ctx.failures.append({'cls': f'no-file:{o}', 'case': case, 'detail': 'exit status 0 but no file was written'})
        elif rc == 101 or rc < 0 or rc == 124:
            ctx.failures.append({'cls': f'panic:{o}:{ty}', 'case': case, 'detail': f'exit status {rc}: not refused by an error return (panic, signal or hang)'})
        elif exists:
            ctx.failures.append({'cls': f'file-after-refusal:{o}', 'case': case, 'detail': f'exit status {rc} but a file was written'})
        if model_ok:
            want = 'accept' if (rc == 0 and exists) else 'refuse'
            if model.get(i) != want:
                dis.append({'case': case, 'impl': want + f' (exit {rc})', 'model': str(model.get(i))})
    for (o, k, ty, w, rc, exists, verdict) in edges:
        ctx.evaluations += 1
        case = f"edge mkdsk -o {o} -k {k} -t {ty}"
        if rc == 101 or rc < 0 or rc == 124:
            ctx.failures.append({'cls': f'panic:{o}:edge', 'case': case, 'detail': f'exit status {rc} on a volume-name / boot-flag edge case'})
        elif rc == 0 and exists and verdict:
            ctx.failures.append({'cls': f'accepted-invalid:{o}', 'case': case, 'detail': verdict})
        elif rc != 0 and exists:
            ctx.failures.append({'cls': f'file-after-refusal:{o}', 'case': case, 'detail': f'exit status {rc} but a file was written'})
    ctx.streams.append({'name': 'mkdsk-decision', 'cases': len(tuples), 'disagreements': len(dis), 'first': dis[:3]})
    if model_ok:
        ctx.oblige(f'correspondence/mkdsk-decision: Sys/Mkdsk.v decide = accept/refuse of the real binary on all {len(tuples)} tuples', not dis, str(dis[:2])[:1200] if dis else '')
    ctx.traces_validated = len(tuples) - len(dis)
    ctx.samples += [f"mkdsk -o prodos -k 5.25in -t woz2 -v NEW.DISK -> accepted, reopened, first file stored", f"{len(edges)} edge cases (volume names, boot flag, missing volume)"]
    ctx.distribution = {'rule': 'the full cross product os x kind x type x wrap is enumerated (exhaustive); non-trivial = accepted tuples, each re-opened, checked empty, free space vs capacity, first put/get',
                        'tuples': len(tuples), 'accepted': acc, 'refused': len(tuples) - acc, 'edge_cases': len(edges)}
    ctx.extra_cov['exhaustive'] = True

def replay(ctx, rp):
    run(ctx)
