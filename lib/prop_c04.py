"""C04 -- file-system property; see fscommon.py and coq/theories/Props/C04.v"""
import fscommon

def run(ctx, model_ok=True):
    fscommon.standard_run(ctx, 'C04', opts='k', lock_heavy=False, model_ok=model_ok)

def replay(ctx, rp):
    fscommon.replay(ctx, 'C04', rp)
