"""C04 -- file-system property; see fscommon.py and coq/theories/Props/C04.v; plus directory slots on CP/M 3 volumes with passwords
(real binary: the library harness has no password operations)"""
import os, tempfile, shutil
import framework as fw
import fscommon

NEEDS_BINS = True


def password_slot_scenario(ctx):
    """nothing leaks: after any number of store / protect / delete cycles an empty CP/M 3 volume still takes a file that needs several
    directory entries"""
    from cliutil import run as cli
    d = tempfile.mkdtemp(dir=fw.BUILD)
    try:
        for ty, kind, cycles in [('imd', '5.25in-kayii', 70), ('do', '5.25in', 55)]:
            p = os.path.join(d, f'slots.{ty}')
            if cli(['mkdsk', '-o', 'cpm3', '-t', ty, '-k', kind, '-v', 'LAB', '-d', p])[0] != 0:
                continue
            done = 0
            for i in range(cycles):
                if cli(['put', '-d', p, '-f', f'F{i}.T', '-t', 'txt'], stdin=b'T\n')[0] != 0:
                    break
                cli(['protect', '-d', p, '-f', f'F{i}.T', '-p', 'PW', '--read'])
                if cli(['delete', '-d', p, '-f', f'F{i}.T'])[0] != 0:
                    break
                done += 1
            rc, _, err = cli(['put', '-d', p, '-f', 'BIG.T', '-t', 'txt'], stdin=b'A' * 40000)
            ctx.evaluations += 1
            if done < cycles or rc != 0:
                ctx.failures.append({'cls': 'cpm3:directory-slots-leak', 'case': f'a2kit put / protect / delete, {cycles} times on cpm3 {kind}, then put of 40000 bytes',
                                     'detail': f'{done} cycles completed; the final put on the empty volume exits {rc}: {err.decode("utf-8", "replace")[-160:]}'})
            else:
                ctx.nontrivial.add(f'cpm3 {kind} slots after {cycles} cycles')
    finally:
        shutil.rmtree(d, ignore_errors=True)


def run(ctx, model_ok=True):
    fscommon.standard_run(ctx, 'C04', opts='k', lock_heavy=False, model_ok=model_ok)
    password_slot_scenario(ctx)

def replay(ctx, rp):
    f = rp.get('failure')
    if f and f.get('cls', '').startswith('cpm3:'):
        password_slot_scenario(ctx)
    else:
        fscommon.replay(ctx, 'C04', rp)
