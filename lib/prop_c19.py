"""C19 -- protection is honoured until it is removed: file-system level (see fscommon.py and coq/theories/Props/C19.v) and the
write-protect flag of a 2MG container (real binary)."""
import os, tempfile, shutil, json
import framework as fw
import fscommon

NEEDS_BINS = True


def password_scenarios(ctx):
    """CP/M 3 passwords: removing the password of a name that is too long must not remove that of the file whose name it is cut down to"""
    from cliutil import run as cli, sha
    d = tempfile.mkdtemp(dir=fw.BUILD)
    try:
        for ty, kind in [('do', '5.25in'), ('imd', '5.25in-kayii')]:
            p = os.path.join(d, f'pw.{ty}')
            if cli(['mkdsk', '-o', 'cpm3', '-t', ty, '-k', kind, '-v', 'LAB', '-d', p])[0] != 0:
                continue
            cli(['put', '-d', p, '-f', 'LONGNAME.EXT', '-t', 'txt'], stdin=b'TEXT\n')
            if cli(['protect', '-d', p, '-f', 'LONGNAME.EXT', '-p', 'PW', '--read'])[0] != 0:
                continue
            before = sha(p)
            for nm in ['LONGNAMEXYZ.EXTRA', 'LONGNAME.EXTRA', 'LONGNAMEX.EXT']:
                rc, out, err = cli(['unprotect', '-d', p, '-f', nm])
                ctx.evaluations += 1
                if sha(p) != before:
                    ctx.failures.append({'cls': 'cpm3:password-removed-through-other-name', 'case': f'a2kit unprotect -f {nm} (the volume holds LONGNAME.EXT, protected)',
                                         'detail': f'exit status {rc} and the image changed: the protection of LONGNAME.EXT is gone'})
                    break
                ctx.nontrivial.add(f'cpm3 {ty} unprotect {nm}')
            rc, _, _ = cli(['unprotect', '-d', p, '-f', 'LONGNAME.EXT'])
            ctx.evaluations += 1
            if rc != 0 or sha(p) == before:
                ctx.failures.append({'cls': 'cpm3:unprotect-refused', 'case': 'a2kit unprotect -f LONGNAME.EXT', 'detail': f'exit status {rc}, image changed: {sha(p) != before}'})
    finally:
        shutil.rmtree(d, ignore_errors=True)


def dot2mg_scenarios(ctx):
    """a 2MG container flagged write-protected: delete, rename, lock, retype, put of a file, of a sector, a block and a raw track
    must all be refused and leave the file untouched, reading still works, and clearing the flag makes them possible again"""
    import cliutil
    from cliutil import run as cli, sha
    d = tempfile.mkdtemp(dir=fw.BUILD)
    try:
        for osn, wrap, extra in [('dos33', 'nib', ['-v', '254']), ('dos33', 'do', ['-v', '254']), ('prodos', 'po', ['-v', 'VOL'])]:
            p = os.path.join(d, f'{osn}-{wrap}.2mg')
            if cli(['mkdsk', '-o', osn, '-t', '2mg', '-w', wrap, '-k', '5.25in', '-d', p] + extra)[0] != 0:
                continue
            cli(['put', '-d', p, '-f', 'HELLO', '-t', 'txt'], stdin=b'HELLO\n')
            cli(['put', '-d', p, '-f', 'OTHER', '-t', 'txt'], stdin=b'OTHER\n')
            rc, meta, _ = cli(['get', '-d', p, '-t', 'meta'])
            try:
                flags = json.loads(meta.decode())['2mg']['header']['flags']
            except Exception:
                ctx.failures.append({'cls': '2mg:setup', 'case': p, 'detail': 'metadata of the fresh image not readable'})
                continue
            locked = flags[:6] + '%02x' % (int(flags[6:8], 16) | 0x80)
            if cli(['put', '-d', p, '-t', 'meta'], stdin=json.dumps({'2mg': {'header': {'flags': locked}}}).encode())[0] != 0:
                ctx.failures.append({'cls': '2mg:setup', 'case': p, 'detail': 'could not set the write-protect flag'})
                continue
            trk = cli(['get', '-d', p, '-f', '17,0', '-t', 'raw_track'])[1] if wrap == 'nib' else b''
            sec = cli(['get', '-d', p, '-f', '17,0,0', '-t', 'sec'])[1]
            blk = cli(['get', '-d', p, '-f', '2', '-t', 'block'])[1]
            cmds = [('delete', ['delete', '-d', p, '-f', 'HELLO'], None), ('rename', ['rename', '-d', p, '-f', 'HELLO', '-n', 'HOWDY'], None),
                    ('lock', ['lock', '-d', p, '-f', 'HELLO'], None), ('retype', ['retype', '-d', p, '-f', 'HELLO', '-t', 'bin', '-a', '768'], None),
                    ('put file', ['put', '-d', p, '-f', 'THIRD', '-t', 'txt'], b'THIRD\n'),
                    ('put sector', ['put', '-d', p, '-f', '17,0,0', '-t', 'sec'], bytes(x ^ 0xff for x in sec) if sec else None),
                    ('put block', ['put', '-d', p, '-f', '2', '-t', 'block'], bytes(x ^ 0xff for x in blk) if blk else None),
                    ('put raw track', ['put', '-d', p, '-f', '17,0', '-t', 'raw_track'], bytes(x ^ 0x55 for x in trk) if trk else None)]
            for name, argv, stdin in cmds:
                if stdin is None and name.startswith('put '):
                    continue
                before = sha(p)
                rc, out, err = cli(argv, stdin=stdin)
                after = sha(p)
                ctx.evaluations += 1
                label = f'2mg-{wrap}:{osn} {name} while write-protected'
                if after != before:
                    ctx.failures.append({'cls': f'2mg:protected-changed:{name.replace(" ", "-")}', 'case': 'a2kit ' + ' '.join(argv).replace(p, '<img>'),
                                         'detail': f'{label}: exit status {rc} and the image file changed'})
                else:
                    ctx.nontrivial.add(label)
            rc, out, _ = cli(['get', '-d', p, '-f', 'HELLO', '-t', 'txt'])
            ctx.evaluations += 1
            if rc != 0 or out != b'HELLO\n':
                ctx.failures.append({'cls': '2mg:read-affected', 'case': f'get HELLO from protected {osn}/{wrap}', 'detail': f'rc={rc} out={out[:40]!r}'})
            # protection removed: the operations are possible again
            cli(['put', '-d', p, '-t', 'meta'], stdin=json.dumps({'2mg': {'header': {'flags': flags}}}).encode())
            rc1 = cli(['rename', '-d', p, '-f', 'HELLO', '-n', 'HOWDY'])[0]
            rc2 = cli(['delete', '-d', p, '-f', 'OTHER'])[0]
            ctx.evaluations += 1
            if rc1 != 0 or rc2 != 0:
                ctx.failures.append({'cls': '2mg:unprotect', 'case': f'rename/delete after clearing the flag on {osn}/{wrap}', 'detail': f'rename rc={rc1} delete rc={rc2}'})
            else:
                ctx.nontrivial.add(f'2mg-{wrap}:{osn} unprotected again')
    finally:
        shutil.rmtree(d, ignore_errors=True)


def run(ctx, model_ok=True):
    fscommon.standard_run(ctx, 'C19', opts='r', lock_heavy=True, model_ok=model_ok)
    dot2mg_scenarios(ctx)
    password_scenarios(ctx)

def replay(ctx, rp):
    f = rp.get('failure')
    if f and f.get('cls', '').startswith('2mg:'):
        dot2mg_scenarios(ctx)
    else:
        fscommon.replay(ctx, 'C19', rp)
