"""C19 -- file-system property; see fscommon.py and coq/theories/Props/C19.v"""
import fscommon

def run(ctx, model_ok=True):
    fscommon.standard_run(ctx, 'C19', opts='r', lock_heavy=True, model_ok=model_ok)

def replay(ctx, rp):
    fscommon.replay(ctx, 'C19', rp)
