#!/usr/bin/env python3
"""Regenerates MANIFEST.json from the table below (kept next to the code so it stays current)."""
import json, os
V = os.path.dirname(os.path.dirname(os.path.abspath(__file__)))
NOTE = ("Trusted base: Coq 8.16.1 kernel (vm_compute, no native_compute), no axioms (Print Assumptions closed for every Props theorem), "
        "translator/gen.py, extraction with ExtrOcamlBasic only + ocaml/driver.ml, the Rust harness; hand-written models are tied to the code "
        "by the correspondence streams (differential testing), generated Gen/*.v by the translator.")
CLAIMS = {
 'C08': dict(
   text="Machine-checked theorems (Props/C08.v): 4&4, 5&3 and 6&2 sector codecs round-trip for EVERY 256-byte content incl. checksum, over the nibble tables "
        "regenerated from disk525.rs on every run (table injectivity/MSB/reserved-byte facts re-proved each run). Tie: whole-track buffers of NIB/WOZ1/WOZ2 after "
        "arbitrary writes must equal the model's rendering bit for bit; impl-side oracle runs read-after-write / non-interference / invalid-address sequences in every "
        "address space of every container. Flat-store and 3.5in theorems are being added; the formatted-track search (find_sector) is tied by correspondence only.",
   technique="Coq proof (codec round trips, generated tables) + translator tie + extracted-model differential correspondence + implementation-side oracle search",
   design_ref="DESIGN.md section 5 C08"),
}
CLAIMS['C07'] = dict(
   text="Machine-checked theorems (Props/C07.v) over tables regenerated from bios/skew.rs, img/disk35.rs, img/imd.rs, img/td0.rs on every run: the DOS 3.3 "
        "logical/physical tables are mutually inverse permutations; every DOS, ProDOS and Apple-CP/M block occupies the same physical sectors (order and offsets) in DO "
        "and NIB/WOZ images; the ProDOS block map tiles the 560 sectors; the 3.5in zone maps are injective and in range; IMD and TD0 carry identical skew tables, each a "
        "permutation. Tie: for every container the records a block write actually touches (found by scanning all physical sectors) must equal the model's cells; "
        "impl-side oracle applies the same write history to every container of a kind and compares every block and every physical sector pairwise. FS-level histories are added with the FS models.",
   technique="Coq proof over generated skew/zone tables (finite sweeps lifted by lemma) + cell-probe correspondence + cross-container oracle",
   design_ref="DESIGN.md section 5 C07")
PLANNED = {f'C{i:02d}': 'check not built yet in this round (planned; see DESIGN.md section 10)' for i in range(1, 21)}

def main():
    checks = []
    for pid, c in sorted(CLAIMS.items()):
        checks.append({
            'property_id': pid,
            'quick_cmd': f'./check {pid} --tier quick',
            'thorough_cmd': f'./check {pid} --tier thorough',
            'evidence_file': f'/verif/evidence/{pid}.json',
            'replay_cmd_template': f'./check {pid} --replay {{path}}',
            'engine': 'coq-proof',
            'level_claimed': {'category': 'proof', 'text': c['text'], 'design_ref': c['design_ref']},
            'level_note': NOTE,
            'technique': c['technique'],
        })
    m = {
        'version': 1,
        'setup_cmd': './setup.sh',
        'hooks': {'guard': 'a2kit_verif', 'enable': 'RUSTFLAGS="--cfg a2kit_verif" (harness/ and the CLI binaries are built with it by setup.sh and by every check)',
                  'baseline_off_cmd': 'cd /repo && cargo nextest run --workspace --no-fail-fast --tool-config-file pb:/w/lib/nextest.toml --profile pb --test-threads 8 --offline || cargo test --workspace --no-fail-fast --offline',
                  'source_commits': json.load(open(os.path.join(V, 'lib', 'hook_commits.json'))) if os.path.exists(os.path.join(V, 'lib', 'hook_commits.json')) else [],
                  'add_only': True},
        'engines': [{'name': 'coq-proof', 'path': '/verif/check', 'serves_properties': sorted(CLAIMS),
                     'kind_free_text': 'Coq 8.16 development (coq/theories) + Python translator (Gen/*.v from Rust sources) + OCaml-extracted model vs Rust harness correspondence + implementation-side oracles'}],
        'checks': checks,
        'notes': 'See DESIGN.md. Known findings / fixed defects: known-findings.txt.',
        'not_applicable': [{'property_id': p, 'reason': r} for p, r in sorted(PLANNED.items()) if p not in CLAIMS],
    }
    json.dump(m, open(os.path.join(V, 'MANIFEST.json'), 'w'), indent=1)

if __name__ == '__main__':
    main()
